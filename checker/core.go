package main

// core.go — loader (A1), obligation recorder, evidence / report writer,
// known-findings handling. Everything a property check needs around the rules.

import (
	"encoding/json"
	"fmt"
	"go/ast"
	"go/parser"
	"go/token"
	"go/types"
	"os"
	"path/filepath"
	"sort"
	"strings"
	"time"

	"golang.org/x/tools/go/packages"
	"golang.org/x/tools/go/ssa"
	"golang.org/x/tools/go/ssa/ssautil"
)

const modPath = "github.com/bilibili/gengine"

// product packages (tests are not the product)
var productPkgs = []string{
	modPath + "/builder",
	modPath + "/context",
	modPath + "/engine",
	modPath + "/internal/base",
	modPath + "/internal/core",
	modPath + "/internal/iantlr/alr",
	modPath + "/internal/iparser",
	modPath + "/internal/iter",
	modPath + "/internal/tool",
}

// Obligation is one (rule, construct) pair that was examined.
type Obligation struct {
	Rule   string `json:"rule"`
	Key    string `json:"key"`
	OK     bool   `json:"ok"`
	Known  string `json:"known,omitempty"` // text of the known finding that matched
	Pos    string `json:"pos,omitempty"`
	Detail string `json:"detail,omitempty"`
}

type knownFinding struct {
	Prop, Rule, Key, Text string
	used                  bool
}

// Ctx is the state of one property check.
type Ctx struct {
	only func(key string) bool // when set, Check records only the obligations it accepts
	// joinBeforeReturnOnly: the fork/join rule looks for a return reachable without the join, nothing else
	joinBeforeReturnOnly bool
	// errFam: per root list of messages of a function, the lists whose content is handed on into it
	errFam map[*ssa.Alloc]map[*ssa.Alloc]bool
	// kindGuardsOnly: the operator table rule checks that operand kinds are established, not what is computed
	kindGuardsOnly bool

	Prop     string
	Tier     string
	Repo     string
	VerifDir string

	Fset    *token.FileSet
	Pkgs    map[string]*packages.Package
	Prog    *ssa.Program
	SSA     map[string]*ssa.Package
	AllFns  []*ssa.Function // every function with a body in the product, incl. anonymous ones
	nFiles  int
	started time.Time

	obs       []Obligation
	mins      map[string]int
	known     []*knownFinding
	notes     []string
	fnIndexes map[*ssa.Function]*FnIndex
	extra     map[string]interface{}
}

func repoDir() string {
	if d := os.Getenv("GVERIF_REPO"); d != "" {
		return d
	}
	return "/repo"
}

func verifDir() string {
	if d := os.Getenv("GVERIF_DIR"); d != "" {
		return d
	}
	exe, err := os.Executable()
	if err == nil {
		// bin/gverif -> /verif
		d := filepath.Dir(filepath.Dir(exe))
		if _, e := os.Stat(filepath.Join(d, "properties.jsonl")); e == nil {
			return d
		}
	}
	return "/verif"
}

type loaded struct {
	Fset   *token.FileSet
	Pkgs   map[string]*packages.Package
	Prog   *ssa.Program
	SSA    map[string]*ssa.Package
	AllFns []*ssa.Function
	nFiles int
	// helper inlining (inline.go)
	Tops        []*ssa.Function
	inlineNotes []string
	inlineErrs  []string
	dropped     map[*ssa.Function]bool
}

// loadRepo type-checks the product packages of the repository's current
// working tree and builds SSA for them.
func loadRepo(dir string) (*loaded, error) {
	env := []string{}
	for _, e := range os.Environ() {
		if strings.HasPrefix(e, "GOFLAGS=") || strings.HasPrefix(e, "GOWORK=") ||
			strings.HasPrefix(e, "GOPROXY=") || strings.HasPrefix(e, "GOSUMDB=") ||
			strings.HasPrefix(e, "GOTOOLCHAIN=") {
			continue
		}
		env = append(env, e)
	}
	env = append(env, "GOFLAGS=-mod=mod", "GOWORK=off", "GOPROXY=off", "GOSUMDB=off", "GOTOOLCHAIN=local")
	cfg := &packages.Config{
		Mode: packages.NeedName | packages.NeedFiles | packages.NeedCompiledGoFiles |
			packages.NeedImports | packages.NeedDeps | packages.NeedTypes | packages.NeedSyntax |
			packages.NeedTypesInfo | packages.NeedTypesSizes | packages.NeedModule,
		Dir:        dir,
		Env:        env,
		BuildFlags: []string{"-tags=verif"},
		Tests:      false,
	}
	load := func() ([]*packages.Package, error) {
		pkgs, err := packages.Load(cfg, "./builder/...", "./context/...", "./engine/...", "./internal/...")
		if err != nil {
			return nil, fmt.Errorf("load: %v", err)
		}
		if len(pkgs) == 0 {
			return nil, fmt.Errorf("load: zero packages")
		}
		var errs []string
		packages.Visit(pkgs, nil, func(p *packages.Package) {
			for _, e := range p.Errors {
				errs = append(errs, fmt.Sprintf("%s: %s", p.PkgPath, e.Msg))
			}
		})
		if len(errs) > 0 {
			sort.Strings(errs)
			if len(errs) > 8 {
				errs = errs[:8]
			}
			return nil, fmt.Errorf("type errors: %s", strings.Join(errs, "; "))
		}
		return pkgs, nil
	}
	pkgs, err := load()
	if err != nil {
		return nil, err
	}
	l := &loaded{Pkgs: map[string]*packages.Package{}, SSA: map[string]*ssa.Package{}}
	// step 0 of the normalisation (rename.go): renamed unexported helpers, fields and types are read under their reference names
	if os.Getenv("GVERIF_NORENAME") == "" {
		first := map[string]*packages.Package{}
		for _, p := range pkgs {
			first[p.PkgPath] = p
		}
		if ren, notes := computeRenames(first); len(ren) > 0 {
			sites := renameSites(first, ren)
			cfg.ParseFile = func(fset *token.FileSet, filename string, src []byte) (*ast.File, error) {
				f, err := parser.ParseFile(fset, filename, src, parser.AllErrors|parser.ParseComments)
				if m := sites[filename]; f != nil && len(m) > 0 {
					ast.Inspect(f, func(n ast.Node) bool {
						if id, ok := n.(*ast.Ident); ok {
							if to, ok := m[fset.Position(id.Pos()).Offset]; ok {
								id.Name = to
							}
						}
						return true
					})
				}
				return f, err
			}
			if again, err2 := load(); err2 == nil {
				pkgs = again
				for _, n := range notes {
					l.inlineNotes = append(l.inlineNotes, "names: "+n)
				}
			} else {
				l.inlineNotes = append(l.inlineNotes, "names: reading the renamed declarations under their reference names did not type-check ("+err2.Error()+"); the tree is analysed as written")
			}
		}
	}
	for _, p := range pkgs {
		l.Pkgs[p.PkgPath] = p
		l.nFiles += len(p.Syntax)
		l.Fset = p.Fset
	}
	for _, want := range productPkgs {
		if l.Pkgs[want] == nil {
			return nil, fmt.Errorf("package %s not loaded", want)
		}
	}
	prog, spkgs := ssautil.AllPackages(pkgs, ssa.GlobalDebug|ssa.NaiveForm)
	prog.Build()
	l.Prog = prog
	for i, p := range pkgs {
		if spkgs[i] != nil {
			l.SSA[p.PkgPath] = spkgs[i]
		}
	}
	// collect all declared functions with bodies in product packages
	seen := map[*ssa.Function]bool{}
	addTop := func(f *ssa.Function) {
		if f == nil || seen[f] || f.Blocks == nil {
			return
		}
		seen[f] = true
		l.Tops = append(l.Tops, f)
	}
	for _, pp := range productPkgs {
		sp := l.SSA[pp]
		if sp == nil {
			return nil, fmt.Errorf("no SSA for %s", pp)
		}
		for _, m := range sp.Members {
			switch m := m.(type) {
			case *ssa.Function:
				addTop(m)
			case *ssa.Type:
				for _, T := range []types.Type{m.Type(), types.NewPointer(m.Type())} {
					ms := prog.MethodSets.MethodSet(T)
					for i := 0; i < ms.Len(); i++ {
						f := prog.MethodValue(ms.At(i))
						if f != nil && f.Pkg == sp && f.Synthetic == "" {
							addTop(f)
						}
					}
				}
			}
		}
	}
	sort.Slice(l.Tops, func(i, j int) bool { return l.Tops[i].Pos() < l.Tops[j].Pos() })
	// functions that are not in the baseline are inlined into their callers
	var dropped map[*ssa.Function]bool
	if os.Getenv("GVERIF_NOINLINE") == "" {
		var inotes []string
		dropped, inotes, l.inlineErrs = inlineHelpers(l.Tops)
		l.inlineNotes = append(l.inlineNotes, inotes...)
	}
	l.dropped = dropped
	var addFn func(f *ssa.Function)
	addFn = func(f *ssa.Function) {
		l.AllFns = append(l.AllFns, f)
		for _, a := range f.AnonFuncs {
			addFn(a)
		}
	}
	for _, f := range l.Tops {
		if !dropped[f] {
			addFn(f)
		}
	}
	sort.SliceStable(l.AllFns, func(i, j int) bool { return l.AllFns[i].Pos() < l.AllFns[j].Pos() })
	return l, nil
}

func newCtx(prop, tier string, l *loaded) *Ctx {
	c := &Ctx{Prop: prop, Tier: tier, Repo: repoDir(), VerifDir: verifDir(),
		Fset: l.Fset, Pkgs: l.Pkgs, Prog: l.Prog, SSA: l.SSA, AllFns: l.AllFns, nFiles: l.nFiles,
		started: time.Now(), mins: map[string]int{}, fnIndexes: map[*ssa.Function]*FnIndex{},
		extra: map[string]interface{}{}}
	c.loadKnown()
	c.notes = append(c.notes, l.inlineNotes...)
	for i, e := range l.inlineErrs {
		c.obs = append(c.obs, Obligation{Rule: "A0-helper-inlining", Key: fmt.Sprintf("inliner-error-%d", i), OK: false, Detail: e})
	}
	return c
}

// ---- recording ----------------------------------------------------------

func (c *Ctx) pos(p token.Pos) string {
	if !p.IsValid() {
		return ""
	}
	pp := c.Fset.Position(p)
	rel, err := filepath.Rel(c.Repo, pp.Filename)
	if err != nil || strings.HasPrefix(rel, "..") {
		rel = pp.Filename
	}
	return fmt.Sprintf("%s:%d", rel, pp.Line)
}

// Check records one obligation.
func (c *Ctx) Check(rule, key string, ok bool, p token.Pos, detail string, args ...interface{}) bool {
	if len(args) > 0 {
		detail = fmt.Sprintf(detail, args...)
	}
	if c.only != nil && !c.only(key) {
		// the rule is run for a subset of its obligations (those that bear on the current property)
		return ok
	}
	o := Obligation{Rule: rule, Key: key, OK: ok, Pos: c.pos(p), Detail: detail}
	if !ok {
		for _, k := range c.known {
			if k.Prop == c.Prop && k.Rule == rule && k.Key == key {
				o.Known = k.Text
				k.used = true
			}
		}
	}
	c.obs = append(c.obs, o)
	return ok
}

// Lost records an anchor that could not be found: the property cannot be shown.
func (c *Ctx) Lost(rule, what string) {
	c.obs = append(c.obs, Obligation{Rule: rule, Key: "anchor-lost:" + what, OK: false,
		Detail: "anchor lost: " + what + " not found; the rule cannot be evaluated, so the property is not shown"})
}

// Min demands at least n obligations of a rule (no vacuous pass).
func (c *Ctx) Min(rule string, n int) { c.mins[rule] = n }

func (c *Ctx) Note(f string, a ...interface{}) { c.notes = append(c.notes, fmt.Sprintf(f, a...)) }

func (c *Ctx) count(rule string) int {
	n := 0
	for _, o := range c.obs {
		if o.Rule == rule {
			n++
		}
	}
	return n
}

// ---- known findings ----------------------------------------------------

func (c *Ctx) loadKnown() {
	b, err := os.ReadFile(filepath.Join(c.VerifDir, "known_findings.txt"))
	if err != nil {
		return
	}
	for _, ln := range strings.Split(string(b), "\n") {
		ln = strings.TrimSpace(ln)
		if !strings.HasPrefix(ln, "known:") {
			continue
		}
		f := strings.Fields(strings.TrimPrefix(ln, "known:"))
		k := &knownFinding{}
		rest := []string{}
		for _, w := range f {
			switch {
			case strings.HasPrefix(w, "property=") && k.Prop == "":
				k.Prop = strings.TrimPrefix(w, "property=")
			case strings.HasPrefix(w, "rule=") && k.Rule == "":
				k.Rule = strings.TrimPrefix(w, "rule=")
			case strings.HasPrefix(w, "key=") && k.Key == "":
				k.Key = strings.TrimPrefix(w, "key=")
			default:
				rest = append(rest, w)
			}
		}
		k.Text = strings.Join(rest, " ")
		if k.Prop != "" && k.Rule != "" && k.Key != "" {
			c.known = append(c.known, k)
		}
	}
}

// ---- finishing -----------------------------------------------------------

type evidence struct {
	PropertyID  string                 `json:"property_id"`
	Tier        string                 `json:"tier"`
	Seed        int                    `json:"seed"`
	Level       string                 `json:"level"`
	Coverage    map[string]interface{} `json:"coverage"`
	Assumptions []string               `json:"assumptions"`
	WallS       float64                `json:"wall_s"`
	Violations  int                    `json:"violations"`
}

type propMeta struct {
	Explanation string
	Assumptions []string
	Trusted     []string
}

func sanitize(s string) string {
	var b strings.Builder
	for _, r := range s {
		if (r >= 'a' && r <= 'z') || (r >= 'A' && r <= 'Z') || (r >= '0' && r <= '9') || r == '-' || r == '_' || r == '.' {
			b.WriteRune(r)
		} else {
			b.WriteByte('_')
		}
	}
	out := b.String()
	if len(out) > 120 {
		out = out[:120]
	}
	return out
}

// Finish applies the minimum counts, prints the summary, writes evidence and
// reports, and returns the exit code.
func (c *Ctx) Finish(meta propMeta) int {
	// de-duplicate identical (rule,key) pairs, keeping a failing one if any
	type rk struct{ r, k string }
	idx := map[rk]int{}
	var obs []Obligation
	for _, o := range c.obs {
		k := rk{o.Rule, o.Key}
		if i, ok := idx[k]; ok {
			if obs[i].OK && !o.OK {
				obs[i] = o
			}
			continue
		}
		idx[k] = len(obs)
		obs = append(obs, o)
	}
	{
		cnt := map[string]int{}
		for _, o := range obs {
			cnt[o.Rule]++
		}
		rules := []string{}
		for r := range c.mins {
			rules = append(rules, r)
		}
		sort.Strings(rules)
		for _, r := range rules {
			if n := cnt[r]; n < c.mins[r] {
				obs = append(obs, Obligation{Rule: r, Key: "anchor-lost:min-instances", OK: false,
					Detail: fmt.Sprintf("anchor lost: rule %s matched %d instance(s), fewer than the %d confirmed by hand; the rule would pass vacuously", r, n, c.mins[r])})
			}
		}
	}
	sort.SliceStable(obs, func(i, j int) bool {
		if obs[i].Rule != obs[j].Rule {
			return obs[i].Rule < obs[j].Rule
		}
		return obs[i].Key < obs[j].Key
	})

	perRule := map[string]int{}
	discharged, knownN := 0, 0
	var viol []Obligation
	for _, o := range obs {
		perRule[o.Rule]++
		switch {
		case o.OK:
			discharged++
		case o.Known != "":
			knownN++
		default:
			viol = append(viol, o)
		}
	}

	fmt.Printf("gverif %s tier=%s repo=%s packages=%d files=%d functions=%d\n", c.Prop, c.Tier, c.Repo, len(productPkgs), c.nFiles, len(c.AllFns))
	rnames := []string{}
	for r := range perRule {
		rnames = append(rnames, r)
	}
	sort.Strings(rnames)
	for _, r := range rnames {
		fmt.Printf("  rule %-28s instances=%d\n", r, perRule[r])
	}
	for _, n := range c.notes {
		fmt.Printf("  note: %s\n", n)
	}
	fmt.Printf("  obligations=%d discharged=%d known-findings=%d violations=%d\n", len(obs), discharged, knownN, len(viol))

	printedKnown := map[string]bool{}
	for _, o := range obs {
		if !o.OK && o.Known != "" {
			line := fmt.Sprintf("KNOWN-FINDING: property=%s %s [rule=%s key=%s %s]", c.Prop, o.Known, o.Rule, o.Key, o.Pos)
			if !printedKnown[line] {
				fmt.Println(line)
				printedKnown[line] = true
			}
		}
	}

	// reports
	repDir := filepath.Join(c.VerifDir, "reports", c.Prop)
	os.RemoveAll(repDir)
	if len(viol) > 0 {
		os.MkdirAll(repDir, 0o755)
	}
	for _, o := range viol {
		path := filepath.Join(repDir, sanitize(o.Rule+"-"+o.Key)+".json")
		rep := map[string]interface{}{"property": c.Prop, "rule": o.Rule, "key": o.Key, "pos": o.Pos, "detail": o.Detail, "tier": c.Tier}
		b, _ := json.MarshalIndent(rep, "", " ")
		os.WriteFile(path, b, 0o644)
		fmt.Printf("  FAIL %s %s %s: %s\n", o.Rule, o.Key, o.Pos, o.Detail)
		fmt.Printf("VIOLATION property=%s replay=%s\n", c.Prop, path)
	}

	// evidence
	samples := []interface{}{}
	seenRule := map[string]int{}
	for _, o := range obs {
		if seenRule[o.Rule] < 2 && len(samples) < 40 {
			seenRule[o.Rule]++
			verdict := "discharged"
			if !o.OK {
				verdict = "violated"
				if o.Known != "" {
					verdict = "known-finding"
				}
			}
			samples = append(samples, map[string]string{"rule": o.Rule, "construct": o.Key, "pos": o.Pos, "verdict": verdict, "detail": o.Detail})
		}
	}
	cov := map[string]interface{}{
		"evaluations":         len(obs),
		"distinct_nontrivial": len(obs),
		"rule":                "one obligation per (rule, construct) pair found in /repo's type-checked source; duplicates are merged, so every counted pair is distinct; non-trivial = the rule had to inspect a concrete construct (function, call site, branch, field access)",
		"samples":             samples,
		"obligations":         len(obs),
		"discharged":          discharged,
		"known_findings":      knownN,
		"instances_per_rule":  perRule,
		"packages":            len(productPkgs),
		"files":               c.nFiles,
		"functions":           len(c.AllFns),
		"checker_cmd":         fmt.Sprintf("bin/gverif check %s --tier %s", c.Prop, c.Tier),
		"trusted_base":        meta.Trusted,
		"explanation":         meta.Explanation,
		"exhaustive":          true,
	}
	for k, v := range c.extra {
		cov[k] = v
	}
	if st := os.Getenv("GVERIF_SELFTEST"); st != "" {
		var v interface{}
		if json.Unmarshal([]byte(st), &v) == nil {
			cov["selftest"] = v
		}
	}
	if st := os.Getenv("GVERIF_REFACTEST"); st != "" {
		var v interface{}
		if json.Unmarshal([]byte(st), &v) == nil {
			cov["refactorings"] = v
		}
	}
	// "extra" keys that do not belong into the coverage object
	delete(cov, "mutexNames")
	delete(cov, "astTypes")
	seed := 0
	fmt.Sscanf(os.Getenv("VERIF_SEED"), "%d", &seed)
	ev := evidence{PropertyID: c.Prop, Tier: c.Tier, Seed: seed, Level: "other", Coverage: cov,
		Assumptions: meta.Assumptions, WallS: time.Since(c.started).Seconds(), Violations: len(viol)}
	os.MkdirAll(filepath.Join(c.VerifDir, "evidence"), 0o755)
	b, _ := json.MarshalIndent(ev, "", " ")
	if err := os.WriteFile(filepath.Join(c.VerifDir, "evidence", c.Prop+".json"), b, 0o644); err != nil {
		fmt.Printf("cannot write evidence: %v\n", err)
		return 2
	}
	if len(viol) > 0 {
		return 1
	}
	return 0
}

// ---- lookups -------------------------------------------------------------

// Fn finds a function or method; recv is "" for package functions, else the
// named type (methods on T and *T both found).
func (c *Ctx) Fn(pkg, recv, name string) *ssa.Function {
	sp := c.SSA[modPath+"/"+pkg]
	if sp == nil {
		return nil
	}
	if recv == "" {
		return sp.Func(name)
	}
	t := sp.Type(recv)
	if t == nil {
		return nil
	}
	for _, T := range []types.Type{types.NewPointer(t.Type()), t.Type()} {
		sel := c.Prog.MethodSets.MethodSet(T).Lookup(sp.Pkg, name)
		if sel != nil {
			if f := c.Prog.MethodValue(sel); f != nil && f.Blocks != nil {
				return f
			}
		}
	}
	return nil
}

// MustFn is Fn that records a lost anchor.
func (c *Ctx) MustFn(rule, pkg, recv, name string) *ssa.Function {
	f := c.Fn(pkg, recv, name)
	if f == nil {
		w := pkg + "." + name
		if recv != "" {
			w = pkg + ".(" + recv + ")." + name
		}
		c.Lost(rule, w)
	}
	return f
}

// Methods returns all methods with bodies of a named type, sorted by position.
func (c *Ctx) Methods(pkg, recv string) []*ssa.Function {
	var out []*ssa.Function
	for _, f := range c.AllFns {
		if f.Parent() != nil || f.Signature.Recv() == nil || f.Pkg == nil || f.Pkg.Pkg.Path() != modPath+"/"+pkg {
			continue
		}
		if recvName(f) == recv {
			out = append(out, f)
		}
	}
	return out
}

func recvName(f *ssa.Function) string {
	if f.Signature.Recv() == nil {
		return ""
	}
	t := f.Signature.Recv().Type()
	if p, ok := types.Unalias(t).(*types.Pointer); ok {
		t = p.Elem()
	}
	if n, ok := types.Unalias(t).(*types.Named); ok {
		return n.Obj().Name()
	}
	return ""
}

func fnName(f *ssa.Function) string {
	if f == nil {
		return "<nil>"
	}
	if f.Parent() != nil {
		return fnName(f.Parent()) + "$" + strings.TrimPrefix(f.Name(), f.Parent().Name()+"$")
	}
	if r := recvName(f); r != "" {
		return r + "." + f.Name()
	}
	return f.Name()
}

// orPos: p unless it is not a position.
func orPos(p, q token.Pos) token.Pos {
	if p.IsValid() {
		return p
	}
	return q
}
