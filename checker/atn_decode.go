package main

func (c *Ctx) ruleATNDecode(rule string) {
	c.Note("ATN cross-check not built into this binary")
}
