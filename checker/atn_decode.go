package main

// atn_decode.go — thorough tier of C01-G1: decode the parser's serialized ATN,
// a constant table in the generated source, with the antlr runtime's
// deserializer, and compare its precedence facts with the rule methods.
// The parser itself is not run.

import (
	"fmt"
	"go/ast"
	"go/token"
	"reflect"
	"sort"
	"strconv"
	"strings"

	"github.com/antlr/antlr4/runtime/Go/antlr"
)

func (c *Ctx) serializedATN() []uint16 {
	p := c.Pkgs[pParser]
	var out []uint16
	for _, file := range p.Syntax {
		if !strings.HasSuffix(c.Fset.Position(file.Pos()).Filename, "gengine_parser.go") {
			continue
		}
		ast.Inspect(file, func(n ast.Node) bool {
			vs, ok := n.(*ast.ValueSpec)
			if !ok || len(vs.Names) != 1 || vs.Names[0].Name != "parserATN" || len(vs.Values) != 1 {
				return true
			}
			cl, ok := vs.Values[0].(*ast.CompositeLit)
			if !ok {
				return true
			}
			for _, e := range cl.Elts {
				if bl, ok := e.(*ast.BasicLit); ok && bl.Kind == token.INT {
					v, _ := strconv.ParseUint(bl.Value, 0, 16)
					out = append(out, uint16(v))
				}
			}
			return false
		})
	}
	return out
}

func unexportedInt(v interface{}, field string) (int64, bool) {
	rv := reflect.ValueOf(v)
	for rv.Kind() == reflect.Ptr || rv.Kind() == reflect.Interface {
		rv = rv.Elem()
	}
	if rv.Kind() != reflect.Struct {
		return 0, false
	}
	f := rv.FieldByName(field)
	if !f.IsValid() {
		return 0, false
	}
	return f.Int(), true
}

func (c *Ctx) ruleATNDecode(rule string) {
	data := c.serializedATN()
	if len(data) < 100 {
		c.Lost(rule, "the parserATN constant of the generated parser")
		return
	}
	var atn *antlr.ATN
	func() {
		defer func() {
			if r := recover(); r != nil {
				c.Check(rule, "deserialize", false, 0, "the serialized ATN cannot be decoded: %v", r)
			}
		}()
		atn = antlr.NewATNDeserializer(nil).DeserializeFromUInt16(data)
	}()
	if atn == nil {
		return
	}
	// rule names (index = rule number)
	ruleNames := []string{}
	p := c.Pkgs[pParser]
	for _, file := range p.Syntax {
		ast.Inspect(file, func(n ast.Node) bool {
			vs, ok := n.(*ast.ValueSpec)
			if !ok || len(vs.Names) != 1 || vs.Names[0].Name != "ruleNames" || len(vs.Values) != 1 {
				return true
			}
			if cl, ok := vs.Values[0].(*ast.CompositeLit); ok {
				for _, e := range cl.Elts {
					if bl, ok := e.(*ast.BasicLit); ok {
						s, _ := strconv.Unquote(bl.Value)
						ruleNames = append(ruleNames, s)
					}
				}
			}
			return false
		})
	}
	ruleIdx := map[string]int{}
	for i, n := range ruleNames {
		ruleIdx[n] = i
	}
	// walk the ATN with reflection (its state table is unexported): state -> ruleIndex, transitions
	type facts struct {
		preds   []int64 // precedence of predicate transitions inside the rule
		recArgs []int64 // precedence passed on recursive rule transitions
	}
	byRule := map[int]*facts{}
	deref := func(v reflect.Value) reflect.Value {
		for v.IsValid() && (v.Kind() == reflect.Ptr || v.Kind() == reflect.Interface) {
			if v.IsNil() {
				return reflect.Value{}
			}
			v = v.Elem()
		}
		return v
	}
	// find a (possibly promoted through embedded pointers) field by name
	var field func(v reflect.Value, name string, depth int) reflect.Value
	field = func(v reflect.Value, name string, depth int) reflect.Value {
		v = deref(v)
		if !v.IsValid() || v.Kind() != reflect.Struct || depth > 4 {
			return reflect.Value{}
		}
		if f := v.FieldByName(name); f.IsValid() {
			return f
		}
		for i := 0; i < v.NumField(); i++ {
			if v.Type().Field(i).Anonymous {
				if f := field(v.Field(i), name, depth+1); f.IsValid() {
					return f
				}
			}
		}
		return reflect.Value{}
	}
	states := reflect.ValueOf(atn).Elem().FieldByName("states")
	nStates, nTrans := 0, 0
	nRules := reflect.ValueOf(atn).Elem().FieldByName("ruleToStartState").Len()
	for i := 0; i < states.Len(); i++ {
		st := deref(states.Index(i))
		if !st.IsValid() {
			continue
		}
		nStates++
		ri := int(field(st, "ruleIndex", 0).Int())
		trs := field(st, "transitions", 0)
		if !trs.IsValid() {
			continue
		}
		for j := 0; j < trs.Len(); j++ {
			tr := deref(trs.Index(j))
			if !tr.IsValid() {
				continue
			}
			nTrans++
			switch tr.Type().Name() {
			case "PrecedencePredicateTransition":
				if byRule[ri] == nil {
					byRule[ri] = &facts{}
				}
				byRule[ri].preds = append(byRule[ri].preds, tr.FieldByName("precedence").Int())
			case "RuleTransition":
				if int(tr.FieldByName("ruleIndex").Int()) == ri {
					if byRule[ri] == nil {
						byRule[ri] = &facts{}
					}
					byRule[ri].recArgs = append(byRule[ri].recArgs, tr.FieldByName("precedence").Int())
				}
			}
		}
	}
	c.extra["atn_states"] = nStates
	c.extra["atn_transitions"] = nTrans
	c.Check(rule, "rule-count", len(ruleNames) == 43 && nRules == len(ruleNames), 0, "%d rule names, %d rules in the ATN (%d states, %d transitions decoded)", len(ruleNames), nRules, nStates, nTrans)
	for _, rn := range []string{"mathExpression", "expression"} {
		alts, _, fn := c.leftRecursive(strings.ToUpper(rn[:1]) + rn[1:])
		if fn == nil {
			continue
		}
		f := byRule[ruleIdx[rn]]
		if f == nil {
			c.Check(rule, rn+"#atn-facts", false, 0, "no precedence facts for rule %s in the ATN", rn)
			continue
		}
		var wantP, wantR []int64
		for _, a := range alts {
			wantP = append(wantP, a.k)
			wantR = append(wantR, a.kNext)
		}
		gotP := append([]int64{}, f.preds...)
		var gotR []int64
		for _, k := range f.recArgs {
			if k != 0 {
				gotR = append(gotR, k)
			}
		}
		s := func(x []int64) string {
			sort.Slice(x, func(i, j int) bool { return x[i] < x[j] })
			return fmt.Sprint(x)
		}
		c.Check(rule, rn+"#predicates", s(gotP) == s(wantP), fn.Pos(), "precedence predicates in the ATN %s vs. in the rule method %s", s(gotP), s(wantP))
		c.Check(rule, rn+"#recursion-precedences", s(gotR) == s(wantR), fn.Pos(), "precedences passed to the right operand in the ATN %s vs. in the rule method %s", s(gotR), s(wantR))
	}
	c.Min(rule, 5)
}
