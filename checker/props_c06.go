package main

import "strings"

func init() {
	register("C06", runC06, propMeta{
		Explanation: "Decides, for every interleaving of pool requests, the ownership argument behind request isolation: (P1) getGengine returns only the head of a free list that is known non-empty, read and popped (list = list[1:]) in one critical section of the list's lock while the exclusive getEngineLock is held, and the free lists are touched only by construction, getGengine and putGengineLocked; wrappers are allocated only by NewGenginePool; (P2, template A10 over all 24 pool execute methods) after a successful acquire the deferred function is registered before anything else runs or returns, deletes exactly the keys this request injected (same data map / same names that went into prepare) from the wrapper's own data context, and only then puts the same wrapper back, once; getKeys returns every key, clearInjected and DataContext.Del delete each; (P3) NewGenginePool gives every tag in [0,max) its own NewRuleBuilder(NewDataContext()) and prepare* bind gw.rulebuilder = gp.rbSlice[gw.tag] and inject only into that context; (P4) every engine method starts with a fresh result map (C11-M1) written only by addResult; (P5) each pool method runs the engine call on gw.gengine with gw.rulebuilder of the acquired wrapper, after the release was deferred, with no pool lock held, and returns the error of that call and the result map read from the same engine after the call; every RuleEntity.Execute in the engine receives the Dc of the function's own rule builder. (P6) every goroutine an execute method starts is joined before the method returns, so nothing of a request runs on after the pool has cleared the instance and handed it on. (P7) the store of a rule's local variables is made afresh in RuleEntity.Execute for each execution and nowhere else, so nothing a rule computed from one request's data and kept in a local is there for a later or concurrent request. Not decided: data the host itself shares between its requests through its own pointers. gp.rbSlice, its elements and the Dc of a rule builder are stored by the constructors only (instances keep their builder and context). (P8) the injected table is written by Add, PluginLoader and Del only and, inside the interpreter, those are called by the construction of a data context only. A request method makes one acquiring call and calls no other request method of the pool (one-acquire). (P9) outside the compile step nothing writes into a node of a compiled rule: the rules are one object for all instances. freeGengines, additionGengines and rbSlice are each a slice made for it (lists-own-their-memory). (P10) a conc statement returns only after the join of all its branches: nothing of a request still runs on the instance when its call has returned.",
		Assumptions: []string{"sync.Mutex / RWMutex contracts", "the host does not retain and share the objects it injects"},
		Trusted:     commonTrusted,
	})
}

func runC06(c *Ctx) {
	c.ruleFreeLists("P1-exclusive-hand-out")
	c.Min("P1-exclusive-hand-out", 8)
	c.ruleLifecycle("P2-request-lifecycle", nil)
	c.Min("P2-request-lifecycle", 24*7)
	c.ruleLifecycleHelpers("P2-lifecycle-helpers")
	c.Min("P2-lifecycle-helpers", 7)
	c.ruleConstruction("P3-private-context")
	c.Min("P3-private-context", 4)
	fns := c.engineExecFns()
	c.ruleM1("P4-fresh-result-map", fns)
	c.Min("P4-fresh-result-map", 21)
	c.ruleM5("P4-map-written-only-by-addResult")
	c.ruleOwnDc("P5-own-data-context", fns)
	c.Min("P5-own-data-context", 25)
	// the request is over when its call returns: every goroutine an execute method starts is joined
	// before the method returns (the pool then clears the instance and hands it to the next request; a
	// rule still running would read that request's data and write into its result map). Only the
	// join obligations of the fork/join rule, not its counts and per-goroutine shapes.
	c.only = func(key string) bool { return strings.HasSuffix(key, "/barrier") }
	c.joinBeforeReturnOnly = true
	for _, fn := range fns {
		m := c.engModel(fn)
		if len(m.gos) == 0 {
			continue
		}
		c.ruleA4("P6-nothing-runs-after-return", fn, isRuleExec, m.errList())
	}
	c.only = nil
	c.joinBeforeReturnOnly = false
	c.Min("P6-nothing-runs-after-return", 15)
	// what a rule computed from a request's data and kept in its local variables dies with the execution:
	// the store of locals is made afresh in RuleEntity.Execute for each execution (C15-V1) -- one taken
	// from a process-wide pool of maps and put back uncleared shows request A's locals to request B on
	// whatever instance B runs
	c.ruleOneStore("P7-locals-die-with-the-execution")
	c.Min("P7-locals-die-with-the-execution", 1)
	// the deferred clean-up removes what the request injected, by the keys the request gave: nothing else of
	// a request may get into the injected table of the instance's data context -- it is written by Add,
	// PluginLoader and Del only, never by an assignment of a rule (C15-V4)
	c.ruleInjectedTableWriters("P8-injected-table-written-by-the-host-only")
	// the compiled rules are one object for all instances of the pool: nothing a request computes is kept on
	// a node of a rule, or two overlapping requests running the same rule read each other's values (the
	// node-write part of the immutability rule, C15-V8)
	c.only = func(key string) bool { return strings.Contains(key, "#ast-") }
	c.ruleU2("P9-nothing-kept-on-the-shared-rules")
	c.only = nil
	// "once a call has returned" nothing of the request still runs on the instance: a conc block returns
	// after the join of all its branches (C18-J1), or a branch left behind writes into the data of the next
	// request served by that instance
	c.armConcJoin("P10-request-complete-when-it-returns")
}
