package main

// base_rules.go — rules over the interpreter (internal/base): returned-flag
// discipline (S6/M3), statement evaluators (C02), panic safety (A13) ...

import (
	"fmt"
	"go/types"
	"sort"
	"strings"

	"golang.org/x/tools/go/ssa"
)

func isReflectValue(t types.Type) bool {
	n, ok := t.(*types.Named)
	return ok && n.Obj().Name() == "Value" && n.Obj().Pkg() != nil && n.Obj().Pkg().Path() == "reflect"
}

func isErrorType(t types.Type) bool {
	n, ok := t.(*types.Named)
	return ok && n.Obj().Name() == "error" && n.Obj().Pkg() == nil
}

// flagEvaluators: functions of internal/base returning (X, error, bool).
func (c *Ctx) flagEvaluators() []*ssa.Function {
	var out []*ssa.Function
	for _, f := range c.AllFns {
		if f.Parent() != nil || f.Pkg == nil || f.Pkg.Pkg.Path() != pBase {
			continue
		}
		r := f.Signature.Results()
		if r.Len() == 3 && isErrorType(r.At(1).Type()) && isBoolType(r.At(2).Type()) {
			out = append(out, f)
		}
	}
	sort.Slice(out, func(i, j int) bool { return fnName(out[i]) < fnName(out[j]) })
	return out
}

// ruleM3: the returned-flag is false, a child's flag passed on, or true only in
// return/break/continue statements; a possibly-true flag never travels with a
// possibly non-nil error.
func (c *Ctx) ruleM3(ruleShape, ruleSucc string) {
	evs := c.flagEvaluators()
	isEv := map[*ssa.Function]bool{}
	for _, f := range evs {
		isEv[f] = true
	}
	mayTrue := map[string]bool{"ReturnStatement.Evaluate": true, "BreakStmt.Evaluate": true, "ContinueStmt.Evaluate": true}
	for _, f := range evs {
		x := c.Index(f)
		ri := 0
		eachInstr(f, func(in ssa.Instruction) {
			r, ok := in.(*ssa.Return)
			if !ok || len(r.Results) != 3 {
				return
			}
			ri++
			key := fmt.Sprintf("%s#return%d", fnName(f), ri)
			flags := x.PossibleValues(r.Results[2])
			errs := x.PossibleValues(r.Results[1])
			shapeOK := true
			why := ""
			possiblyTrue := false
			var passCall *ssa.Call
			for _, pv := range flags {
				switch {
				case pv.V == nil:
					// zero value = false
				default:
					if b, ok := constBool(pv.V); ok {
						if b {
							possiblyTrue = true
							// `if returned { return v, nil, true }`: under the true edge of a test of a
							// child's flag the constant is that flag
							under := false
							for _, g := range x.GuardsOf(r.Block()) {
								if !g.Pol {
									continue
								}
								if ex, isEx := x.Origin(g.Cond).(*ssa.Extract); isEx && ex.Index == 2 {
									if call, isCall := ex.Tuple.(*ssa.Call); isCall && isEv[call.Call.StaticCallee()] {
										under, passCall = true, call
									}
								}
							}
							if under {
								continue
							}
							if !mayTrue[fnName(f)] {
								shapeOK, why = false, "constant true flag outside return/break/continue"
							}
						}
						continue
					}
					if ex, ok := pv.V.(*ssa.Extract); ok && ex.Index == 2 {
						if call, ok := ex.Tuple.(*ssa.Call); ok && isEv[call.Call.StaticCallee()] {
							possiblyTrue = true
							if pv.Outside {
								shapeOK, why = false, "flag set by a function literal"
							}
							passCall = call
							continue
						}
					}
					shapeOK, why = false, "flag is "+x.Describe(pv.V)+", neither a constant nor the flag of a child evaluator"
				}
			}
			c.Check(ruleShape, key, shapeOK, r.Pos(), "%s", orStr(why, "flag is false, a child's flag, or true in a return/break/continue statement"))
			// success rule
			succOK := true
			swhy := "flag false, or error nil, or both passed through from the same child call"
			if possiblyTrue && fnName(f) != "BreakStmt.Evaluate" && fnName(f) != "ContinueStmt.Evaluate" {
				for _, ev := range errs {
					if ev.V == nil || isConstNil(ev.V) {
						continue
					}
					if ev.Outside {
						// a deferred recover sets the error; it must also clear the flag
						continue
					}
					if x.knownNil(ev.V, r.Block()) {
						continue
					}
					if ex, ok := ev.V.(*ssa.Extract); ok && ex.Index == 1 && passCall != nil && ex.Tuple == ssa.Value(passCall) {
						continue
					}
					succOK = false
					swhy = "a possibly true returned-flag is returned together with the possibly non-nil error " + x.Describe(ev.V)
				}
				// stores by literals (recover): flag must be const false there
				for _, pv := range flags {
					if pv.Outside {
						if b, ok := constBool(pv.V); !ok || b {
							succOK, swhy = false, "a function literal sets the returned-flag to something other than false"
						}
					}
				}
				outsideErr := false
				for _, ev := range errs {
					if ev.Outside {
						outsideErr = true
					}
				}
				if outsideErr {
					cleared := false
					for _, pv := range flags {
						if pv.Outside {
							if b, ok := constBool(pv.V); ok && !b {
								cleared = true
							}
						}
					}
					if !cleared {
						succOK, swhy = false, "a deferred function sets the error but does not clear the returned-flag"
					}
				}
			}
			c.Check(ruleSucc, key, succOK, r.Pos(), "%s", swhy)
			// the value travels with the flag: where the flag handed on is a child's, and nothing else,
			// the value handed on is that child's value (a `return` deep inside ends the rule *with its value*)
			if cn := ""; passCall != nil {
				cn = fnName(passCall.Call.StaticCallee())
				if cn == "BreakStmt.Evaluate" || cn == "ContinueStmt.Evaluate" {
					passCall = nil // their flag marks a sentinel travelling as the error; they have no value
				}
			}
			if passCall != nil && len(flags) == 1 && !flags[0].Outside {
				vOK, vwhy := true, "the child's value is passed on with its flag"
				for _, vv := range x.PossibleValues(r.Results[0]) {
					if vv.Outside {
						continue
					}
					ex, isEx := vv.V.(*ssa.Extract)
					if vv.V == nil || !isEx || ex.Index != 0 || ex.Tuple != ssa.Value(passCall) {
						vOK, vwhy = false, "the returned-flag of "+fnName(passCall.Call.StaticCallee())+" is passed on, but the value passed on is "+x.Describe(vv.V)+", not that call's: a return inside the child would end the rule without its value"
					}
				}
				c.Check(ruleShape[:2]+"-value-travels-with-flag", key, vOK, r.Pos(), "%s", vwhy)
			}
		})
	}
}

// ruleM3b: which evaluators can hand back a true returned-flag together with a
// non-nil error. break and continue do so by design (their sentinel travels as
// the error, with the flag set), and the statement dispatcher passes whatever
// its child returned. Everything above them must filter: a return that passes
// on both the error and the flag of a child that can do this (without the
// error being known nil there) can do it too. No other evaluator may be in
// that set, or a failing rule reaches RuleEntity.Execute with the flag set and
// gets a result entry.
func (c *Ctx) ruleM3b(rule string) {
	evs := c.flagEvaluators()
	isEv := map[*ssa.Function]bool{}
	for _, f := range evs {
		isEv[f] = true
	}
	bad := map[*ssa.Function]string{}
	for _, f := range evs {
		if n := fnName(f); n == "BreakStmt.Evaluate" || n == "ContinueStmt.Evaluate" {
			bad[f] = "by design"
		}
	}
	for changed := true; changed; {
		changed = false
		for _, f := range evs {
			if bad[f] != "" {
				continue
			}
			x := c.Index(f)
			eachInstr(f, func(in ssa.Instruction) {
				r, ok := in.(*ssa.Return)
				if !ok || len(r.Results) != 3 || bad[f] != "" {
					return
				}
				for _, fv := range x.PossibleValues(r.Results[2]) {
					ex, ok := fv.V.(*ssa.Extract)
					if !ok || ex.Index != 2 {
						continue
					}
					call, ok := ex.Tuple.(*ssa.Call)
					if !ok || bad[call.Call.StaticCallee()] == "" {
						continue
					}
					for _, ev := range x.PossibleValues(r.Results[1]) {
						e2, ok := ev.V.(*ssa.Extract)
						if !ok || e2.Index != 1 || e2.Tuple != ssa.Value(call) {
							continue
						}
						if x.knownNil(ev.V, r.Block()) {
							continue
						}
						bad[f] = fmt.Sprintf("passes on error and flag of %s at %s", fnName(call.Call.StaticCallee()), c.pos(r.Pos()))
						changed = true
					}
				}
			})
		}
	}
	for _, f := range evs {
		n := fnName(f)
		if n == "BreakStmt.Evaluate" || n == "ContinueStmt.Evaluate" || n == "Statement.Evaluate" {
			continue
		}
		c.Check(rule, n, bad[f] == "", f.Pos(), "this evaluator can return a true returned-flag together with a non-nil error (%s): break / continue hand their sentinel up with the flag set, so whoever passes a child's result on must clear the flag when the error is not nil", bad[f])
	}
}

// ruleM3c: a return statement that did not fail did return: in
// ReturnStatement.Evaluate every return whose error can be nil carries the
// constant flag true (and the value of its expression when it has one);
// otherwise the rule would go on after its `return`.
func (c *Ctx) ruleM3c(rule string) {
	f := c.MustFn(rule, "internal/base", "ReturnStatement", "Evaluate")
	if f == nil {
		return
	}
	x := c.Index(f)
	var exprCall *ssa.Call
	eachInstr(f, func(in ssa.Instruction) {
		if call, ok := in.(*ssa.Call); ok && calleeIs(call, pBase, "Expression", "Evaluate") {
			exprCall = call
		}
	})
	k := 0
	eachInstr(f, func(in ssa.Instruction) {
		r, ok := in.(*ssa.Return)
		if !ok || len(r.Results) != 3 || r.Block() == f.Recover {
			return
		}
		k++
		mayBeNil := false
		for _, ev := range x.PossibleValues(r.Results[1]) {
			if ev.V == nil || isConstNil(ev.V) || x.knownNil(ev.V, r.Block()) {
				mayBeNil = true
			}
		}
		if !mayBeNil {
			return
		}
		okFlag := true
		for _, fv := range x.PossibleValues(r.Results[2]) {
			if fv.V == nil {
				okFlag = false
				continue
			}
			if b, isC := constBool(fv.V); !isC || !b {
				okFlag = false
			}
		}
		okVal := true
		if exprCall != nil {
			if _, after := pathExists(f, exprCall, func(i2 ssa.Instruction) bool { return i2 == in }, nil); after {
				for _, vv := range x.PossibleValues(r.Results[0]) {
					if ex, isEx := vv.V.(*ssa.Extract); !isEx || ex.Tuple != ssa.Value(exprCall) || ex.Index != 0 {
						okVal = false
					}
				}
			}
		}
		c.Check(rule, fmt.Sprintf("ReturnStatement.Evaluate#return%d", k), okFlag && okVal, r.Pos(), "a return statement that did not fail must hand up the flag true and the value of its expression (flag ok %v, value ok %v)", okFlag, okVal)
	})
}

func orStr(a, b string) string {
	if a != "" {
		return a
	}
	return b
}

var _ = strings.Join

// ruleAcceptStoresGiven: the holder methods of the node types named store what they are given. Every store
// of an Accept* method into a field of its receiver (or of a node it has just made) puts there its parameter
// itself -- directly, appended to the field's list, or inside a node made here around it -- or a constant.
// A value computed from the parameter (the child of a bracket taken in place of the bracket, a trimmed
// name) is another tree than the one that was parsed.
func (c *Ctx) ruleAcceptStoresGiven(rule string, nodeTypes map[string]bool) {
	n := 0
	for _, f := range c.AllFns {
		if f.Pkg == nil || f.Pkg.Pkg.Path() != pBase || f.Parent() != nil || !strings.HasPrefix(f.Name(), "Accept") || len(f.Params) < 2 {
			continue
		}
		if !nodeTypes[recvName(f)] {
			continue
		}
		x := c.Index(f)
		isParam := func(v ssa.Value) bool {
			p, ok := x.Origin(v).(*ssa.Parameter)
			return ok && p != f.Params[0]
		}
		fresh := func(v ssa.Value) bool {
			al, ok := x.Origin(v).(*ssa.Alloc)
			return ok && al.Parent() == f
		}
		bad, badPos := "", f.Pos()
		stores := 0
		eachInstr(f, func(in ssa.Instruction) {
			st, ok := in.(*ssa.Store)
			if !ok || bad != "" {
				return
			}
			fa, ok := st.Addr.(*ssa.FieldAddr)
			if !ok {
				return
			}
			if x.Origin(fa.X) != ssa.Value(f.Params[0]) && !fresh(fa.X) {
				return
			}
			stores++
			for _, pv := range x.ValuesAt(st.Val, st) {
				v := pv.V
				if v == nil {
					continue
				}
				if _, isC := v.(*ssa.Const); isC || isParam(v) || fresh(v) {
					continue
				}
				if args, isApp := builtinCall(v, "append"); isApp && len(args) == 2 {
					okEl := true
					for _, el := range x.variadicElems(args[1]) {
						if !isParam(el) && !fresh(el) {
							okEl = false
						}
					}
					if okEl && len(x.variadicElems(args[1])) == 1 {
						continue
					}
				}
				bad, badPos = x.Describe(v), st.Pos()
			}
		})
		n++
		c.Check(rule, fnName(f), bad == "" && stores > 0, badPos, "%s must store what it is given (its parameter itself, appended or wrapped in a node made here): it stores %s (%d store(s) into its node)", fnName(f), orStr(bad, "the parameter"), stores)
	}
	if n == 0 {
		c.Lost(rule, "Accept* methods of the node types")
	}
}
