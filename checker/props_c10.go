package main

import (
	"fmt"
	"go/constant"
	"go/token"
	"go/types"
	"sort"
	"strings"

	"golang.org/x/tools/go/ssa"
)

func init() {
	register("C10", runC10, propMeta{
		Explanation: "Decides the structural conditions behind 'total, all-or-nothing, identical across entry points': (K1, sibling cross-check) each of the three functions that create a lexer (BuildRuleFromString, BuildRuleWithIncremental, getKc) feeds the whole text to one input stream, attaches a fresh GengineErrorListener to the lexer and another to the parser, walks psr.Primary() with a GengineParserListener over a fresh KnowledgeContext, and every return with a nil error is dominated by the three tests len(lexerErrors)>0, len(parserErrors)>0, len(listener.ParseErrors)>0, each of whose true edges returns a new error; the five public entry points reach exactly these pipelines (call graph); (K2) no store to installed state can be followed by an error return in any entry point or helper; (K3) the listener stores a rule under its name only on the miss edge of a lookup of the same name in the same map, the hit edge records an error; (K4) holder completeness: every Enter handler that pushes pushes one *base.T, the matching Exit pops once asserting the same type, and for every handler that asserts the type of the stack top, every possible nearest pushing ancestor in the generated parser's rule call graph (all rule-invocation chains, which is also the nesting of error-recovered trees) pushes a type that implements the asserted interface / is the asserted type, and the stack cannot be empty there; (K5) every handler that touches the stack or the container does so only after the guard `len(ParseErrors) > 0 -> return`, so after the first recorded error the stack is never touched again. (K9) on the way from an entry point to a pipeline the rule text is handed on from parameter to parameter, never a value computed from it, so that every entry point compiles the very string it received. (K8) no handler of the listener package cuts a string or slice by position unless dominating length tests cover the bounds (contexts of truncated texts have empty text). Not decided: that the ANTLR lexer/parser never panic on arbitrary bytes and that token accessors (ctx.SIMPLENAME() etc.) are non-nil on error-recovered contexts. (K10) in every function that carries the text towards a pipeline no return with a possibly nil error avoids the call that carries it on: a text is accepted only after it has been compiled. (K11) after the lexer has been created a pipeline returns an error only under a test of a length or of an error for nil: the pipelines reject on the same grounds. (K12) the merge inserts where tool.BinarySearch says: a hit returns the probe, a miss the insertion point and 0. (K13) on the way to the pipeline a function returns an error of its own only on grounds that are not a look at the text, the test for an empty or blank text aside. (K14) no function can return or fault with buildLock or updateLock still locked: a later build would never return.",
		Assumptions: []string{"ANTLR builds a parse tree nested by rule invocation and calls Enter/Exit in matching pairs", "the antlr runtime itself is total"},
		Trusted:     commonTrusted,
	})
}

// recognizerOf: the lexer/parser object whose (embedded) AddErrorListener is called.
func (x *FnIndex) recognizerOf(v ssa.Value) ssa.Value {
	for i := 0; i < 8; i++ {
		v = x.Origin(v)
		switch t := v.(type) {
		case *ssa.FieldAddr:
			v = t.X
			continue
		case *ssa.UnOp:
			v = t.X
			continue
		}
		break
	}
	return v
}

func runC10(c *Ctx) {
	// ---- K1
	pipes := c.rulePipelines("K1-pipelines-agree")
	c.Min("K1-pipelines-agree", 30)
	// entry points reach a pipeline
	isPipe := map[*ssa.Function]bool{}
	for _, p := range pipes {
		isPipe[p] = true
	}
	var reaches func(f *ssa.Function, seen map[*ssa.Function]bool) []string
	reaches = func(f *ssa.Function, seen map[*ssa.Function]bool) []string {
		if seen[f] || f == nil || f.Blocks == nil {
			return nil
		}
		seen[f] = true
		if isPipe[f] {
			return []string{fnName(f)}
		}
		var out []string
		eachInstr(f, func(in ssa.Instruction) {
			if cc := callCommon(in); cc != nil {
				if cal := cc.StaticCallee(); cal != nil && cal.Pkg != nil && strings.HasPrefix(cal.Pkg.Pkg.Path(), modPath) && cal.Pkg.Pkg.Path() != pParser {
					out = append(out, reaches(cal, seen)...)
				}
			}
		})
		return out
	}
	for _, e := range [][3]string{{"builder", "RuleBuilder", "BuildRuleFromString"}, {"builder", "RuleBuilder", "BuildRuleWithIncremental"}, {"engine", "", "NewGenginePool"}, {"engine", "GenginePool", "UpdatePooledRules"}, {"engine", "GenginePool", "UpdatePooledRulesIncremental"}} {
		f := c.MustFn("K1-entry-points", e[0], e[1], e[2])
		if f == nil {
			continue
		}
		ps := reaches(f, map[*ssa.Function]bool{})
		set := map[string]bool{}
		for _, p := range ps {
			set[p] = true
		}
		var names []string
		for p := range set {
			names = append(names, p)
		}
		sort.Strings(names)
		c.Check("K1-entry-points", fnName(f), len(names) == 1, f.Pos(), "entry point compiles through %v (want exactly one checked pipeline)", names)
	}
	// ---- K9: the text reaches the pipeline as it was given. "A text is rejected by one entry point
	// iff it is rejected by all" needs every entry point to compile the very string it received: on the
	// way from an entry point to a pipeline the text is handed on from parameter to parameter, never a
	// value computed from it (trimmed, unquoted, with a prefix cut off)
	{
		textParam := map[*ssa.Function]*ssa.Parameter{}
		for _, f := range pipes {
			x := c.Index(f)
			eachInstr(f, func(in ssa.Instruction) {
				if call, ok := in.(*ssa.Call); ok && call.Call.StaticCallee() != nil && call.Call.StaticCallee().Name() == "NewInputStream" {
					if p, isP := x.Origin(call.Call.Args[0]).(*ssa.Parameter); isP && p.Parent() == f {
						textParam[f] = p
					}
				}
			})
		}
		type site struct {
			g, h *ssa.Function
			call ssa.Instruction
			ok   bool
		}
		var sites []site
		seenSite := map[ssa.Instruction]bool{}
		for round := 0; round < 6; round++ {
			grew := false
			for _, g := range c.AllFns {
				if g.Pkg == nil || g.Pkg.Pkg.Path() == pParser || g.Parent() != nil {
					continue
				}
				gx := c.Index(g)
				eachInstr(g, func(in ssa.Instruction) {
					cc := callCommon(in)
					if cc == nil || seenSite[in] {
						return
					}
					h := cc.StaticCallee()
					tp := textParam[h]
					if h == nil || tp == nil {
						return
					}
					idx := -1
					for i, hp := range h.Params {
						if hp == tp {
							idx = i
						}
					}
					if idx < 0 || idx >= len(cc.Args) {
						return
					}
					seenSite[in] = true
					p, isP := gx.Origin(cc.Args[idx]).(*ssa.Parameter)
					okSite := isP && p.Parent() == g
					sites = append(sites, site{g, h, in, okSite})
					if okSite && textParam[g] == nil {
						textParam[g] = p
						grew = true
					}
				})
			}
			if !grew {
				break
			}
		}
		sort.Slice(sites, func(i, j int) bool { return sites[i].call.Pos() < sites[j].call.Pos() })
		per := map[string]int{}
		for _, st := range sites {
			k := fnName(st.g) + "->" + fnName(st.h)
			per[k]++
			c.Check("K9-text-as-given", fmt.Sprintf("%s#%d", k, per[k]), st.ok, st.call.Pos(), "%s must hand the rule text it was given to %s unchanged (the argument is a parameter of the caller itself, not a value computed from it): entry points that normalise the text differently accept different languages", fnName(st.g), fnName(st.h))
		}
		c.Min("K9-text-as-given", 3)
		// ---- K10: a text is accepted only after it has been compiled: in every function on the way from
		// an entry point to a pipeline (the text-carrying functions found above) no return with a possibly
		// nil error is reachable without passing the call that carries the text on (or, in a pipeline, the
		// creation of the lexer). An entry point that answers for some texts itself -- a blank text
		// "starts an empty pool" -- accepts a text the others reject
		var carriers []*ssa.Function
		for g := range textParam {
			carriers = append(carriers, g)
		}
		sort.Slice(carriers, func(i, j int) bool { return fnName(carriers[i]) < fnName(carriers[j]) })
		isPipe := map[*ssa.Function]bool{}
		for _, f := range pipes {
			isPipe[f] = true
		}
		for _, g := range carriers {
			gx := c.Index(g)
			carries := func(in ssa.Instruction) bool {
				if call, ok := in.(*ssa.Call); ok && isPipe[g] && calleeIs(call, pParser, "", "NewgengineLexer") {
					return true
				}
				cc := callCommon(in)
				if cc == nil {
					return false
				}
				h := cc.StaticCallee()
				return h != nil && textParam[h] != nil && seenSite[in]
			}
			bad, badPos := false, g.Pos()
			eachInstr(g, func(in ssa.Instruction) {
				r, isR := in.(*ssa.Return)
				if !isR || bad || len(r.Results) == 0 {
					return
				}
				last := r.Results[len(r.Results)-1]
				if !isErrorType(last.Type()) {
					return
				}
				mayNil := false
				for _, pv := range gx.ValuesAt(last, r) {
					if pv.V == nil || isConstNil(pv.V) {
						mayNil = true
					} else if !isNewError(pv.V) && !gx.knownNonNil(pv.V, r.Block()) {
						mayNil = true
					}
				}
				if !mayNil {
					return
				}
				if _, round := pathExistsEB(g, nil, func(i2 ssa.Instruction) bool { return i2 == in }, nil, carries); round {
					bad, badPos = true, r.Pos()
				}
			})
			c.Check("K10-accepted-only-when-compiled", fnName(g), !bad, badPos, "%s can return without an error and without having compiled the text (a way round the call that carries the text to the pipeline): it accepts texts the other entry points reject", fnName(g))
		}
		c.Min("K10-accepted-only-when-compiled", 5)
		// ---- K13: ... and rejected only by the pipeline: on the way to it a function returns an error of
		// its own only on grounds that are not a look at the text (an empty or blank text aside, which every
		// entry point refuses) -- a "cannot hold a rule" shortcut rejects a text the other entry points accept
		for _, g := range carriers {
			gx := c.Index(g)
			tp := textParam[g]
			carries := func(in ssa.Instruction) bool {
				if call, ok := in.(*ssa.Call); ok && isPipe[g] && calleeIs(call, pParser, "", "NewgengineLexer") {
					return true
				}
				cc := callCommon(in)
				if cc == nil {
					return false
				}
				h := cc.StaticCallee()
				return h != nil && textParam[h] != nil && seenSite[in]
			}
			var dependsOnText func(v ssa.Value, d int) bool
			dependsOnText = func(v ssa.Value, d int) bool {
				if d > 6 || v == nil {
					return false
				}
				o := gx.Origin(v)
				if o == ssa.Value(tp) {
					return true
				}
				if ins, ok := o.(ssa.Instruction); ok {
					if _, isPhi := o.(*ssa.Phi); !isPhi {
						for _, op := range ins.Operands(nil) {
							if *op != nil && dependsOnText(*op, d+1) {
								return true
							}
						}
					}
				}
				return false
			}
			emptyTest := func(cond ssa.Value) bool {
				bo, ok := cond.(*ssa.BinOp)
				if !ok || (bo.Op != token.EQL && bo.Op != token.NEQ) {
					return false
				}
				isText := func(v ssa.Value) bool {
					o := gx.Origin(v)
					// (a blank text is an empty one: strings.TrimSpace(text) == "")
					if call, isCall := o.(*ssa.Call); isCall && fnIs(call.Call.StaticCallee(), "strings", "", "TrimSpace") {
						o = gx.Origin(call.Call.Args[0])
					}
					return o == ssa.Value(tp)
				}
				isEmpty := func(v ssa.Value) bool {
					k, ok := gx.Origin(v).(*ssa.Const)
					return ok && k.Value != nil && k.Value.Kind() == constant.String && constant.StringVal(k.Value) == ""
				}
				if (isText(bo.X) && isEmpty(bo.Y)) || (isText(bo.Y) && isEmpty(bo.X)) {
					return true
				}
				// len(text) == 0
				for _, pr := range [][2]ssa.Value{{bo.X, bo.Y}, {bo.Y, bo.X}} {
					if args, isLen := builtinCall(gx.Origin(pr[0]), "len"); isLen && isText(args[0]) {
						if k, isK := constInt(gx.Origin(pr[1])); isK && k == 0 {
							return true
						}
					}
				}
				return false
			}
			bad, badPos := "", g.Pos()
			eachInstr(g, func(in ssa.Instruction) {
				r, isR := in.(*ssa.Return)
				if !isR || bad != "" || len(r.Results) == 0 || tp == nil {
					return
				}
				last := r.Results[len(r.Results)-1]
				if !isErrorType(last.Type()) {
					return
				}
				own := false
				for _, pv := range gx.ValuesAt(last, r) {
					if pv.V != nil && isNewError(pv.V) {
						own = true
					}
				}
				if !own {
					return
				}
				if _, before := pathExistsEB(g, nil, func(i2 ssa.Instruction) bool { return i2 == in }, nil, carries); !before {
					return
				}
				for _, gd := range gx.GuardsOf(r.Block()) {
					if dependsOnText(gd.Cond, 0) && !emptyTest(gd.Cond) {
						bad, badPos = gx.Describe(gd.Cond), r.Pos()
					}
				}
			})
			c.Check("K13-rejected-by-the-pipeline-only", fnName(g), bad == "", badPos, "%s returns an error of its own, before the text has reached the pipeline, under the condition %s on the text: a text is rejected by one entry point iff by all, so only the pipeline (and the test for an empty text) may look at it", fnName(g), bad)
		}
		c.Min("K13-rejected-by-the-pipeline-only", 5)
	}
	// ---- K11: the pipelines reject on the same grounds. After the lexer has been created a pipeline returns
	// an error only under a test of the length of something (the three lists of recorded errors, the number
	// of compiled rules) or of an error for nil: a rejection on a ground of its own -- a look at the token
	// stream for input after the last rule, in one copy of the compile code -- makes that entry point reject
	// texts the others accept
	for _, f := range pipes {
		x := c.Index(f)
		var lex *ssa.Call
		eachInstr(f, func(in ssa.Instruction) {
			if call, ok := in.(*ssa.Call); ok && calleeIs(call, pParser, "", "NewgengineLexer") {
				lex = call
			}
		})
		if lex == nil {
			continue
		}
		bad, badPos := "", f.Pos()
		eachInstr(f, func(in ssa.Instruction) {
			r, isR := in.(*ssa.Return)
			if !isR || bad != "" || len(r.Results) == 0 || !domInstr(lex, r) {
				return
			}
			last := r.Results[len(r.Results)-1]
			if !isErrorType(last.Type()) {
				return
			}
			mayErr := false
			for _, pv := range x.ValuesAt(last, r) {
				if pv.V != nil && !isConstNil(pv.V) {
					mayErr = true
				}
			}
			if !mayErr {
				return
			}
			for _, g := range x.GuardsOf(r.Block()) {
				if !domInstr(lex, g.If) {
					continue
				}
				cond := g.Cond
				for {
					u, isU := cond.(*ssa.UnOp)
					if !isU || u.Op != token.NOT {
						break
					}
					cond = u.X
				}
				if _, _, _, _, _, isLen := x.lenTest(cond); isLen {
					continue
				}
				if _, _, isLC := x.lenCmpO(cond); isLC {
					continue
				}
				if v, _, isNil := nilCheck(cond); isNil && isErrorType(v.Type()) {
					continue
				}
				bad, badPos = x.Describe(cond), g.If.Pos()
			}
		})
		c.Check("K11-pipelines-reject-on-the-same-grounds", fnName(f), bad == "", badPos, "%s returns an error under the condition %s: a pipeline may reject only on the recorded lexer, parser and listener errors (and an empty result); a ground of its own makes the entry points disagree", fnName(f), orStr(bad, "-"))
	}
	c.Min("K11-pipelines-reject-on-the-same-grounds", 3)
	// ---- K2
	c.ruleK2("K2-all-or-nothing")
	c.Min("K2-all-or-nothing", 9)
	// ---- K3
	c.ruleUniqueNames("K3-duplicate-names-rejected")
	// ---- K4 / K5
	c.ruleHolders("K4-holder-completeness", "K5-stops-after-first-error")
	c.ruleListenerAttach("K6-popped-node-attached")
	// K7: "when it succeeds the set is entirely replaced or merged as requested": the two
	// incremental entry points merge through the same model as C08-H2..H5 (and agree on it)
	for _, spec := range [][3]string{{"builder", "RuleBuilder", "BuildRuleWithIncremental"}, {"engine", "", "updateIncremental"}} {
		if f := c.MustFn("K7-merged-as-requested", spec[0], spec[1], spec[2]); f != nil {
			c.mergeModel("K7-merged-as-requested", f)
		}
	}
	c.Min("K7-merged-as-requested", 30)
	// ... at the position the binary search over the descending list gives: a hit returns the probe, a
	// miss the insertion point and 0 (C08-H1b) -- both merges read a non-zero second result as a hit
	c.ruleBinarySearch("K12-merged-where-the-search-says")
	c.Min("K12-merged-where-the-search-says", 3)
	// "each compile entry point returns normally": the builds take buildLock (the pool's updates updateLock)
	// first thing, so a function that can return, or fault, with one of them still locked makes every later
	// build wait for ever (the lock rule of C09-R9 for these two locks)
	c.only = func(key string) bool { return strings.Contains(key, "buildLock") || strings.Contains(key, "updateLock") }
	c.ruleLockPanicSafe("K14-no-build-lock-left-locked")
	c.only = nil
	c.Min("K14-no-build-lock-left-locked", 8)
	c.ruleListenerCannotFault("K8-listener-cannot-fault")
	c.Min("K8-listener-cannot-fault", 1)
}

// ruleUniqueNames (K3 / H7)
func (c *Ctx) ruleUniqueNames(rule string) {
	n := 0
	for _, f := range c.Methods("internal/iparser", "GengineParserListener") {
		x := c.Index(f)
		eachInstr(f, func(in ssa.Instruction) {
			mu, ok := in.(*ssa.MapUpdate)
			if !ok {
				return
			}
			if _, is := x.isFieldLoad(mu.Map, "KnowledgeContext", "RuleEntities"); !is {
				return
			}
			n++
			found := false
			var iffound *ssa.If
			eachInstr(f, func(i2 ssa.Instruction) {
				lk, ok := i2.(*ssa.Lookup)
				if !ok || !lk.CommaOk || !x.sameValue(lk.X, mu.Map) || !x.sameValue(lk.Index, mu.Key) {
					return
				}
				eachInstr(f, func(i3 ssa.Instruction) {
					if iff, ok := i3.(*ssa.If); ok {
						if ex, ok := x.Origin(iff.Cond).(*ssa.Extract); ok && ex.Tuple == ssa.Value(lk) && ex.Index == 1 && x.edgeDominated(iff.Block(), 1)[mu.Block()] {
							found = true
							iffound = iff
						}
					}
				})
			})
			c.Check(rule, fnName(f)+"#store-on-miss-only", found, in.Pos(), "a rule is stored under its name without a dominating miss of a lookup of the same name: a duplicate would silently replace the earlier rule")
			if iffound != nil {
				// the hit edge records an error and stores nothing
				rec := false
				_, stores := pathFrom(iffound.Block().Succs[0].Instrs[0], func(i2 ssa.Instruction) bool { return i2 == in }, nil)
				eachInstr(f, func(i2 ssa.Instruction) {
					if call, ok := i2.(*ssa.Call); ok && calleeIs(call, pIparser, "GengineParserListener", "AddError") && x.edgeDominated(iffound.Block(), 0)[call.Block()] {
						rec = true
					}
				})
				c.Check(rule, fnName(f)+"#duplicate-is-error", rec && !stores, iffound.Pos(), "a duplicate rule name must record a parse error and not store the rule")
			}
			// the key is the entity's own name
			b, is := x.isFieldLoad(mu.Key, "RuleEntity", "RuleName")
			c.Check(rule, fnName(f)+"#keyed-by-own-name", is && x.sameValue(b, mu.Value), in.Pos(), "the rule must be stored under its own RuleName")
		})
	}
	if n == 0 {
		c.Lost(rule, "the listener's store into KnowledgeContext.RuleEntities")
	}
}

type handlerInfo struct {
	fn      *ssa.Function
	pushes  []types.Type
	pops    []types.Type
	peeks   []types.Type
	peekPos []ssa.Instruction
	guarded bool
	touches bool
}

func (c *Ctx) ruleHolders(ruleK4, ruleK5 string) {
	// rule call graph of the generated parser
	sp := c.SSA[pParser]
	ruleOf := func(f *ssa.Function) string {
		if f == nil || recvName(f) != "gengineParser" || f.Signature.Results().Len() != 1 {
			return ""
		}
		n := namedOf(f.Signature.Results().At(0).Type())
		if n == nil {
			return ""
		}
		nm := n.Obj().Name()
		if !strings.HasPrefix(nm, "I") || !strings.HasSuffix(nm, "Context") {
			return ""
		}
		return strings.TrimSuffix(strings.TrimPrefix(nm, "I"), "Context")
	}
	calls := map[string]map[string]bool{}
	for _, f := range c.Methods("internal/iantlr/alr", "gengineParser") {
		r := ruleOf(f)
		if r == "" {
			continue
		}
		if calls[r] == nil {
			calls[r] = map[string]bool{}
		}
		eachInstr(f, func(in ssa.Instruction) {
			if cc := callCommon(in); cc != nil {
				if r2 := ruleOf(cc.StaticCallee()); r2 != "" && r2 != r || (r2 == r && cc.StaticCallee() != f) {
					if r2 != "" {
						// Expression() -> expression(0) is the same rule: not an edge
						if r2 == r && (len(f.Params) != len(cc.StaticCallee().Params)) {
							return
						}
						calls[r][r2] = true
					}
				} else if r2 == r && cc.StaticCallee() == f {
					calls[r][r] = true
				}
			}
		})
	}
	_ = sp
	if len(calls) < 40 {
		c.Lost(ruleK4, "the rule methods of the generated parser")
		return
	}
	preds := map[string][]string{}
	for a, bs := range calls {
		for b := range bs {
			preds[b] = append(preds[b], a)
		}
	}
	// handlers
	hs := map[string]*handlerInfo{}
	for _, f := range c.Methods("internal/iparser", "GengineParserListener") {
		nm := f.Name()
		if !strings.HasPrefix(nm, "Enter") && !strings.HasPrefix(nm, "Exit") {
			continue
		}
		x := c.Index(f)
		h := &handlerInfo{fn: f}
		hs[nm] = h
		var guardIf *ssa.If
		eachInstr(f, func(in ssa.Instruction) {
			if iff, ok := in.(*ssa.If); ok && guardIf == nil {
				if arg, ne, isLen := x.lenCmpO(iff.Cond); isLen && ne {
					if _, is := x.isFieldLoad(arg, "GengineParserListener", "ParseErrors"); is {
						guardIf = iff
					}
				}
			}
		})
		allGuarded := true
		eachInstr(f, func(in ssa.Instruction) {
			call, ok := in.(*ssa.Call)
			touch := false
			if ok {
				if cal := call.Call.StaticCallee(); cal != nil && recvName(cal) == "Stack" {
					touch = true
					switch cal.Name() {
					case "Push":
						if mi, ok := x.Origin(call.Call.Args[1]).(*ssa.MakeInterface); ok {
							h.pushes = append(h.pushes, mi.X.Type())
						} else {
							h.pushes = append(h.pushes, nil)
						}
					case "Pop", "Peek":
						var asserted types.Type
						for _, ref := range *call.Referrers() {
							if ta, ok := ref.(*ssa.TypeAssert); ok {
								asserted = ta.AssertedType
							}
						}
						if cal.Name() == "Pop" {
							h.pops = append(h.pops, asserted)
						} else {
							h.peeks = append(h.peeks, asserted)
							h.peekPos = append(h.peekPos, call)
						}
					}
				}
			}
			if mu, isMu := in.(*ssa.MapUpdate); isMu {
				if _, is := x.isFieldLoad(mu.Map, "KnowledgeContext", "RuleEntities"); is {
					touch = true
				}
			}
			if touch {
				h.touches = true
				if guardIf == nil || !x.edgeDominated(guardIf.Block(), 1)[in.Block()] {
					allGuarded = false
				}
			}
		})
		h.guarded = allGuarded
		if h.touches {
			c.Check(ruleK5, "GengineParserListener."+nm, h.guarded, f.Pos(), "the handler touches the stack / container without first returning when an error has been recorded")
		}
	}
	c.Min(ruleK5, 60)
	pushType := func(r string) types.Type {
		if h := hs["Enter"+r]; h != nil && len(h.pushes) == 1 {
			return h.pushes[0]
		}
		return nil
	}
	var rules []string
	for r := range calls {
		rules = append(rules, r)
	}
	sort.Strings(rules)
	for _, r := range rules {
		en, ex := hs["Enter"+r], hs["Exit"+r]
		if en == nil || ex == nil {
			continue
		}
		// (i) push/pop pairing
		if len(en.pushes) > 0 || len(ex.pops) > 0 {
			ok := len(en.pushes) == 1 && len(ex.pops) == 1 && en.pushes[0] != nil && ex.pops[0] != nil && types.Identical(en.pushes[0], ex.pops[0]) && len(en.pops) == 0 && len(ex.pushes) == 0
			c.Check(ruleK4, r+"#push-pop-pair", ok, en.fn.Pos(), "Enter%s pushes %v, Exit%s pops %v: must be exactly one push and one pop of the same type", r, typeNames(en.pushes), r, typeNames(ex.pops))
		}
		// (ii) asserted stack tops
		for _, h := range []*handlerInfo{en, ex} {
			for i, asserted := range h.peeks {
				key := fmt.Sprintf("%s#%s-top%d", r, strings.TrimSuffix(h.fn.Name(), r), i+1)
				if asserted == nil {
					c.Check(ruleK4, key, true, h.peekPos[i].Pos(), "stack top used without a type assertion")
					continue
				}
				// nearest pushing proper ancestors of r
				npa := map[string]bool{}
				seen := map[string]bool{}
				var walk func(q string)
				walk = func(q string) {
					for _, p := range preds[q] {
						if pushType(p) != nil {
							npa[p] = true
							continue
						}
						if seen[p] {
							continue
						}
						seen[p] = true
						if p == "Primary" {
							npa["<empty stack>"] = true
						}
						walk(p)
					}
				}
				walk(r)
				if len(preds[r]) == 0 {
					npa["<empty stack>"] = true
				}
				var bad []string
				var all []string
				for p := range npa {
					all = append(all, p)
					if p == "<empty stack>" {
						bad = append(bad, p)
						continue
					}
					t := pushType(p)
					okT := false
					if iface, isI := asserted.Underlying().(*types.Interface); isI {
						okT = types.Implements(t, iface)
					} else {
						okT = types.Identical(t, asserted)
					}
					if !okT {
						bad = append(bad, p+" (pushes "+types.TypeString(t, func(*types.Package) string { return "" })+")")
					}
				}
				sort.Strings(all)
				sort.Strings(bad)
				c.Check(ruleK4, key, len(bad) == 0 && len(all) > 0, h.peekPos[i].Pos(), "%s asserts the stack top to %s; possible enclosing pushing rules: %v; not satisfying it: %v", h.fn.Name(), types.TypeString(asserted, func(*types.Package) string { return "" }), all, bad)
			}
		}
	}
	c.Min(ruleK4, 55)
}

func typeNames(ts []types.Type) []string {
	var out []string
	for _, t := range ts {
		if t == nil {
			out = append(out, "?")
		} else {
			out = append(out, types.TypeString(t, func(*types.Package) string { return "" }))
		}
	}
	return out
}

// ruleListenerAttach: a node the listener takes off its stack is always put where it belongs:
// from the Pop() in an Exit handler every path to the end of the handler hands the node on
// (an Accept* call on the holder, a store of it into a field or list of the parent, into the
// container) or records an error. A node dropped on some path is a construct of the rule
// text that silently does not exist in the compiled rule.
func (c *Ctx) ruleListenerAttach(rule string) {
	n := 0
	for _, f := range c.Methods("internal/iparser", "GengineParserListener") {
		if !strings.HasPrefix(f.Name(), "Exit") {
			continue
		}
		x := c.Index(f)
		var pops []*ssa.Call
		eachInstr(f, func(in ssa.Instruction) {
			if call, ok := in.(*ssa.Call); ok {
				if cal := call.Call.StaticCallee(); cal != nil && cal.Name() == "Pop" && recvName(cal) == "Stack" {
					pops = append(pops, call)
				}
			}
		})
		for i, pop := range pops {
			n++
			fromPop := func(v ssa.Value) bool {
				for d := 0; d < 8 && v != nil; d++ {
					switch t := x.Origin(v).(type) {
					case *ssa.TypeAssert:
						v = t.X
					case *ssa.Extract:
						v = t.Tuple
					case *ssa.ChangeInterface:
						v = t.X
					case *ssa.MakeInterface:
						v = t.X
					case *ssa.Call:
						return t == pop
					default:
						return false
					}
				}
				return false
			}
			handsOn := func(in ssa.Instruction) bool {
				switch t := in.(type) {
				case *ssa.Call:
					if t == pop {
						return false
					}
					if _, isB := t.Call.Value.(*ssa.Builtin); isB {
						return false
					}
					if cal := t.Call.StaticCallee(); cal != nil && cal.Name() == "AddError" {
						return true
					}
					// handed to the module's own code (an Accept* of the holder): not to a library
					// function that merely looks at it
					inModule := false
					if t.Call.IsInvoke() {
						inModule = t.Call.Method.Pkg() != nil && strings.HasPrefix(t.Call.Method.Pkg().Path(), modPath)
					} else if cal := t.Call.StaticCallee(); cal != nil && cal.Pkg != nil {
						inModule = strings.HasPrefix(cal.Pkg.Pkg.Path(), modPath)
					}
					if !inModule {
						return false
					}
					for _, a := range t.Call.Args {
						if fromPop(a) {
							return true
						}
					}
				case *ssa.Store:
					if _, isAl := t.Addr.(*ssa.Alloc); !isAl && fromPop(t.Val) {
						return true
					}
					if fa, isFA := t.Addr.(*ssa.FieldAddr); isFA && fieldOf(fa).Name() == "ParseErrors" {
						return true
					}
				case *ssa.MapUpdate:
					if fromPop(t.Value) {
						return true
					}
				}
				return false
			}
			_, dropped := pathExists(f, pop, isReturn, handsOn)
			c.Check(rule, fmt.Sprintf("%s#pop%d", fnName(f), i+1), !dropped, pop.Pos(), "the node taken off the stack can reach the end of the handler without being handed to its parent (and without an error being recorded): the construct would be missing from the compiled rule")
		}
	}
	if n == 0 {
		c.Lost(rule, "Stack.Pop() calls in the listener's Exit handlers")
	}
	c.Min(rule, 15)
}

// ruleListenerCannotFault (K8): the listener's handlers run on every parse tree, including the trees of
// rejected and truncated texts, whose contexts have empty text. Cutting a piece out of a string or
// slice there (s[a:b], s[i]) at constant or len(s)-constant bounds must be covered by dominating length
// tests; otherwise some input text makes it panic and the compile entry point does not return normally.
// Bounds held in variables are counted but not decided.
func (c *Ctx) ruleListenerCannotFault(rule string) {
	n, undecided := 0, 0
	for _, f := range c.AllFns {
		if f.Pkg == nil || f.Pkg.Pkg.Path() != modPath+"/internal/iparser" {
			continue
		}
		x := c.Index(f)
		k := 0
		eachInstr(f, func(in ssa.Instruction) {
			var coll ssa.Value
			var lo, hi ssa.Value
			isSlice := false
			switch t := in.(type) {
			case *ssa.Slice:
				switch t.X.Type().Underlying().(type) {
				case *types.Basic, *types.Slice:
				default:
					return
				}
				coll, lo, hi, isSlice = t.X, t.Low, t.High, true
				if lo == nil && hi == nil {
					return
				}
			case *ssa.Index:
				if _, isStr := t.X.Type().Underlying().(*types.Basic); !isStr {
					return
				}
				coll, lo = t.X, t.Index
			case *ssa.IndexAddr:
				if _, isSl := t.X.Type().Underlying().(*types.Slice); !isSl {
					return
				}
				if il, isL := t.Index.(*ssa.UnOp); isL {
					if a2, isA := il.X.(*ssa.Alloc); isA && a2.Comment == "rangeindex" {
						return
					}
				}
				coll, lo = t.X, t.Index
			default:
				return
			}
			k++
			n++
			key := fmt.Sprintf("%s#cut%d", fnName(f), k)
			lenS := x.symLen(coll)
			lb := x.lenLowerBound(coll, in.Block())
			// need(v): the smallest length that makes bound/index v valid, or -1 when unknown
			need := func(v ssa.Value, index bool) int64 {
				if v == nil {
					return 0
				}
				s := x.symInt(v)
				extra := int64(0)
				if index {
					extra = 1
				}
				if len(s.terms) == 0 {
					if s.k < 0 {
						return -1
					}
					return s.k + extra
				}
				// len(coll) - c
				d := s.add(lenS, -1)
				if len(d.terms) == 0 && d.k <= 0 {
					if index && d.k == 0 {
						return -1
					}
					return -d.k
				}
				return -1
			}
			nl, nh := need(lo, !isSlice), need(hi, false)
			ok := nl >= 0 && nh >= 0
			want := nl
			if nh > want {
				want = nh
			}
			if ok && isSlice && lo != nil && hi != nil {
				// low <= high as well: a + b <= len for s[a:len-b]
				sl, sh := x.symInt(lo), x.symInt(hi)
				d := sh.add(sl, -1) // high - low
				switch {
				case len(d.terms) == 0:
					ok = d.k >= 0
				default:
					dd := d.add(lenS, -1) // (high-low) - len = -(a+b)
					if len(dd.terms) == 0 {
						if -dd.k > want {
							want = -dd.k
						}
					} else {
						ok = false
					}
				}
			}
			if !ok && !isSlice {
				// an index that is the result of a call (a token type, a position the runtime reports) is
				// whatever the callee says, possibly negative: it needs a test on both sides
				if ext, isExt := x.Origin(lo).(*ssa.Call); isExt {
					if _, isBuiltin := ext.Call.Value.(*ssa.Builtin); !isBuiltin {
						lower, upper := false, false
						for _, g := range x.GuardsOf(in.Block()) {
							bo, isB := g.Cond.(*ssa.BinOp)
							if !isB {
								continue
							}
							op := bo.Op
							if !g.Pol {
								op = map[token.Token]token.Token{token.LSS: token.GEQ, token.GEQ: token.LSS, token.GTR: token.LEQ, token.LEQ: token.GTR, token.EQL: token.NEQ, token.NEQ: token.EQL}[op]
							}
							isIdx := func(v ssa.Value) bool { return x.sameValue(v, lo) }
							isLen := func(v ssa.Value) bool { return x.symInt(v).equal(lenS) }
							kOf := func(v ssa.Value) (int64, bool) { return constInt(v) }
							switch {
							case isIdx(bo.X) && isLen(bo.Y) && op == token.LSS, isLen(bo.X) && isIdx(bo.Y) && op == token.GTR:
								upper = true
							}
							if isIdx(bo.X) {
								if k, isK := kOf(bo.Y); isK && ((op == token.GEQ && k >= 0) || (op == token.GTR && k >= -1)) {
									lower = true
								}
							}
							if isIdx(bo.Y) {
								if k, isK := kOf(bo.X); isK && ((op == token.LEQ && k >= 0) || (op == token.LSS && k >= -1)) {
									lower = true
								}
							}
						}
						c.Check(rule, key, lower && upper, in.Pos(), "the index %s into %s is the result of a call: the dominating tests must keep it at or above zero (%v) and below the length (%v)", x.Describe(lo), x.Describe(coll), lower, upper)
						return
					}
				}
			}
			if !ok {
				// a bound held in a variable (a hand-written scan): whether it stays inside is a question
				// about the values the variable takes, which this rule does not decide
				undecided++
				return
			}
			c.Check(rule, key, lb >= want, in.Pos(), "cutting %s out of %s needs len >= %d; the dominating tests imply len >= %d", describeCut(x, lo, hi, isSlice), x.Describe(coll), want, lb)
		})
	}
	c.Check(rule, "inventory", true, 0, "%d string/slice cuts in the listener package examined, %d of them with a bound held in a variable (not decided)", n, undecided)
}

func describeCut(x *FnIndex, lo, hi ssa.Value, isSlice bool) string {
	d := func(v ssa.Value) string {
		if v == nil {
			return ""
		}
		return x.symInt(v).String()
	}
	if isSlice {
		return "[" + d(lo) + ":" + d(hi) + "]"
	}
	return "[" + d(lo) + "]"
}

// rulePipelines: the compile pipelines (lexer, parser, listener) are set up and checked alike.
func (c *Ctx) rulePipelines(rule string) []*ssa.Function {
	// ---- K1
	var pipes []*ssa.Function
	for _, f := range c.AllFns {
		if f.Pkg == nil || f.Pkg.Pkg.Path() == pParser || f.Parent() != nil {
			continue
		}
		has := false
		eachInstr(f, func(in ssa.Instruction) {
			if call, ok := in.(*ssa.Call); ok && calleeIs(call, pParser, "", "NewgengineLexer") {
				has = true
			}
		})
		if has {
			pipes = append(pipes, f)
		}
	}
	sort.Slice(pipes, func(i, j int) bool { return fnName(pipes[i]) < fnName(pipes[j]) })
	for _, f := range pipes {
		x := c.Index(f)
		key := fnName(f)
		var lexer, psr, listener, input *ssa.Call
		var errLs []*ssa.Call
		eachInstr(f, func(in ssa.Instruction) {
			call, ok := in.(*ssa.Call)
			if !ok {
				return
			}
			switch {
			case calleeIs(call, pParser, "", "NewgengineLexer"):
				lexer = call
			case calleeIs(call, pParser, "", "NewgengineParser"):
				psr = call
			case calleeIs(call, pIparser, "", "NewGengineParserListener"):
				listener = call
			case calleeIs(call, pIparser, "", "NewGengineErrorListener"):
				errLs = append(errLs, call)
			case call.Call.StaticCallee() != nil && call.Call.StaticCallee().Name() == "NewInputStream":
				input = call
			}
		})
		if lexer == nil || psr == nil || listener == nil || input == nil {
			c.Check(rule, key+"#shape", false, f.Pos(), "compile pipeline without lexer, parser, listener or input stream")
			continue
		}
		// whole text
		_, isParam := x.Origin(input.Call.Args[0]).(*ssa.Parameter)
		c.Check(rule, key+"#whole-text", isParam && x.Unwrap(lexer.Call.Args[0]) == ssa.Value(input), input.Pos(), "the lexer must read the complete text given to the entry point (positions are relative to it)")
		// listeners attached
		attached := map[string]*ssa.Call{}
		eachInstr(f, func(in ssa.Instruction) {
			call, ok := in.(*ssa.Call)
			if !ok {
				return
			}
			cal := call.Call.StaticCallee()
			if cal == nil || cal.Name() != "AddErrorListener" || len(call.Call.Args) != 2 {
				return
			}
			rec := x.recognizerOf(call.Call.Args[0])
			arg := x.Origin(call.Call.Args[1])
			if mi, ok := arg.(*ssa.MakeInterface); ok {
				arg = x.Origin(mi.X)
			}
			el, _ := arg.(*ssa.Call)
			if el == nil || !calleeIs(el, pIparser, "", "NewGengineErrorListener") {
				return
			}
			if rec == ssa.Value(lexer) {
				attached["lexer"] = el
			}
			if rec == ssa.Value(psr) {
				attached["parser"] = el
			}
		})
		// a later RemoveErrorListeners on the same recognizer would detach the collecting listener again
		addCalls := map[string]ssa.Instruction{}
		eachInstr(f, func(in ssa.Instruction) {
			if call, ok := in.(*ssa.Call); ok && call.Call.StaticCallee() != nil && call.Call.StaticCallee().Name() == "AddErrorListener" && len(call.Call.Args) == 2 {
				rec := x.recognizerOf(call.Call.Args[0])
				if rec == ssa.Value(lexer) {
					addCalls["lexer"] = in
				}
				if rec == ssa.Value(psr) {
					addCalls["parser"] = in
				}
			}
		})
		eachInstr(f, func(in ssa.Instruction) {
			call, ok := in.(*ssa.Call)
			if !ok || call.Call.StaticCallee() == nil || call.Call.StaticCallee().Name() != "RemoveErrorListeners" {
				return
			}
			rec := x.recognizerOf(call.Call.Args[0])
			for which, r := range map[string]ssa.Value{"lexer": lexer, "parser": psr} {
				if rec != r || addCalls[which] == nil {
					continue
				}
				if _, after := pathExists(f, addCalls[which], func(i2 ssa.Instruction) bool { return i2 == in }, nil); after {
					attached[which] = nil
					c.Check(rule, key+"#"+which+"-listener-removed", false, in.Pos(), "RemoveErrorListeners on the %s runs after the collecting error listener was attached: its errors are no longer seen", which)
				}
			}
		})
		c.Check(rule, key+"#lexer-listener", attached["lexer"] != nil, lexer.Pos(), "a GengineErrorListener must be attached to the lexer (token recognition errors)")
		c.Check(rule, key+"#parser-listener", attached["parser"] != nil && attached["parser"] != attached["lexer"], psr.Pos(), "a separate GengineErrorListener must be attached to the parser")
		// walk with the listener over psr.Primary()
		walked := false
		var walkCall, primaryCall *ssa.Call
		eachInstr(f, func(in ssa.Instruction) {
			if pc, ok := in.(*ssa.Call); ok && calleeIs(pc, pParser, "gengineParser", "Primary") && primaryCall == nil {
				primaryCall = pc
			}
		})
		eachInstr(f, func(in ssa.Instruction) {
			call, ok := in.(*ssa.Call)
			if !ok || call.Call.StaticCallee() == nil || call.Call.StaticCallee().Name() != "Walk" {
				return
			}
			okL, okT := false, false
			for _, a := range call.Call.Args {
				o := x.Unwrap(a)
				if o == ssa.Value(listener) {
					okL = true
				}
				if pc, ok := o.(*ssa.Call); ok && calleeIs(pc, pParser, "gengineParser", "Primary") && x.Origin(pc.Call.Args[0]) == ssa.Value(psr) {
					okT = true
				}
			}
			if okL && okT {
				walked = true
				walkCall = call
			}
			for _, a := range call.Call.Args {
				if pc, ok := x.Unwrap(a).(*ssa.Call); ok && calleeIs(pc, pParser, "gengineParser", "Primary") {
					primaryCall = pc
				}
			}
		})
		c.Check(rule, key+"#walk", walked, psr.Pos(), "the tree of psr.Primary() must be walked with the GengineParserListener")
		c.Check(rule, key+"#fresh-container", x.freshKc(listener.Call.Args[0]), listener.Pos(), "the listener must fill a fresh KnowledgeContext")
		// the three checks dominate every successful return
		type chk struct {
			name  string
			obj   ssa.Value
			field string
			typ   string
		}
		checks := []chk{
			{"lexer-errors-checked", attached["lexer"], "GrammarErrors", "GengineErrorListener"},
			{"parser-errors-checked", attached["parser"], "GrammarErrors", "GengineErrorListener"},
			{"listener-errors-checked", listener, "ParseErrors", "GengineParserListener"},
		}
		for _, ch := range checks {
			if ch.obj == nil {
				c.Check(rule, key+"#"+ch.name, false, f.Pos(), "nothing to check: the listener is missing")
				continue
			}
			ok := true
			staleAny := false
			var badPos = f.Pos()
			nSucc := 0
			eachInstr(f, func(in ssa.Instruction) {
				r, isR := in.(*ssa.Return)
				if !isR || r.Block() == f.Recover {
					return
				}
				last := r.Results[len(r.Results)-1]
				succ := false
				for _, pv := range x.PossibleValues(last) {
					if pv.V == nil || isConstNil(pv.V) {
						succ = true
					}
				}
				if !succ {
					return
				}
				nSucc++
				known := false
				stale := false
				for _, g := range x.GuardsOf(r.Block()) {
					if arg, ne, isLen := x.lenCmpO(g.Cond); isLen && ne != g.Pol {
						if b, is := x.isFieldLoad(arg, ch.typ, ch.field); is && x.Origin(b) == ch.obj {
							// the errors must be looked at after they can have been recorded: lexer and
							// parser errors after the parse (Primary), listener errors after the walk
							producer := primaryCall
							if ch.name == "listener-errors-checked" {
								producer = walkCall
							}
							if producer != nil && domInstr(producer, g.If) {
								known = true
							} else {
								stale = true
							}
						}
					}
				}
				if !known {
					ok = false
					badPos = r.Pos()
					if stale {
						staleAny = true
					}
				}
			})
			why := ""
			if staleAny {
				why = " (the list is tested before the step that fills it has run)"
			}
			c.Check(rule, key+"#"+ch.name, ok && nSucc > 0, badPos, "a successful return must be dominated by `len(%s.%s) > 0 -> error`, tested after the errors can have been recorded%s", ch.typ, ch.field, why)
			// the true edge of that test returns an error
			eachInstr(f, func(in ssa.Instruction) {
				iff, isIf := in.(*ssa.If)
				if !isIf {
					return
				}
				arg, ne, isLen := x.lenCmpO(iff.Cond)
				if !isLen {
					return
				}
				b, is := x.isFieldLoad(arg, ch.typ, ch.field)
				if !is || x.Origin(b) != ch.obj {
					return
				}
				edge := 0
				if !ne {
					edge = 1
				}
				_, bad := pathFrom(iff.Block().Succs[edge].Instrs[0], func(i2 ssa.Instruction) bool {
					r, isR := i2.(*ssa.Return)
					if !isR {
						return false
					}
					for _, pv := range x.PossibleValues(r.Results[len(r.Results)-1]) {
						if pv.V == nil || !isNewError(pv.V) {
							return true
						}
					}
					return false
				}, nil)
				c.Check(rule, key+"#"+ch.name+"/rejects", !bad, iff.Pos(), "recorded errors must make the compile fail")
			})
		}
	}
	c.Check(rule, "pipelines", len(pipes) == 3, 0, "%d functions set up a lexer/parser pipeline (the three confirmed siblings: BuildRuleFromString, BuildRuleWithIncremental, getKc)", len(pipes))
	return pipes
}
