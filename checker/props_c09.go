package main

import (
	"fmt"
	"go/token"
	"go/types"
	"sort"
	"strings"

	"golang.org/x/tools/go/ssa"
)

func init() {
	register("C09", runC09, propMeta{
		Explanation: "Decides the recover discipline and the absence of engine-level panics and unbounded loops, for all rule texts and injected data: (R1) RuleEntity.Execute — the only door from the engine into the interpreter — and the four call/assignment evaluators each register, before anything that can panic, a deferred literal that calls recover() and on a non-nil result stores a newly created error into the function's error result (the rule entry also clears the returned-flag); (R2) every goroutine literal of the product calls nothing but panic-safe workers, addResult, fmt.Sprintf, errors.New, append, mutex and WaitGroup operations, and contains no indexing, slicing, unchecked type assertion or division, so a goroutine cannot die with an unrecovered panic; (R3) every Evaluate/Execute of the interpreter is called only from package base, except RuleEntity.Execute; (R4) in the engine a value looked up with comma-ok is never used on the miss edge, every constant or len-1 index into a rule list is dominated by a length test that implies it is in range, counted indexes stay below the len they are compared with, the N-M windows are dominated by their parameter checks, and the nil-able pool master is guarded (C16-Q1); (R5) loop inventory over base, core, context, iter, engine, builder and tool: every loop is a range loop, a counted loop with a +1 counter compared to a bound, the iterator loop whose Key() advances the cursor by one and whose Next() is cursor < length, the ForStmt loop in which every iteration increments a counter and returns an error beyond maxExecuteNum, or one of two named loops (getGengine's wait loop — C17; tool.BinarySearch, whose every iteration returns or moves low/high past mid); (R6) WaitGroup counts agree with the goroutines started (A4) on one snapshot (C07-U1), so Wait cannot hang or panic; (R7) collected errors always surface (every execute method); (R8) the lock-order graph of the product is acyclic and no pool lock is held while rules run. (R9) a mutex locked without a covering deferred unlock is released on every return and is not held across anything that can fault on rule-controlled data (a call into reflect, through an interface or a function value, an explicit panic, an unchecked type assertion, directly or in module callees), so a recovered fault cannot leave it locked. (R10) in MapVar.Evaluate reflect.Zero stands in only for the absent key of a map, never for an index outside a slice or array. Not decided: termination of injected host functions (assumed by the property); Go-fatal conditions recover cannot catch (stack exhaustion, concurrent map writes on host data). (R11) the value of an if / else-if / for condition is tested through reflect's Bool() or under a kind test whose other edge returns an error: a non-boolean condition is a fault, never 'false'. (R12) ReturnStatement.Evaluate says 'returned' only where the error of its expression is known to be nil. (R13) in every function that calls recover(), each way on from a non-nil recovered value stores a new error into an error variable of the enclosing function. The bound Next() compares the cursor with is a number or key list stored in the iterator when NewInter made it and stored by nothing else, so a body that grows the ranged collection cannot keep a forRange running. (R14) a function that calls recover() cannot fault itself: its slice expressions start at nothing, a non-negative constant, len() or a value tested against a lower bound; it holds no unchecked assertion, division or panic. (R15) every pool method returns the error of its engine call: a fault surfaces through the pool as well.",
		Assumptions: []string{"injected functions terminate", "recover() catches every panic raised by reflect and by rule evaluation"},
		Trusted:     commonTrusted,
	})
}

// panicSafe: f defers, before any other call, a literal that recovers and
// turns a non-nil recover() into a new error stored in f's error result.
func (c *Ctx) panicSafe(f *ssa.Function) (bool, string) {
	x := c.Index(f)
	var def *ssa.Defer
	eachInstr(f, func(in ssa.Instruction) {
		if d, ok := in.(*ssa.Defer); ok && def == nil {
			if _, isLit := d.Call.Value.(*ssa.MakeClosure); isLit {
				def = d
			}
		}
	})
	if def == nil {
		return false, "no deferred function literal"
	}
	// registered before anything that can panic
	early := true
	eachInstr(f, func(in ssa.Instruction) {
		if in == ssa.Instruction(def) {
			return
		}
		switch t := in.(type) {
		case *ssa.Call:
			if _, isB := t.Call.Value.(*ssa.Builtin); isB {
				return
			}
			if !domInstr(def, in) {
				early = false
			}
		case *ssa.Go, *ssa.Panic:
			if !domInstr(def, in) {
				early = false
			}
		case *ssa.IndexAddr, *ssa.Index, *ssa.TypeAssert, *ssa.Lookup, *ssa.MapUpdate:
			if !domInstr(def, in) {
				early = false
			}
		}
	})
	if !early {
		return false, "the recovering defer is registered after code that can already panic"
	}
	lit := def.Call.Value.(*ssa.MakeClosure).Fn.(*ssa.Function)
	var rec *ssa.Call
	eachInstr(lit, func(in ssa.Instruction) {
		if call, ok := in.(*ssa.Call); ok {
			if b, ok := call.Call.Value.(*ssa.Builtin); ok && b.Name() == "recover" {
				rec = call
			}
		}
	})
	if rec == nil {
		return false, "the deferred literal does not call recover()"
	}
	// if recover() != nil { err = <new error> }
	var iff *ssa.If
	eachInstr(lit, func(in ssa.Instruction) {
		if i, ok := in.(*ssa.If); ok {
			if s, neq, ok := nilCheck(i.Cond); ok && neq && x.Origin(s) == ssa.Value(rec) {
				iff = i
			}
		}
	})
	if iff == nil {
		return false, "the result of recover() is not tested"
	}
	// the error result cell of f
	stored := false
	eachInstr(lit, func(in ssa.Instruction) {
		st, ok := in.(*ssa.Store)
		if !ok || !x.edgeDominated(iff.Block(), 0)[st.Block()] {
			return
		}
		al, ok := x.ResolveAddr(st.Addr).(*ssa.Alloc)
		if !ok || al.Parent() != f || !isErrorType(al.Type().(*types.Pointer).Elem()) {
			return
		}
		if isNewError(x.Origin(st.Val)) {
			stored = true
		}
	})
	if !stored {
		return false, "a recovered panic is not turned into the function's error result"
	}
	// that cell must be what f returns as error (a named result)
	named := false
	rs := f.Signature.Results()
	for i := 0; i < rs.Len(); i++ {
		if isErrorType(rs.At(i).Type()) && rs.At(i).Name() != "" {
			named = true
		}
	}
	if !named {
		return false, "the error result is not a named result, so the deferred function cannot set it"
	}
	return true, "defers recover() first and converts a panic into its error result"
}

func runC09(c *Ctx) {
	// R1
	entry := c.MustFn("R1-panic-safe", "internal/base", "RuleEntity", "Execute")
	safe := map[*ssa.Function]bool{}
	for _, spec := range [][2]string{{"RuleEntity", "Execute"}, {"Assignment", "Evaluate"}, {"FunctionCall", "Evaluate"}, {"MethodCall", "Evaluate"}, {"ThreeLevelCall", "Evaluate"}} {
		f := c.MustFn("R1-panic-safe", "internal/base", spec[0], spec[1])
		if f == nil {
			continue
		}
		ok, why := c.panicSafe(f)
		safe[f] = ok
		c.Check("R1-panic-safe", fnName(f), ok, f.Pos(), "%s", why)
	}
	// the entry's recover also clears the returned-flag (C11-M3 checks the value)
	c.Min("R1-panic-safe", 5)
	// R2
	allowedPkgFns := map[string]bool{"fmt.Sprintf": true, "errors.New": true, "fmt.Errorf": true}
	ng := 0
	goOrd := map[*ssa.Function]int{}
	for _, f := range c.AllFns {
		if f.Pkg == nil || f.Pkg.Pkg.Path() == pParser {
			continue
		}
		x := c.Index(f)
		eachInstr(f, func(in ssa.Instruction) {
			g, ok := in.(*ssa.Go)
			if !ok {
				return
			}
			ng++
			goOrd[rootOf(f)]++
			key := fmt.Sprintf("%s#go%d", fnName(rootOf(f)), goOrd[rootOf(f)])
			lit := closureOfGo(g)
			if lit == nil {
				c.Check("R2-goroutines-cannot-die", key, false, g.Pos(), "go statement on something other than a function literal")
				return
			}
			bad := ""
			var badPos token.Pos
			eachInstr(lit, func(i2 ssa.Instruction) {
				switch t := i2.(type) {
				case *ssa.Call:
					if b, isB := t.Call.Value.(*ssa.Builtin); isB {
						if b.Name() != "append" && b.Name() != "len" && b.Name() != "ssa:deferstack" {
							bad, badPos = "builtin "+b.Name(), i2.Pos()
						}
						return
					}
					cal := t.Call.StaticCallee()
					if cal == nil {
						// the text of an error this module has just made (errors.New / fmt.Errorf): its
						// Error method is the library's own
						if t.Call.IsInvoke() && t.Call.Method.Name() == "Error" && isErrorType(t.Call.Value.Type()) {
							xi := c.Index(i2.Parent())
							made := true
							vals := xi.ValuesAt(t.Call.Value, i2)
							for _, pv := range vals {
								if pv.V == nil || isConstNil(pv.V) {
									continue
								}
								mk, isCall := xi.Origin(pv.V).(*ssa.Call)
								if !isCall || !(fnIs(mk.Call.StaticCallee(), "errors", "", "New") || fnIs(mk.Call.StaticCallee(), "fmt", "", "Errorf")) {
									made = false
								}
							}
							if made && len(vals) > 0 {
								return
							}
						}
						bad, badPos = "a dynamic call", i2.Pos()
						return
					}
					if safe[cal] || fnIs(cal, pEngine, "Gengine", "addResult") {
						return
					}
					if _, m, _, isSync := syncCall(i2); isSync && (m == "Lock" || m == "Unlock" || m == "Done" || m == "RLock" || m == "RUnlock") {
						return
					}
					if cal.Pkg != nil && allowedPkgFns[cal.Pkg.Pkg.Name()+"."+cal.Name()] {
						return
					}
					// calls that leave the gengine module (logging, formatting, time …) are not the rule
					// interpreter; reflect, which panics on kind mismatches, is the exception
					if cal.Pkg != nil && !strings.HasPrefix(cal.Pkg.Pkg.Path(), modPath) && cal.Pkg.Pkg.Path() != "reflect" {
						return
					}
					bad, badPos = "a call of "+fnName(cal)+", which is not panic-safe", i2.Pos()
				case *ssa.IndexAddr:
					if al, isAl := t.X.(*ssa.Alloc); isAl && al.Comment == "varargs" {
						return
					}
					// ranging over a slice inside a spawner is fine: index is the range counter
					if il, isL := t.Index.(*ssa.UnOp); isL {
						if a2, isA := il.X.(*ssa.Alloc); isA && a2.Comment == "rangeindex" {
							return
						}
					}
					bad, badPos = "an index expression", i2.Pos()
				case *ssa.Index:
					bad, badPos = "an index expression", i2.Pos()
				case *ssa.Slice:
					if al, isAl := t.X.(*ssa.Alloc); isAl && al.Comment == "varargs" {
						return
					}
					bad, badPos = "a slice expression", i2.Pos()
				case *ssa.TypeAssert:
					if !t.CommaOk && c.Index(i2.Parent()).Origin(t) == ssa.Value(t) {
						// (an assertion back to the type the value was made from cannot fail)
						bad, badPos = "an unchecked type assertion", i2.Pos()
					}
				case *ssa.BinOp:
					if t.Op == token.QUO || t.Op == token.REM {
						bad, badPos = "a division", i2.Pos()
					}
				case *ssa.Panic:
					bad, badPos = "a panic", i2.Pos()
				case *ssa.Go:
					// nested spawn: checked on its own
				}
			})
			_ = x
			c.Check("R2-goroutines-cannot-die", key, bad == "", badPos, "the goroutine contains %s at %s: a panic there would kill the process", bad, c.pos(badPos))
		})
	}
	c.Min("R2-goroutines-cannot-die", 25)
	// R3
	for _, f := range c.AllFns {
		if f.Pkg == nil || f.Pkg.Pkg.Path() == pBase {
			continue
		}
		eachInstr(f, func(in ssa.Instruction) {
			cc := callCommon(in)
			if cc == nil {
				return
			}
			cal := cc.StaticCallee()
			if cal == nil || cal.Pkg == nil || cal.Pkg.Pkg.Path() != pBase {
				return
			}
			if cal.Name() != "Evaluate" && cal.Name() != "Execute" {
				return
			}
			c.Check("R3-interpreter-behind-entry", fmt.Sprintf("%s->%s", fnName(rootOf(f)), fnName(cal)), cal == entry, in.Pos(), "%s calls the interpreter function %s directly; only RuleEntity.Execute (which recovers) may be entered from outside package base", fnName(f), fnName(cal))
		})
	}
	// inside base: RuleContent.Execute only from the entry
	for _, f := range c.AllFns {
		if f.Pkg == nil || f.Pkg.Pkg.Path() != pBase {
			continue
		}
		eachInstr(f, func(in ssa.Instruction) {
			if cc := callCommon(in); cc != nil && fnIs(cc.StaticCallee(), pBase, "RuleContent", "Execute") {
				c.Check("R3-interpreter-behind-entry", fnName(rootOf(f))+"->RuleContent.Execute", rootOf(f) == entry, in.Pos(), "the rule body is started from %s, not from the recovering entry point", fnName(f))
			}
		})
	}
	c.Min("R3-interpreter-behind-entry", 20)
	// R4
	fns := c.engineExecFns()
	for _, fn := range fns {
		if strings.HasPrefix(fn.Name(), "ExecuteSelectedN") {
			c.ruleSelection("R4-miss-edge", fn, "fail")
		} else if strings.HasPrefix(fn.Name(), "ExecuteSelected") || fn.Name() == "ExecuteDAGModel" {
			c.ruleSelection("R4-miss-edge", fn, "skip")
		}
		c.ruleIndexInRange("R4-index-in-range", fn)
	}
	c.Min("R4-miss-edge", 36)
	c.Min("R4-index-in-range", 20)
	for _, n := range c05NM {
		if fn := c.MustFn("R4-windows-in-range", "engine", "Gengine", n); fn != nil {
			m := c.engModel(fn)
			stages := stagesOf(m.syncLoopSites(), c.fanoutsQuiet(fn))
			c.ruleWindows("R4-windows-in-range", fn, stages, strings.HasPrefix(n, "ExecuteSelected"))
		}
	}
	c.ruleQ1("R4-nilable-master", map[string]bool{"PluginLoader": true})
	// R5
	c.ruleLoopInventory("R5-loops-bounded")
	// R6
	for _, fn := range fns {
		m := c.engModel(fn)
		if len(m.gos) > 0 {
			c.ruleA4("R6-waitgroup-agrees", fn, isRuleExec, m.errList())
		}
	}
	if cf := c.Fn("internal/base", "ConcStatement", "Evaluate"); cf != nil {
		c.ruleA4("R6-waitgroup-agrees", cf, isBaseEvaluate, c.engModel(cf).errList())
	}
	c.ruleU1("R6-one-snapshot")
	// R7
	for _, fn := range fns {
		c.ruleErrSurface("R7-errors-surface", fn)
	}
	c.Min("R7-errors-surface", 100)
	// R8
	c.ruleLockOrder("R8-lock-order")
	c.ruleLifecycle("R8-no-lock-while-rules-run", map[string]bool{"engine-call1-no-lock": true, "engine-call2-no-lock": true, "engine-call3-no-lock": true, "engine-call4-no-lock": true})
	// R9
	c.ruleLockPanicSafe("R9-lock-released-when-faulting")
	// R11: a condition that is no boolean is a fault, not "false": the value of an if / else-if / for
	// condition is tested through reflect's Bool() (which panics on another kind; R1/R2 turn that
	// into the rule's error) or under a kind test whose other edge returns an error -- the condition
	// obligations of C02-S2/S3. A helper that answers "not satisfied" for an int lets the rule run on.
	c.only = func(key string) bool {
		return key == "IfStmt.Evaluate#conditions" || key == "ForStmt.Evaluate#condition-before-every-iteration"
	}
	c.ruleS2("R11-non-boolean-condition-faults")
	c.ruleS3("R11-non-boolean-condition-faults")
	c.only = nil
	c.Min("R11-non-boolean-condition-faults", 2)
	// R12: a `return <expr>` whose expression failed hands up that error, not "returned nil": the return
	// obligations of C02-S6 (a return statement that did not fail hands up the flag and the value; it may say
	// so only where the error is known to be nil)
	c.ruleM3c("R12-failed-return-is-a-fault")
	c.Min("R12-failed-return-is-a-fault", 2)
	// R13: whoever recovers a panic reports it: in every function of the module that calls recover(), each
	// way on from "the recovered value is not nil" to the end of that function stores a new error into an
	// error variable of the enclosing function. A recover that turns only some kinds of panic value into
	// an error (a type switch without default) turns the others into success
	c.ruleRecoverAlwaysReports("R13-a-recovered-panic-is-reported")
	c.ruleRecoverHandlersCannotFault("R14-recover-handlers-cannot-fault")
	// a fault surfaces "as a non-nil error returned by the call" through the pool as well: every pool
	// method returns the error of its engine call (the own-error slot of the request life cycle, C06-P2)
	c.armPoolError("R15-pool-reports-the-fault", func(m string) bool { return true }, 20)
	c.Min("R9-lock-released-when-faulting", 20)
	// R10
	c.ruleNoZeroForAFault("R10-no-zero-for-a-fault")
	c.Min("R10-no-zero-for-a-fault", 2)
}

// lenLowerBound: the largest k such that guards of block b imply len(S) >= k.
func (x *FnIndex) lenLowerBound(s ssa.Value, b *ssa.BasicBlock) int64 {
	atom := x.symLen(s)
	if len(atom.terms) != 1 || atom.k != 0 {
		return 0
	}
	var name string
	for a := range atom.terms {
		name = a
	}
	lb := int64(0)
	for _, g := range x.GuardsOf(b) {
		bo, ok := g.Cond.(*ssa.BinOp)
		if !ok {
			continue
		}
		d := x.symInt(bo.X).add(x.symInt(bo.Y), -1) // X - Y
		if len(d.terms) != 1 || d.terms[name] != 1 {
			continue
		}
		c := d.k // len + c  op  0
		op := bo.Op
		if !g.Pol {
			switch op {
			case token.EQL:
				op = token.NEQ
			case token.NEQ:
				op = token.EQL
			case token.LSS:
				op = token.GEQ
			case token.LEQ:
				op = token.GTR
			case token.GTR:
				op = token.LEQ
			case token.GEQ:
				op = token.LSS
			}
		}
		var k int64 = -1
		switch op {
		case token.GTR:
			k = 1 - c
		case token.GEQ:
			k = -c
		case token.EQL:
			k = -c
		case token.NEQ:
			if -c == 0 {
				k = 1
			}
		}
		if k > lb {
			lb = k
		}
	}
	return lb
}

// ruleIndexInRange: constant / len-1 indexes into slices are dominated by a length test; counters stay below their bound.
func (c *Ctx) ruleIndexInRange(rule string, fn *ssa.Function) {
	x := c.Index(fn)
	k := 0
	eachInstrDeep(fn, func(f *ssa.Function, in ssa.Instruction) {
		ia, ok := in.(*ssa.IndexAddr)
		if !ok {
			return
		}
		if _, isSlice := ia.X.Type().Underlying().(*types.Slice); !isSlice {
			return
		}
		// range loops index with their own counter
		if il, isL := ia.Index.(*ssa.UnOp); isL {
			if a2, isA := il.X.(*ssa.Alloc); isA && a2.Comment == "rangeindex" {
				return
			}
		}
		k++
		key := fmt.Sprintf("%s#index%d", fnName(fn), k)
		idx := x.symInt(ia.Index)
		lenS := x.symLen(ia.X)
		lb := x.lenLowerBound(ia.X, ia.Block())
		switch {
		case len(idx.terms) == 0:
			c.Check(rule, key, lb >= idx.k+1, in.Pos(), "%s[%d] needs len >= %d; the dominating tests imply len >= %d", x.Describe(ia.X), idx.k, idx.k+1, lb)
		case idx.equal(lenS.add(constForm(1), -1)):
			c.Check(rule, key, lb >= 1, in.Pos(), "%s[len-1] needs a non-empty slice; the dominating tests imply len >= %d", x.Describe(ia.X), lb)
		default:
			// a counter compared with len of the same slice
			okC := false
			if cell := x.directCell(x.lastLoad(ia.Index)); cell != nil {
				if cl := x.countedLoop(cell); cl != nil && cl.loop.Blocks[ia.Block()] {
					// counter < bound (+boundAdd) with bound (+boundAdd) <= len of the same slice
					d := x.symInt(cl.bound).add(constForm(cl.boundAdd), 1).add(lenS, -1)
					if len(d.terms) == 0 && d.k <= 0 {
						okC = true
					}
				}
			}
			// less-function parameters of sort.SliceStable are in range by sort's contract
			if p, isP := x.Origin(ia.Index).(*ssa.Parameter); isP && f.Parent() != nil && p.Parent() == f {
				okC = true
			}
			c.Check(rule, key, okC, in.Pos(), "index %s into %s is not shown to be below its length", idx, x.Describe(ia.X))
		}
	})
}

// ruleLoopInventory (R5)
func (c *Ctx) ruleLoopInventory(rule string) {
	pk := map[string]bool{pBase: true, pCore: true, pContext: true, pIter: true, pEngine: true, pBuilder: true, pTool: true}
	named := map[string]string{
		"GenginePool.getGengine": "wait loop: a request waits for a free engine (C17-W4)",
		"BinarySearch":           "binary search: every iteration returns or sets high = mid-1 / low = mid+1 with low <= mid <= high",
	}
	n := 0
	for _, f := range c.AllFns {
		if f.Pkg == nil || !pk[f.Pkg.Pkg.Path()] {
			continue
		}
		x := c.Index(f)
		for li, l := range x.Loops(f) {
			n++
			key := fmt.Sprintf("%s#loop%d", fnName(f), li+1)
			kind := ""
			// range over slice / map / counted
			for _, in := range l.Head.Instrs {
				switch t := in.(type) {
				case *ssa.Next:
					kind = "range over a map"
				case *ssa.Store:
					if al, ok := t.Addr.(*ssa.Alloc); ok && al.Comment == "rangeindex" {
						kind = "range over a slice"
					}
				case *ssa.If:
					if bo, ok := t.Cond.(*ssa.BinOp); ok && (bo.Op == token.LSS || bo.Op == token.LEQ) {
						if cell := x.Cell(bo.X); cell != nil {
							if cl := x.countedLoop(cell); cl != nil && cl.loop == l {
								kind = "counted loop"
							} else if x.monotoneCounter(cell, l) {
								kind = "counted loop"
							}
						}
					}
					// iterator loop: for it.Next()
					if call, ok := x.Origin(t.Cond).(*ssa.Call); ok && call.Call.IsInvoke() && call.Call.Method.Name() == "Next" {
						kind = "iterator loop"
					}
				}
			}
			if kind == "" {
				// ForStmt-style: every iteration increments a counter and bails out beyond a constant
				if x.cutOffLoop(l) {
					kind = "cut-off loop (counter checked against a constant maximum every iteration)"
				}
			}
			if kind == "" {
				if why, ok := named[fnName(rootOf(f))]; ok {
					kind = "named exception: " + why
				}
			}
			c.Check(rule, key, kind != "", l.Head.Instrs[0].Pos(), "%s", orStr(kind, "loop of unknown shape: its termination is not established"))
		}
	}
	c.Min(rule, 40)
	c.ruleIteratorContract(rule)
}

// ruleIteratorContract: the iterators a forRange runs on hand out every position once and end:
// Key() advances the cursor by exactly one, Next() is cursor < bound and stores nothing, the bound
// is fixed when the iterator is made.
func (c *Ctx) ruleIteratorContract(rule string) {
	// the iterator contract (S4)
	boundField := map[string]bool{}
	doneIter := map[string]bool{}
	for _, tn := range []string{"sliceIter", "mapIter", "dmIter"} {
		key := c.Fn("internal/iter", tn, "Key")
		next := c.Fn("internal/iter", tn, "Next")
		if key == nil || next == nil {
			c.Lost(rule, "iter."+tn+".Key/Next")
			continue
		}
		// a type that is an alias of another iterator shares its methods: they are checked under
		// the name of the type that declares them
		if rn := recvName(key); rn != "" && rn != tn {
			if doneIter[rn] {
				continue
			}
			tn = rn
		}
		doneIter[tn] = true
		kx := c.Index(key)
		adv := 0
		okAdv := true
		eachInstr(key, func(in ssa.Instruction) {
			st, ok := in.(*ssa.Store)
			if !ok {
				return
			}
			fa, ok := st.Addr.(*ssa.FieldAddr)
			if !ok || fieldOf(fa).Name() != "cur" {
				return
			}
			adv++
			bo, ok := kx.Origin(st.Val).(*ssa.BinOp)
			if !ok || bo.Op != token.ADD {
				okAdv = false
				return
			}
			if k, isK := constInt(bo.Y); !isK || k != 1 {
				okAdv = false
			}
			if _, is := kx.isFieldLoad(bo.X, tn, "cur"); !is {
				okAdv = false
			}
		})
		// every path returning a valid key passes the advance exactly once
		c.Check(rule, "iter."+tn+".Key#advances-by-one", adv == 1 && okAdv, key.Pos(), "Key() must advance the cursor by exactly one")
		nx := c.Index(next)
		okNext, okBound := false, true
		eachInstr(next, func(in ssa.Instruction) {
			if r, ok := in.(*ssa.Return); ok {
				if bo, ok := nx.Origin(r.Results[0]).(*ssa.BinOp); ok && bo.Op == token.LSS {
					if _, is := nx.isFieldLoad(bo.X, tn, "cur"); is {
						okNext = true
						// the length is the one taken when the iterator was made: a number or a key list
						// held in the iterator, not a question put to the live collection on every pass
						// (a body that appends to the ranged slice would then never reach the end)
						fixed := false
						y := nx.Origin(bo.Y)
						if args, isLen := builtinCall(y, "len"); isLen {
							y = nx.Origin(args[0])
						}
						if ld, isLd := y.(*ssa.UnOp); isLd && ld.Op == token.MUL {
							if fa, isFA := ld.X.(*ssa.FieldAddr); isFA && structName(fa.X.Type()) == tn && fieldOf(fa).Name() != "cur" {
								switch fieldOf(fa).Type().Underlying().(type) {
								case *types.Basic, *types.Slice:
									fixed = true
									boundField[tn+"."+fieldOf(fa).Name()] = true
								}
							}
						}
						if !fixed {
							okBound = false
						}
					}
				}
			}
		})
		c.Check(rule, "iter."+tn+".Next#cursor-below-length", okNext, next.Pos(), "Next() must be cursor < length")
		nextStores := false
		eachInstr(next, func(in ssa.Instruction) {
			if st, ok := in.(*ssa.Store); ok {
				if _, isFA := st.Addr.(*ssa.FieldAddr); isFA {
					nextStores = true
				}
			}
		})
		c.Check(rule, "iter."+tn+".Next#asks-only", !nextStores, next.Pos(), "Next() must not move the cursor: the loop asks Next() and then takes Key(), which advances")
		c.Check(rule, "iter."+tn+".Next#length-fixed-at-creation", okNext && okBound, next.Pos(), "the bound Next() compares the cursor with must be a number or key list stored in the iterator when it was made (a loop body can grow the ranged collection)")
	}
	// ... and nothing but the constructor stores that bound
	for _, f := range c.AllFns {
		if f.Pkg == nil || f.Pkg.Pkg.Path() != pIter || rootOf(f).Name() == "NewInter" {
			continue
		}
		eachInstr(f, func(in ssa.Instruction) {
			if st, ok := in.(*ssa.Store); ok {
				if fa, ok := st.Addr.(*ssa.FieldAddr); ok && boundField[structName(fa.X.Type())+"."+fieldOf(fa).Name()] {
					c.Check(rule, fnName(f)+"#bound-rewritten", false, in.Pos(), "the bound of an iterator (%s) is stored again after the iterator was made", fieldOf(fa).Name())
				}
			}
		})
	}
}

// monotoneCounter: cell is only increased by a positive constant inside the loop.
func (x *FnIndex) monotoneCounter(cell *ssa.Alloc, l *Loop) bool {
	inc := false
	for _, st := range x.stores[cell] {
		if !l.Blocks[st.Block()] {
			continue
		}
		bo, ok := st.Val.(*ssa.BinOp)
		if !ok || bo.Op != token.ADD || x.Cell(bo.X) != cell {
			return false
		}
		if k, isK := constInt(bo.Y); !isK || k <= 0 {
			return false
		}
		inc = true
	}
	return inc
}

// cutOffLoop: the loop head increments a counter and returns when it exceeds a constant.
func (x *FnIndex) cutOffLoop(l *Loop) bool {
	fn := l.Head.Parent()
	// a counter: one store inside the loop, counter = counter + 1, wherever in the body it stands
	type cand struct {
		cell *ssa.Alloc
		incr *ssa.Store
	}
	var cands []cand
	eachInstr(fn, func(in ssa.Instruction) {
		st, ok := in.(*ssa.Store)
		if !ok || !l.Blocks[st.Block()] {
			return
		}
		al, ok := st.Addr.(*ssa.Alloc)
		if !ok {
			return
		}
		bo, ok := st.Val.(*ssa.BinOp)
		if !ok || bo.Op != token.ADD || x.Cell(bo.X) != al {
			return
		}
		if k, isK := constInt(bo.Y); !isK || k != 1 {
			return
		}
		for _, o := range x.stores[al] {
			if o != st && (l.Blocks[o.Block()] || o.Parent() != fn) {
				return
			}
		}
		cands = append(cands, cand{al, st})
	})
	first := l.Head.Instrs[0]
	isHead := func(in ssa.Instruction) bool { return in == first }
	for _, cd := range cands {
		// a test counter > const (>=) whose true edge leaves the loop, or counter <= const (<)
		// whose false edge leaves it
		var iff *ssa.If
		eachInstr(fn, func(in ssa.Instruction) {
			i, ok := in.(*ssa.If)
			if !ok || !l.Blocks[i.Block()] {
				return
			}
			bo, ok := i.Cond.(*ssa.BinOp)
			if !ok || x.Cell(bo.X) != cd.cell {
				return
			}
			if _, isK := constInt(bo.Y); !isK {
				return
			}
			switch bo.Op {
			case token.GTR, token.GEQ:
				if !l.Blocks[i.Block().Succs[0]] {
					iff = i
				}
			case token.LSS, token.LEQ:
				if !l.Blocks[i.Block().Succs[1]] {
					iff = i
				}
			}
		})
		if iff == nil {
			continue
		}
		// every trip round the loop passes the increment and the test
		if _, found := pathExists(fn, first, isHead, func(in ssa.Instruction) bool { return in == ssa.Instruction(iff) }); found {
			continue
		}
		if _, found := pathExists(fn, first, isHead, func(in ssa.Instruction) bool { return in == ssa.Instruction(cd.incr) }); found {
			continue
		}
		return true
	}
	return false
}

// ruleLockOrder (R8): edges held -> acquired, including locks taken by callees one and more levels down.
func (c *Ctx) ruleLockOrder(rule string) {
	// locks a function may acquire (transitively, static callees within the product)
	acq := map[*ssa.Function]map[string]bool{}
	var acquires func(f *ssa.Function, depth int) map[string]bool
	acquires = func(f *ssa.Function, depth int) map[string]bool {
		if m, ok := acq[f]; ok {
			return m
		}
		m := map[string]bool{}
		acq[f] = m
		if f.Blocks == nil || depth > 12 {
			return m
		}
		x := c.Index(f)
		for _, op := range x.lockOps(f) {
			if op.kind == "Lock" || op.kind == "RLock" {
				m[op.mutex] = true
			}
		}
		eachInstr(f, func(in ssa.Instruction) {
			if _, isGo := in.(*ssa.Go); isGo {
				return
			}
			if cc := callCommon(in); cc != nil {
				if cal := cc.StaticCallee(); cal != nil && cal.Pkg != nil && strings.HasPrefix(cal.Pkg.Pkg.Path(), modPath) && cal.Pkg.Pkg.Path() != pParser {
					for k := range acquires(cal, depth+1) {
						m[k] = true
					}
				}
			}
		})
		return m
	}
	edges := map[string]map[string]string{}
	addEdge := func(a, b, where string) {
		if a == b || strings.HasPrefix(a, "local:") || strings.HasPrefix(b, "local:") {
			if a == b && !strings.HasPrefix(a, "local:") {
				// re-acquiring a held non-reentrant lock
				if edges[a] == nil {
					edges[a] = map[string]string{}
				}
				edges[a][b] = where
			}
			return
		}
		if edges[a] == nil {
			edges[a] = map[string]string{}
		}
		if _, ok := edges[a][b]; !ok {
			edges[a][b] = where
		}
	}
	for _, f := range c.AllFns {
		if f.Pkg == nil || f.Pkg.Pkg.Path() == pParser {
			continue
		}
		x := c.Index(f)
		for _, op := range x.lockOps(f) {
			if op.kind != "Lock" && op.kind != "RLock" {
				continue
			}
			for h := range x.mayHeldAt(op.in) {
				addEdge(h, op.mutex, c.pos(op.in.Pos()))
			}
		}
		eachInstr(f, func(in ssa.Instruction) {
			if _, isGo := in.(*ssa.Go); isGo {
				return
			}
			cc := callCommon(in)
			if cc == nil {
				return
			}
			cal := cc.StaticCallee()
			if cal == nil || cal.Pkg == nil || !strings.HasPrefix(cal.Pkg.Pkg.Path(), modPath) {
				return
			}
			held := x.mayHeldAt(in)
			if len(held) == 0 {
				return
			}
			for a := range acquires(cal, 0) {
				for h := range held {
					// different objects of the same type (another builder's buildLock) are not distinguished: conservative
					addEdge(h, a, c.pos(in.Pos()))
				}
			}
		})
	}
	// report edges, then cycles
	var names []string
	for a := range edges {
		names = append(names, a)
	}
	sort.Strings(names)
	for _, a := range names {
		var bs []string
		for b := range edges[a] {
			bs = append(bs, b)
		}
		sort.Strings(bs)
		for _, b := range bs {
			// cycle check: can b reach a?
			seen := map[string]bool{}
			st := []string{b}
			cyc := false
			for len(st) > 0 {
				n := st[len(st)-1]
				st = st[:len(st)-1]
				if n == a {
					cyc = true
					break
				}
				if seen[n] {
					continue
				}
				seen[n] = true
				for m := range edges[n] {
					st = append(st, m)
				}
			}
			c.Check(rule, a+"->"+b, !cyc, 0, "lock order edge %s -> %s (taken at %s) lies on a cycle: two goroutines can deadlock", a, b, edges[a][b])
		}
	}
	c.Min(rule, 3)
}

// ruleLockPanicSafe (R9): a fault inside a critical section must not leave the mutex held. For every
// mutex that is locked in a function without a deferred unlock covering the section, nothing that can
// fault on rule-controlled data may run while it is held: no call into reflect, no call through an
// interface or a function value (injected code), no explicit panic and no unchecked type assertion --
// directly or inside module callees. (Runtime faults of plain Go operations are not covered.)
func (c *Ctx) ruleLockPanicSafe(rule string) {
	instrFaults := c.faultFinder(nil)
	n := 0
	for _, f := range c.AllFns {
		if f.Pkg == nil || f.Pkg.Pkg.Path() == pParser || !strings.HasPrefix(f.Pkg.Pkg.Path(), modPath) {
			continue
		}
		x := c.Index(f)
		ops := x.lockOps(f)
		if len(ops) == 0 {
			continue
		}
		deferred := map[string][]ssa.Instruction{}
		for _, op := range ops {
			if op.defer_ && (op.kind == "Unlock" || op.kind == "RUnlock") {
				deferred[op.mutex] = append(deferred[op.mutex], op.in)
			}
		}
		covered := func(m string, at ssa.Instruction) bool {
			for _, d := range deferred[m] {
				if domInstr(d, at) {
					return true
				}
			}
			return false
		}
		doneMutex := map[string]bool{}
		for _, op := range ops {
			if op.defer_ || (op.kind != "Lock" && op.kind != "RLock") || doneMutex[op.mutex] {
				continue
			}
			doneMutex[op.mutex] = true
			n++
			key := fmt.Sprintf("%s#%s", fnName(f), op.mutex)
			bad, badPos := "", op.in.Pos()
			eachInstr(f, func(in ssa.Instruction) {
				if bad != "" {
					return
				}
				if typ, _, _, ok := syncCall(in); ok && typ != "" {
					return
				}
				if _, isDefer := in.(*ssa.Defer); isDefer {
					return
				}
				if _, held := x.mayHeldAt(in)[op.mutex]; !held || covered(op.mutex, in) {
					return
				}
				if why := instrFaults(in, 0); why != "" {
					bad, badPos = why, in.Pos()
				}
			})
			c.Check(rule, key, bad == "", badPos, "%s is held without a deferred unlock across %s: a fault there leaves the mutex locked and every later access blocks forever", op.mutex, bad)
			// and every ordinary way out of the function releases it
			for _, op2 := range ops {
				if op2.mutex != op.mutex || op2.defer_ || (op2.kind != "Lock" && op2.kind != "RLock") {
					continue
				}
				if !x.releasedOnAllExits(op2) {
					c.Check(rule, key+"/released-on-every-exit", false, op2.in.Pos(), "%s locked here can reach a return of %s without being unlocked: the next access blocks forever", op.mutex, fnName(f))
					break
				}
			}
		}
	}
	_ = n
}

// ruleNoZeroForAFault (R10): an element read that cannot be made is a fault, not a value. In
// MapVar.Evaluate reflect.Zero may stand in only for the absent key of a map (the false edge of IsValid() on
// a MapIndex result, C03-I5); a zero value handed up for an index outside a slice or array would let the
// statement take effect and the call return nil where the property wants an error.
func (c *Ctx) ruleNoZeroForAFault(rule string) {
	f := c.MustFn(rule, "internal/base", "MapVar", "Evaluate")
	if f == nil {
		return
	}
	x := c.Index(f)
	n, k := 0, 0
	eachInstr(f, func(in ssa.Instruction) {
		call, ok := in.(*ssa.Call)
		if !ok || !fnIs(call.Call.StaticCallee(), "reflect", "", "Zero") {
			return
		}
		n++
		k++
		okMiss := false
		for _, g := range x.GuardsOf(call.Block()) {
			if g.Pol {
				continue
			}
			iv, isCall := x.Origin(g.Cond).(*ssa.Call)
			if !isCall {
				continue
			}
			nm, cc := reflectMethod(iv)
			if cc == nil || nm != "IsValid" {
				continue
			}
			if mi, isMI := x.Origin(cc.Args[0]).(*ssa.Call); isMI {
				if nm2, c2 := reflectMethod(mi); c2 != nil && nm2 == "MapIndex" {
					okMiss = true
				}
			}
		}
		c.Check(rule, fmt.Sprintf("MapVar.Evaluate#zero%d", k), okMiss, in.Pos(), "reflect.Zero is produced here outside the `key absent from the map` edge: an unreadable element (an index outside the slice or array) must fail, not read as zero")
	})
	c.Check(rule, "MapVar.Evaluate#inventory", n > 0, f.Pos(), "%d reflect.Zero site(s) examined", n)
}

// ruleRecoverAlwaysReports (R13), see runC09.
func (c *Ctx) ruleRecoverAlwaysReports(rule string) {
	n := 0
	for _, f := range c.AllFns {
		if f.Pkg == nil || !strings.HasPrefix(f.Pkg.Pkg.Path(), modPath) || f.Pkg.Pkg.Path() == pParser {
			continue
		}
		var rec *ssa.Call
		eachInstr(f, func(in ssa.Instruction) {
			if call, ok := in.(*ssa.Call); ok {
				if bi, isB := call.Call.Value.(*ssa.Builtin); isB && bi.Name() == "recover" {
					rec = call
				}
			}
		})
		if rec == nil {
			continue
		}
		n++
		x := c.Index(f)
		isErrStore := func(in ssa.Instruction) bool {
			st, ok := in.(*ssa.Store)
			if !ok || !isErrorType(st.Val.Type()) {
				return false
			}
			if _, isFV := st.Addr.(*ssa.FreeVar); !isFV {
				if al, isAl := x.ResolveAddr(st.Addr).(*ssa.Alloc); !isAl || al.Parent() == f {
					return false
				}
			}
			return isNewError(st.Val) || neverNil(st.Val)
		}
		var starts []ssa.Instruction
		for _, b := range f.Blocks {
			iff, isIf := b.Instrs[len(b.Instrs)-1].(*ssa.If)
			if !isIf {
				continue
			}
			v, neq, isNil := nilCheck(iff.Cond)
			if !isNil || x.Origin(v) != ssa.Value(rec) {
				continue
			}
			succ := b.Succs[1]
			if neq {
				succ = b.Succs[0]
			}
			starts = append(starts, succ.Instrs[0])
		}
		key := fnName(rootOf(f)) + "#recover"
		if f.Parent() != nil {
			key = fnName(f) + "#recover"
		}
		if len(starts) == 0 {
			c.Check(rule, key, false, rec.Pos(), "the value recover() returned is not tested against nil: not analysable")
			continue
		}
		bad := false
		for _, s0 := range starts {
			if isErrStore(s0) {
				continue
			}
			if _, silent := pathFrom(s0, isReturn, isErrStore); silent {
				bad = true
			}
		}
		c.Check(rule, key, !bad, rec.Pos(), "after recover() returned a panic value a way leads to the end of the function without a new error being stored into an error variable of the enclosing function: that panic would count as success")
	}
	if n == 0 {
		c.Lost(rule, "calls of recover()")
	}
	c.Min(rule, 5)
}

// ruleRecoverHandlersCannotFault (R14): the function that calls recover() has consumed the panic by
// then; a fault of its own (a slice cut at a position that can be negative, an index, an unchecked
// type assertion, a division, a panic) is a new panic with nothing above it in a goroutine of a conc
// block. Checked: a slice expression starts at nothing, at a non-negative constant, or at a value the
// handler has tested against a lower bound; no index expression on a non-constant index, no
// unchecked assertion, no division, no panic.
func (c *Ctx) ruleRecoverHandlersCannotFault(rule string) {
	n := 0
	for _, f := range c.AllFns {
		if f.Pkg == nil || !strings.HasPrefix(f.Pkg.Pkg.Path(), modPath) || f.Pkg.Pkg.Path() == pParser {
			continue
		}
		calls := false
		eachInstr(f, func(in ssa.Instruction) {
			if call, ok := in.(*ssa.Call); ok {
				if bi, isB := call.Call.Value.(*ssa.Builtin); isB && bi.Name() == "recover" {
					calls = true
				}
			}
		})
		if !calls {
			continue
		}
		n++
		x := c.Index(f)
		bad := ""
		var badPos token.Pos
		lowerBounded := func(v ssa.Value, at *ssa.BasicBlock) bool {
			cell := x.Cell(v)
			for _, g := range x.GuardsOf(at) {
				bo, ok := g.Cond.(*ssa.BinOp)
				if !ok {
					continue
				}
				same := func(a ssa.Value) bool {
					return x.sameValue(a, v) || (cell != nil && x.Cell(a) == cell)
				}
				switch {
				case same(bo.X) && ((bo.Op == token.GEQ || bo.Op == token.GTR) == g.Pol) && (bo.Op == token.GEQ || bo.Op == token.GTR || bo.Op == token.LSS || bo.Op == token.LEQ):
					return true
				case same(bo.X) && bo.Op == token.NEQ && g.Pol, same(bo.X) && bo.Op == token.EQL && !g.Pol:
					return true
				case same(bo.Y) && ((bo.Op == token.LEQ || bo.Op == token.LSS) == g.Pol) && (bo.Op == token.GEQ || bo.Op == token.GTR || bo.Op == token.LSS || bo.Op == token.LEQ):
					return true
				}
			}
			return false
		}
		eachInstr(f, func(in ssa.Instruction) {
			switch t := in.(type) {
			case *ssa.Slice:
				if t.Low == nil {
					return
				}
				if k, isK := constInt(x.Origin(t.Low)); isK && k >= 0 {
					return
				}
				if _, isLen := builtinCall(x.Origin(t.Low), "len"); isLen {
					return
				}
				if lowerBounded(t.Low, in.Block()) {
					return
				}
				bad, badPos = "a slice expression starting at "+x.Describe(t.Low)+", which is not shown to be non-negative", in.Pos()
			case *ssa.TypeAssert:
				if !t.CommaOk && x.Origin(t) == ssa.Value(t) {
					bad, badPos = "an unchecked type assertion", in.Pos()
				}
			case *ssa.BinOp:
				if t.Op == token.QUO || t.Op == token.REM {
					if k, isK := constInt(x.Origin(t.Y)); !isK || k == 0 {
						bad, badPos = "a division", in.Pos()
					}
				}
			case *ssa.Panic:
				bad, badPos = "a panic", in.Pos()
			}
		})
		c.Check(rule, fnName(rootOf(f))+"#"+fnName(f), bad == "", orPos(badPos, f.Pos()), "the function that recovers contains %s: the panic it recovered is gone by then, this one escapes", orStr(bad, "nothing that can fault"))
	}
	c.Min(rule, 4)
}

// faultFinder returns a function that says why an instruction can fault on rule-controlled data: a
// call into reflect (but for the total functions named in harmless), a call through an interface or a
// function value, an explicit panic, an unchecked type assertion -- directly or inside module callees.
func (c *Ctx) faultFinder(harmless map[string]bool) func(in ssa.Instruction, depth int) string {
	memo := map[*ssa.Function]string{}
	var faulty func(f *ssa.Function, depth int) string
	var instrFaults func(in ssa.Instruction, depth int) string
	instrFaults = func(in ssa.Instruction, depth int) string {
		switch t := in.(type) {
		case *ssa.Panic:
			return "an explicit panic"
		case *ssa.TypeAssert:
			if !t.CommaOk && c.Index(in.Parent()).Origin(t) == ssa.Value(t) {
				return "an unchecked type assertion"
			}
			return ""
		case *ssa.Go:
			return ""
		}
		cc := callCommon(in)
		if cc == nil {
			return ""
		}
		if cc.IsInvoke() {
			if isErrorType(cc.Value.Type()) {
				return ""
			}
			return "a call through an interface (" + cc.Method.Name() + ")"
		}
		if _, isB := cc.Value.(*ssa.Builtin); isB {
			return ""
		}
		cal := cc.StaticCallee()
		if cal == nil {
			return "a call through a function value"
		}
		if cal.Pkg == nil && cal.Signature.Recv() == nil && cal.Synthetic == "" {
			return ""
		}
		path := ""
		if cal.Pkg != nil {
			path = cal.Pkg.Pkg.Path()
		} else if r := cal.Signature.Recv(); r != nil {
			if n, ok := derefType(r.Type()).(*types.Named); ok && n.Obj().Pkg() != nil {
				path = n.Obj().Pkg().Path()
			}
		}
		switch {
		case path == "reflect":
			if harmless[cal.Name()] {
				return ""
			}
			return "a call into reflect (" + cal.Name() + ")"
		case strings.HasPrefix(path, modPath):
			if depth > 6 {
				return "a call chain too deep to follow (" + fnName(cal) + ")"
			}
			if why := faulty(cal, depth+1); why != "" {
				return fnName(cal) + ", which contains " + why
			}
		}
		return ""
	}
	faulty = func(f *ssa.Function, depth int) string {
		if why, ok := memo[f]; ok {
			return why
		}
		memo[f] = ""
		why := ""
		eachInstr(f, func(in ssa.Instruction) {
			if why == "" {
				why = instrFaults(in, depth)
			}
		})
		memo[f] = why
		return why
	}
	return instrFaults
}
