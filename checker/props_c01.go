package main

import (
	"fmt"
	"go/ast"
	"go/constant"
	"go/token"
	"go/types"
	"regexp"
	"sort"
	"strconv"
	"strings"

	"golang.org/x/tools/go/ssa"
)

func init() {
	register("C01", runC01, propMeta{
		Explanation: "(E7) every return of ExpressionAtom.Evaluate hands on the first result of DataContext.GetValue or of the child node's Evaluate unchanged: an operand reaches the operators as it was read. Decides, table row by table row, which operation is applied to which operands at which width; it does not compute results. (G1) precedence and associativity from the generated parser: in mathExpression and expression every binary alternative is (precedence predicate k, operator rule, recursive call with k+1) — left associative —, k(mul/div) > k(plus/minus) > 0, k(comparison) > k(logical) > 0, one logical alternative whose operator rule accepts exactly && and ||, the Sempred tables repeat the same k's, the primary alternatives are mathExpression(0) / [!] atom / [!] ( expression(0) ), and mathExpression can reach expression only through an atom's call arguments, so arithmetic binds tighter than comparison; thorough tier: the serialized ATN is decoded and its precedence-predicate transitions compared with the same table; (G2) the listener stores each operator's text into the field of the same name on the enclosing node and Accept* fills Left before Right, so the first child is the left operand; (E1) MathExpression.Evaluate dispatches + - * / (exhaustive over the two operator rules' tokens) to core.Add/Sub/Mul/Div(left value, right value); (E2) by kind-specialised constant propagation over all 15x15 kind pairs of each core function: the only non-error result is `a <op> b` with the function's own operator, left operand read from a and right from b with the accessor of their class, in int64 (signed or mixed), uint64 (both unsigned) or float64 (a float involved), string concatenation a then b for Add only, every other pair reaches only error returns, and every division is reached only over the non-zero edge of a test of b read with its own accessor; (E3) comparison: numberClass/TypeMap cover the 12 numeric kinds, compareNumbers by class pair compares integers as int64/uint64 (mixed signs by a sign test, then uint64) and reaches a float conversion only when a float is involved, its three results are <, ==, > of the same operands left-from-left right-from-right, the six comparison tokens map to eq, !eq, gt, lt, gt||eq, lt||eq, string comparison uses the six Go operators on .String() left-to-right, bool only == and !=, && and || evaluate .Bool() of both sides with the Go operator of the same spelling under a both-bool guard; (E4) `!` is applied last, to a value checked to be bool; (E5) @name/@desc/@sal/@id take the listener's per-rule fields, which are set from the rule header and reset at every rule entry, @id = ParseInt(name,10,64) or 0; literals use ParseInt(…,10,64), ParseFloat(…,64), ParseBool; (E6) every path of these evaluators that is not one of the rows returns a non-nil error. E3 closes with: every freshly computed boolean that becomes an expression's result is produced under an operator case that has evaluated both operands and established both kinds (no answer from one operand alone). In a well-typed arithmetic row no error return is reachable (Div: only over the zero edge of the divisor test). Not decided: numeric results, strconv/lexer behaviour, ANTLR's adaptive prediction engine (the tables it consumes are checked), stack depth. (G3) the node a handler of the expression level takes off the listener's stack is handed to its parent on every path, and every Accept* method of Expression / MathExpression / ExpressionAtom / MapVar stores its parameter itself: the tree evaluated is the tree parsed. Every value MathExpression.Evaluate returns is reflect.ValueOf of the first result of core.Add / Sub / Mul / Div, or the value of its only child (value-from-the-operator-table). A literal handler hands on the result of its strconv call unconverted: a real literal is a float64 also when it has no fractional part.",
		Assumptions: []string{"Go's int64/uint64/float64 operators (wrapping, truncating division)", "fmt.Sprintf(\"%s%s\") concatenates", "ANTLR interprets precedence predicates as documented"},
		Trusted:     append([]string{"antlr4 Go runtime ATN deserializer (thorough tier only, decoding a constant table)"}, commonTrusted...),
	})
}

// ---- parser rule graph ------------------------------------------------------

func (c *Ctx) parserRuleOf(f *ssa.Function) string {
	if f == nil || recvName(f) != "gengineParser" || f.Signature.Results().Len() != 1 {
		return ""
	}
	n := namedOf(f.Signature.Results().At(0).Type())
	if n == nil {
		return ""
	}
	nm := n.Obj().Name()
	if !strings.HasPrefix(nm, "I") || !strings.HasSuffix(nm, "Context") {
		return ""
	}
	return strings.TrimSuffix(strings.TrimPrefix(nm, "I"), "Context")
}

type binAlt struct {
	k     int64
	op    string
	kNext int64
	pos   token.Pos
}

// leftRecursive analyses p.<rule>(_p int).
func (c *Ctx) leftRecursive(rule string) (alts []binAlt, primaries map[string][]int64, fn *ssa.Function) {
	lc := strings.ToLower(rule[:1]) + rule[1:]
	for _, f := range c.Methods("internal/iantlr/alr", "gengineParser") {
		if f.Name() == lc && len(f.Params) == 2 {
			fn = f
		}
	}
	if fn == nil {
		return
	}
	var preds []*ssa.Call
	eachInstr(fn, func(in ssa.Instruction) {
		if call, ok := in.(*ssa.Call); ok && call.Call.StaticCallee() != nil && call.Call.StaticCallee().Name() == "Precpred" {
			preds = append(preds, call)
		}
	})
	primaries = map[string][]int64{}
	owner := func(in ssa.Instruction) *ssa.Call {
		var best *ssa.Call
		for _, p := range preds {
			if domInstr(p, in) && (best == nil || domInstr(best, p)) {
				best = p
			}
		}
		return best
	}
	byPred := map[*ssa.Call]*binAlt{}
	for _, p := range preds {
		k, _ := constInt(p.Call.Args[len(p.Call.Args)-1])
		byPred[p] = &binAlt{k: k, kNext: -1, pos: p.Pos()}
	}
	eachInstr(fn, func(in ssa.Instruction) {
		call, ok := in.(*ssa.Call)
		if !ok {
			return
		}
		cal := call.Call.StaticCallee()
		r := c.parserRuleOf(cal)
		if r == "" {
			return
		}
		o := owner(call)
		arg := int64(-1)
		if len(call.Call.Args) == 2 {
			arg, _ = constInt(call.Call.Args[1])
		}
		if o == nil {
			primaries[r] = append(primaries[r], arg)
			return
		}
		a := byPred[o]
		if cal == fn {
			a.kNext = arg
		} else if strings.HasSuffix(r, "Operator") {
			a.op = r
		} else {
			a.op += "+" + r
		}
	})
	for _, p := range preds {
		alts = append(alts, *byPred[p])
	}
	sort.Slice(alts, func(i, j int) bool { return alts[i].pos < alts[j].pos })
	return
}

// sempredConsts: the precedences of the predicate table, ordered by predicate index (switch case).
func (c *Ctx) sempredConsts(name string) []int64 {
	type ent struct{ idx, k int64 }
	var es []ent
	for _, f := range c.Methods("internal/iantlr/alr", "gengineParser") {
		if f.Name() != name {
			continue
		}
		x := c.Index(f)
		eachInstr(f, func(in ssa.Instruction) {
			if call, ok := in.(*ssa.Call); ok && call.Call.StaticCallee() != nil && call.Call.StaticCallee().Name() == "Precpred" {
				k, ok := constInt(call.Call.Args[len(call.Call.Args)-1])
				if !ok {
					return
				}
				idx := int64(-1)
				for _, g := range x.GuardsOf(call.Block()) {
					if bo, isB := g.Cond.(*ssa.BinOp); isB && bo.Op == token.EQL && g.Pol {
						if _, isP := x.Origin(bo.X).(*ssa.Parameter); isP {
							idx, _ = constInt(bo.Y)
						}
					}
				}
				es = append(es, ent{idx, k})
			}
		})
	}
	sort.Slice(es, func(i, j int) bool { return es[i].idx < es[j].idx })
	var out []int64
	for _, e := range es {
		out = append(out, e.k)
	}
	return out
}

func (c *Ctx) ruleG1(rule string) {
	me, mePrim, meFn := c.leftRecursive("MathExpression")
	ex, exPrim, exFn := c.leftRecursive("Expression")
	if meFn == nil || exFn == nil {
		c.Lost(rule, "the left-recursive rule methods mathExpression(_p) / expression(_p) of the generated parser")
		return
	}
	find := func(alts []binAlt, op string) []binAlt {
		var out []binAlt
		for _, a := range alts {
			if a.op == op {
				out = append(out, a)
			}
		}
		return out
	}
	md, pm := find(me, "MathMdOperator"), find(me, "MathPmOperator")
	cmp, lg := find(ex, "ComparisonOperator"), find(ex, "LogicalOperator")
	c.Check(rule, "mathExpression#alternatives", len(me) == 2 && len(md) == 1 && len(pm) == 1, meFn.Pos(), "mathExpression must have exactly the two binary alternatives (mul/div, plus/minus); found %v", me)
	c.Check(rule, "expression#alternatives", len(ex) == 2 && len(cmp) == 1 && len(lg) == 1, exFn.Pos(), "expression must have exactly the two binary alternatives (comparison, logical); found %v", ex)
	if len(md) == 1 && len(pm) == 1 {
		c.Check(rule, "mathExpression#mul-binds-tighter", md[0].k > pm[0].k && pm[0].k > 0, md[0].pos, "precedence of * / is %d, of + - is %d (want mul/div > plus/minus > 0)", md[0].k, pm[0].k)
	}
	if len(cmp) == 1 && len(lg) == 1 {
		c.Check(rule, "expression#comparison-binds-tighter", cmp[0].k > lg[0].k && lg[0].k > 0, cmp[0].pos, "precedence of comparison is %d, of && || is %d (want comparison > logical > 0)", cmp[0].k, lg[0].k)
	}
	for _, a := range append(append([]binAlt{}, me...), ex...) {
		c.Check(rule, a.op+"#left-associative", a.kNext == a.k+1, a.pos, "alternative with precedence %d recurses on its right operand with %d (want %d: left associativity)", a.k, a.kNext, a.k+1)
	}
	// sempred tables
	eq := func(a []binAlt, b []int64) bool {
		if len(a) != len(b) {
			return false
		}
		for i := range a {
			if a[i].k != b[i] {
				return false
			}
		}
		return true
	}
	c.Check(rule, "MathExpression_Sempred", eq(me, c.sempredConsts("MathExpression_Sempred")), meFn.Pos(), "the predicate table used during prediction must give alternative i (in source order) the same precedence as the rule method: %v, table by predicate index %v", me, c.sempredConsts("MathExpression_Sempred"))
	c.Check(rule, "Expression_Sempred", eq(ex, c.sempredConsts("Expression_Sempred")), exFn.Pos(), "the predicate table used during prediction must give alternative i (in source order) the same precedence as the rule method: %v, table by predicate index %v", ex, c.sempredConsts("Expression_Sempred"))
	// primaries
	okP := func(prim map[string][]int64, want map[string]bool, self string) (bool, string) {
		var got []string
		ok := true
		for r, args := range prim {
			got = append(got, r)
			if !want[r] {
				ok = false
			}
			if r == self || r == "MathExpression" {
				for _, a := range args {
					if a != 0 {
						ok = false
					}
				}
			}
		}
		for r := range want {
			if _, has := prim[r]; !has {
				ok = false
			}
		}
		sort.Strings(got)
		return ok, strings.Join(got, ",")
	}
	ok1, g1 := okP(mePrim, map[string]bool{"ExpressionAtom": true, "MathExpression": true}, "MathExpression")
	c.Check(rule, "mathExpression#primaries", ok1, meFn.Pos(), "primary alternatives of mathExpression call {%s}; want atom and ( mathExpression(0) )", g1)
	ok2, g2 := okP(exPrim, map[string]bool{"MathExpression": true, "NotOperator": true, "ExpressionAtom": true, "Expression": true}, "Expression")
	c.Check(rule, "expression#primaries", ok2, exFn.Pos(), "primary alternatives of expression call {%s}; want mathExpression(0), [!] atom, [!] ( expression(0) )", g2)
	// operator token sets
	want := map[string][]string{"MathMdOperator": {"*", "/"}, "MathPmOperator": {"+", "-"}, "LogicalOperator": {"&&", "||"}, "ComparisonOperator": {"!=", "<", "<=", "==", ">", ">="}, "NotOperator": {"!"}}
	for r, w := range want {
		got := c.ruleLiterals(r)
		c.Check(rule, r+"#tokens", strings.Join(got, " ") == strings.Join(w, " "), 0, "operator rule %s accepts %v (want %v)", r, got, w)
	}
	c.Min(rule, 15)
}

// ---- G2 ---------------------------------------------------------------------

func (c *Ctx) ruleG2(rule string) {
	for _, spec := range [][4]string{{"Expression", "AcceptExpression", "ExpressionLeft", "ExpressionRight"}, {"MathExpression", "AcceptMathExpression", "MathExpressionLeft", "MathExpressionRight"}} {
		f := c.MustFn(rule, "internal/base", spec[0], spec[1])
		if f == nil {
			continue
		}
		x := c.Index(f)
		recv := ssa.Value(f.Params[0])
		storeGuards := func(field string) (bool, []Guard) {
			var gs []Guard
			found := false
			eachInstr(f, func(in ssa.Instruction) {
				st, ok := in.(*ssa.Store)
				if !ok {
					return
				}
				fa, ok := st.Addr.(*ssa.FieldAddr)
				if !ok || fieldOf(fa).Name() != field || x.Origin(fa.X) != recv || x.Origin(st.Val) != ssa.Value(f.Params[1]) {
					return
				}
				found = true
				gs = x.GuardsOf(st.Block())
			})
			return found, gs
		}
		nilKnown := func(gs []Guard, field string, wantNil bool) bool {
			for _, g := range gs {
				if s, neq, ok := nilCheck(g.Cond); ok {
					if b, is := x.isFieldLoad(s, spec[0], field); is && x.Origin(b) == recv {
						isNil := (neq && !g.Pol) || (!neq && g.Pol)
						if isNil == wantNil {
							return true
						}
					}
				}
			}
			return false
		}
		fl, gl := storeGuards(spec[2])
		fr, gr := storeGuards(spec[3])
		c.Check(rule, spec[0]+"."+spec[1]+"#left-first", fl && nilKnown(gl, spec[2], true), f.Pos(), "the first child must become the left operand (stored when Left is still nil)")
		c.Check(rule, spec[0]+"."+spec[1]+"#right-second", fr && nilKnown(gr, spec[2], false) && nilKnown(gr, spec[3], true), f.Pos(), "the second child must become the right operand (stored only when Left is already set and Right is nil)")
	}
	table := [][3]string{{"ExitMathPmOperator", "MathExpression", "MathPmOperator"}, {"ExitMathMdOperator", "MathExpression", "MathMdOperator"}, {"ExitComparisonOperator", "Expression", "ComparisonOperator"}, {"ExitLogicalOperator", "Expression", "LogicalOperator"}, {"ExitNotOperator", "Expression", "NotOperator"}, {"ExitAssignOperator", "Assignment", "AssignOperator"}}
	for _, t := range table {
		f := c.MustFn(rule, "internal/iparser", "GengineParserListener", t[0])
		if f == nil {
			continue
		}
		x := c.Index(f)
		ok := false
		n := 0
		eachInstr(f, func(in ssa.Instruction) {
			st, isSt := in.(*ssa.Store)
			if !isSt {
				return
			}
			fa, isFA := st.Addr.(*ssa.FieldAddr)
			if !isFA || structName(fa.X.Type()) == "GengineParserListener" {
				return
			}
			if _, isAlloc := fa.X.(*ssa.Alloc); isAlloc {
				return
			}
			n++
			if structName(fa.X.Type()) != t[1] || fieldOf(fa).Name() != t[2] {
				return
			}
			// node: Peek().(*base.T); value: ctx.GetText()
			ta, isTA := x.Origin(fa.X).(*ssa.TypeAssert)
			if !isTA {
				return
			}
			if pc, isCall := x.Origin(ta.X).(*ssa.Call); !isCall || pc.Call.StaticCallee() == nil || pc.Call.StaticCallee().Name() != "Peek" {
				return
			}
			if gc, isCall := x.Origin(st.Val).(*ssa.Call); isCall && gc.Call.StaticCallee() != nil && gc.Call.StaticCallee().Name() == "GetText" && x.recognizerOf(gc.Call.Args[0]) == ssa.Value(f.Params[1]) {
				ok = true
			}
		})
		c.Check(rule, t[0], ok && n == 1, f.Pos(), "%s must store the operator's own text into %s.%s of the enclosing node, and nothing else", t[0], t[1], t[2])
	}
	c.Min(rule, 10)
}

// ---- E1 -----------------------------------------------------------------------

func (c *Ctx) ruleE1(rule string) {
	f := c.MustFn(rule, "internal/base", "MathExpression", "Evaluate")
	if f == nil {
		return
	}
	x := c.Index(f)
	recv := ssa.Value(f.Params[0])
	table := map[string][2]string{"+": {"MathPmOperator", "Add"}, "-": {"MathPmOperator", "Sub"}, "*": {"MathMdOperator", "Mul"}, "/": {"MathMdOperator", "Div"}}
	tests := append(x.stringTests(f, "MathExpression", "MathPmOperator"), x.stringTests(f, "MathExpression", "MathMdOperator")...)
	lits := append(c.ruleLiterals("MathPmOperator"), c.ruleLiterals("MathMdOperator")...)
	sort.Strings(lits)
	seen := map[string]bool{}
	operand := func(v ssa.Value, field string) bool {
		ex, ok := x.Origin(v).(*ssa.Extract)
		if !ok || ex.Index != 0 {
			return false
		}
		call, ok := ex.Tuple.(*ssa.Call)
		if !ok || !calleeIs(call, pBase, "MathExpression", "Evaluate") {
			return false
		}
		b, is := x.isFieldLoad(call.Call.Args[0], "MathExpression", field)
		return is && x.Origin(b) == recv
	}
	for _, t := range tests {
		row, known := table[t.lit]
		key := "MathExpression.Evaluate#operator " + t.lit
		if !known {
			c.Check(rule, key, false, t.iff.Pos(), "operator %q is tested but the grammar cannot produce it", t.lit)
			continue
		}
		seen[t.lit] = true
		bo := t.iff.Cond.(*ssa.BinOp)
		_, okField := x.isFieldLoad(bo.X, "MathExpression", row[0])
		var core *ssa.Call
		eachInstr(f, func(in ssa.Instruction) {
			if call, ok := in.(*ssa.Call); ok && call.Call.StaticCallee() != nil && call.Call.StaticCallee().Pkg != nil && call.Call.StaticCallee().Pkg.Pkg.Path() == pCore && x.edgeDominated(t.iff.Block(), t.edge)[call.Block()] {
				if core == nil {
					core = call
				}
			}
		})
		if core == nil {
			c.Check(rule, key, false, t.iff.Pos(), "%q does not reach a core arithmetic function", t.lit)
			continue
		}
		okFn := core.Call.StaticCallee().Name() == row[1]
		okArgs := operand(core.Call.Args[0], "MathExpressionLeft") && operand(core.Call.Args[1], "MathExpressionRight")
		// the result of that call is what is returned: at every return the call can reach
		// whose value is reflect.ValueOf(..), the wrapped value, on executions through this
		// call, is its first result (directly, or through a result variable shared by the
		// operators)
		okRet := false
		bad := false
		eachInstr(f, func(in ssa.Instruction) {
			r, ok := in.(*ssa.Return)
			if !ok || r.Block() == f.Recover {
				return
			}
			if _, reach := pathExists(f, core, func(i2 ssa.Instruction) bool { return i2 == in }, nil); !reach {
				return
			}
			for _, rv := range x.valuesVia(f, core, r, r.Results[0]) {
				vo, ok := rv.(*ssa.Call)
				if !ok || !fnIs(vo.Call.StaticCallee(), "reflect", "", "ValueOf") {
					continue
				}
				if c0, isC := x.Unwrap(vo.Call.Args[0]).(*ssa.Const); isC && c0.IsNil() {
					continue // reflect.ValueOf(nil) accompanies an error
				}
				for _, w := range x.valuesVia(f, core, vo, x.Unwrap(vo.Call.Args[0])) {
					if ex, ok := x.Unwrap(w).(*ssa.Extract); ok && ex.Tuple == ssa.Value(core) && ex.Index == 0 {
						okRet = true
					} else {
						bad = true
					}
				}
			}
		})
		okRet = okRet && !bad
		c.Check(rule, key, okField && okFn && okArgs && okRet, core.Pos(), "%q must be core.%s(left value, right value), tested on %s, result returned: calls core.%s, field ok %v, operands in order %v, result returned %v", t.lit, row[1], row[0], core.Call.StaticCallee().Name(), okField, okArgs, okRet)
	}
	for _, l := range lits {
		if !seen[l] {
			c.Check(rule, "MathExpression.Evaluate#operator "+l, false, f.Pos(), "the grammar produces the arithmetic operator %q but the evaluator has no branch for it", l)
		}
	}
	c.Min(rule, 4)
}

// ---- E2 -----------------------------------------------------------------------

var allKinds = []string{"int", "int8", "int16", "int32", "int64", "uint", "uint8", "uint16", "uint32", "uint64", "float32", "float64", "string", "bool", "struct"}

func numClass(k string) string {
	switch {
	case strings.HasPrefix(k, "uint"):
		return "uint"
	case strings.HasPrefix(k, "int"):
		return "int"
	case strings.HasPrefix(k, "float"):
		return "float"
	}
	return ""
}

// operandOf: v is [conv](p.Acc()); returns parameter, accessor class, static type.
func (x *FnIndex) operandOf(v ssa.Value) (*ssa.Parameter, string, string) {
	acc, recv, typ := x.accessorOf(v)
	if acc == "" {
		return nil, "", ""
	}
	p, _ := x.Origin(recv).(*ssa.Parameter)
	return p, accessorClass[acc], basicName(typ)
}

func (c *Ctx) ruleE2(rule string) {
	ops := map[string]token.Token{"Add": token.ADD, "Sub": token.SUB, "Mul": token.MUL, "Div": token.QUO}
	kindConst := c.reflectKindNames()
	for _, name := range []string{"Add", "Sub", "Mul", "Div"} {
		f := c.MustFn(rule, "internal/core", "", name)
		if f == nil {
			continue
		}
		x := c.Index(f)
		a, b := f.Params[0], f.Params[1]
		// zero-divisor tests: `b.Acc() == 0` ; mark = its false edge
		zeroTestOf := func(cond ssa.Value) (string, bool) {
			bo, ok := cond.(*ssa.BinOp)
			if !ok || bo.Op != token.EQL {
				return "", false
			}
			p, cls, _ := x.operandOf(bo.X)
			isZero := false
			if k, isK := constInt(bo.Y); isK && k == 0 {
				isZero = true
			}
			if cf, isC := bo.Y.(*ssa.Const); isC && cf.Value != nil && cf.Value.Kind().String() == "Float" {
				if v, _ := strconv.ParseFloat(cf.Value.ExactString(), 64); v == 0 {
					isZero = true
				}
			}
			return cls, p == b && isZero
		}
		zeroTests := map[*ssa.BasicBlock]string{}
		for _, blk := range f.Blocks {
			iff, ok := blk.Instrs[len(blk.Instrs)-1].(*ssa.If)
			if !ok {
				continue
			}
			if cls, is := zeroTestOf(iff.Cond); is {
				zeroTests[blk] = cls
			}
		}
		bad := 0
		rows := 0
		for _, ka := range allKinds {
			for _, kb := range allKinds {
				env := &kenv{x: x, kindOf: map[ssa.Value]string{a: ka, b: kb}}
				var testedCls string
				// the test may first be put into a bool variable (`zero := b.Int() == 0` in a
				// helper): at the branch on that variable it is the same test
				env.condMark = func(cond ssa.Value, succ int) bool {
					if cls, is := zeroTestOf(cond); is && succ == 1 {
						testedCls = cls
						return true
					}
					return false
				}
				reach := env.explore(f, kindConst, func(blk *ssa.BasicBlock, succ int) bool {
					if cls, ok := zeroTests[blk]; ok && succ == 1 {
						testedCls = cls
						return true
					}
					return false
				})
				ca, cb := numClass(ka), numClass(kb)
				wantType := ""
				switch {
				case ca == "" || cb == "":
				case ca == "float" || cb == "float":
					wantType = "float64"
				case ca == "uint" && cb == "uint":
					wantType = "uint64"
				default:
					wantType = "int64"
				}
				isConcat := name == "Add" && ka == "string" && kb == "string"
				valueReturns := 0
				why := ""
				for _, r := range reach {
					res := x.Unwrap(r.ret.Results[0])
					errv := x.Origin(r.ret.Results[1])
					if isConstNil(res) {
						if !isNewError(errv) {
							why = "a return yields neither a value nor an error"
						}
						// a well-typed operation has a value: the only failure the language knows is the
						// division by zero (reached over the "is zero" edge of the divisor test)
						if (wantType != "" || isConcat) && (name != "Div" || r.marked) {
							why = "a well-typed operation can end in an error (" + c.pos(r.ret.Pos()) + "): integer arithmetic wraps, only a division by zero fails"
						}
						continue
					}
					valueReturns++
					if !isConstNil(errv) {
						why = "a value is returned together with an error"
					}
					switch {
					case isConcat:
						call, ok := res.(*ssa.Call)
						okC := ok && fnIs(call.Call.StaticCallee(), "fmt", "", "Sprintf")
						if okC {
							f0, _ := constString(call.Call.Args[0])
							els := x.variadicElems(call.Call.Args[1])
							okC = f0 == "%s%s" && len(els) == 2
							if okC {
								p0, c0, _ := x.operandOf(els[0])
								p1, c1, _ := x.operandOf(els[1])
								okC = p0 == a && p1 == b && c0 == "string" && c1 == "string"
							}
						}
						if !okC {
							// the Go operator on the two String() reads, left then right
							if bo, isBo := res.(*ssa.BinOp); isBo && bo.Op == token.ADD {
								p0, c0, _ := x.operandOf(bo.X)
								p1, c1, _ := x.operandOf(bo.Y)
								okC = p0 == a && p1 == b && c0 == "string" && c1 == "string"
							}
						}
						if !okC {
							why = "string + string is not the concatenation of a then b"
						}
					case wantType == "":
						why = fmt.Sprintf("an ill-typed operation yields the value %s instead of an error", x.Describe(res))
					default:
						bo, ok := res.(*ssa.BinOp)
						if !ok || bo.Op != ops[name] {
							why = fmt.Sprintf("result is %s, not a %s b", x.Describe(res), ops[name])
							break
						}
						// an operand read through a variable that holds, on this path, the result of a
						// conversion helper
						onPath := func(v ssa.Value) ssa.Value {
							for k := 0; k < 4; k++ {
								u, isLd := v.(*ssa.UnOp)
								if !isLd || u.Op != token.MUL {
									break
								}
								al, isAl := u.X.(*ssa.Alloc)
								if !isAl || r.vals[al] == nil {
									break
								}
								v = r.vals[al]
							}
							return v
						}
						pa, cla, ta := x.operandOf(onPath(bo.X))
						pb, clb, tb := x.operandOf(onPath(bo.Y))
						switch {
						case pa != a || pb != b:
							why = "operands are not (a, b) in this order"
						case cla != ca || clb != cb:
							why = fmt.Sprintf("operands read as %s/%s for kinds %s/%s", cla, clb, ka, kb)
						case ta != wantType || tb != wantType || basicName(bo.Type()) != wantType:
							why = fmt.Sprintf("computed in %s/%s, want %s", ta, tb, wantType)
						}
						if name == "Div" && why == "" {
							if !r.marked {
								why = "the division is reachable without the zero-divisor test"
							} else if testedCls != cb {
								why = fmt.Sprintf("the zero test reads the divisor as %s, its kind is %s", testedCls, kb)
							}
						}
					}
				}
				if (wantType != "" || isConcat) && valueReturns != 1 && why == "" {
					why = fmt.Sprintf("%d value-returning paths (want exactly one)", valueReturns)
				}
				rows++
				if why != "" {
					bad++
					c.Check(rule, fmt.Sprintf("core.%s#%s,%s", name, ka, kb), false, f.Pos(), "core.%s for operand kinds (%s, %s): %s", name, ka, kb, why)
				}
			}
		}
		c.Check(rule, "core."+name+"#all-kind-pairs", bad == 0, f.Pos(), "%d kind pairs explored, %d wrong", rows, bad)
		c.extra["kind_pairs_"+name] = rows
	}
	c.Min(rule, 4)
}

// ---- E3 -----------------------------------------------------------------------

func (c *Ctx) typeMapKeys() (keys map[string]bool, identity bool) {
	keys = map[string]bool{}
	identity = true
	p := c.Pkgs[pBase]
	for _, file := range p.Syntax {
		ast.Inspect(file, func(n ast.Node) bool {
			vs, ok := n.(*ast.ValueSpec)
			if !ok || len(vs.Names) != 1 || vs.Names[0].Name != "TypeMap" || len(vs.Values) != 1 {
				return true
			}
			cl, ok := vs.Values[0].(*ast.CompositeLit)
			if !ok {
				return true
			}
			for _, e := range cl.Elts {
				kv, ok := e.(*ast.KeyValueExpr)
				if !ok {
					identity = false
					continue
				}
				k, ok1 := kv.Key.(*ast.BasicLit)
				v, ok2 := kv.Value.(*ast.BasicLit)
				if !ok1 || !ok2 {
					identity = false
					continue
				}
				ks, _ := strconv.Unquote(k.Value)
				vs2, _ := strconv.Unquote(v.Value)
				keys[ks] = true
				if ks != vs2 {
					identity = false
				}
			}
			return false
		})
	}
	return
}

func (c *Ctx) namedIntConst(pkg, name string) (int64, bool) {
	sp := c.SSA[pkg]
	if sp == nil {
		return 0, false
	}
	nc, ok := sp.Members[name].(*ssa.NamedConst)
	if !ok {
		return 0, false
	}
	return constInt(nc.Value)
}

// boolForm renders a boolean value over named leaves.
func (x *FnIndex) boolForm(v ssa.Value, leaf func(ssa.Value) string, depth int) string {
	if depth > 8 {
		return "?"
	}
	if s := leaf(v); s != "" {
		return s
	}
	o := x.Origin(v)
	if s := leaf(o); s != "" {
		return s
	}
	switch t := o.(type) {
	case *ssa.Const:
		if b, ok := constBool(t); ok {
			return fmt.Sprint(b)
		}
	case *ssa.UnOp:
		if t.Op == token.NOT {
			return "!" + x.boolForm(t.X, leaf, depth+1)
		}
	case *ssa.BinOp:
		return "(" + x.boolForm(t.X, leaf, depth+1) + " " + t.Op.String() + " " + x.boolForm(t.Y, leaf, depth+1) + ")"
	case *ssa.Call:
		if cal := t.Call.StaticCallee(); cal != nil && len(t.Call.Args) == 1 && (cal.Name() == "String" || cal.Name() == "Bool") && cal.Pkg != nil && cal.Pkg.Pkg.Path() == "reflect" {
			return x.boolForm(t.Call.Args[0], leaf, depth+1) + "." + cal.Name() + "()"
		}
	case *ssa.Phi:
		// short-circuit a || b  /  a && b
		if len(t.Edges) == 2 {
			for i, e := range t.Edges {
				if b, ok := constBool(e); ok {
					pred := t.Block().Preds[i]
					if iff, ok := pred.Instrs[len(pred.Instrs)-1].(*ssa.If); ok {
						op := "&&"
						if b {
							op = "||"
						}
						return "(" + x.boolForm(iff.Cond, leaf, depth+1) + " " + op + " " + x.boolForm(t.Edges[1-i], leaf, depth+1) + ")"
					}
				}
			}
		}
	}
	return "?<" + x.Describe(o) + ">"
}

// canonBoolForm rewrites a formula into the spelling the tables use, for totally
// ordered operands: !(a == b) is (a != b), ((a < b) || (a == b)) is (a <= b), and so on.
func canonBoolForm(f string) string {
	for i := 0; i < 4; i++ {
		g := reNotEq.ReplaceAllString(f, "($1 != $2)")
		g = reNotNe.ReplaceAllString(g, "($1 == $2)")
		g = reLe.ReplaceAllStringFunc(g, func(m string) string {
			sm := reLe.FindStringSubmatch(m)
			if sm[1] == sm[4] && sm[3] == sm[5] {
				return "(" + sm[1] + " " + sm[2] + "= " + sm[3] + ")"
			}
			return m
		})
		if g == f {
			break
		}
		f = g
	}
	return f
}

var (
	reOperand = `([A-Za-z][A-Za-z0-9_.]*(?:\(\))?)`
	reNotEq   = regexp.MustCompile(`!\(` + reOperand + ` == ` + reOperand + `\)`)
	reNotNe   = regexp.MustCompile(`!\(` + reOperand + ` != ` + reOperand + `\)`)
	reLe      = regexp.MustCompile(`\(\(` + reOperand + ` ([<>]) ` + reOperand + `\) \|\| \(` + reOperand + ` == ` + reOperand + `\)\)`)
)

func (c *Ctx) ruleE3(rule string) {
	keys, identity := c.typeMapKeys()
	numeric := allKinds[:12]
	okKeys := identity && len(keys) == 12
	for _, k := range numeric {
		if !keys[k] {
			okKeys = false
		}
	}
	c.Check(rule, "TypeMap#twelve-numeric-kinds", okKeys, 0, "TypeMap must map exactly the 12 numeric kind names to themselves (found %d keys, identity %v)", len(keys), identity)
	ic, ok1 := c.namedIntConst(pBase, "intClass")
	uc, ok2 := c.namedIntConst(pBase, "uintClass")
	fc, ok3 := c.namedIntConst(pBase, "floatClass")
	if !ok1 || !ok2 || !ok3 || ic == uc || uc == fc || ic == fc {
		c.Check(rule, "class-constants", false, 0, "intClass, uintClass, floatClass must be three distinct constants")
		return
	}
	classVal := map[string]int64{"int": ic, "uint": uc, "float": fc}
	className := map[int64]string{ic: "int", uc: "uint", fc: "float"}
	kindConst := c.reflectKindNames()
	// numberClass
	if f := c.MustFn(rule, "internal/base", "", "numberClass"); f != nil {
		x := c.Index(f)
		bad := ""
		for _, k := range numeric {
			env := &kenv{x: x, strOf: map[ssa.Value]string{f.Params[0]: k}}
			rs := env.explore(f, kindConst, nil)
			if len(rs) != 1 {
				bad = fmt.Sprintf("%s: %d reachable returns", k, len(rs))
				continue
			}
			v, ok := constInt(x.Origin(rs[0].ret.Results[0]))
			if !ok || v != classVal[numClass(k)] {
				bad = fmt.Sprintf("%s is classified as %s", k, className[v])
			}
		}
		c.Check(rule, "numberClass#12-kinds", bad == "", f.Pos(), "%s", orStr(bad, "every numeric kind name maps to its class"))
	}
	// numberToFloat
	if f := c.MustFn(rule, "internal/base", "", "numberToFloat"); f != nil {
		x := c.Index(f)
		bad := ""
		for cls, val := range classVal {
			env := &kenv{x: x, intOf: map[ssa.Value]int64{f.Params[1]: val}}
			rs := env.explore(f, kindConst, nil)
			if len(rs) != 1 {
				bad = fmt.Sprintf("class %s: %d reachable returns", cls, len(rs))
				continue
			}
			p, ac, ty := x.operandOf(rs[0].ret.Results[0])
			if p != f.Params[0] || ac != cls || ty != "float64" {
				bad = fmt.Sprintf("class %s is read as %s into %s", cls, ac, ty)
			}
		}
		c.Check(rule, "numberToFloat#3-classes", bad == "", f.Pos(), "%s", orStr(bad, "each class is read with its own accessor and converted to float64"))
	}
	// compareNumbers
	if f := c.MustFn(rule, "internal/base", "", "compareNumbers"); f != nil && len(f.Params) == 4 {
		x := c.Index(f)
		lv, lc, rv, rc := f.Params[0], f.Params[1], f.Params[2], f.Params[3]
		ntf := c.Fn("internal/base", "", "numberToFloat")
		side := func(v ssa.Value) (param *ssa.Parameter, cls string, typ string) {
			o := x.Unwrap(v)
			typ = basicName(o.Type())
			if cv, ok := o.(*ssa.Convert); ok {
				o = x.Origin(cv.X)
			}
			if call, ok := o.(*ssa.Call); ok && ntf != nil && call.Call.StaticCallee() == ntf {
				p, _ := x.Origin(call.Call.Args[0]).(*ssa.Parameter)
				cp, _ := x.Origin(call.Call.Args[1]).(*ssa.Parameter)
				if (p == lv && cp == lc) || (p == rv && cp == rc) {
					return p, "float", "float64"
				}
				return p, "float-mismatched-class", "float64"
			}
			p, ac, _ := x.operandOf(o)
			return p, ac, typ
		}
		for _, a := range []string{"int", "uint", "float"} {
			for _, b := range []string{"int", "uint", "float"} {
				key := fmt.Sprintf("compareNumbers#%s,%s", a, b)
				env := &kenv{x: x, intOf: map[ssa.Value]int64{lc: classVal[a], rc: classVal[b]}}
				rs := env.explore(f, kindConst, nil)
				why := ""
				wantT := "float64"
				switch {
				case a == "float" || b == "float":
				case a == "int" && b == "int":
					wantT = "int64"
				default:
					wantT = "uint64"
				}
				full := 0
				for _, r := range rs {
					res := r.ret.Results
					if len(res) != 3 {
						why = "not three results"
						continue
					}
					c0, k0 := constBool(x.Origin(res[0]))
					c1, k1 := constBool(x.Origin(res[1]))
					c2, k2 := constBool(x.Origin(res[2]))
					if k0 && k1 && k2 {
						// sign shortcut: must be justified by `signed side < 0`
						just := ""
						for _, g := range x.GuardsOf(r.ret.Block()) {
							if bo, ok := g.Cond.(*ssa.BinOp); ok && bo.Op == token.LSS && g.Pol {
								if kz, isK := constInt(bo.Y); isK && kz == 0 {
									p, ac, _ := x.operandOf(bo.X)
									if p == lv && ac == "int" {
										just = "left-negative"
									}
									if p == rv && ac == "int" {
										just = "right-negative"
									}
								}
							}
						}
						switch {
						case just == "left-negative" && a == "int" && b == "uint" && c0 && !c1 && !c2:
						case just == "right-negative" && a == "uint" && b == "int" && !c0 && !c1 && c2:
						default:
							why = fmt.Sprintf("constant outcome (%v,%v,%v) not justified by a sign test of the signed operand", c0, c1, c2)
						}
						continue
					}
					full++
					var ops [3]*ssa.BinOp
					okB := true
					for i := 0; i < 3; i++ {
						bo, ok := x.Origin(res[i]).(*ssa.BinOp)
						if !ok {
							okB = false
							break
						}
						ops[i] = bo
					}
					if !okB || ops[0].Op != token.LSS || ops[1].Op != token.EQL || ops[2].Op != token.GTR {
						why = "the three results are not (<, ==, >)"
						continue
					}
					for i := 0; i < 3; i++ {
						pl, cl, tl := side(ops[i].X)
						pr, cr, tr := side(ops[i].Y)
						switch {
						case pl != lv || pr != rv:
							why = "operands are not (left value, right value) in this order"
						case wantT != "float64" && (cl != a || cr != b):
							why = fmt.Sprintf("operands read as %s/%s", cl, cr)
						case wantT == "float64" && (cl != "float" || cr != "float"):
							why = fmt.Sprintf("float comparison reads its operands as %s/%s", cl, cr)
						case tl != wantT || tr != wantT:
							why = fmt.Sprintf("compared in %s/%s, want %s (integers must not go through float64)", tl, tr, wantT)
						}
					}
					// mixed signs: the conversion of the signed side must be under its >= 0 knowledge
					if wantT == "uint64" && a != b {
						guarded := false
						for _, g := range x.GuardsOf(r.ret.Block()) {
							if bo, ok := g.Cond.(*ssa.BinOp); ok && bo.Op == token.LSS && !g.Pol {
								if kz, isK := constInt(bo.Y); isK && kz == 0 {
									p, ac, _ := x.operandOf(bo.X)
									if ac == "int" && ((a == "int" && p == lv) || (b == "int" && p == rv)) {
										guarded = true
									}
								}
							}
						}
						if !guarded {
							why = "a signed operand is converted to uint64 without a preceding sign test"
						}
					}
				}
				if full != 1 && why == "" {
					why = fmt.Sprintf("%d full comparisons reachable (want one)", full)
				}
				c.Check(rule, key, why == "", f.Pos(), "classes (%s, %s): %s", a, b, orStr(why, "compared in "+wantT+", left against right"))
			}
		}
	}
	// Expression.Evaluate tables
	f := c.MustFn(rule, "internal/base", "Expression", "Evaluate")
	if f == nil {
		return
	}
	x := c.Index(f)
	recv := ssa.Value(f.Params[0])
	cn := c.Fn("internal/base", "", "compareNumbers")
	var cmpCall *ssa.Call
	eachInstr(f, func(in ssa.Instruction) {
		if call, ok := in.(*ssa.Call); ok && cn != nil && call.Call.StaticCallee() == cn {
			cmpCall = call
		}
	})
	childVal := func(v ssa.Value, field string) bool {
		ex, ok := x.Origin(v).(*ssa.Extract)
		if !ok || ex.Index != 0 {
			return false
		}
		call, ok := ex.Tuple.(*ssa.Call)
		if !ok || !calleeIs(call, pBase, "Expression", "Evaluate") {
			return false
		}
		b, is := x.isFieldLoad(call.Call.Args[0], "Expression", field)
		return is && x.Origin(b) == recv
	}
	leafLR := func(v ssa.Value) string {
		if childVal(v, "ExpressionLeft") {
			return "L"
		}
		if childVal(v, "ExpressionRight") {
			return "R"
		}
		return ""
	}
	if cmpCall == nil {
		c.Check(rule, "Expression.Evaluate#numeric-compare", false, f.Pos(), "numeric comparison does not go through compareNumbers")
	} else {
		classOf := func(v ssa.Value, side string) bool {
			call, ok := x.Origin(v).(*ssa.Call)
			if !ok || !calleeIs(call, pBase, "", "numberClass") {
				return false
			}
			ex, ok := x.Origin(call.Call.Args[0]).(*ssa.Extract)
			if !ok || ex.Index != 0 {
				return false
			}
			lk, ok := ex.Tuple.(*ssa.Lookup)
			if !ok {
				return false
			}
			g, ok := x.Origin(lk.X).(*ssa.UnOp)
			if !ok {
				return false
			}
			if gl, ok := g.X.(*ssa.Global); !ok || gl.Name() != "TypeMap" {
				return false
			}
			sc, ok := x.Origin(lk.Index).(*ssa.Call)
			if !ok || sc.Call.StaticCallee() == nil || sc.Call.StaticCallee().Name() != "String" {
				return false
			}
			kc, ok := x.Origin(sc.Call.Args[0]).(*ssa.Call)
			if !ok || kc.Call.StaticCallee() == nil || kc.Call.StaticCallee().Name() != "Kind" {
				return false
			}
			return leafLR(kc.Call.Args[0]) == side
		}
		okArgs := leafLR(cmpCall.Call.Args[0]) == "L" && leafLR(cmpCall.Call.Args[2]) == "R" && classOf(cmpCall.Call.Args[1], "L") && classOf(cmpCall.Call.Args[3], "R")
		c.Check(rule, "Expression.Evaluate#numeric-compare", okArgs, cmpCall.Pos(), "compareNumbers must receive (left value, class of the left value's kind, right value, class of the right value's kind)")
	}
	// section of a test: which kinds are known for L and R
	kindGuard := func(b *ssa.BasicBlock) string {
		known := map[string]string{}
		for _, g := range x.GuardsOf(b) {
			bo, ok := g.Cond.(*ssa.BinOp)
			if !ok || bo.Op != token.EQL || !g.Pol {
				continue
			}
			kc, ok := x.Origin(bo.X).(*ssa.Call)
			if !ok || kc.Call.StaticCallee() == nil || kc.Call.StaticCallee().Name() != "Kind" {
				continue
			}
			k, ok := constInt(bo.Y)
			if !ok {
				continue
			}
			if s := leafLR(kc.Call.Args[0]); s != "" {
				known[s] = kindConst[k]
			}
		}
		if known["L"] != "" && known["L"] == known["R"] {
			return known["L"]
		}
		return ""
	}
	// the value stored to `b` under a test edge
	storedBool := func(t strTest, leaf func(ssa.Value) string) (string, token.Pos) {
		form := ""
		var pos token.Pos
		dom := x.edgeDominated(t.iff.Block(), t.edge)
		eachInstr(f, func(in ssa.Instruction) {
			st, ok := in.(*ssa.Store)
			if !ok || !dom[st.Block()] {
				return
			}
			if _, isCell := x.ResolveAddr(st.Addr).(*ssa.Alloc); !isCell || !isReflectValue(st.Val.Type()) {
				return
			}
			vo, ok := x.Origin(st.Val).(*ssa.Call)
			if !ok || !fnIs(vo.Call.StaticCallee(), "reflect", "", "ValueOf") {
				return
			}
			if form == "" {
				form = x.boolForm(x.Unwrap(vo.Call.Args[0]), leaf, 0)
				pos = st.Pos()
			}
		})
		if form != "" {
			return canonBoolForm(form), pos
		}
		// the comparison's outcome may first be put in a bool variable under the test edge and
		// wrapped by reflect.ValueOf further on (one wrapping shared by all operators)
		eachInstr(f, func(in ssa.Instruction) {
			vo, ok := in.(*ssa.Call)
			if !ok || form != "" || !fnIs(vo.Call.StaticCallee(), "reflect", "", "ValueOf") {
				return
			}
			arg := x.Unwrap(vo.Call.Args[0])
			if bt, isB := arg.Type().Underlying().(*types.Basic); !isB || bt.Kind() != types.Bool {
				return
			}
			var under []PVal
			for _, pv := range x.PossibleValues(arg) {
				if pv.Store != nil && !pv.Outside && pv.V != nil && dom[pv.Store.Block()] {
					under = append(under, pv)
				}
			}
			switch len(under) {
			case 1:
				form = x.boolForm(under[0].V, leaf, 0)
			case 2:
				// `a || b` / `a && b` after its merge point was split: two stores under one
				// further test g, one of them a constant: g ? true : b  is  g || b, and so on
				var g ssa.Value
				gpol := map[int]bool{}
				for i, pv := range under {
					for _, gd := range x.GuardsOf(pv.Store.Block()) {
						if dom[gd.If.Block()] && x.edgeDominated(gd.If.Block(), 0)[pv.Store.Block()] != x.edgeDominated(gd.If.Block(), 1)[pv.Store.Block()] {
							if x.edgeDominated(gd.If.Block(), 0)[under[1-i].Store.Block()] || x.edgeDominated(gd.If.Block(), 1)[under[1-i].Store.Block()] {
								g = gd.Cond
								gpol[i] = gd.Pol
							}
						}
					}
				}
				if g != nil && len(gpol) == 2 && gpol[0] != gpol[1] {
					t, e := under[0], under[1] // t: value when g holds
					if !gpol[0] {
						t, e = e, t
					}
					gs := x.boolForm(g, leaf, 0)
					tb, tIsC := constBool(t.V)
					eb, eIsC := constBool(e.V)
					if !tIsC && x.Origin(t.V) == x.Origin(g) {
						// the tested value itself, stored where it is true (A0 2f)
						tb, tIsC = true, true
					}
					switch {
					case tIsC && tb:
						form = "(" + gs + " || " + x.boolForm(e.V, leaf, 0) + ")"
					case tIsC && !tb:
						form = "(!" + gs + " && " + x.boolForm(e.V, leaf, 0) + ")"
					case eIsC && !eb:
						form = "(" + gs + " && " + x.boolForm(t.V, leaf, 0) + ")"
					case eIsC && eb:
						form = "(!" + gs + " || " + x.boolForm(t.V, leaf, 0) + ")"
					}
				}
			}
			if form != "" {
				pos = under[0].Store.Pos()
				if !pos.IsValid() {
					pos = vo.Pos()
				}
			}
		})
		return canonBoolForm(form), pos
	}
	cmpLits := c.ruleLiterals("ComparisonOperator")
	wantNum := map[string]string{"==": "eq", "!=": "!eq", ">": "gt", "<": "lt", ">=": "(gt || eq)", "<=": "(lt || eq)"}
	goOp := map[string]string{"==": "==", "!=": "!=", ">": ">", "<": "<", ">=": ">=", "<=": "<="}
	seen := map[string]map[string]bool{"numeric": {}, "String": {}, "Bool": {}}
	for _, t := range x.stringTests(f, "Expression", "ComparisonOperator") {
		if t.lit == "" {
			continue
		}
		section := ""
		if cmpCall != nil && domInstr(cmpCall, t.iff) {
			section = "numeric"
		} else if kg := kindGuard(t.iff.Block()); kg == "String" || kg == "Bool" {
			section = kg
		}
		key := fmt.Sprintf("Expression.Evaluate#%s %s", strings.ToLower(section), t.lit)
		if section == "" {
			c.Check(rule, "Expression.Evaluate#unplaced "+t.lit, false, t.iff.Pos(), "a comparison-operator test that belongs to no operand class section")
			continue
		}
		known := false
		for _, l := range cmpLits {
			if l == t.lit {
				known = true
			}
		}
		if !known {
			c.Check(rule, key, false, t.iff.Pos(), "operator %q cannot be produced by the grammar", t.lit)
			continue
		}
		seen[section][t.lit] = true
		switch section {
		case "numeric":
			form, pos := storedBool(t, func(v ssa.Value) string {
				if ex, ok := x.Origin(v).(*ssa.Extract); ok && ex.Tuple == ssa.Value(cmpCall) {
					return []string{"lt", "eq", "gt"}[ex.Index]
				}
				return ""
			})
			c.Check(rule, key, form == wantNum[t.lit], pos, "numeric %s yields %s (want %s over compareNumbers' lt/eq/gt)", t.lit, form, wantNum[t.lit])
		case "String", "Bool":
			acc := map[string]string{"String": "String()", "Bool": "Bool()"}[section]
			form, pos := storedBool(t, leafLR)
			want := fmt.Sprintf("(L.%s %s R.%s)", acc, goOp[t.lit], acc)
			c.Check(rule, key, form == want, pos, "%s comparison %s yields %s (want %s)", strings.ToLower(section), t.lit, form, want)
		}
	}
	for _, l := range cmpLits {
		for _, sec := range []string{"numeric", "String"} {
			if !seen[sec][l] {
				c.Check(rule, fmt.Sprintf("Expression.Evaluate#%s %s", strings.ToLower(sec), l), false, f.Pos(), "the grammar produces the comparison %q but the %s section has no case for it", l, strings.ToLower(sec))
			}
		}
	}
	for _, l := range []string{"==", "!="} {
		if !seen["Bool"][l] {
			c.Check(rule, "Expression.Evaluate#bool "+l, false, f.Pos(), "booleans must support %q", l)
		}
	}
	// logical
	lgLits := c.ruleLiterals("LogicalOperator")
	seenLg := map[string]bool{}
	for _, t := range x.stringTests(f, "Expression", "LogicalOperator") {
		if t.lit == "" {
			continue
		}
		key := "Expression.Evaluate#logical " + t.lit
		seenLg[t.lit] = true
		form, pos := storedBool(t, leafLR)
		want := fmt.Sprintf("(L.Bool() %s R.Bool())", t.lit)
		okKinds := kindGuard(t.iff.Block()) == "Bool"
		c.Check(rule, key, (form == want || c.kindGuardsOnly) && okKinds, pos, "%s yields %s (want %s) under a both-operands-are-bool guard (%v)", t.lit, form, want, okKinds)
	}
	for _, l := range lgLits {
		if !seenLg[l] {
			c.Check(rule, "Expression.Evaluate#logical "+l, false, f.Pos(), "the grammar produces %q but the evaluator has no case for it", l)
		}
	}
	// every freshly computed boolean that becomes the result is one of the cases checked above: it is
	// produced under an operator test, with both operands evaluated and their kinds established
	// (a result taken from one operand alone would let an ill-typed other operand yield a value)
	var accounted []map[*ssa.BasicBlock]bool
	for _, t := range x.stringTests(f, "Expression", "LogicalOperator") {
		if t.lit != "" && kindGuard(t.iff.Block()) == "Bool" {
			accounted = append(accounted, x.edgeDominated(t.iff.Block(), t.edge))
		}
	}
	for _, t := range x.stringTests(f, "Expression", "ComparisonOperator") {
		if t.lit == "" {
			continue
		}
		if (cmpCall != nil && domInstr(cmpCall, t.iff)) || kindGuard(t.iff.Block()) != "" {
			accounted = append(accounted, x.edgeDominated(t.iff.Block(), t.edge))
		}
	}
	for _, t := range x.stringTests(f, "Expression", "NotOperator") {
		if t.lit == "!" {
			accounted = append(accounted, x.edgeDominated(t.iff.Block(), t.edge))
		}
	}
	isAccounted := func(b *ssa.BasicBlock) bool {
		for _, m := range accounted {
			if m[b] {
				return true
			}
		}
		return false
	}
	stray, strayPos, nFresh := "", f.Pos(), 0
	eachInstr(f, func(in ssa.Instruction) {
		st, ok := in.(*ssa.Store)
		if !ok || !isReflectValue(st.Val.Type()) {
			return
		}
		if _, isCell := x.ResolveAddr(st.Addr).(*ssa.Alloc); !isCell {
			return
		}
		vo, ok := x.Origin(st.Val).(*ssa.Call)
		if !ok || !fnIs(vo.Call.StaticCallee(), "reflect", "", "ValueOf") {
			return
		}
		arg := x.Unwrap(vo.Call.Args[0])
		if bt, isB := arg.Type().Underlying().(*types.Basic); !isB || bt.Kind() != types.Bool {
			return
		}
		if _, isConst := arg.(*ssa.Const); isConst {
			return
		}
		nFresh++
		if isAccounted(st.Block()) {
			return
		}
		// one wrapping shared by several cases: each case's own assignment must be accounted for
		pvs := x.PossibleValues(arg)
		okAll, any := true, false
		for _, pv := range pvs {
			if pv.Store == nil {
				continue
			}
			any = true
			if _, isConst := pv.V.(*ssa.Const); isConst && !pv.Outside {
				continue // a default that no operand decides
			}
			if pv.Outside || !isAccounted(pv.Store.Block()) {
				okAll = false
			}
		}
		if (!any || !okAll) && stray == "" {
			stray, strayPos = x.boolForm(arg, leafLR, 0), st.Pos()
		}
	})
	c.Check(rule, "Expression.Evaluate#computed-results-accounted", stray == "" && nFresh > 0, strayPos, "%s", map[bool]string{true: fmt.Sprintf("all %d computed boolean results are produced under an operator case with both operands' kinds established", nFresh), false: stray + " becomes the result outside every operator case that establishes the kinds of both operands"}[stray == ""])
	c.Min(rule, 25)
}

// ---- E4 -----------------------------------------------------------------------

func (c *Ctx) ruleE4(rule string) {
	f := c.MustFn(rule, "internal/base", "Expression", "Evaluate")
	if f == nil {
		return
	}
	x := c.Index(f)
	var notT *strTest
	for _, t := range x.stringTests(f, "Expression", "NotOperator") {
		if t.lit == "!" {
			tt := t
			notT = &tt
		}
	}
	if notT == nil {
		c.Check(rule, "Expression.Evaluate#not-branch", false, f.Pos(), "no test of NotOperator == \"!\"")
		return
	}
	notDom := x.edgeDominated(notT.iff.Block(), notT.edge)
	plainDom := x.edgeDominated(notT.iff.Block(), 1-notT.edge)
	var notOrder, plainOrder []string
	eachInstr(f, func(in ssa.Instruction) {
		r, ok := in.(*ssa.Return)
		if !ok {
			return
		}
		val := x.Origin(r.Results[0])
		if plainDom[r.Block()] {
			if cell := x.Cell(val); cell != nil {
				plainOrder = append(plainOrder, cell.Comment)
			}
			return
		}
		if !notDom[r.Block()] {
			return
		}
		vo, ok := val.(*ssa.Call)
		if !ok || !fnIs(vo.Call.StaticCallee(), "reflect", "", "ValueOf") {
			return
		}
		arg := x.Unwrap(vo.Call.Args[0])
		if cc, isConst := arg.(*ssa.Const); isConst && cc.Value == nil {
			return // error return: reflect.ValueOf(nil)
		}
		un, ok := arg.(*ssa.UnOp)
		if !ok || un.Op != token.NOT {
			c.Check(rule, "Expression.Evaluate#not-return@"+c.pos(r.Pos()), false, r.Pos(), "under `!` a value is returned that is not the negation of an operand: %s", x.Describe(arg))
			return
		}
		bc, ok := x.Origin(un.X).(*ssa.Call)
		if !ok || bc.Call.StaticCallee() == nil || bc.Call.StaticCallee().Name() != "Bool" {
			c.Check(rule, "Expression.Evaluate#not-return@"+c.pos(r.Pos()), false, r.Pos(), "`!` is not applied to .Bool() of the operand")
			return
		}
		cell := x.Cell(bc.Call.Args[0])
		name := "?"
		if cell != nil {
			name = cell.Comment
		}
		notOrder = append(notOrder, name)
		// kind guard on the same variable
		okKind := false
		for _, g := range x.GuardsOf(r.Block()) {
			bo, ok := g.Cond.(*ssa.BinOp)
			if !ok {
				continue
			}
			kc, ok := x.Origin(bo.X).(*ssa.Call)
			if !ok || kc.Call.StaticCallee() == nil || kc.Call.StaticCallee().Name() != "Kind" || x.Cell(kc.Call.Args[0]) != cell {
				continue
			}
			k, _ := constInt(bo.Y)
			isBool := c.reflectKindNames()[k] == "Bool"
			if isBool && ((bo.Op == token.NEQ && !g.Pol) || (bo.Op == token.EQL && g.Pol)) {
				okKind = true
			}
		}
		c.Check(rule, "Expression.Evaluate#not "+name, okKind, r.Pos(), "`!%s`: .Bool() must be applied only to a value whose kind was checked to be bool (otherwise it panics instead of failing with an error)", name)
	})
	c.Check(rule, "Expression.Evaluate#not-applied-last", len(notOrder) >= 1 && strings.Join(notOrder, ",") == strings.Join(plainOrder, ","), notT.iff.Pos(), "with `!` the operands are considered in the order %v, without it in the order %v (must be the same: the negation is applied to the value the expression would otherwise yield)", notOrder, plainOrder)
	c.Min(rule, 2)
}

// ---- E5 -----------------------------------------------------------------------

func (c *Ctx) ruleE5(rule string) {
	lf := func(n string) *ssa.Function {
		return c.MustFn(rule, "internal/iparser", "GengineParserListener", n)
	}
	// which listener fields feed which constant
	derivesFromField := func(x *FnIndex, v ssa.Value, field string, depth int) bool {
		var walk func(v ssa.Value, d int) bool
		walk = func(v ssa.Value, d int) bool {
			if d > 6 {
				return false
			}
			o := x.Unwrap(v)
			if _, is := x.isFieldLoad(o, "GengineParserListener", field); is {
				return true
			}
			switch t := o.(type) {
			case *ssa.Call:
				cal := t.Call.StaticCallee()
				if cal != nil && cal.Pkg != nil && (cal.Pkg.Pkg.Path() == "strings" || cal.Pkg.Pkg.Path() == "strconv") {
					return walk(t.Call.Args[0], d+1)
				}
			case *ssa.Extract:
				return walk(t.Tuple, d+1)
			}
			return false
		}
		return walk(v, depth)
	}
	for _, t := range [][3]string{{"ExitAtName", "AcceptName", "ruleName"}, {"ExitAtDesc", "AcceptDesc", "ruleDescription"}, {"ExitAtSal", "AcceptSalience", "salience"}} {
		f := lf(t[0])
		if f == nil {
			continue
		}
		x := c.Index(f)
		ok := false
		eachInstr(f, func(in ssa.Instruction) {
			if call, isCall := in.(*ssa.Call); isCall && call.Call.IsInvoke() && call.Call.Method.Name() == t[1] {
				if derivesFromField(x, call.Call.Args[0], t[2], 0) {
					ok = true
				}
			}
		})
		c.Check(rule, t[0], ok, f.Pos(), "%s must hand the enclosing rule's %s (the listener's per-rule field) to the constant", t[0], t[2])
	}
	if f := lf("ExitAtId"); f != nil {
		x := c.Index(f)
		var pi *ssa.Call
		eachInstr(f, func(in ssa.Instruction) {
			if call, ok := in.(*ssa.Call); ok && fnIs(call.Call.StaticCallee(), "strconv", "", "ParseInt") {
				pi = call
			}
		})
		okP := pi != nil && derivesFromField(x, pi.Call.Args[0], "ruleName", 0)
		if okP {
			b, _ := constInt(pi.Call.Args[1])
			w, _ := constInt(pi.Call.Args[2])
			okP = b == 10 && w == 64
		}
		okVals := okP
		if okP {
			// every value handed to AcceptId is the parsed number, used only where the parse
			// error is nil, or the constant 0, used only where it is not (inside the branch, or
			// through a variable assigned there)
			nId, nZero := 0, 0
			errNil, errNotNil := x.nilEdges(f, func(v ssa.Value) bool {
				ex, ok := x.Origin(v).(*ssa.Extract)
				return ok && ex.Tuple == ssa.Value(pi) && ex.Index == 1
			})
			eachInstr(f, func(in ssa.Instruction) {
				if call, ok := in.(*ssa.Call); ok && call.Call.IsInvoke() && call.Call.Method.Name() == "AcceptId" {
					for _, pv := range x.PossibleValues(call.Call.Args[0]) {
						if pv.V == nil || pv.Outside {
							okVals = false
							continue
						}
						if k, isK := constInt(pv.V); isK && k == 0 && x.reachesOnlyVia(f, pi, pv, call, errNotNil) {
							nZero++
						} else if ex, isEx := pv.V.(*ssa.Extract); isEx && ex.Tuple == ssa.Value(pi) && ex.Index == 0 && x.reachesOnlyVia(f, pi, pv, call, errNil) {
							nId++
						} else {
							okVals = false
						}
					}
				}
			})
			okVals = okVals && nId >= 1 && nZero >= 1
		}
		c.Check(rule, "ExitAtId", okVals, f.Pos(), "@id must be ParseInt(rule name, 10, 64), and 0 when the name is not a decimal integer")
	}
	// the per-rule fields: set from the header, reset at rule entry
	writers := map[string][]string{}
	for _, f := range c.Methods("internal/iparser", "GengineParserListener") {
		eachInstr(f, func(in ssa.Instruction) {
			if st, ok := in.(*ssa.Store); ok {
				if fa, ok := st.Addr.(*ssa.FieldAddr); ok && structName(fa.X.Type()) == "GengineParserListener" {
					n := fieldOf(fa).Name()
					if n == "ruleName" || n == "ruleDescription" || n == "salience" {
						writers[n] = append(writers[n], f.Name())
					}
				}
			}
		})
	}
	want := map[string][]string{"ruleName": {"EnterRuleEntity", "ExitRuleName"}, "ruleDescription": {"EnterRuleEntity", "ExitRuleDescription"}, "salience": {"EnterRuleEntity", "ExitSalience"}}
	for n, w := range want {
		got := writers[n]
		sort.Strings(got)
		c.Check(rule, "listener."+n+"#writers", strings.Join(got, ",") == strings.Join(w, ","), 0, "listener field %s is written by %v (want: reset in EnterRuleEntity, set from the rule header in %s) — otherwise a rule sees another rule's metadata", n, got, w[1])
	}
	// header values come from the handler's own context text
	for _, t := range [][2]string{{"ExitRuleName", "ruleName"}, {"ExitRuleDescription", "ruleDescription"}, {"ExitSalience", "salience"}} {
		f := lf(t[0])
		if f == nil {
			continue
		}
		x := c.Index(f)
		ok := false
		eachInstr(f, func(in ssa.Instruction) {
			st, isSt := in.(*ssa.Store)
			if !isSt {
				return
			}
			fa, isFA := st.Addr.(*ssa.FieldAddr)
			if !isFA || structName(fa.X.Type()) != "GengineParserListener" || fieldOf(fa).Name() != t[1] {
				return
			}
			// derives from ctx.GetText()
			var walk func(v ssa.Value, d int) bool
			walk = func(v ssa.Value, d int) bool {
				if d > 8 {
					return false
				}
				if pvs := x.PossibleValues(v); len(pvs) > 1 {
					// the text, or a constant where there is none to take
					some := false
					for _, pv := range pvs {
						if pv.V == nil {
							return false
						}
						if k, isK := pv.V.(*ssa.Const); isK && k.Value != nil && k.Value.Kind() == constant.String {
							continue
						}
						if !walk(pv.V, d+1) {
							return false
						}
						some = true
					}
					return some
				}
				o := x.Unwrap(v)
				switch tt := o.(type) {
				case *ssa.Call:
					cal := tt.Call.StaticCallee()
					if cal != nil && cal.Name() == "GetText" && x.recognizerOf(tt.Call.Args[0]) == ssa.Value(f.Params[1]) {
						return true
					}
					if cal != nil && cal.Pkg != nil && (cal.Pkg.Pkg.Path() == "strings" || cal.Pkg.Pkg.Path() == "strconv") {
						if cal.Name() == "ParseInt" {
							b, _ := constInt(tt.Call.Args[1])
							w, _ := constInt(tt.Call.Args[2])
							if b != 10 || w != 64 {
								return false
							}
						}
						if t[0] != "ExitSalience" {
							// a name or description is the text between the quotes, blanks included: two
							// names that differ by a blank are two rules. Only the quotes may be cut off
							switch cal.Name() {
							case "Trim", "TrimPrefix", "TrimSuffix", "TrimLeft", "TrimRight":
								k, isK := x.Origin(tt.Call.Args[1]).(*ssa.Const)
								if !isK || k.Value == nil || k.Value.Kind() != constant.String || constant.StringVal(k.Value) != "\"" {
									return false
								}
							default:
								return false
							}
						}
						return walk(tt.Call.Args[0], d+1)
					}
				case *ssa.Extract:
					return walk(tt.Tuple, d+1)
				case *ssa.Slice:
					// a piece cut out of the text (hand-written trimming)
					return walk(tt.X, d+1)
				case *ssa.Phi:
					// the text, or a constant where there is none to take
					some := false
					for _, e := range tt.Edges {
						if k, isK := x.Origin(e).(*ssa.Const); isK && k.Value != nil && k.Value.Kind() == constant.String {
							continue
						}
						if !walk(e, d+1) {
							return false
						}
						some = true
					}
					return some
				}
				// the salience clause is the keyword and one `integer` (MINUS? INT): the text of that
				// child, sign included, is the clause's text without the keyword
				if call, isCall := o.(*ssa.Call); isCall && t[0] == "ExitSalience" && call.Call.IsInvoke() && call.Call.Method.Name() == "GetText" {
					okChild := false
					for _, pv := range x.PossibleValues(call.Call.Value) {
						cv := pv.V
						for i := 0; i < 4; i++ {
							switch u := cv.(type) {
							case *ssa.ChangeInterface:
								cv = x.Origin(u.X)
								continue
							case *ssa.TypeAssert:
								cv = x.Origin(u.X)
								continue
							case *ssa.MakeInterface:
								cv = x.Origin(u.X)
								continue
							}
							break
						}
						ic, isIC := cv.(*ssa.Call)
						if !isIC || ic.Call.StaticCallee() == nil || ic.Call.StaticCallee().Name() != "Integer" || x.recognizerOf(ic.Call.Args[0]) != ssa.Value(f.Params[1]) {
							return false
						}
						okChild = true
					}
					return okChild
				}
				return false
			}
			if walk(st.Val, 0) {
				ok = true
			}
		})
		c.Check(rule, t[0], ok, f.Pos(), "%s must take the value from its own parse context's text (a name or description: that text with only the quotes cut off)", t[0])
	}
	// literals
	for _, t := range [][4]string{{"ExitInteger", "ParseInt", "10", "64"}, {"ExitRealLiteral", "ParseFloat", "64", ""}, {"ExitBooleanLiteral", "ParseBool", "", ""}} {
		f := lf(t[0])
		if f == nil {
			continue
		}
		x := c.Index(f)
		ok := false
		eachInstr(f, func(in ssa.Instruction) {
			call, isCall := in.(*ssa.Call)
			if !isCall || !fnIs(call.Call.StaticCallee(), "strconv", "", t[1]) {
				return
			}
			gc, isGC := x.Origin(call.Call.Args[0]).(*ssa.Call)
			if !isGC || gc.Call.StaticCallee() == nil || gc.Call.StaticCallee().Name() != "GetText" {
				return
			}
			okArgs := true
			for i, w := range []string{t[2], t[3]} {
				if w == "" {
					continue
				}
				k, isK := constInt(call.Call.Args[1+i])
				if !isK || fmt.Sprint(k) != w {
					okArgs = false
				}
			}
			ok = okArgs
		})
		c.Check(rule, t[0], ok, f.Pos(), "%s must parse the literal's own text with strconv.%s(%s %s)", t[0], t[1], t[2], t[3])
		// ... and hand on that very result: what goes into a constant (reflect.ValueOf) or to the
		// holder's Accept method is the first result of the parse, of its own type -- a real literal
		// is a float64 also when it has no fractional part
		okOn, nOn, whyOn := true, 0, ""
		fromParse := func(v ssa.Value) bool {
			pvs := x.PossibleValues(v)
			if len(pvs) == 0 {
				return false
			}
			for _, pv := range pvs {
				ex, isEx := pv.V.(*ssa.Extract)
				if pv.V == nil || !isEx || ex.Index != 0 {
					return false
				}
				pc, isCall := ex.Tuple.(*ssa.Call)
				if !isCall || !fnIs(pc.Call.StaticCallee(), "strconv", "", t[1]) {
					return false
				}
			}
			return true
		}
		eachInstr(f, func(in ssa.Instruction) {
			switch tt := in.(type) {
			case *ssa.Store:
				fa, isFA := tt.Addr.(*ssa.FieldAddr)
				if !isFA || fieldOf(fa).Name() != "ConstantValue" {
					return
				}
				nOn++
				vo, isCall := x.Origin(tt.Val).(*ssa.Call)
				if !isCall || !fnIs(vo.Call.StaticCallee(), "reflect", "", "ValueOf") {
					okOn, whyOn = false, x.Describe(tt.Val)
					return
				}
				a := vo.Call.Args[0]
				if mi, isMI := x.Origin(a).(*ssa.MakeInterface); isMI {
					a = mi.X
				}
				if !fromParse(a) {
					okOn, whyOn = false, "reflect.ValueOf("+x.Describe(a)+")"
				}
			case *ssa.Call:
				name := ""
				if tt.Call.IsInvoke() {
					name = tt.Call.Method.Name()
				} else if cal := tt.Call.StaticCallee(); cal != nil && cal.Pkg != nil && cal.Pkg.Pkg.Path() == pBase {
					name = cal.Name()
				}
				if !strings.HasPrefix(name, "Accept") {
					return
				}
				args := tt.Call.Args
				if !tt.Call.IsInvoke() && len(args) > 0 {
					args = args[1:]
				}
				if len(args) != 1 {
					return
				}
				nOn++
				if !fromParse(args[0]) {
					okOn, whyOn = false, name+"("+x.Describe(args[0])+")"
				}
			}
		})
		c.Check(rule, t[0]+"#hands-on-the-parsed-value", okOn && nOn >= 1, f.Pos(), "%s must hand on the result of strconv.%s unchanged (%d hand-over(s) found): %s is handed on", t[0], t[1], nOn, orStr(whyOn, "nothing"))
	}
	// Constant.Accept*: store reflect.ValueOf(parameter)
	for _, n := range []string{"AcceptName", "AcceptId", "AcceptDesc", "AcceptSalience", "AcceptInteger", "AcceptString"} {
		f := c.MustFn(rule, "internal/base", "Constant", n)
		if f == nil {
			continue
		}
		x := c.Index(f)
		ok := false
		eachInstr(f, func(in ssa.Instruction) {
			if st, isSt := in.(*ssa.Store); isSt {
				if fa, isFA := st.Addr.(*ssa.FieldAddr); isFA && fieldOf(fa).Name() == "ConstantValue" {
					if vo, isCall := x.Origin(st.Val).(*ssa.Call); isCall && fnIs(vo.Call.StaticCallee(), "reflect", "", "ValueOf") && x.Unwrap(vo.Call.Args[0]) == ssa.Value(f.Params[1]) {
						ok = true
					}
				}
			}
		})
		c.Check(rule, "Constant."+n, ok, f.Pos(), "the constant must hold exactly the value it is given")
	}
	if c.only == nil {
		c.Min(rule, 18)
	}
}

// ---- E6 -----------------------------------------------------------------------

func (c *Ctx) ruleE6(rule string) {
	for _, spec := range [][2]string{{"Expression", "Evaluate"}, {"MathExpression", "Evaluate"}} {
		f := c.MustFn(rule, "internal/base", spec[0], spec[1])
		if f == nil {
			continue
		}
		x := c.Index(f)
		k := 0
		eachInstr(f, func(in ssa.Instruction) {
			r, ok := in.(*ssa.Return)
			if !ok || len(r.Results) != 2 {
				return
			}
			k++
			key := fmt.Sprintf("%s#return%d", fnName(f), k)
			okR := true
			why := ""
			// a local known to differ from the zero reflect.Value where it is used: a dominating
			// test `cell != reflect.ValueOf(nil)` (use = this return, or the assignment that copies
			// the local into the returned variable)
			nonZeroAt := func(cell *ssa.Alloc, blk *ssa.BasicBlock) bool {
				for _, g := range x.GuardsOf(blk) {
					if bo, isB := g.Cond.(*ssa.BinOp); isB && isReflectValue(bo.X.Type()) && ((bo.Op == token.NEQ && g.Pol) || (bo.Op == token.EQL && !g.Pol)) {
						if x.Cell(bo.X) == cell {
							return true
						}
					}
				}
				return false
			}
			isValueOfNil := func(v ssa.Value) bool {
				vo, isCall := v.(*ssa.Call)
				if !isCall || !fnIs(vo.Call.StaticCallee(), "reflect", "", "ValueOf") {
					return false
				}
				cc, isC := x.Unwrap(vo.Call.Args[0]).(*ssa.Const)
				return isC && cc.Value == nil
			}
			var valuesOf func(v ssa.Value, use ssa.Instruction, d int, nz bool) []PVal
			valuesOf = func(v ssa.Value, use ssa.Instruction, d int, nz bool) []PVal {
				o := x.Origin(v)
				u, isLoad := o.(*ssa.UnOp)
				if !isLoad || u.Op != token.MUL || d > 5 {
					return []PVal{{V: o}}
				}
				al, isAl := x.ResolveAddr(u.X).(*ssa.Alloc)
				if !isAl || al.Parent() != f {
					return x.PossibleValues(v)
				}
				var out []PVal
				defs, zero := x.reachingStores(u, al)
				// tested where it is used: whatever it was assigned from, it is not the zero value
				nz = nz || nonZeroAt(al, use.Block())
				for _, df := range defs {
					for _, pv := range valuesOf(df.Val, df, d+1, nz) {
						if nz && (pv.V == nil || isValueOfNil(pv.V)) {
							continue // reflect.ValueOf(nil) is the zero Value the test excludes
						}
						out = append(out, pv)
					}
				}
				if zero && !nz {
					out = append(out, PVal{})
				}
				for _, st := range x.stores[al] {
					if st.Parent() != f {
						out = append(out, PVal{V: x.Origin(st.Val), Outside: true, Store: st})
					}
				}
				return out
			}
			for _, ev := range x.PossibleValues(r.Results[1]) {
				errNil := ev.V == nil || isConstNil(ev.V)
				for _, vv := range valuesOf(r.Results[0], r, 0, false) {
					isNilValue := false
					if vv.V == nil {
						isNilValue = true
					} else if isValueOfNil(vv.V) {
						isNilValue = true
					}
					if errNil && isNilValue {
						okR, why = false, "returns no value and no error"
					}
				}
			}
			c.Check(rule, key, okR, r.Pos(), "%s", orStr(why, "a value, or an error"))
		})
	}
	c.Min(rule, 10)
}

func runC01(c *Ctx) {
	c.ruleG1("G1-precedence")
	c.ruleG2("G2-tree-to-ast")
	c.ruleE1("E1-operator-dispatch")
	c.ruleE2("E2-arithmetic-by-kind")
	c.ruleE3("E3-comparison-logic")
	c.ruleE4("E4-not-last")
	c.ruleE5("E5-metadata-literals")
	c.ruleE6("E6-error-not-value")
	// E7: an operand is the value its atom read: what reaches the operators is the variable's value as
	// the data context gave it (float32 widened by the operator tables, exactly), the constant, or
	// the result of the call -- not a value the atom computed from it
	if f := c.MustFn("E7-operand-as-read", "internal/base", "ExpressionAtom", "Evaluate"); f != nil {
		c.ruleValueAsRead("E7-operand-as-read", "ExpressionAtom.Evaluate#value-as-read", f, func(call *ssa.Call) bool {
			if calleeIs(call, pContext, "DataContext", "GetValue") {
				return true
			}
			cal := call.Call.StaticCallee()
			return cal != nil && cal.Name() == "Evaluate" && cal.Pkg != nil && cal.Pkg.Pkg.Path() == pBase
		}, 6, "an operand must be the value its atom read, unchanged")
	}
	// ... and what an arithmetic node yields is the result of the operator table (core.Add / Sub / Mul / Div,
	// which decide by kind what is well typed) or the value of its only child: nothing the node worked out
	// itself -- "a string plus anything is the concatenation of their printed forms" never reaches E2
	if f := c.MustFn("E7-operand-as-read", "internal/base", "MathExpression", "Evaluate"); f != nil {
		x := c.Index(f)
		isOp := func(v ssa.Value) bool {
			ex, ok := x.Origin(v).(*ssa.Extract)
			if !ok || ex.Index != 0 {
				return false
			}
			call, ok := ex.Tuple.(*ssa.Call)
			if !ok {
				return false
			}
			cal := call.Call.StaticCallee()
			if cal == nil || cal.Pkg == nil || cal.Pkg.Pkg.Path() != pCore {
				return false
			}
			switch cal.Name() {
			case "Add", "Sub", "Mul", "Div":
				return true
			}
			return false
		}
		bad, badPos, n := "", f.Pos(), 0
		eachInstr(f, func(in ssa.Instruction) {
			r, isRet := in.(*ssa.Return)
			if !isRet || len(r.Results) != 2 || bad != "" {
				return
			}
			for _, pv := range x.ValuesAt(r.Results[0], r) {
				if pv.V == nil {
					continue
				}
				o := x.Origin(pv.V)
				if ex, isEx := o.(*ssa.Extract); isEx && ex.Index == 0 {
					if call, isCall := ex.Tuple.(*ssa.Call); isCall {
						if cal := call.Call.StaticCallee(); cal != nil && cal.Name() == "Evaluate" && cal.Pkg != nil && cal.Pkg.Pkg.Path() == pBase {
							n++
							continue // the value of the only child
						}
					}
				}
				if call, isCall := o.(*ssa.Call); isCall && fnIs(call.Call.StaticCallee(), "reflect", "", "ValueOf") {
					arg := x.Unwrap(call.Call.Args[0])
					if cc, isC := arg.(*ssa.Const); isC && cc.Value == nil {
						continue // no value, with an error
					}
					allOp, some := true, false
					for _, av := range x.ValuesAt(call.Call.Args[0], call) {
						some = true
						if av.V == nil || av.Outside || !isOp(x.Unwrap(av.V)) {
							allOp = false
						}
					}
					if isOp(arg) || (some && allOp) {
						n++
						continue
					}
				}
				bad, badPos = x.Describe(o), r.Pos()
			}
		})
		c.Check("E7-operand-as-read", "MathExpression.Evaluate#value-from-the-operator-table", bad == "" && n >= 3, badPos, "an arithmetic node must yield the result of core.Add / Sub / Mul / Div or the value of its only child (%d such returns found): %s", n, orStr(bad, "ok"))
	}
	// G3: the tree that is evaluated is the tree that was parsed: the node a handler of the expression
	// level takes off the listener's stack is handed to its parent on every path (the attach rule of
	// C02-S9 / C10-K6 for these handlers) -- a handler that hands on the child of a bracketed expression
	// instead of its own node, folding the bracket's `!` into the child's single flag, turns !(!x) into !x
	exprHandlers := map[string]bool{"ExitMathExpression": true, "ExitExpression": true, "ExitExpressionAtom": true, "ExitConstant": true, "ExitMapVar": true,
		"ExitMethodCall": true, "ExitThreeLevelCall": true, "ExitFunctionCall": true, "ExitFunctionArgs": true}
	c.only = func(key string) bool {
		k := strings.TrimPrefix(key, "GengineParserListener.")
		if i := strings.Index(k, "#"); i >= 0 {
			k = k[:i]
		}
		return exprHandlers[k]
	}
	c.ruleListenerAttach("G3-tree-built-as-parsed")
	c.only = nil
	c.Min("G3-tree-built-as-parsed", 6)
	c.ruleAcceptStoresGiven("G3-nodes-hold-what-was-parsed", map[string]bool{"Expression": true, "MathExpression": true, "ExpressionAtom": true, "MapVar": true})
	c.Min("G3-nodes-hold-what-was-parsed", 12)
	if c.Tier == "thorough" {
		c.ruleATN("G1-atn-cross-check")
	}
}
