package main

import "strings"

func init() {
	register("C11", runC11, propMeta{
		Explanation: "Decides structural necessary conditions of 'the result map is exactly the set of rules that returned in this call', for every execute method and every rule set: (M1) the store g.returnResult = make(...) dominates every rule execution, go statement, addResult call and every return other than the rb==nil one, so nothing of an earlier call survives and no nil map is written; (M2) every RuleEntity.Execute call site has its returned-flag tested on all paths and the true edge calls addResult with the RuleName of the same receiver and the value of the same call, and no other addResult call exists; (M3) in internal/base the third result of every (value, error, flag) evaluator is false, a child's flag passed through, or true only in ReturnStatement/BreakStmt/ContinueStmt, and a true flag in ReturnStatement.Evaluate is returned only with a nil error; (M4) RuleEntity.Execute maps the zero reflect.Value to a nil interface; and nil is handed up only for that zero value, v.Interface() otherwise; (M5) addResult holds g.lock around the map write and is the only writer of the map; (M6) in IfStmt.Evaluate a true condition evaluates its branch and an existing else runs when all conditions are false, and in ForStmt.Evaluate and ForRangeStmt.Evaluate every pass of the loop evaluates the body, so a `return` placed in a branch or a loop body is reached. (M7) every pool method returns the result map it read from the acquired engine after that engine's call. Not decided: the values themselves. addResult stores the given value under the given name on every call (no way round the store): a nil result is an entry too. Where an evaluator hands on a child's returned-flag it hands on that child's value (M3-value-travels-with-flag). Each pool instance has an engine object of its own, made by the constructor in the iteration that makes the wrapper and never replaced (M8), so overlapping pool calls never share a result map. No way from the engine call of a pool method to a return goes round the read of the result map. After the body of one branch of an if chain has run no other branch body can run (a branch taken without a return must not reach the return of a later one).",
		Assumptions: []string{"reflect, sync and the Go memory model behave as documented", "the host does not write Gengine.returnResult (unexported)"},
		Trusted:     commonTrusted,
	})
}

var c11extra func(c *Ctx)

func runC11(c *Ctx) {
	fns := c.engineExecFns()
	if len(fns) == 0 {
		c.Lost("M1-fresh-map", "(*engine.Gengine).Execute*")
		return
	}
	c.ruleM1("M1-fresh-map", fns)
	c.Min("M1-fresh-map", 21)
	c.ruleM2("M2-flag-addResult-pairing", fns)
	c.Min("M2-flag-addResult-pairing", 46)
	c11extra(c)
}

func init() {
	c11extra = func(c *Ctx) {
		c.ruleM3("M3-flag-shape", "M3-flag-implies-success")
		c.Min("M3-flag-shape", 30)
		c.ruleM3b("M3-flag-filtered-above-break")
		c.ruleM3c("M3-return-sets-flag")
		c.ruleM4("M4-bare-return-nil")
		c.ruleM5("M5-map-write-locked")
		// the map handed back is complete: every goroutine that may still add an entry is joined before any return
		n := 0
		for _, fn := range c.engineExecFns() {
			m := c.engModel(fn)
			if len(m.gos) == 0 {
				continue
			}
			n++
			c.ruleA4("M5-joined-before-return", fn, isRuleExec, m.errList())
		}
		c.Min("M5-joined-before-return", 100)
		// a `return` inside a branch or a loop body is reached: a true condition evaluates its branch, every
		// pass of a loop evaluates the body (the part of the statement rules of C02 that bears on the result map)
		c.only = func(key string) bool {
			return strings.HasSuffix(key, "-runs-body") || strings.HasSuffix(key, "-runs-else") || strings.HasSuffix(key, "-body-then-nothing")
		}
		c.ruleS2("M6-body-evaluated")
		c.ruleS3("M6-body-evaluated")
		c.ruleS4("M6-body-evaluated")
		c.only = nil
		c.Min("M6-body-evaluated", 5)
		// the pool hands its caller the map of this very call: read from the acquired engine after the engine
		// call and before the instance is released (the own-result slots of the request life cycle, C06-P2)
		c.only = func(key string) bool { return strings.HasSuffix(key, "-own-result") }
		c.ruleLifecycle("M7-pool-returns-this-calls-map", nil)
		c.only = nil
		c.Min("M7-pool-returns-this-calls-map", 24)
		// ... and that engine is this instance's alone: "a fresh map per call" holds for overlapping pool
		// calls only if no two instances share an engine object (the construction obligation of C06-P3)
		c.only = func(key string) bool { return key == "NewGenginePool#own-engine-per-instance" }
		c.ruleConstruction("M8-one-engine-per-instance")
		c.only = nil
		c.Min("M8-one-engine-per-instance", 1)
	}
}
