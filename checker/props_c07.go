package main

func init() {
	register("C07", runC07, propMeta{
		Explanation: "Decides the three structural conditions that make a hot update atomic per execution and visible to every later execution, for all interleavings: (U1) each of the 21 Gengine.Execute* methods reads the published container rb.Kc exactly once, in its own body, before any rule runs or goroutine starts, and uses that snapshot throughout; (U2) nothing writes into a container that may already be published: every field store, map update, element store or in-place append that reaches KnowledgeContext memory acts on a container the same function just created with NewKnowledgeContext (the listener fills the one it was constructed with, and every construction site passes a fresh one), and compiled RuleEntity / AST node fields are written only by the listener and the Accept*/New* functions; (U3) UpdatePooledRules, UpdatePooledRulesIncremental and ClearPoolRules store the master's new container (or a fresh empty one) into gp.rbSlice[i].Kc for i counted from 0 by 1 up to gp.max before any successful return, RemoveRules applies the removal to every element of gp.rbSlice, and len(rbSlice) == max by construction; (U4) every store to RuleBuilder.Kc, gp.ruleBuilder, gp.clear and gp.execModel in the pool holds updateLock (directly, or in a helper all of whose callers hold it), builder-side stores hold buildLock; (U5) no store to installed state can be followed by an error return (compile before publish); (U6) no pool lock is held while rules run, so an update called from inside a rule cannot deadlock on its own request. Together: an execution uses one container that nobody mutates, and an update returns only after every instance points at the new one. Not decided: memory-model visibility of the plain pointer store without synchronisation — reported as known finding D12(c) under C19.",
		Assumptions: []string{"an execution only reaches rule data through the container it loaded (no other path to rules exists: checked by U1's single read)"},
		Trusted:     commonTrusted,
	})
}

func runC07(c *Ctx) {
	c.ruleU1("U1-one-snapshot")
	c.Min("U1-one-snapshot", 21)
	c.ruleU2("U2-immutable-once-published")
	c.Min("U2-immutable-once-published", 20)
	c.ruleU3("U3-published-to-every-instance")
	c.Min("U3-published-to-every-instance", 10)
	c.ruleConstruction("U3-rbSlice-covers-max")
	c.ruleU4("U4-writers-serialised")
	c.Min("U4-writers-serialised", 8)
	c.ruleK2("U5-compile-before-publish")
	c.Min("U5-compile-before-publish", 9)
	c.ruleLifecycle("U6-no-lock-while-rules-run", map[string]bool{"engine-call1-no-lock": true, "engine-call2-no-lock": true, "engine-call3-no-lock": true, "engine-call4-no-lock": true})
	c.Min("U6-no-lock-while-rules-run", 24)
}
