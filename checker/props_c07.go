package main

import (
	"fmt"
	"go/token"
	"go/types"
	"strings"

	"golang.org/x/tools/go/ssa"
)

func init() {
	register("C07", runC07, propMeta{
		Explanation: "Decides the three structural conditions that make a hot update atomic per execution and visible to every later execution, for all interleavings: (U1) each of the 21 Gengine.Execute* methods reads the published container rb.Kc exactly once, in its own body, before any rule runs or goroutine starts, and uses that snapshot throughout; (U2) nothing writes into a container that may already be published: every field store, map update, element store or in-place append that reaches KnowledgeContext memory acts on a container the same function just created with NewKnowledgeContext (the listener fills the one it was constructed with, and every construction site passes a fresh one), and compiled RuleEntity / AST node fields are written only by the listener and the Accept*/New* functions; (U3) UpdatePooledRules, UpdatePooledRulesIncremental and ClearPoolRules store the master's new container (or a fresh empty one) into gp.rbSlice[i].Kc for i counted from 0 by 1 up to gp.max before any successful return, RemoveRules applies the removal to every element of gp.rbSlice, and len(rbSlice) == max by construction; (U4) every store to RuleBuilder.Kc, gp.ruleBuilder, gp.clear and gp.execModel in the pool holds updateLock (directly, or in a helper all of whose callers hold it), builder-side stores hold buildLock; (U5) no store to installed state can be followed by an error return (compile before publish); (U6) no pool lock is held while rules run, so an update called from inside a rule cannot deadlock on its own request. (U7) the engine object hands no compiled rules from one call to the next: a field of Gengine that holds rules may be read only under a comparison of a kept KnowledgeContext pointer with this call's container. Together: an execution uses one container that nobody mutates, and an update returns only after every instance points at the new one. Not decided: memory-model visibility of the plain pointer store without synchronisation — reported as known finding D12(c) under C19. A container overwritten as a whole through a pointer (*own = *kc) counts as a write into published memory. prepare* bind gw.rulebuilder = gp.rbSlice[gw.tag] on every request, so an execution runs on the builder the update published into (U8). (U9) the pool's selected methods hand the names on as given; the engine method resolves them in the container it took.",
		Assumptions: []string{"an execution only reaches rule data through the container it loaded (no other path to rules exists: checked by U1's single read)"},
		Trusted:     commonTrusted,
	})
}

func runC07(c *Ctx) {
	c.ruleU1("U1-one-snapshot")
	c.Min("U1-one-snapshot", 21)
	c.ruleU2("U2-immutable-once-published")
	c.Min("U2-immutable-once-published", 20)
	c.ruleU3("U3-published-to-every-instance")
	c.Min("U3-published-to-every-instance", 10)
	c.ruleConstruction("U3-rbSlice-covers-max")
	c.ruleU4("U4-writers-serialised")
	c.Min("U4-writers-serialised", 8)
	c.ruleK2("U5-compile-before-publish")
	c.Min("U5-compile-before-publish", 9)
	c.ruleLifecycle("U6-no-lock-while-rules-run", map[string]bool{"engine-call1-no-lock": true, "engine-call2-no-lock": true, "engine-call3-no-lock": true, "engine-call4-no-lock": true})
	// an update reaches the executions that start after it only through the rule builders of gp.rbSlice:
	// every request runs on gp.rbSlice[gw.tag] itself, bound anew by prepare* (the binding obligation of C06-P2)
	c.only = func(key string) bool { return strings.HasSuffix(key, "#own-rulebuilder") }
	c.ruleLifecycleHelpers("U8-instances-run-the-published-builder")
	c.only = nil
	c.Min("U8-instances-run-the-published-builder", 2)
	// a selection is resolved in the container the execution runs, once: the pool's selected methods hand the
	// names on as given (the same-name dispatch of C16-Q5) and the engine method looks them up in the
	// container it took. Names filtered beforehand against the pool's own builder belong to whatever version
	// was installed at that moment; an update between the filter and the run gives a mix of two versions
	c.armPoolArgs("U9-selection-resolved-where-it-runs", func(m string) bool {
		return strings.HasPrefix(m, "ExecuteSelected") && !strings.HasSuffix(m, "WithSpecifiedEM")
	}, 10)
	c.Min("U6-no-lock-while-rules-run", 24)
	c.ruleEngineKeepsNoRules("U7-engine-keeps-no-rules-between-calls")
	c.Min("U7-engine-keeps-no-rules-between-calls", 1)
	c.ruleContainersOwnTheirMemory("U2-containers-own-their-memory")
	c.Min("U2-containers-own-their-memory", 6)
}

// ruleEngineKeepsNoRules (U7): what an execution runs comes from the container it read in this call. An
// engine object may not hand rules from one call to the next: a read of a Gengine field whose type
// mentions compiled rules (RuleEntity, KnowledgeContext) is accepted only under a test that compares a
// KnowledgeContext pointer kept in the engine with the container of this call; kept under anything else
// (the rule builder's address, the names asked for) it survives an update that swaps the container.
func (c *Ctx) ruleEngineKeepsNoRules(rule string) {
	mentionsRules := func(t types.Type) bool {
		found := false
		var walk func(t types.Type, d int)
		walk = func(t types.Type, d int) {
			if found || d > 6 {
				return
			}
			switch u := t.(type) {
			case *types.Named:
				if u.Obj().Pkg() != nil && u.Obj().Pkg().Path() == pBase && (u.Obj().Name() == "RuleEntity" || u.Obj().Name() == "KnowledgeContext") {
					found = true
				}
			case *types.Pointer:
				walk(u.Elem(), d+1)
			case *types.Slice:
				walk(u.Elem(), d+1)
			case *types.Array:
				walk(u.Elem(), d+1)
			case *types.Map:
				walk(u.Key(), d+1)
				walk(u.Elem(), d+1)
			case *types.Struct:
				for i := 0; i < u.NumFields(); i++ {
					walk(u.Field(i).Type(), d+1)
				}
			}
		}
		walk(t, 0)
		return found
	}
	n := 0
	for _, f := range c.AllFns {
		if f.Pkg == nil || f.Pkg.Pkg.Path() != pEngine {
			continue
		}
		x := c.Index(f)
		eachInstr(f, func(in ssa.Instruction) {
			ld, ok := in.(*ssa.UnOp)
			if !ok || ld.Op != token.MUL {
				return
			}
			fa, ok := ld.X.(*ssa.FieldAddr)
			if !ok || structName(fa.X.Type()) != "Gengine" || !mentionsRules(ld.Type()) {
				return
			}
			n++
			// compared with this call's container?
			okGuard := false
			for _, g := range x.GuardsOf(ld.Block()) {
				bo, isB := g.Cond.(*ssa.BinOp)
				if !isB || (bo.Op != token.EQL && bo.Op != token.NEQ) || (bo.Op == token.EQL) != g.Pol {
					continue
				}
				isKept := func(v ssa.Value) bool {
					b, is := x.isFieldLoadAny(v, "Gengine")
					return is && b != nil && structName(derefType(v.Type())) == "KnowledgeContext"
				}
				isSnap := func(v ssa.Value) bool {
					_, is := x.isFieldLoad(v, "RuleBuilder", "Kc")
					return is
				}
				if (isKept(bo.X) && isSnap(bo.Y)) || (isKept(bo.Y) && isSnap(bo.X)) {
					okGuard = true
				}
			}
			c.Check(rule, fmt.Sprintf("%s#reads-%s", fnName(f), fieldOf(fa).Name()), okGuard, in.Pos(), "the engine object hands on compiled rules kept in its field %s from an earlier call without comparing the container they came from with the one of this call: an update that swaps the container is not seen", fieldOf(fa).Name())
		})
	}
	c.Check(rule, "inventory", true, 0, "%d read(s) of rule-holding fields of the engine object", n)
}
