package main

import (
	"encoding/json"
	"fmt"
	"os"
	"runtime/debug"
	"sort"
	"strings"
	"time"

	"golang.org/x/tools/go/ssa"
)

type property struct {
	ID   string
	Run  func(c *Ctx)
	Meta propMeta
}

var registry = map[string]*property{}

func register(id string, run func(c *Ctx), meta propMeta) {
	registry[id] = &property{ID: id, Run: run, Meta: meta}
}

var commonTrusted = []string{
	"go/types and go/ssa of golang.org/x/tools v0.29.0 (type checking, SSA construction, dominators)",
	"the Go memory model for sync.Mutex, sync.WaitGroup, go and defer",
	"the Go language semantics of integer/float operators, range loops and slices",
}

func usage() {
	fmt.Fprintln(os.Stderr, "usage: gverif check <Cxx> [--tier quick|thorough] | gverif all [--tier T] | gverif explain <report.json> | gverif dump <pkg> <recv> <name> | gverif list")
	os.Exit(2)
}

func runProp(p *property, tier string, l *loaded) (code int) {
	c := newCtx(p.ID, tier, l)
	defer func() {
		if r := recover(); r != nil {
			c.obs = append(c.obs, Obligation{Rule: "internal", Key: "analysis-panic", OK: false,
				Detail: fmt.Sprintf("analysis panicked: %v\n%s", r, debug.Stack())})
			code = c.Finish(p.Meta)
		}
	}()
	p.Run(c)
	return c.Finish(p.Meta)
}

func main() {
	if len(os.Args) < 2 {
		usage()
	}
	tier := os.Getenv("VERIF_TIER")
	if tier != "thorough" {
		tier = "quick"
	}
	args := os.Args[2:]
	var rest []string
	for i := 0; i < len(args); i++ {
		if args[i] == "--tier" && i+1 < len(args) {
			tier = args[i+1]
			i++
		} else {
			rest = append(rest, args[i])
		}
	}
	switch os.Args[1] {
	case "list":
		ids := []string{}
		for id := range registry {
			ids = append(ids, id)
		}
		sort.Strings(ids)
		fmt.Println(strings.Join(ids, " "))
	case "funcs":
		// the declared functions of the tree: the reference list for helper inlining (inline.go)
		os.Setenv("GVERIF_NOINLINE", "1")
		l, err := loadRepo(repoDir())
		if err != nil {
			fmt.Println("load failed:", err)
			os.Exit(1)
		}
		var ks []string
		for _, f := range l.Tops {
			if f.Synthetic == "" {
				ks = append(ks, funcKey(f))
			}
		}
		sort.Strings(ks)
		fmt.Println("# declared functions of the reference tree; a function not listed here is inlined into its callers (inline.go)")
		fmt.Println(strings.Join(ks, "\n"))
	case "roles":
		os.Setenv("GVERIF_NOINLINE", "1")
		os.Setenv("GVERIF_NORENAME", "1")
		if err := printRoles(); err != nil {
			fmt.Println("load failed:", err)
			os.Exit(1)
		}
	case "check":
		if len(rest) != 1 {
			usage()
		}
		p := registry[rest[0]]
		if p == nil {
			fmt.Printf("unknown property %s\n", rest[0])
			os.Exit(2)
		}
		l, err := loadRepo(repoDir())
		if err != nil {
			failLoad(p, tier, err)
		}
		os.Exit(runProp(p, tier, l))
	case "all":
		l, err := loadRepo(repoDir())
		if err != nil {
			fmt.Println("load failed:", err)
			os.Exit(1)
		}
		ids := []string{}
		for id := range registry {
			ids = append(ids, id)
		}
		sort.Strings(ids)
		if len(rest) > 0 {
			ids = rest
		}
		worst := 0
		for _, id := range ids {
			if registry[id] == nil {
				fmt.Println("unknown property", id)
				worst = 2
				continue
			}
			if code := runProp(registry[id], tier, l); code > worst {
				worst = code
			}
		}
		os.Exit(worst)
	case "explain":
		if len(rest) != 1 {
			usage()
		}
		b, err := os.ReadFile(rest[0])
		if err != nil {
			fmt.Println(err)
			os.Exit(2)
		}
		var rep map[string]string
		json.Unmarshal(b, &rep)
		p := registry[rep["property"]]
		if p == nil {
			fmt.Println("report names unknown property")
			os.Exit(2)
		}
		l, err := loadRepo(repoDir())
		if err != nil {
			fmt.Println("load failed:", err)
			os.Exit(1)
		}
		c := newCtx(p.ID, tier, l)
		p.Run(c)
		found := false
		for _, o := range c.obs {
			if o.Rule == rep["rule"] && o.Key == rep["key"] {
				found = true
				st := "HOLDS"
				if !o.OK {
					st = "VIOLATED"
				}
				fmt.Printf("%s rule=%s key=%s %s\n  %s\n", st, o.Rule, o.Key, o.Pos, o.Detail)
				if !o.OK {
					fmt.Printf("VIOLATION property=%s replay=%s\n", p.ID, rest[0])
					os.Exit(1)
				}
			}
		}
		if !found {
			fmt.Printf("the construct %s/%s of the report is no longer present on the current tree\n", rep["rule"], rep["key"])
		}
	case "dump":
		l, err := loadRepo(repoDir())
		if err != nil {
			fmt.Println("load failed:", err)
			os.Exit(1)
		}
		c := newCtx("dump", tier, l)
		if len(rest) != 3 {
			usage()
		}
		f := c.Fn(rest[0], rest[1], rest[2])
		if f == nil {
			fmt.Println("not found")
			os.Exit(1)
		}
		var dump func(f *ssa.Function)
		dump = func(f *ssa.Function) {
			f.WriteTo(os.Stdout)
			for _, a := range f.AnonFuncs {
				dump(a)
			}
		}
		dump(f)
	default:
		usage()
	}
}

// failLoad: the tree does not load/type-check, so nothing can be shown.
func failLoad(p *property, tier string, err error) {
	c := &Ctx{Prop: p.ID, Tier: tier, Repo: repoDir(), VerifDir: verifDir(), started: time.Now(),
		mins: map[string]int{}, extra: map[string]interface{}{}}
	c.obs = append(c.obs, Obligation{Rule: "A1-load", Key: "anchor-lost:load", OK: false, Detail: err.Error()})
	os.Exit(c.Finish(p.Meta))
}
