package main

import "golang.org/x/tools/go/ssa"

import "strings"

func init() {
	register("C17", runC17, propMeta{
		Explanation: "Decides the acquire/release pairing and conservation of engine instances, for all arrival orders and for requests that fail or panic: (W1) gengineWrapper values are allocated only in NewGenginePool, poolMinLen + (poolMaxLen - poolMinLen) of them with tags forming a bijection onto [0,max); the free lists are touched only by construction, getGengine and putGengineLocked, so a wrapper leaves a list only by the pop that hands it to one caller; (W2) in all 24 pool execute methods a deferred function is registered after a successful acquire before anything else runs or returns — defer covers error returns and panics — and it puts back the same wrapper exactly once; putGengineLocked appends it exactly once to the list selected by gw.addition under that list's lock; (W3) the head of a list is read and popped in one critical section under the list lock and the exclusive getEngineLock, so no two callers obtain the same wrapper; (W4) every return of getGengine yields the head of a list known non-empty and a nil error, its only other way on is the retry of the wait loop with no lock held, so busy callers wait and returning requests can always put. No pass of the wait loop ends without having found both lists empty. (W5) no pool mutex is held while rules run. (W6) every function that locks a mutex of the pool (getEngineLock, runningLock, additionLock, updateLock) unlocks it on every way out and holds it across code that can fault only with the unlock deferred: a leaked getEngineLock stops every later request beside free instances. Not decided: that a spinning waiter is eventually scheduled (fairness), timing. A request method makes one acquiring call and calls no other request method of the pool (one-acquire). In the deferred function no way to its end — a return or a panic raised again — avoids putGengineLocked (put-on-every-way-out). (W7) no lock of the product is held without a deferred unlock across code that can fault on rule data: the hand-back needs the data context's lock. (W8) in prepare / prepareWithMultiInput nothing reachable after getGengine can fault: between the acquire and the registration of the deferred hand-back a panic would lose the instance.",
		Assumptions: []string{"sync.Mutex/RWMutex contracts", "the Go runtime eventually schedules the goroutine started by putGengineLocked"},
		Trusted:     commonTrusted,
	})
}

func runC17(c *Ctx) {
	c.ruleConstruction("W1-conservation")
	c.Min("W1-conservation", 4)
	c.ruleLifecycle("W2-release-on-all-exits", map[string]bool{"acquire": true, "one-acquire": true, "release-deferred": true, "puts-own-wrapper": true, "put-on-every-way-out": true, "clear-before-put": true})
	c.Min("W2-release-on-all-exits", 96)
	// W2b: an engine taken out of the pool by prepare* is always handed to the caller (who defers the hand-back)
	c.ruleLifecycleHelpers("W2b-acquired-engine-handed-on")
	c.ruleFreeLists("W3-W4-free-lists")
	c.Min("W3-W4-free-lists", 8)
	// no pool lock is held while rules run: a request that keeps a pool lock for the length of its rules
	// lets the others wait on that lock beside free instances (the pool then serves one request at a time)
	// the hand-back deletes the request's keys under the data context's lock: a lock of the product left
	// locked by a recovered fault (held without a deferred unlock across code that can fault on rule
	// data, C09-R9) blocks that delete for ever and the instance never comes back
	// between the acquire and the registration of the deferred hand-back nothing can fault: prepare* take the
	// instance and the request methods defer its release right after them, so what prepare* do once they
	// hold the instance (bind the builder, inject the request's data) must not be able to panic -- an
	// instance held at that moment is lost
	{
		faults := c.faultFinder(map[string]bool{"ValueOf": true, "TypeOf": true, "IsValid": true, "Kind": true})
		nWin := 0
		for _, name := range []string{"prepare", "prepareWithMultiInput"} {
			f := c.MustFn("W8-nothing-faults-before-the-release-is-deferred", "engine", "GenginePool", name)
			if f == nil {
				continue
			}
			var get ssa.Instruction
			eachInstr(f, func(in ssa.Instruction) {
				if call, ok := in.(*ssa.Call); ok && calleeIs(call, pEngine, "GenginePool", "getGengine") {
					get = in
				}
			})
			if get == nil {
				c.Check("W8-nothing-faults-before-the-release-is-deferred", "GenginePool."+name, false, f.Pos(), "no call of getGengine found in %s", name)
				continue
			}
			nWin++
			why := ""
			at, found := pathExists(f, get, func(in ssa.Instruction) bool {
				if w := faults(in, 0); w != "" {
					why = w
					return true
				}
				return false
			}, nil)
			pos := f.Pos()
			if found && at.Pos().IsValid() {
				pos = at.Pos()
			}
			c.Check("W8-nothing-faults-before-the-release-is-deferred", "GenginePool."+name, !found, pos, "after the instance was taken %s runs %s: a fault there ends the request before its deferred hand-back exists, and the instance is lost", name, orStr(why, "nothing that can fault"))
		}
		c.Min("W8-nothing-faults-before-the-release-is-deferred", 2)
		_ = nWin
	}
	c.ruleLockPanicSafe("W7-no-lock-left-behind-by-a-fault")
	c.Min("W7-no-lock-left-behind-by-a-fault", 20)
	c.ruleLifecycle("W5-no-pool-lock-while-rules-run", map[string]bool{"engine-call1-no-lock": true, "engine-call2-no-lock": true, "engine-call3-no-lock": true, "engine-call4-no-lock": true})
	c.Min("W5-no-pool-lock-while-rules-run", 24)
	// a pool mutex that stays locked takes the whole pool with it: getEngineLock is on the way of every
	// request. Every function that locks a mutex of the pool unlocks it on every way out, and holds it
	// across code that can fault only with the unlock deferred (the lock rule of C09-R9, for the pool's mutexes)
	c.only = func(key string) bool { return strings.Contains(key, "#GenginePool.") }
	c.ruleLockPanicSafe("W6-pool-locks-always-released")
	c.only = nil
	c.Min("W6-pool-locks-always-released", 8)
}
