package main

// engine.go — model of the Gengine.Execute* functions and the rules over it:
// M1/M2 (result map), A3 (sequential loop discipline), A4 (fork/join),
// windows, selection, stop tag, snapshot.

import (
	"fmt"
	"go/token"
	"go/types"
	"sort"
	"strings"

	"golang.org/x/tools/go/ssa"
)

const (
	pBase    = modPath + "/internal/base"
	pEngine  = modPath + "/engine"
	pBuilder = modPath + "/builder"
	pContext = modPath + "/context"
	pCore    = modPath + "/internal/core"
	pIparser = modPath + "/internal/iparser"
	pParser  = modPath + "/internal/iantlr/alr"
	pIter    = modPath + "/internal/iter"
	pTool    = modPath + "/internal/tool"
)

// engineExecFns returns the (*Gengine).Execute* methods, sorted by name.
func (c *Ctx) engineExecFns() []*ssa.Function {
	var out []*ssa.Function
	for _, f := range c.Methods("engine", "Gengine") {
		if strings.HasPrefix(f.Name(), "Execute") {
			out = append(out, f)
		}
	}
	sort.Slice(out, func(i, j int) bool { return out[i].Name() < out[j].Name() })
	return out
}

type execSite struct {
	call  *ssa.Call
	in    *ssa.Function // function containing the call (top-level or literal)
	goIn  *ssa.Go       // the go statement that launches `in`, if any
	recv  ssa.Value
	index int // ordinal among the sites of the top-level function
}

func (e *execSite) key() string {
	return fmt.Sprintf("%s#exec%d", fnName(rootOf(e.in)), e.index)
}

type engFn struct {
	c     *Ctx
	fn    *ssa.Function
	x     *FnIndex
	execs []*execSite
	gos   []*ssa.Go
}

func (c *Ctx) engModel(fn *ssa.Function) *engFn {
	m := &engFn{c: c, fn: fn, x: c.Index(fn)}
	goOf := map[*ssa.Function]*ssa.Go{}
	eachInstrDeep(fn, func(f *ssa.Function, in ssa.Instruction) {
		if g, ok := in.(*ssa.Go); ok {
			m.gos = append(m.gos, g)
			if mc, ok := g.Call.Value.(*ssa.MakeClosure); ok {
				if af, ok := mc.Fn.(*ssa.Function); ok {
					goOf[af] = g
				}
			}
		}
	})
	eachInstrDeep(fn, func(f *ssa.Function, in ssa.Instruction) {
		if call, ok := in.(*ssa.Call); ok && calleeIs(call, pBase, "RuleEntity", "Execute") {
			m.execs = append(m.execs, &execSite{call: call, in: f, goIn: goOf[f], recv: m.x.Origin(call.Call.Args[0])})
		}
	})
	sort.Slice(m.execs, func(i, j int) bool { return m.execs[i].call.Pos() < m.execs[j].call.Pos() })
	for i, e := range m.execs {
		e.index = i + 1
	}
	return m
}

func (m *engFn) isExtract(v ssa.Value, call *ssa.Call, idx int) bool {
	ex, ok := m.x.Origin(v).(*ssa.Extract)
	return ok && ex.Tuple == ssa.Value(call) && ex.Index == idx
}

// param returns the parameter with the given type predicate.
func (m *engFn) paramOfType(pred func(types.Type) bool) *ssa.Parameter {
	for _, p := range m.fn.Params {
		if pred(p.Type()) {
			return p
		}
	}
	return nil
}

func isBoolType(t types.Type) bool {
	b, ok := t.Underlying().(*types.Basic)
	return ok && b.Kind() == types.Bool
}

func isNamedPtr(t types.Type, pkg, name string) bool {
	p, ok := t.(*types.Pointer)
	if !ok {
		return false
	}
	n, ok := p.Elem().(*types.Named)
	return ok && n.Obj().Name() == name && n.Obj().Pkg() != nil && n.Obj().Pkg().Path() == pkg
}

func (m *engFn) policyParam() *ssa.Parameter { return m.paramOfType(isBoolType) }
func (m *engFn) stagParam() *ssa.Parameter {
	return m.paramOfType(func(t types.Type) bool { return isNamedPtr(t, pEngine, "Stag") })
}

// ---- M1: a fresh result map first ------------------------------------------

// freshMapStores: stores of a MakeMap into g.returnResult (g the receiver).
func (m *engFn) freshMapStores() []*ssa.Store {
	var out []*ssa.Store
	eachInstr(m.fn, func(in ssa.Instruction) {
		st, ok := in.(*ssa.Store)
		if !ok {
			return
		}
		fa, ok := st.Addr.(*ssa.FieldAddr)
		if !ok {
			return
		}
		fv := fieldOf(fa)
		if fv == nil || fv.Name() != "returnResult" || structName(fa.X.Type()) != "Gengine" {
			return
		}
		if m.x.Origin(fa.X) != ssa.Value(m.fn.Params[0]) {
			return
		}
		if _, ok := m.x.Origin(st.Val).(*ssa.MakeMap); ok {
			out = append(out, st)
		}
	})
	return out
}

// ruleM1: the fresh map dominates every rule execution, go statement,
// addResult call and every return except the `rb == nil` one.
func (c *Ctx) ruleM1(rule string, fns []*ssa.Function) {
	for _, fn := range fns {
		m := c.engModel(fn)
		stores := m.freshMapStores()
		key := fnName(fn)
		if len(stores) == 0 {
			c.Check(rule, key, false, fn.Pos(), "no `g.returnResult = make(map...)` in %s: results of an earlier call survive and a nil map is written", fnName(fn))
			continue
		}
		st := stores[0]
		bad := ""
		var badPos token.Pos
		eachInstr(fn, func(in ssa.Instruction) {
			if bad != "" {
				return
			}
			need := false
			what := ""
			switch t := in.(type) {
			case *ssa.Go:
				need, what = true, "go statement"
			case *ssa.Call:
				if calleeIs(t, pBase, "RuleEntity", "Execute") {
					need, what = true, "rule execution"
				} else if calleeIs(t, pEngine, "Gengine", "addResult") {
					need, what = true, "addResult"
				}
			case *ssa.Return:
				// exempt: return guarded by rb == nil
				exempt := false
				for _, g := range m.x.GuardsOf(t.Block()) {
					if s, neq, ok := nilCheck(g.Cond); ok && !neq && g.Pol {
						if p, ok := m.x.Origin(s).(*ssa.Parameter); ok && isNamedPtr(p.Type(), pBuilder, "RuleBuilder") {
							exempt = true
						}
					}
				}
				if !exempt {
					need, what = true, "return"
				}
			}
			if need && !domInstr(st, in) {
				bad = what
				badPos = in.Pos()
			}
		})
		c.Check(rule, key, bad == "", badPos, "a %s at %s is not dominated by the allocation of a fresh result map", bad, c.pos(badPos))
	}
}

// ---- M2: flag/addResult pairing ---------------------------------------------

func (c *Ctx) ruleM2(rule string, fns []*ssa.Function) {
	for _, fn := range fns {
		m := c.engModel(fn)
		matched := map[ssa.Instruction]bool{}
		for _, e := range m.execs {
			ok, why := m.pairing(e, matched)
			c.Check(rule, e.key(), ok, e.call.Pos(), "%s", why)
		}
		// no other addResult calls
		eachInstrDeep(fn, func(f *ssa.Function, in ssa.Instruction) {
			if call, ok := in.(*ssa.Call); ok && calleeIs(call, pEngine, "Gengine", "addResult") && !matched[call] {
				c.Check(rule, fnName(fn)+"#stray-addResult@"+fnName(f), false, call.Pos(), "addResult call that is not the recording of a rule's own returned value under that rule's returned-flag")
			}
		})
	}
}

func (m *engFn) pairing(e *execSite, matched map[ssa.Instruction]bool) (bool, string) {
	f := e.in
	// the If testing this call's flag
	var flagIf *ssa.If
	eachInstr(f, func(in ssa.Instruction) {
		if iff, ok := in.(*ssa.If); ok && m.isExtract(iff.Cond, e.call, 2) {
			flagIf = iff
		}
	})
	if flagIf == nil {
		return false, "the returned-flag of this rule execution is never tested"
	}
	// every path from the call to an exit or back to the call passes the test
	if hit, found := pathExists(f, e.call, func(in ssa.Instruction) bool { return isExit(in) || in == ssa.Instruction(e.call) }, func(in ssa.Instruction) bool { return in == ssa.Instruction(flagIf) }); found {
		return false, fmt.Sprintf("a path from the rule execution reaches %s without testing its returned-flag", m.c.pos(hit.Pos()))
	}
	tb := flagIf.Block().Succs[0]
	// addResult on the true side with this rule's name and value
	var add *ssa.Call
	for _, in := range tb.Instrs {
		if call, ok := in.(*ssa.Call); ok && calleeIs(call, pEngine, "Gengine", "addResult") {
			add = call
			break
		}
	}
	if add == nil {
		return false, "the true edge of the returned-flag test does not call addResult"
	}
	if !m.x.edgeDominated(flagIf.Block(), 0)[tb] {
		return false, "addResult block is reachable without the returned-flag being true"
	}
	if !m.isExtract(add.Call.Args[2], e.call, 0) {
		return false, "addResult records " + m.x.Describe(add.Call.Args[2]) + ", not the value returned by this rule execution"
	}
	base, ok := m.x.isFieldLoad(add.Call.Args[1], "RuleEntity", "RuleName")
	if !ok || !m.x.sameValue(base, e.recv) {
		return false, "addResult records under " + m.x.Describe(add.Call.Args[1]) + ", not under the RuleName of the rule that was executed (" + m.x.Describe(e.recv) + ")"
	}
	if m.x.Origin(add.Call.Args[0]) != ssa.Value(m.fn.Params[0]) {
		return false, "addResult is called on another engine than the receiver"
	}
	matched[add] = true
	return true, "flag of " + m.x.Describe(e.recv) + ".Execute tested; true edge records (RuleName, value) of the same rule"
}

// ruleM5: the result map is written only by addResult, under g.lock, released on all exits.
func (c *Ctx) ruleM5(rule string) {
	n := 0
	for _, f := range c.AllFns {
		x := c.Index(f)
		eachInstr(f, func(in ssa.Instruction) {
			mu, ok := in.(*ssa.MapUpdate)
			if !ok {
				return
			}
			if _, ok := x.isFieldLoad(mu.Map, "Gengine", "returnResult"); !ok {
				return
			}
			n++
			key := fnName(f) + "#write-returnResult"
			if fnName(f) != "Gengine.addResult" {
				c.Check(rule, key, false, in.Pos(), "the result map is written outside addResult")
				return
			}
			held := x.heldAt(in)
			_, ok = held["Gengine.lock"]
			c.Check(rule, key, ok, in.Pos(), "result map write with locks held: %v (need Gengine.lock)", heldNames(held))
			for _, op := range x.lockOps(f) {
				if op.mutex == "Gengine.lock" && op.kind == "Lock" {
					c.Check(rule, fnName(f)+"#unlock-on-all-exits", x.releasedOnAllExits(op), op.in.Pos(), "g.lock taken in addResult must be released on every exit")
				}
			}
		})
	}
	if n == 0 {
		c.Lost(rule, "a write to Gengine.returnResult")
	}
}

// ruleM4: RuleEntity.Execute turns the zero reflect.Value (bare return / no return) into a nil interface.
func (c *Ctx) ruleM4(rule string) {
	f := c.MustFn(rule, "internal/base", "RuleEntity", "Execute")
	if f == nil {
		return
	}
	x := c.Index(f)
	nilRet, ifaceRet := false, false
	eachInstr(f, func(in ssa.Instruction) {
		r, ok := in.(*ssa.Return)
		if !ok || len(r.Results) != 3 {
			return
		}
		for _, pv := range x.PossibleValues(r.Results[0]) {
			if pv.Outside {
				continue
			}
			if pv.V == nil || isConstNil(pv.V) {
				// must be guarded by v == reflect.ValueOf(nil)
				for _, g := range x.GuardsOf(r.Block()) {
					if b, ok := g.Cond.(*ssa.BinOp); ok && b.Op.String() == "==" && g.Pol && isReflectValue(b.X.Type()) {
						nilRet = true
					}
				}
				continue
			}
			if call, ok := pv.V.(*ssa.Call); ok {
				if fn := call.Call.StaticCallee(); fn != nil && fn.Name() == "Interface" && fn.Pkg != nil && fn.Pkg.Pkg.Path() == "reflect" {
					ifaceRet = true
				}
			}
		}
	})
	c.Check(rule, "RuleEntity.Execute#zero-to-nil", nilRet, f.Pos(), "a return of a nil interface guarded by `v == reflect.ValueOf(nil)` must exist (bare return => nil)")
	c.Check(rule, "RuleEntity.Execute#value-to-interface", ifaceRet, f.Pos(), "the returned value must be v.Interface()")
}
