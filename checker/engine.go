package main

// engine.go — model of the Gengine.Execute* functions and the rules over it:
// M1/M2 (result map), A3 (sequential loop discipline), A4 (fork/join),
// windows, selection, stop tag, snapshot.

import (
	"fmt"
	"go/token"
	"go/types"
	"sort"
	"strings"

	"golang.org/x/tools/go/ssa"
)

const (
	pBase    = modPath + "/internal/base"
	pEngine  = modPath + "/engine"
	pBuilder = modPath + "/builder"
	pContext = modPath + "/context"
	pCore    = modPath + "/internal/core"
	pIparser = modPath + "/internal/iparser"
	pParser  = modPath + "/internal/iantlr/alr"
	pIter    = modPath + "/internal/iter"
	pTool    = modPath + "/internal/tool"
)

// engineExecFns returns the (*Gengine).Execute* methods, sorted by name.
func (c *Ctx) engineExecFns() []*ssa.Function {
	var out []*ssa.Function
	for _, f := range c.Methods("engine", "Gengine") {
		if strings.HasPrefix(f.Name(), "Execute") {
			out = append(out, f)
		}
	}
	sort.Slice(out, func(i, j int) bool { return out[i].Name() < out[j].Name() })
	return out
}

type execSite struct {
	call  *ssa.Call
	in    *ssa.Function // function containing the call (top-level or literal)
	goIn  *ssa.Go       // the go statement that launches `in`, if any
	recv  ssa.Value
	index int // ordinal among the sites of the top-level function
}

func (e *execSite) key() string {
	return fmt.Sprintf("%s#exec%d", fnName(rootOf(e.in)), e.index)
}

type engFn struct {
	c     *Ctx
	fn    *ssa.Function
	x     *FnIndex
	execs []*execSite
	gos   []*ssa.Go
}

func (c *Ctx) engModel(fn *ssa.Function) *engFn {
	m := &engFn{c: c, fn: fn, x: c.Index(fn)}
	goOf := map[*ssa.Function]*ssa.Go{}
	eachInstrDeep(fn, func(f *ssa.Function, in ssa.Instruction) {
		if g, ok := in.(*ssa.Go); ok {
			m.gos = append(m.gos, g)
			if mc, ok := g.Call.Value.(*ssa.MakeClosure); ok {
				if af, ok := mc.Fn.(*ssa.Function); ok {
					goOf[af] = g
				}
			}
		}
	})
	eachInstrDeep(fn, func(f *ssa.Function, in ssa.Instruction) {
		if call, ok := in.(*ssa.Call); ok && calleeIs(call, pBase, "RuleEntity", "Execute") {
			m.execs = append(m.execs, &execSite{call: call, in: f, goIn: goOf[f], recv: m.x.Origin(call.Call.Args[0])})
		}
	})
	sort.Slice(m.execs, func(i, j int) bool { return m.execs[i].call.Pos() < m.execs[j].call.Pos() })
	for i, e := range m.execs {
		e.index = i + 1
	}
	return m
}

func (m *engFn) isExtract(v ssa.Value, call *ssa.Call, idx int) bool {
	ex, ok := m.x.Origin(v).(*ssa.Extract)
	return ok && ex.Tuple == ssa.Value(call) && ex.Index == idx
}

// param returns the parameter with the given type predicate.
func (m *engFn) paramOfType(pred func(types.Type) bool) *ssa.Parameter {
	for _, p := range m.fn.Params {
		if pred(p.Type()) {
			return p
		}
	}
	return nil
}

func isBoolType(t types.Type) bool {
	b, ok := t.Underlying().(*types.Basic)
	return ok && b.Kind() == types.Bool
}

func isNamedPtr(t types.Type, pkg, name string) bool {
	p, ok := t.(*types.Pointer)
	if !ok {
		return false
	}
	n, ok := p.Elem().(*types.Named)
	return ok && n.Obj().Name() == name && n.Obj().Pkg() != nil && n.Obj().Pkg().Path() == pkg
}

func (m *engFn) policyParam() *ssa.Parameter { return m.paramOfType(isBoolType) }
func (m *engFn) stagParam() *ssa.Parameter {
	return m.paramOfType(func(t types.Type) bool { return isNamedPtr(t, pEngine, "Stag") })
}

// ---- M1: a fresh result map first ------------------------------------------

// freshMapStores: stores of a MakeMap into g.returnResult (g the receiver).
func (m *engFn) freshMapStores() []*ssa.Store {
	var out []*ssa.Store
	eachInstr(m.fn, func(in ssa.Instruction) {
		st, ok := in.(*ssa.Store)
		if !ok {
			return
		}
		fa, ok := st.Addr.(*ssa.FieldAddr)
		if !ok {
			return
		}
		fv := fieldOf(fa)
		if fv == nil || fv.Name() != "returnResult" || structName(fa.X.Type()) != "Gengine" {
			return
		}
		if m.x.Origin(fa.X) != ssa.Value(m.fn.Params[0]) {
			return
		}
		if _, ok := m.x.Origin(st.Val).(*ssa.MakeMap); ok {
			out = append(out, st)
		}
	})
	return out
}

// ruleM1: the fresh map dominates every rule execution, go statement,
// addResult call and every return except the `rb == nil` one.
func (c *Ctx) ruleM1(rule string, fns []*ssa.Function) {
	for _, fn := range fns {
		m := c.engModel(fn)
		stores := m.freshMapStores()
		key := fnName(fn)
		if len(stores) == 0 {
			c.Check(rule, key, false, fn.Pos(), "no `g.returnResult = make(map...)` in %s: results of an earlier call survive and a nil map is written", fnName(fn))
			continue
		}
		st := stores[0]
		bad := ""
		var badPos token.Pos
		eachInstr(fn, func(in ssa.Instruction) {
			if bad != "" {
				return
			}
			need := false
			what := ""
			switch t := in.(type) {
			case *ssa.Go:
				need, what = true, "go statement"
			case *ssa.Call:
				if calleeIs(t, pBase, "RuleEntity", "Execute") {
					need, what = true, "rule execution"
				} else if calleeIs(t, pEngine, "Gengine", "addResult") {
					need, what = true, "addResult"
				}
			case *ssa.Return:
				// exempt: return guarded by rb == nil
				exempt := false
				for _, g := range m.x.GuardsOf(t.Block()) {
					if s, neq, ok := nilCheck(g.Cond); ok && !neq && g.Pol {
						if p, ok := m.x.Origin(s).(*ssa.Parameter); ok && isNamedPtr(p.Type(), pBuilder, "RuleBuilder") {
							exempt = true
						}
					}
				}
				if !exempt {
					need, what = true, "return"
				}
			}
			if need && !domInstr(st, in) {
				bad = what
				badPos = in.Pos()
			}
		})
		c.Check(rule, key, bad == "", badPos, "a %s at %s is not dominated by the allocation of a fresh result map", bad, c.pos(badPos))
	}
}

// ---- M2: flag/addResult pairing ---------------------------------------------

func (c *Ctx) ruleM2(rule string, fns []*ssa.Function) {
	for _, fn := range fns {
		m := c.engModel(fn)
		matched := map[ssa.Instruction]bool{}
		for _, e := range m.execs {
			ok, why := m.pairing(e, matched)
			c.Check(rule, e.key(), ok, e.call.Pos(), "%s", why)
		}
		// no other addResult calls
		eachInstrDeep(fn, func(f *ssa.Function, in ssa.Instruction) {
			if call, ok := in.(*ssa.Call); ok && calleeIs(call, pEngine, "Gengine", "addResult") && !matched[call] {
				c.Check(rule, fnName(fn)+"#stray-addResult@"+fnName(f), false, call.Pos(), "addResult call that is not the recording of a rule's own returned value under that rule's returned-flag")
			}
		})
	}
}

func (m *engFn) pairing(e *execSite, matched map[ssa.Instruction]bool) (bool, string) {
	f := e.in
	// the If testing this call's flag
	var flagIf *ssa.If
	eachInstr(f, func(in ssa.Instruction) {
		if iff, ok := in.(*ssa.If); ok && m.isExtract(iff.Cond, e.call, 2) {
			flagIf = iff
		}
	})
	if flagIf == nil {
		return false, "the returned-flag of this rule execution is never tested"
	}
	// every path from the call to an exit or back to the call passes the test
	if hit, found := pathExists(f, e.call, func(in ssa.Instruction) bool { return isExit(in) || in == ssa.Instruction(e.call) }, func(in ssa.Instruction) bool { return in == ssa.Instruction(flagIf) }); found {
		return false, fmt.Sprintf("a path from the rule execution reaches %s without testing its returned-flag", m.c.pos(hit.Pos()))
	}
	tb := flagIf.Block().Succs[0]
	// addResult on the true side with this rule's name and value
	var add *ssa.Call
	for _, in := range tb.Instrs {
		if call, ok := in.(*ssa.Call); ok && calleeIs(call, pEngine, "Gengine", "addResult") {
			add = call
			break
		}
	}
	if add == nil {
		return false, "the true edge of the returned-flag test does not call addResult"
	}
	if !m.x.edgeDominated(flagIf.Block(), 0)[tb] {
		return false, "addResult block is reachable without the returned-flag being true"
	}
	if !m.isExtract(add.Call.Args[2], e.call, 0) {
		return false, "addResult records " + m.x.Describe(add.Call.Args[2]) + ", not the value returned by this rule execution"
	}
	base, ok := m.x.isFieldLoad(add.Call.Args[1], "RuleEntity", "RuleName")
	if !ok || !m.x.sameValue(base, e.recv) {
		return false, "addResult records under " + m.x.Describe(add.Call.Args[1]) + ", not under the RuleName of the rule that was executed (" + m.x.Describe(e.recv) + ")"
	}
	if m.x.Origin(add.Call.Args[0]) != ssa.Value(m.fn.Params[0]) {
		return false, "addResult is called on another engine than the receiver"
	}
	matched[add] = true
	return true, "flag of " + m.x.Describe(e.recv) + ".Execute tested; true edge records (RuleName, value) of the same rule"
}

// ruleM5: the result map is written only by addResult, under g.lock, released on all exits.
func (c *Ctx) ruleM5(rule string) {
	n := 0
	for _, f := range c.AllFns {
		x := c.Index(f)
		eachInstr(f, func(in ssa.Instruction) {
			mu, ok := in.(*ssa.MapUpdate)
			if !ok {
				return
			}
			if _, ok := x.isFieldLoad(mu.Map, "Gengine", "returnResult"); !ok {
				return
			}
			n++
			key := fnName(f) + "#write-returnResult"
			if fnName(f) != "Gengine.addResult" {
				c.Check(rule, key, false, in.Pos(), "the result map is written outside addResult")
				return
			}
			held := x.heldAt(in)
			_, ok = held["Gengine.lock"]
			c.Check(rule, key, ok, in.Pos(), "result map write with locks held: %v (need Gengine.lock)", heldNames(held))
			for _, op := range x.lockOps(f) {
				if op.mutex == "Gengine.lock" && op.kind == "Lock" {
					c.Check(rule, fnName(f)+"#unlock-on-all-exits", x.releasedOnAllExits(op), op.in.Pos(), "g.lock taken in addResult must be released on every exit")
				}
			}
		})
	}
	if n == 0 {
		c.Lost(rule, "a write to Gengine.returnResult")
	}
}

// ruleM4: RuleEntity.Execute turns the zero reflect.Value (bare return / no return) into a nil interface.
func (c *Ctx) ruleM4(rule string) {
	f := c.MustFn(rule, "internal/base", "RuleEntity", "Execute")
	if f == nil {
		return
	}
	x := c.Index(f)
	nilRet, ifaceRet := false, false
	eachInstr(f, func(in ssa.Instruction) {
		r, ok := in.(*ssa.Return)
		if !ok || len(r.Results) != 3 {
			return
		}
		for _, pv := range x.PossibleValues(r.Results[0]) {
			if pv.Outside {
				continue
			}
			if pv.V == nil || isConstNil(pv.V) {
				// must be guarded by v == reflect.ValueOf(nil)
				for _, g := range x.GuardsOf(r.Block()) {
					if b, ok := g.Cond.(*ssa.BinOp); ok && b.Op.String() == "==" && g.Pol && isReflectValue(b.X.Type()) {
						nilRet = true
					}
				}
				continue
			}
			if call, ok := pv.V.(*ssa.Call); ok {
				if fn := call.Call.StaticCallee(); fn != nil && fn.Name() == "Interface" && fn.Pkg != nil && fn.Pkg.Pkg.Path() == "reflect" {
					ifaceRet = true
				}
			}
		}
	})
	c.Check(rule, "RuleEntity.Execute#zero-to-nil", nilRet, f.Pos(), "a return of a nil interface guarded by `v == reflect.ValueOf(nil)` must exist (bare return => nil)")
	c.Check(rule, "RuleEntity.Execute#value-to-interface", ifaceRet, f.Pos(), "the returned value must be v.Interface()")
}

// ---- error list and error values ---------------------------------------------

// errList finds the []string variable that collects rule errors (appended to).
func (m *engFn) errList() *ssa.Alloc {
	var found *ssa.Alloc
	eachInstrDeep(m.fn, func(f *ssa.Function, in ssa.Instruction) {
		st, ok := in.(*ssa.Store)
		if !ok {
			return
		}
		al, ok := m.x.ResolveAddr(st.Addr).(*ssa.Alloc)
		if !ok || al.Parent() != m.fn {
			return
		}
		sl, ok := al.Type().(*types.Pointer).Elem().Underlying().(*types.Slice)
		if !ok {
			return
		}
		if b, ok := sl.Elem().Underlying().(*types.Basic); !ok || b.Kind() != types.String {
			return
		}
		if args, ok := builtinCall(st.Val, "append"); ok && m.x.Cell(args[0]) == al {
			if found == nil || al.Pos() < found.Pos() {
				found = al
			}
		}
	})
	return found
}

func (m *engFn) isErrListStore(in ssa.Instruction, e *ssa.Alloc) bool {
	st, ok := in.(*ssa.Store)
	if !ok || e == nil {
		return false
	}
	if m.x.ResolveAddr(st.Addr) != ssa.Value(e) {
		return false
	}
	args, ok := builtinCall(st.Val, "append")
	return ok && m.x.Cell(args[0]) == e
}

func isNewError(v ssa.Value) bool {
	call, ok := v.(*ssa.Call)
	if !ok {
		return false
	}
	f := call.Call.StaticCallee()
	if f == nil {
		return false
	}
	return fnIs(f, "errors", "", "New") || fnIs(f, "fmt", "", "Errorf")
}

// ---- A3: sequential rule loop discipline ----------------------------------------

type seqLoop struct {
	site    *execSite
	loop    *Loop
	ranged  ssa.Value // slice being ranged
	hasStop bool      // an error-stop exit exists
	hasTag  bool      // a stop-tag exit exists
	records bool      // errors are appended to the error list
}

func (m *engFn) syncLoopSites() []*seqLoop {
	var out []*seqLoop
	for _, e := range m.execs {
		if e.in != m.fn {
			continue
		}
		l := m.x.InnermostLoop(e.call.Block())
		if l == nil {
			continue
		}
		sl := &seqLoop{site: e, loop: l}
		if s, rl, ok := m.x.rangedSlice(e.call.Call.Args[0]); ok && rl == l {
			sl.ranged = s
		}
		out = append(out, sl)
	}
	return out
}

// ruleA3 checks every sequential rule loop of the function. policy: "param"
// (use the bool parameter), decided per loop below.
func (c *Ctx) ruleA3(rule string, fn *ssa.Function) []*seqLoop {
	m := c.engModel(fn)
	x := m.x
	E := m.errList()
	bPar := m.policyParam()
	sPar := m.stagParam()
	loops := m.syncLoopSites()
	for _, sl := range loops {
		e, L := sl.site, sl.loop
		key := e.key()
		fail := func(sub string, p token.Pos, f string, a ...interface{}) {
			c.Check(rule, key+"/"+sub, false, p, f, a...)
		}
		pass := func(sub string, f string, a ...interface{}) {
			c.Check(rule, key+"/"+sub, true, e.call.Pos(), f, a...)
		}
		// R4: one execution per iteration
		n := 0
		for _, o := range m.execs {
			if o.in == m.fn && L.Blocks[o.call.Block()] {
				n++
			}
		}
		if n != 1 {
			fail("once", e.call.Pos(), "%d rule executions inside one sequential loop iteration (want exactly one)", n)
		} else {
			pass("once", "one RuleEntity.Execute per iteration")
		}
		if sl.ranged == nil {
			fail("ranged", e.call.Pos(), "the executed rule is not the element of the slice this loop ranges over")
		} else {
			pass("ranged", "executes the element of %s", x.Describe(sl.ranged))
		}
		// the err != nil test
		var errIf *ssa.If
		eachInstr(fn, func(in ssa.Instruction) {
			if iff, ok := in.(*ssa.If); ok && L.Blocks[iff.Block()] {
				if s, neq, ok := nilCheck(iff.Cond); ok && neq && m.isExtract(s, e.call, 1) {
					errIf = iff
				}
			}
		})
		headStart := L.Head.Instrs[0]
		if errIf == nil {
			fail("err-tested", e.call.Pos(), "the error of the rule execution is not tested with `!= nil` inside the loop")
			continue
		}
		if hit, found := pathExists(fn, e.call, func(in ssa.Instruction) bool { return in == headStart || isExit(in) }, func(in ssa.Instruction) bool { return in == ssa.Instruction(errIf) }); found {
			fail("err-tested", hit.Pos(), "a path from the rule execution reaches the next iteration or an exit without testing its error")
		} else {
			pass("err-tested", "error tested on every path")
		}
		// exit edges
		normalExit := map[*ssa.BasicBlock]bool{}
		for _, s := range L.Head.Succs {
			if !L.Blocks[s] {
				normalExit[s] = true
			}
		}
		var blocks []*ssa.BasicBlock
		for b := range L.Blocks {
			blocks = append(blocks, b)
		}
		sort.Slice(blocks, func(i, j int) bool { return blocks[i].Index < blocks[j].Index })
		exitOK := true
		for _, b := range blocks {
			for i, s := range b.Succs {
				if L.Blocks[s] || b == L.Head {
					continue
				}
				// guards of the edge, restricted to tests made inside the loop
				gs := x.GuardsOf(b)
				if iff, ok := b.Instrs[len(b.Instrs)-1].(*ssa.If); ok {
					gs = append(gs, Guard{iff, iff.Cond, i == 0})
				}
				errNonNil, bFalse, tagTrue, other := false, false, false, ""
				for _, g := range gs {
					if !L.Blocks[g.If.Block()] || g.If.Block() == L.Head {
						continue
					}
					if sbj, neq, ok := nilCheck(g.Cond); ok && m.isExtract(sbj, e.call, 1) {
						if neq == g.Pol {
							errNonNil = true
						} else {
							other = "exit under err == nil"
						}
						continue
					}
					if bPar != nil && x.Origin(g.Cond) == ssa.Value(bPar) {
						if !g.Pol {
							bFalse = true
						} else {
							other = "exit under continue-on-error"
						}
						continue
					}
					if base, ok := x.isFieldLoad(g.Cond, "Stag", "StopTag"); ok && sPar != nil && x.Origin(base) == ssa.Value(sPar) {
						if g.Pol {
							tagTrue = true
						} else {
							other = "exit under StopTag == false"
						}
						continue
					}
					if m.isExtract(g.Cond, e.call, 2) {
						// being on one side of the returned-flag test is irrelevant only if both sides exit alike; treat as foreign
						other = "exit depends on the returned-flag"
						continue
					}
					d := x.Describe(g.Cond)
					if !g.Pol {
						d = "!" + d
					}
					other = "exit depends on " + d
				}
				epos := b.Instrs[len(b.Instrs)-1].Pos()
				if !epos.IsValid() && len(s.Instrs) > 0 {
					epos = s.Instrs[0].Pos()
				}
				switch {
				case other != "":
					exitOK = false
					fail(fmt.Sprintf("exit-b%d", b.Index), epos, "unexpected way out of the sequential rule loop: %s (guards: %s)", other, x.describeGuards(gs))
				case tagTrue && !errNonNil:
					sl.hasTag = true
					// the tag must be read after this iteration's rule ran, and lead to the normal exit
					var ld ssa.Instruction
					for _, g := range gs {
						if _, ok := x.isFieldLoad(g.Cond, "Stag", "StopTag"); ok {
							if u, ok := x.Origin(g.Cond).(*ssa.UnOp); ok {
								ld = u
							}
						}
					}
					if ld == nil || !domInstr(e.call, ld) {
						exitOK = false
						fail("tag-after-rule", epos, "the stop tag is not read after the rule execution of the same iteration")
					}
					if !normalExit[s] {
						exitOK = false
						fail("tag-exit-target", epos, "the stop-tag exit does not continue at the loop's normal exit (the collected errors would be lost)")
					}
				case errNonNil && (bPar == nil || bFalse) && !tagTrue:
					// error stop: nothing else may run, a non-nil error is returned
					if bPar == nil && E != nil && x.storeReaches(E, L) {
						exitOK = false
						fail("stop-in-continue-loop", epos, "this loop has no error-policy flag and collects errors (continue-on-error), yet it returns at the first error")
						continue
					}
					sl.hasStop = true
					first := s.Instrs[0]
					if hit, found := pathFrom(first, func(in ssa.Instruction) bool {
						if _, ok := in.(*ssa.Go); ok {
							return true
						}
						if call, ok := in.(*ssa.Call); ok && calleeIs(call, pBase, "RuleEntity", "Execute") {
							return true
						}
						return false
					}, nil); found {
						exitOK = false
						fail("stop-runs-more", hit.Pos(), "after stopping at a failed rule another rule still runs")
					}
					if hit, found := pathFrom(first, func(in ssa.Instruction) bool {
						r, ok := in.(*ssa.Return)
						if !ok {
							return false
						}
						for _, pv := range x.PossibleValues(r.Results[len(r.Results)-1]) {
							if pv.V != nil && isNewError(pv.V) {
								continue
							}
							if pv.V != nil && m.isExtract(pv.V, e.call, 1) {
								continue
							}
							return true
						}
						return false
					}, nil); found {
						exitOK = false
						fail("stop-returns-error", hit.Pos(), "the stop-on-error exit can return something other than a non-nil error")
					}
				default:
					exitOK = false
					fail(fmt.Sprintf("exit-b%d", b.Index), epos, "unexpected way out of the sequential rule loop (guards: %s): allowed are only `err != nil && !continueOnError -> return error` and the stop-tag break", x.describeGuards(gs))
				}
			}
		}
		if exitOK {
			pass("exits", "every exit of the loop is the loop end, the stop-on-error return or the stop-tag break")
		}
		// R2: a failure is either recorded or stops the loop
		tb := errIf.Block().Succs[0]
		if hit, found := pathFrom(tb.Instrs[0], func(in ssa.Instruction) bool { return in == headStart }, func(in ssa.Instruction) bool { return m.isErrListStore(in, E) }); found {
			_ = hit
			fail("failure-recorded", errIf.Pos(), "a failed rule can be followed by the next iteration without its error being recorded in the error list")
		} else {
			pass("failure-recorded", "after a failure the loop either stops or records the error")
		}
		sl.records = false
		if E != nil {
			if _, found := pathFrom(tb.Instrs[0], func(in ssa.Instruction) bool { return m.isErrListStore(in, E) }, nil); found {
				sl.records = true
			}
		}
		// required exits by policy
		switch {
		case bPar != nil:
			if !sl.hasStop {
				fail("policy-stop", errIf.Pos(), "with stop-on-error (flag false) the loop must return at the first failed rule, but no such exit exists")
			} else if !sl.records {
				fail("policy-continue", errIf.Pos(), "with continue-on-error (flag true) the error must be collected, but nothing is appended to the error list")
			} else {
				pass("policy", "flag false -> return the error; flag true -> collect and continue")
			}
		case E == nil || !sl.records:
			if !sl.hasStop {
				fail("policy-stop", errIf.Pos(), "this loop neither collects errors nor stops at the first failure")
			} else {
				pass("policy", "constant stop-on-error")
			}
		default:
			pass("policy", "constant continue-on-error, errors collected")
		}
		// A3-T
		if sPar != nil {
			isTagIf := func(in ssa.Instruction) bool {
				iff, ok := in.(*ssa.If)
				if !ok {
					return false
				}
				base, ok := x.isFieldLoad(iff.Cond, "Stag", "StopTag")
				return ok && x.Origin(base) == ssa.Value(sPar)
			}
			if _, found := pathExists(fn, e.call, func(in ssa.Instruction) bool { return in == headStart }, isTagIf); found {
				fail("tag-checked", e.call.Pos(), "a path from the rule execution to the next iteration does not read the stop tag")
			} else if !sl.hasTag {
				fail("tag-checked", e.call.Pos(), "the stop tag is read but a true tag does not leave the loop")
			} else {
				pass("tag-checked", "stop tag read after every rule; true leaves the loop")
			}
		}
	}
	return loops
}

// storeReaches: some append to the error list happens inside the loop.
func (x *FnIndex) storeReaches(e *ssa.Alloc, l *Loop) bool {
	for _, st := range x.stores[e] {
		if l.Blocks[st.Block()] {
			return true
		}
	}
	return false
}

// pathFrom is pathExists starting at (and including) a given instruction.
func pathFrom(first ssa.Instruction, to func(ssa.Instruction) bool, blocked func(ssa.Instruction) bool) (ssa.Instruction, bool) {
	if to(first) {
		return first, true
	}
	if blocked != nil && blocked(first) {
		return nil, false
	}
	return pathExists(first.Parent(), first, to, blocked)
}

// ---- R7 / O4: collected errors surface -------------------------------------------

// ruleErrSurface: a nil (or passed-through) error is returned only when the
// error list is known to be empty; a return under len(list)>0 is a new error.
func (c *Ctx) ruleErrSurface(rule string, fn *ssa.Function) {
	m := c.engModel(fn)
	x := m.x
	E := m.errList()
	if E == nil {
		c.Check(rule, fnName(fn)+"#no-error-list", true, fn.Pos(), "function keeps no error list")
		return
	}
	// writers: in-function appends and go statements whose literal appends
	isWriter := func(in ssa.Instruction) bool {
		if m.isErrListStore(in, E) {
			return true
		}
		if g, ok := in.(*ssa.Go); ok {
			if mc, ok := g.Call.Value.(*ssa.MakeClosure); ok {
				if af, ok := mc.Fn.(*ssa.Function); ok {
					w := false
					eachInstrDeep(af, func(_ *ssa.Function, i2 ssa.Instruction) {
						if m.isErrListStore(i2, E) {
							w = true
						}
					})
					return w
				}
			}
		}
		return false
	}
	var writers []ssa.Instruction
	eachInstr(fn, func(in ssa.Instruction) {
		if isWriter(in) {
			writers = append(writers, in)
		}
	})
	ri := 0
	eachInstr(fn, func(in ssa.Instruction) {
		r, ok := in.(*ssa.Return)
		if !ok {
			return
		}
		ri++
		key := fmt.Sprintf("%s#return%d", fnName(fn), ri)
		reach := false
		for _, w := range writers {
			if _, found := pathExists(fn, w, func(i2 ssa.Instruction) bool { return i2 == in }, nil); found {
				reach = true
			}
		}
		// guard on the list
		emptyKnown, nonEmptyKnown := false, false
		for _, g := range x.GuardsOf(r.Block()) {
			if arg, nonEmpty, ok := lenCmp(g.Cond); ok && x.Cell(arg) == E {
				if nonEmpty == g.Pol {
					nonEmptyKnown = true
				} else {
					emptyKnown = true
				}
			}
		}
		vals := x.PossibleValues(r.Results[len(r.Results)-1])
		ok2 := true
		why := "ok"
		for _, pv := range vals {
			isNew := pv.V != nil && isNewError(pv.V)
			if nonEmptyKnown && !isNew {
				ok2, why = false, "under len(errors) > 0 the function returns "+x.Describe(pv.V)+" instead of a new error"
			}
			if !isNew && reach && !emptyKnown && !nonEmptyKnown {
				// returning nil / a single rule's error while collected errors may be pending
				if pv.V != nil && !isConstNil(pv.V) && x.knownNonNil(pv.V, r.Block()) {
					continue // a definite error is returned anyway
				}
				ok2, why = false, "returns "+x.Describe(pv.V)+" although errors may have been collected and the list is not known to be empty here"
			}
		}
		c.Check(rule, key, ok2, r.Pos(), "%s", why)
	})
}

// ---- O1: comparator direction ---------------------------------------------------

type sortSite struct {
	call  *ssa.Call
	fn    *ssa.Function
	slice ssa.Value // the sorted slice (first argument, unwrapped)
}

func (c *Ctx) ruleEntitySortSites() []*sortSite {
	var out []*sortSite
	for _, f := range c.AllFns {
		eachInstr(f, func(in ssa.Instruction) {
			call, ok := in.(*ssa.Call)
			if !ok {
				return
			}
			cal := call.Call.StaticCallee()
			if cal == nil || cal.Pkg == nil || cal.Pkg.Pkg.Path() != "sort" {
				return
			}
			if cal.Name() != "SliceStable" && cal.Name() != "Slice" && cal.Name() != "Sort" && cal.Name() != "Stable" {
				return
			}
			x := c.Index(f)
			arg := x.Origin(call.Call.Args[0])
			if mi, ok := arg.(*ssa.MakeInterface); ok {
				arg = mi.X
			}
			sl, ok := arg.Type().Underlying().(*types.Slice)
			if !ok || structName(sl.Elem()) != "RuleEntity" {
				return
			}
			out = append(out, &sortSite{call: call, fn: f, slice: arg})
		})
	}
	sort.Slice(out, func(i, j int) bool { return out[i].call.Pos() < out[j].call.Pos() })
	return out
}

// ruleO1: every sort of rule entities uses less(i,j) = s[i].Salience > s[j].Salience on the sorted slice.
func (c *Ctx) ruleO1(rule string) {
	sites := c.ruleEntitySortSites()
	perFn := map[string]int{}
	for _, s := range sites {
		x := c.Index(s.fn)
		perFn[fnName(s.fn)]++
		key := fmt.Sprintf("%s#sort%d", fnName(s.fn), perFn[fnName(s.fn)])
		cal := s.call.Call.StaticCallee()
		if cal.Name() != "SliceStable" && cal.Name() != "Slice" {
			c.Check(rule, key, false, s.call.Pos(), "rule entities sorted with sort.%s: comparator not analysable", cal.Name())
			continue
		}
		mc, ok := s.call.Call.Args[1].(*ssa.MakeClosure)
		if !ok {
			c.Check(rule, key, false, s.call.Pos(), "less function is not a function literal")
			continue
		}
		less := mc.Fn.(*ssa.Function)
		ok, why := x.lessIsDescendingSalience(less, s.slice)
		c.Check(rule, key, ok, s.call.Pos(), "%s", why)
	}
}

func (x *FnIndex) lessIsDescendingSalience(less *ssa.Function, sorted ssa.Value) (bool, string) {
	var rets []*ssa.Return
	eachInstr(less, func(in ssa.Instruction) {
		if r, ok := in.(*ssa.Return); ok {
			rets = append(rets, r)
		}
	})
	if len(rets) != 1 || len(less.Params) != 2 {
		return false, "less function is not a single comparison"
	}
	bo, ok := x.Origin(rets[0].Results[0]).(*ssa.BinOp)
	if !ok {
		return false, "less function does not return a comparison"
	}
	side := func(v ssa.Value) (idx ssa.Value, sl ssa.Value, ok bool) {
		base, ok := x.isFieldLoad(v, "RuleEntity", "Salience")
		if !ok {
			return nil, nil, false
		}
		u, ok := x.Origin(base).(*ssa.UnOp)
		if !ok {
			return nil, nil, false
		}
		ia, ok := u.X.(*ssa.IndexAddr)
		if !ok {
			return nil, nil, false
		}
		return x.Origin(ia.Index), ia.X, true
	}
	li, ls, ok1 := side(bo.X)
	ri, rs, ok2 := side(bo.Y)
	if !ok1 || !ok2 {
		return false, "less does not compare the Salience of two elements"
	}
	if !x.sameValue(ls, sorted) || !x.sameValue(rs, sorted) {
		return false, "less indexes " + x.Describe(ls) + ", but " + x.Describe(sorted) + " is being sorted"
	}
	i, j := ssa.Value(less.Params[0]), ssa.Value(less.Params[1])
	switch {
	case bo.Op == token.GTR && li == i && ri == j:
		return true, "less(i,j) = s[i].Salience > s[j].Salience (descending)"
	case bo.Op == token.LSS && li == j && ri == i:
		return true, "less(i,j) = s[j].Salience < s[i].Salience (descending)"
	}
	return false, fmt.Sprintf("less(i,j) is s[%s].Salience %s s[%s].Salience: not a strict descending-salience order", x.Describe(li), bo.Op, x.Describe(ri))
}

// ---- O2: order source of a sequential loop ------------------------------------

// orderSource classifies the slice a loop ranges over: "container" (kc.SortRules),
// "sorted-local" (a local slice sorted on every path unless shorter than 2),
// "unsorted-local", or "other".
func (c *Ctx) orderSource(fn *ssa.Function, ranged ssa.Value, before ssa.Instruction) (string, string) {
	x := c.Index(fn)
	base, _, _ := x.sliceInterval(ranged)
	if b, ok := x.isFieldLoad(base, "KnowledgeContext", "SortRules"); ok {
		return "container", x.Describe(b) + ".SortRules"
	}
	cell := x.Cell(base)
	if cell == nil {
		return "other", x.Describe(base)
	}
	// sort calls on this cell
	var sorts []*ssa.Call
	for _, s := range c.ruleEntitySortSites() {
		if s.fn == fn && x.Cell(s.slice) == cell {
			sorts = append(sorts, s.call)
		}
	}
	if len(sorts) == 0 {
		return "unsorted-local", cell.Comment
	}
	isSort := func(in ssa.Instruction) bool {
		for _, s := range sorts {
			if in == ssa.Instruction(s) {
				return true
			}
		}
		return false
	}
	// tests `len(cell) >= 2` whose true edge leads to the sort
	isLenTest := func(in ssa.Instruction) bool {
		iff, ok := in.(*ssa.If)
		if !ok {
			return false
		}
		bo, ok := iff.Cond.(*ssa.BinOp)
		if !ok {
			return false
		}
		la, isLen := builtinCall(bo.X, "len")
		k, isK := constInt(bo.Y)
		if !isLen || !isK || x.Cell(la[0]) != cell {
			return false
		}
		if !((bo.Op == token.GEQ && k == 2) || (bo.Op == token.GTR && k == 1)) {
			return false
		}
		for _, s := range sorts {
			if x.edgeDominated(iff.Block(), 0)[s.Block()] {
				return true
			}
		}
		return false
	}
	// every path from the last append to the use passes the sort or the len test
	var lastStores []ssa.Instruction
	for _, st := range x.stores[cell] {
		lastStores = append(lastStores, st)
	}
	for _, st := range lastStores {
		if _, found := pathExists(fn, st, func(in ssa.Instruction) bool { return in == before }, func(in ssa.Instruction) bool { return isSort(in) || isLenTest(in) || x.isStoreTo(in, cell) }); found {
			return "unsorted-local", cell.Comment + " (a path from an append reaches the loop without the sort)"
		}
	}
	return "sorted-local", cell.Comment
}

func (x *FnIndex) isStoreTo(in ssa.Instruction, cell *ssa.Alloc) bool {
	st, ok := in.(*ssa.Store)
	return ok && x.ResolveAddr(st.Addr) == ssa.Value(cell)
}
