package main

// engine.go — model of the Gengine.Execute* functions and the rules over it:
// M1/M2 (result map), A3 (sequential loop discipline), A4 (fork/join),
// windows, selection, stop tag, snapshot.

import (
	"fmt"
	"go/token"
	"go/types"
	"sort"
	"strings"

	"golang.org/x/tools/go/ssa"
)

const (
	pBase    = modPath + "/internal/base"
	pEngine  = modPath + "/engine"
	pBuilder = modPath + "/builder"
	pContext = modPath + "/context"
	pCore    = modPath + "/internal/core"
	pIparser = modPath + "/internal/iparser"
	pParser  = modPath + "/internal/iantlr/alr"
	pIter    = modPath + "/internal/iter"
	pTool    = modPath + "/internal/tool"
)

// engineExecFns returns the (*Gengine).Execute* methods, sorted by name.
func (c *Ctx) engineExecFns() []*ssa.Function {
	var out []*ssa.Function
	for _, f := range c.Methods("engine", "Gengine") {
		if strings.HasPrefix(f.Name(), "Execute") {
			out = append(out, f)
		}
	}
	sort.Slice(out, func(i, j int) bool { return out[i].Name() < out[j].Name() })
	return out
}

type execSite struct {
	call  *ssa.Call
	in    *ssa.Function // function containing the call (top-level or literal)
	goIn  *ssa.Go       // the go statement that launches `in`, if any
	recv  ssa.Value
	index int // ordinal among the sites of the top-level function
}

func (e *execSite) key() string {
	return fmt.Sprintf("%s#exec%d", fnName(rootOf(e.in)), e.index)
}

type engFn struct {
	c     *Ctx
	fn    *ssa.Function
	x     *FnIndex
	execs []*execSite
	gos   []*ssa.Go
}

func (c *Ctx) engModel(fn *ssa.Function) *engFn {
	m := &engFn{c: c, fn: fn, x: c.Index(fn)}
	goOf := map[*ssa.Function]*ssa.Go{}
	eachInstrDeep(fn, func(f *ssa.Function, in ssa.Instruction) {
		if g, ok := in.(*ssa.Go); ok {
			m.gos = append(m.gos, g)
			if mc, ok := g.Call.Value.(*ssa.MakeClosure); ok {
				if af, ok := mc.Fn.(*ssa.Function); ok {
					goOf[af] = g
				}
			}
		}
	})
	eachInstrDeep(fn, func(f *ssa.Function, in ssa.Instruction) {
		if call, ok := in.(*ssa.Call); ok && calleeIs(call, pBase, "RuleEntity", "Execute") {
			m.execs = append(m.execs, &execSite{call: call, in: f, goIn: goOf[f], recv: m.x.Origin(call.Call.Args[0])})
		}
	})
	sort.Slice(m.execs, func(i, j int) bool { return m.execs[i].call.Pos() < m.execs[j].call.Pos() })
	for i, e := range m.execs {
		e.index = i + 1
	}
	return m
}

func (m *engFn) isExtract(v ssa.Value, call *ssa.Call, idx int) bool {
	ex, ok := m.x.Origin(v).(*ssa.Extract)
	return ok && ex.Tuple == ssa.Value(call) && ex.Index == idx
}

// param returns the parameter with the given type predicate.
func (m *engFn) paramOfType(pred func(types.Type) bool) *ssa.Parameter {
	for _, p := range m.fn.Params {
		if pred(p.Type()) {
			return p
		}
	}
	return nil
}

func isBoolType(t types.Type) bool {
	b, ok := t.Underlying().(*types.Basic)
	return ok && b.Kind() == types.Bool
}

func isNamedPtr(t types.Type, pkg, name string) bool {
	p, ok := t.(*types.Pointer)
	if !ok {
		return false
	}
	n, ok := p.Elem().(*types.Named)
	return ok && n.Obj().Name() == name && n.Obj().Pkg() != nil && n.Obj().Pkg().Path() == pkg
}

func (m *engFn) policyParam() *ssa.Parameter { return m.paramOfType(isBoolType) }
func (m *engFn) stagParam() *ssa.Parameter {
	return m.paramOfType(func(t types.Type) bool { return isNamedPtr(t, pEngine, "Stag") })
}

// ---- M1: a fresh result map first ------------------------------------------

// freshMapStores: stores of a MakeMap into g.returnResult (g the receiver).
func (m *engFn) freshMapStores() []*ssa.Store {
	var out []*ssa.Store
	eachInstr(m.fn, func(in ssa.Instruction) {
		st, ok := in.(*ssa.Store)
		if !ok {
			return
		}
		fa, ok := st.Addr.(*ssa.FieldAddr)
		if !ok {
			return
		}
		fv := fieldOf(fa)
		if fv == nil || fv.Name() != "returnResult" || structName(fa.X.Type()) != "Gengine" {
			return
		}
		if m.x.Origin(fa.X) != ssa.Value(m.fn.Params[0]) {
			return
		}
		if _, ok := m.x.Origin(st.Val).(*ssa.MakeMap); ok {
			out = append(out, st)
		}
	})
	return out
}

// ruleM1: the fresh map dominates every rule execution, go statement,
// addResult call and every return except the `rb == nil` one.
func (c *Ctx) ruleM1(rule string, fns []*ssa.Function) {
	for _, fn := range fns {
		m := c.engModel(fn)
		stores := m.freshMapStores()
		key := fnName(fn)
		if len(stores) == 0 {
			c.Check(rule, key, false, fn.Pos(), "no `g.returnResult = make(map...)` in %s: results of an earlier call survive and a nil map is written", fnName(fn))
			continue
		}
		st := stores[0]
		bad := ""
		var badPos token.Pos
		eachInstr(fn, func(in ssa.Instruction) {
			if bad != "" {
				return
			}
			need := false
			what := ""
			switch t := in.(type) {
			case *ssa.Go:
				need, what = true, "go statement"
			case *ssa.Call:
				if calleeIs(t, pBase, "RuleEntity", "Execute") {
					need, what = true, "rule execution"
				} else if calleeIs(t, pEngine, "Gengine", "addResult") {
					need, what = true, "addResult"
				}
			case *ssa.Return:
				// exempt: return guarded by rb == nil
				exempt := false
				for _, g := range m.x.GuardsOf(t.Block()) {
					if s, neq, ok := nilCheck(g.Cond); ok && neq != g.Pol {
						if p, ok := m.x.Origin(s).(*ssa.Parameter); ok && isNamedPtr(p.Type(), pBuilder, "RuleBuilder") {
							exempt = true
						}
					}
				}
				if !exempt {
					need, what = true, "return"
				}
			}
			if need && !domInstr(st, in) {
				bad = what
				badPos = in.Pos()
			}
		})
		c.Check(rule, key, bad == "", badPos, "a %s at %s is not dominated by the allocation of a fresh result map", bad, c.pos(badPos))
	}
}

// ---- M2: flag/addResult pairing ---------------------------------------------

func (c *Ctx) ruleM2(rule string, fns []*ssa.Function) {
	for _, fn := range fns {
		m := c.engModel(fn)
		matched := map[ssa.Instruction]bool{}
		c.Check(rule, fnName(fn)+"#runs-rules", len(m.execs) > 0, fn.Pos(), "an execute method must contain at least one rule execution")
		for _, e := range m.execs {
			ok, why := m.pairing(e, matched)
			c.Check(rule, e.key(), ok, e.call.Pos(), "%s", why)
		}
		// no other addResult calls
		eachInstrDeep(fn, func(f *ssa.Function, in ssa.Instruction) {
			if call, ok := in.(*ssa.Call); ok && calleeIs(call, pEngine, "Gengine", "addResult") && !matched[call] {
				c.Check(rule, fnName(fn)+"#stray-addResult@"+fnName(f), false, call.Pos(), "addResult call that is not the recording of a rule's own returned value under that rule's returned-flag")
			}
		})
	}
}

func (m *engFn) pairing(e *execSite, matched map[ssa.Instruction]bool) (bool, string) {
	f := e.in
	// the If testing this call's flag
	var flagIf *ssa.If
	eachInstr(f, func(in ssa.Instruction) {
		if iff, ok := in.(*ssa.If); ok && m.isExtract(iff.Cond, e.call, 2) {
			flagIf = iff
		}
	})
	if flagIf == nil {
		return false, "the returned-flag of this rule execution is never tested"
	}
	// every path from the call to an exit or back to the call passes the test
	if hit, found := pathExists(f, e.call, func(in ssa.Instruction) bool { return isExit(in) || in == ssa.Instruction(e.call) }, func(in ssa.Instruction) bool { return in == ssa.Instruction(flagIf) }); found {
		return false, fmt.Sprintf("a path from the rule execution reaches %s without testing its returned-flag", m.c.pos(hit.Pos()))
	}
	tb := flagIf.Block().Succs[0]
	// addResult on the true side with this rule's name and value
	var add *ssa.Call
	for _, in := range tb.Instrs {
		if call, ok := in.(*ssa.Call); ok && calleeIs(call, pEngine, "Gengine", "addResult") {
			add = call
			break
		}
	}
	if add == nil {
		return false, "the true edge of the returned-flag test does not call addResult"
	}
	if !m.x.edgeDominated(flagIf.Block(), 0)[tb] {
		return false, "addResult block is reachable without the returned-flag being true"
	}
	if !m.isExtract(add.Call.Args[2], e.call, 0) {
		return false, "addResult records " + m.x.Describe(add.Call.Args[2]) + ", not the value returned by this rule execution"
	}
	base, ok := m.x.isFieldLoad(add.Call.Args[1], "RuleEntity", "RuleName")
	if !ok || !m.x.sameValue(base, e.recv) {
		return false, "addResult records under " + m.x.Describe(add.Call.Args[1]) + ", not under the RuleName of the rule that was executed (" + m.x.Describe(e.recv) + ")"
	}
	if m.x.Origin(add.Call.Args[0]) != ssa.Value(m.fn.Params[0]) {
		return false, "addResult is called on another engine than the receiver"
	}
	matched[add] = true
	return true, "flag of " + m.x.Describe(e.recv) + ".Execute tested; true edge records (RuleName, value) of the same rule"
}

// ruleM5: the result map is written only by addResult, under g.lock, released on all exits.
func (c *Ctx) ruleM5(rule string) {
	n := 0
	for _, f := range c.AllFns {
		x := c.Index(f)
		eachInstr(f, func(in ssa.Instruction) {
			mu, ok := in.(*ssa.MapUpdate)
			if !ok {
				return
			}
			if _, ok := x.isFieldLoad(mu.Map, "Gengine", "returnResult"); !ok {
				return
			}
			n++
			key := fnName(f) + "#write-returnResult"
			if fnName(f) != "Gengine.addResult" {
				c.Check(rule, key, false, in.Pos(), "the result map is written outside addResult")
				return
			}
			held := x.heldAt(in)
			kind, ok := held["Gengine.lock"]
			c.Check(rule, key, ok && kind == "Lock", in.Pos(), "result map write with locks held: %v (need Gengine.lock held exclusively; a read lock does not exclude other writers)", heldKinds(held))
			for _, op := range x.lockOps(f) {
				if op.mutex == "Gengine.lock" && op.kind == "Lock" {
					c.Check(rule, fnName(f)+"#unlock-on-all-exits", x.releasedOnAllExits(op), op.in.Pos(), "g.lock taken in addResult must be released on every exit")
				}
			}
			// every call leaves an entry: no way from the entry to a return round the store, and what
			// is stored is the given value under the given name ("exactly one entry for each rule that
			// reached a return, nil for a bare return")
			if !strings.HasPrefix(rule, "M5") {
				return // a matter of C11, not of who may write (C06) or under which lock (C19)
			}
			_, skip := pathExists(f, nil, isReturn, func(i2 ssa.Instruction) bool { return i2 == in })
			asGiven := len(f.Params) == 3 && x.Origin(mu.Key) == ssa.Value(f.Params[1]) && x.Origin(mu.Value) == ssa.Value(f.Params[2])
			c.Check(rule, fnName(f)+"#always-stores-as-given", !skip && asGiven, in.Pos(), "addResult must store the given value under the given name on every call (a way round the store: %v; name and value as given: %v)", skip, asGiven)
		})
	}
	if n == 0 {
		c.Lost(rule, "a write to Gengine.returnResult")
	}
}

// ruleM4: RuleEntity.Execute turns the zero reflect.Value (bare return / no return) into a nil interface.
func (c *Ctx) ruleM4(rule string) {
	f := c.MustFn(rule, "internal/base", "RuleEntity", "Execute")
	if f == nil {
		return
	}
	x := c.Index(f)
	nilRet, ifaceRet := false, false
	eachInstr(f, func(in ssa.Instruction) {
		r, ok := in.(*ssa.Return)
		if !ok || len(r.Results) != 3 {
			return
		}
		for _, pv := range x.PossibleValues(r.Results[0]) {
			if pv.Outside {
				continue
			}
			if pv.V == nil || isConstNil(pv.V) {
				// must be guarded by v == reflect.ValueOf(nil)
				for _, g := range x.GuardsOf(r.Block()) {
					if b, ok := g.Cond.(*ssa.BinOp); ok && b.Op.String() == "==" && g.Pol && isReflectValue(b.X.Type()) {
						nilRet = true
					}
					// the same test written !v.IsValid()
					if call, ok := x.Origin(g.Cond).(*ssa.Call); ok && !g.Pol {
						if nm, cc := reflectMethod(call); cc != nil && nm == "IsValid" {
							nilRet = true
						}
					}
				}
				continue
			}
			if call, ok := pv.V.(*ssa.Call); ok {
				if fn := call.Call.StaticCallee(); fn != nil && fn.Name() == "Interface" && fn.Pkg != nil && fn.Pkg.Pkg.Path() == "reflect" {
					ifaceRet = true
				}
			}
		}
	})
	c.Check(rule, "RuleEntity.Execute#zero-to-nil", nilRet, f.Pos(), "a return of a nil interface guarded by `v == reflect.ValueOf(nil)` must exist (bare return => nil)")
	c.Check(rule, "RuleEntity.Execute#value-to-interface", ifaceRet, f.Pos(), "the returned value must be v.Interface()")
	// and nothing else becomes nil: a nil result can reach a return that may carry no error only along
	// paths that took the "the body's value is the zero reflect.Value" edge of a test. Searched as a path
	// from the entry to the return that takes no such edge and passes no assignment of v.Interface()
	// to the result (or to a variable copied into it).
	zeroEdges := map[edgeKey]bool{}
	for _, b := range f.Blocks {
		if len(b.Instrs) == 0 || len(b.Succs) != 2 {
			continue
		}
		iff, isIf := b.Instrs[len(b.Instrs)-1].(*ssa.If)
		if !isIf {
			continue
		}
		cond, pol := x.Origin(iff.Cond), true
		for {
			u, isU := cond.(*ssa.UnOp)
			if !isU || u.Op != token.NOT {
				break
			}
			cond, pol = x.Origin(u.X), !pol
		}
		if bo, ok := cond.(*ssa.BinOp); ok && isReflectValue(bo.X.Type()) && (bo.Op == token.EQL || bo.Op == token.NEQ) {
			isZeroOnTrue := (bo.Op == token.EQL) == pol
			if isZeroOnTrue {
				zeroEdges[edgeKey{b, 0}] = true
			} else {
				zeroEdges[edgeKey{b, 1}] = true
			}
		}
		if call, ok := cond.(*ssa.Call); ok {
			if nm, cc := reflectMethod(call); cc != nil && nm == "IsValid" {
				if pol {
					zeroEdges[edgeKey{b, 1}] = true
				} else {
					zeroEdges[edgeKey{b, 0}] = true
				}
			}
		}
	}
	// the variables the result is copied from, and the assignments of a real value to any of them
	cells := map[*ssa.Alloc]bool{}
	var addCells func(v ssa.Value, d int)
	addCells = func(v ssa.Value, d int) {
		if d > 5 {
			return
		}
		ld, ok := v.(*ssa.UnOp)
		if !ok || ld.Op != token.MUL {
			return
		}
		al, ok := x.ResolveAddr(ld.X).(*ssa.Alloc)
		if !ok || cells[al] {
			return
		}
		cells[al] = true
		for _, st := range x.stores[al] {
			addCells(st.Val, d+1)
		}
	}
	realValue := func(in ssa.Instruction) bool {
		st, ok := in.(*ssa.Store)
		if !ok {
			return false
		}
		al, ok := x.ResolveAddr(st.Addr).(*ssa.Alloc)
		if !ok || !cells[al] {
			return false
		}
		call, isCall := x.Origin(st.Val).(*ssa.Call)
		if !isCall {
			return false
		}
		nm, cc := reflectMethod(call)
		return cc != nil && nm == "Interface"
	}
	bad, badPos := "", f.Pos()
	eachInstr(f, func(in ssa.Instruction) {
		r, ok := in.(*ssa.Return)
		if !ok || len(r.Results) != 3 || bad != "" || r.Block() == f.Recover {
			return
		}
		mayBeNil := false
		for _, ev := range x.ValuesAt(r.Results[1], r) {
			if ev.Outside {
				continue
			}
			if ev.V == nil || isConstNil(ev.V) {
				mayBeNil = true
				continue
			}
			if call, isCall := x.Origin(ev.V).(*ssa.Call); isCall && (fnIs(call.Call.StaticCallee(), "errors", "", "New") || fnIs(call.Call.StaticCallee(), "fmt", "", "Errorf")) {
				continue
			}
			if x.knownNil(ev.V, r.Block()) || !x.knownNonNil(ev.V, r.Block()) {
				mayBeNil = true
			}
		}
		if !mayBeNil {
			return
		}
		// what is handed up: v.Interface() directly, or a variable
		if call, isCall := x.Origin(r.Results[0]).(*ssa.Call); isCall {
			if nm, cc := reflectMethod(call); cc != nil && nm == "Interface" {
				return
			}
		}
		if k, isK := x.Origin(r.Results[0]).(*ssa.Const); isK && k.IsNil() {
			// a literal nil: the return itself must sit behind a zero edge
			if _, reach := pathExistsEB(f, nil, func(i2 ssa.Instruction) bool { return i2 == ssa.Instruction(r) }, zeroEdges, nil); reach {
				bad, badPos = "nil is handed up on a path that has not found the body's value to be the zero reflect.Value", r.Pos()
			}
			return
		}
		cells = map[*ssa.Alloc]bool{}
		addCells(r.Results[0], 0)
		if len(cells) == 0 {
			bad, badPos = x.Describe(r.Results[0])+" is handed up instead of v.Interface()", r.Pos()
			return
		}
		resLd, _ := r.Results[0].(*ssa.UnOp)
		var resCell *ssa.Alloc
		if resLd != nil {
			resCell, _ = x.ResolveAddr(resLd.X).(*ssa.Alloc)
		}
		if resCell == nil {
			return
		}
		// forward over the paths: which of the variables hold nil, and whether a zero edge was taken
		var order []*ssa.Alloc
		for al := range cells {
			order = append(order, al)
		}
		sort.Slice(order, func(i, j int) bool {
			return order[i].Pos() < order[j].Pos() || (order[i].Pos() == order[j].Pos() && order[i].Name() < order[j].Name())
		})
		pos := map[*ssa.Alloc]int{}
		for i, al := range order {
			pos[al] = i
		}
		type state struct {
			b     *ssa.BasicBlock
			zero  bool
			isNil string // one byte per variable: 'n' nil, 'v' a value
		}
		start := state{f.Blocks[0], false, strings.Repeat("n", len(order))}
		seen := map[state]bool{start: true}
		work := []state{start}
		found := false
		for len(work) > 0 && !found {
			st := work[len(work)-1]
			work = work[:len(work)-1]
			cur := []byte(st.isNil)
			for _, i2 := range st.b.Instrs {
				if i2 == ssa.Instruction(r) {
					if !st.zero && cur[pos[resCell]] == 'n' {
						found = true
					}
					break
				}
				sto, isSt := i2.(*ssa.Store)
				if !isSt {
					continue
				}
				al, isAl := x.ResolveAddr(sto.Addr).(*ssa.Alloc)
				if !isAl || !cells[al] {
					continue
				}
				switch {
				case isConstNil(sto.Val):
					cur[pos[al]] = 'n'
				default:
					cur[pos[al]] = 'v'
					if ld, isLd := sto.Val.(*ssa.UnOp); isLd && ld.Op == token.MUL {
						if src, isSrc := x.ResolveAddr(ld.X).(*ssa.Alloc); isSrc && cells[src] {
							cur[pos[al]] = cur[pos[src]]
						}
					}
				}
			}
			for k, sc := range st.b.Succs {
				n := state{sc, st.zero || zeroEdges[edgeKey{st.b, k}], string(cur)}
				if !seen[n] {
					seen[n] = true
					work = append(work, n)
				}
			}
		}
		if found {
			bad, badPos = "nil is handed up on a path that has not found the body's value to be the zero reflect.Value", r.Pos()
		}
	})
	_ = realValue
	c.Check(rule, "RuleEntity.Execute#only-zero-to-nil", bad == "", badPos, "%s", orStr(bad, "nil only for the zero reflect.Value, v.Interface() otherwise"))
}

// ---- error list and error values ---------------------------------------------

// errList finds the []string variable that collects rule errors (appended to).
func (m *engFn) errList() *ssa.Alloc {
	// the lists of messages of the function (after helpers were inlined there may be several: one per
	// stage helper that builds its own and hands it back): every []string variable that is appended to
	isMsgList := func(al *ssa.Alloc) bool {
		sl, ok := al.Type().(*types.Pointer).Elem().Underlying().(*types.Slice)
		if !ok {
			return false
		}
		b, ok := sl.Elem().Underlying().(*types.Basic)
		return ok && b.Kind() == types.String
	}
	cells := map[*ssa.Alloc]bool{}
	// flows[F][M]: the content of F is copied or appended into M (`M = F`, `M = append(M, F...)`)
	flows := map[*ssa.Alloc]map[*ssa.Alloc]bool{}
	eachInstrDeep(m.fn, func(f *ssa.Function, in ssa.Instruction) {
		st, ok := in.(*ssa.Store)
		if !ok {
			return
		}
		al, ok := m.x.ResolveAddr(st.Addr).(*ssa.Alloc)
		if !ok || al.Parent() != m.fn || !isMsgList(al) {
			return
		}
		flow := func(from *ssa.Alloc) {
			if from == nil || from == al || from.Parent() != m.fn || !isMsgList(from) {
				return
			}
			if flows[from] == nil {
				flows[from] = map[*ssa.Alloc]bool{}
			}
			flows[from][al] = true
		}
		if args, ok := builtinCall(st.Val, "append"); ok {
			if m.x.Cell(args[0]) == al {
				cells[al] = true
			} else {
				flow(m.x.Cell(args[0]))
			}
			// append(M, F...): the second argument is a whole list, not a fresh array of elements
			if len(args) == 2 {
				if c2 := m.x.Cell(args[1]); c2 != nil {
					if _, isSl := m.x.Origin(args[1]).(*ssa.Slice); !isSl {
						flow(c2)
					}
				}
			}
			return
		}
		flow(m.x.Cell(st.Val))
	})
	if len(cells) == 0 {
		return nil
	}
	// the list the function reports from: one that flows into no other; the function's own variable
	// rather than one of an inlined helper, the earliest declared otherwise
	own := func(al *ssa.Alloc) bool {
		syn := m.fn.Syntax()
		return syn != nil && al.Pos() >= syn.Pos() && al.Pos() <= syn.End()
	}
	inFam := map[*ssa.Alloc]bool{}
	for c0 := range cells {
		inFam[c0] = true
	}
	for f, ms := range flows {
		if cells[f] {
			for mm := range ms {
				inFam[mm] = true
			}
		}
	}
	for changed := true; changed; {
		changed = false
		for f, ms := range flows {
			if inFam[f] {
				for mm := range ms {
					if !inFam[mm] {
						inFam[mm] = true
						changed = true
					}
				}
			}
		}
	}
	var found *ssa.Alloc
	better := func(a, b *ssa.Alloc) bool { // a before b
		if b == nil {
			return true
		}
		sa, sb := len(flows[a]) == 0, len(flows[b]) == 0
		if sa != sb {
			return sa
		}
		if own(a) != own(b) {
			return own(a)
		}
		return a.Pos() < b.Pos()
	}
	for al := range inFam {
		if better(al, found) {
			found = al
		}
	}
	// the family: every list of messages of the function (different ways through it may use different ones:
	// the short-list case of a model one, its concurrent case another); the lists it reports from are those
	// that flow into no other
	fam := map[*ssa.Alloc]bool{}
	sinks := map[*ssa.Alloc]bool{}
	for al := range inFam {
		fam[al] = true
		if len(flows[al]) == 0 {
			sinks[al] = true
		}
	}
	m.x.listSinks = sinks
	if m.c.errFam == nil {
		m.c.errFam = map[*ssa.Alloc]map[*ssa.Alloc]bool{}
	}
	m.c.errFam[found] = fam
	return found
}

// inErrFamily: cell is the list e or a list whose content is handed on into e.
func (c *Ctx) inErrFamily(e, cell *ssa.Alloc) bool {
	if e == nil || cell == nil {
		return false
	}
	return cell == e || c.errFam[e][cell]
}

// isErrListStore: a message is added to the list e or to a list that is handed on into it.
func (m *engFn) isErrListStore(in ssa.Instruction, e *ssa.Alloc) bool {
	st, ok := in.(*ssa.Store)
	if !ok || e == nil {
		return false
	}
	al, isAl := m.x.ResolveAddr(st.Addr).(*ssa.Alloc)
	if !isAl || !m.c.inErrFamily(e, al) {
		return false
	}
	args, ok := builtinCall(st.Val, "append")
	return ok && m.c.inErrFamily(e, m.x.Cell(args[0]))
}

func isNewError(v ssa.Value) bool {
	// a value of the module's own error type put into the error interface: a struct value, or
	// the address of a struct just allocated (&positionError{..}) — never a nil interface
	if mi, isMI := v.(*ssa.MakeInterface); isMI {
		t := mi.X.Type()
		if !types.Implements(t, errorIface()) {
			return false
		}
		if _, isPtr := t.Underlying().(*types.Pointer); !isPtr {
			return true
		}
		src := mi.X
		for i := 0; i < 4; i++ {
			switch u := src.(type) {
			case *ssa.Alloc:
				return true
			case *ssa.UnOp:
				// a local that holds the address, assigned once
				al, isAl := u.X.(*ssa.Alloc)
				if u.Op != token.MUL || !isAl {
					return false
				}
				var only *ssa.Store
				n := 0
				for _, r := range *al.Referrers() {
					if st, isSt := r.(*ssa.Store); isSt && st.Addr == ssa.Value(al) {
						only = st
						n++
					}
				}
				if n != 1 {
					return false
				}
				src = only.Val
			default:
				return false
			}
		}
		return false
	}
	call, ok := v.(*ssa.Call)
	if !ok {
		return false
	}
	f := call.Call.StaticCallee()
	if f == nil {
		return false
	}
	return fnIs(f, "errors", "", "New") || fnIs(f, "fmt", "", "Errorf")
}

// ---- A3: sequential rule loop discipline ----------------------------------------

type seqLoop struct {
	site    *execSite
	loop    *Loop
	ranged  ssa.Value // slice being ranged
	hasStop bool      // an error-stop exit exists
	hasTag  bool      // a stop-tag exit exists
	records bool      // errors are appended to the error list
}

func (m *engFn) syncLoopSites() []*seqLoop {
	var out []*seqLoop
	for _, e := range m.execs {
		if e.in != m.fn {
			continue
		}
		l := m.x.InnermostLoop(e.call.Block())
		if l == nil {
			continue
		}
		sl := &seqLoop{site: e, loop: l}
		if s, rl, ok := m.x.rangedSlice(e.call.Call.Args[0]); ok && rl == l {
			sl.ranged = s
		}
		out = append(out, sl)
	}
	return out
}

// ruleA3 checks every sequential rule loop of the function. policy: "param"
// (use the bool parameter), decided per loop below.
func (c *Ctx) ruleA3(rule string, fn *ssa.Function) []*seqLoop {
	m := c.engModel(fn)
	x := m.x
	E := m.errList()
	bPar := m.policyParam()
	sPar := m.stagParam()
	loops := m.syncLoopSites()
	for _, sl := range loops {
		e, L := sl.site, sl.loop
		key := e.key()
		fail := func(sub string, p token.Pos, f string, a ...interface{}) {
			c.Check(rule, key+"/"+sub, false, p, f, a...)
		}
		pass := func(sub string, f string, a ...interface{}) {
			c.Check(rule, key+"/"+sub, true, e.call.Pos(), f, a...)
		}
		// R4: one execution per iteration
		n := 0
		for _, o := range m.execs {
			if o.in == m.fn && L.Blocks[o.call.Block()] {
				n++
			}
		}
		if n != 1 {
			fail("once", e.call.Pos(), "%d rule executions inside one sequential loop iteration (want exactly one)", n)
		} else {
			pass("once", "one RuleEntity.Execute per iteration")
		}
		if sl.ranged == nil {
			fail("ranged", e.call.Pos(), "the executed rule is not the element of the slice this loop ranges over")
		} else {
			pass("ranged", "executes the element of %s", x.Describe(sl.ranged))
		}
		// every element is executed: the call is not under a further condition inside the loop
		// (a test whose other edge leaves the loop is one of the loop's exits and is judged there)
		// a nil entry of the list is not a rule: a test that only skips a nil element neither
		// skips a rule nor is it a way out of the loop that needs a reason
		isElemNilTest := func(cond ssa.Value) bool {
			sbj, _, ok := nilCheck(cond)
			return ok && len(e.call.Call.Args) > 0 && (x.sameValue(sbj, e.call.Call.Args[0]) || x.Origin(sbj) == x.Origin(e.call.Call.Args[0]))
		}
		var gs []Guard
		for _, g := range x.GuardsOfInLoop(e.call.Block()) {
			if isElemNilTest(g.Cond) {
				continue
			}
			leaves := false
			for _, sc := range g.If.Block().Succs {
				if !L.Blocks[sc] {
					leaves = true
				}
			}
			if !leaves {
				gs = append(gs, g)
			}
		}
		if len(gs) > 0 {
			fail("every-element", e.call.Pos(), "the rule execution is conditional inside the loop (%s): some rules of the list would be skipped", x.describeGuards(gs))
		} else {
			pass("every-element", "executed unconditionally for every element")
		}
		// the err != nil test
		var errIf *ssa.If
		eachInstr(fn, func(in ssa.Instruction) {
			if iff, ok := in.(*ssa.If); ok && L.Blocks[iff.Block()] {
				if s, neq, ok := nilCheck(iff.Cond); ok && neq && m.isExtract(s, e.call, 1) {
					errIf = iff
				}
			}
		})
		headStart := L.Head.Instrs[0]
		if errIf == nil {
			fail("err-tested", e.call.Pos(), "the error of the rule execution is not tested with `!= nil` inside the loop")
			continue
		}
		if hit, found := pathExists(fn, e.call, func(in ssa.Instruction) bool { return in == headStart || isExit(in) }, func(in ssa.Instruction) bool { return in == ssa.Instruction(errIf) }); found {
			fail("err-tested", hit.Pos(), "a path from the rule execution reaches the next iteration or an exit without testing its error")
		} else {
			pass("err-tested", "error tested on every path")
		}
		// exit edges
		normalExit := map[*ssa.BasicBlock]bool{}
		for _, s := range L.Head.Succs {
			if !L.Blocks[s] {
				normalExit[s] = true
			}
		}
		var blocks []*ssa.BasicBlock
		for b := range L.Blocks {
			blocks = append(blocks, b)
		}
		sort.Slice(blocks, func(i, j int) bool { return blocks[i].Index < blocks[j].Index })
		exitOK := true
		for _, b := range blocks {
			for i, s := range b.Succs {
				if L.Blocks[s] || b == L.Head {
					continue
				}
				// guards of the edge, restricted to tests made inside the loop
				gs := x.GuardsOf(b)
				if iff, ok := b.Instrs[len(b.Instrs)-1].(*ssa.If); ok {
					gs = append(gs, Guard{iff, iff.Cond, i == 0})
				}
				errNonNil, bFalse, tagTrue, other := false, false, false, ""
				for _, g := range gs {
					if !L.Blocks[g.If.Block()] || g.If.Block() == L.Head {
						continue
					}
					if sbj, neq, ok := nilCheck(g.Cond); ok && m.isExtract(sbj, e.call, 1) {
						if neq == g.Pol {
							errNonNil = true
						} else {
							other = "exit under err == nil"
						}
						continue
					}
					if isElemNilTest(g.Cond) {
						continue
					}
					if bPar != nil && x.Origin(g.Cond) == ssa.Value(bPar) {
						if !g.Pol {
							bFalse = true
						} else {
							other = "exit under continue-on-error"
						}
						continue
					}
					if sPar != nil && x.tagRead(g.Cond, sPar) != nil {
						// "the tag is not set" holds for the whole body when the tag is part of
						// the loop condition; as a guard of another exit it says nothing
						if g.Pol {
							tagTrue = true
						}
						continue
					}
					if m.isExtract(g.Cond, e.call, 2) {
						// being on one side of the returned-flag test is irrelevant only if both sides exit alike; treat as foreign
						other = "exit depends on the returned-flag"
						continue
					}
					d := x.Describe(g.Cond)
					if !g.Pol {
						d = "!" + d
					}
					other = "exit depends on " + d
				}
				epos := b.Instrs[len(b.Instrs)-1].Pos()
				if !epos.IsValid() && len(s.Instrs) > 0 {
					epos = s.Instrs[0].Pos()
				}
				switch {
				case other != "":
					exitOK = false
					fail(fmt.Sprintf("exit-b%d", b.Index), epos, "unexpected way out of the sequential rule loop: %s (guards: %s)", other, x.describeGuards(gs))
				case tagTrue && !errNonNil:
					sl.hasTag = true
					// the tag must be read after this iteration's rule ran, and lead to the normal exit
					var ld ssa.Instruction
					for _, g := range gs {
						if u := x.tagRead(g.Cond, sPar); u != nil {
							ld = u
						}
					}
					if ld == nil || !domInstr(e.call, ld) {
						exitOK = false
						fail("tag-after-rule", epos, "the stop tag is not read after the rule execution of the same iteration")
					}
					if !normalExit[s] {
						exitOK = false
						fail("tag-exit-target", epos, "the stop-tag exit does not continue at the loop's normal exit (the collected errors would be lost)")
					}
				case errNonNil && (bPar == nil || bFalse) && !tagTrue:
					// error stop: nothing else may run, a non-nil error is returned
					if bPar == nil && E != nil && x.storeReaches(E, L) {
						exitOK = false
						fail("stop-in-continue-loop", epos, "this loop has no error-policy flag and collects errors (continue-on-error), yet it returns at the first error")
						continue
					}
					sl.hasStop = true
					first := s.Instrs[0]
					if hit, found := pathFrom(first, func(in ssa.Instruction) bool {
						if _, ok := in.(*ssa.Go); ok {
							return true
						}
						if call, ok := in.(*ssa.Call); ok && calleeIs(call, pBase, "RuleEntity", "Execute") {
							return true
						}
						return false
					}, nil); found {
						exitOK = false
						fail("stop-runs-more", hit.Pos(), "after stopping at a failed rule another rule still runs")
					}
					if hit, found := pathFrom(first, func(in ssa.Instruction) bool {
						r, ok := in.(*ssa.Return)
						if !ok {
							return false
						}
						for _, pv := range x.PossibleValues(r.Results[len(r.Results)-1]) {
							if pv.V != nil && isNewError(pv.V) {
								continue
							}
							if pv.V != nil && m.isExtract(pv.V, e.call, 1) {
								continue
							}
							return true
						}
						return false
					}, nil); found {
						exitOK = false
						fail("stop-returns-error", hit.Pos(), "the stop-on-error exit can return something other than a non-nil error")
					}
				default:
					exitOK = false
					fail(fmt.Sprintf("exit-b%d", b.Index), epos, "unexpected way out of the sequential rule loop (guards: %s): allowed are only `err != nil && !continueOnError -> return error` and the stop-tag break", x.describeGuards(gs))
				}
			}
		}
		if exitOK {
			pass("exits", "every exit of the loop is the loop end, the stop-on-error return or the stop-tag break")
		}
		// R2: a failure is either recorded or stops the loop
		tb := errIf.Block().Succs[0]
		if hit, found := pathFrom(tb.Instrs[0], func(in ssa.Instruction) bool { return in == headStart }, func(in ssa.Instruction) bool { return m.isErrListStore(in, E) }); found {
			_ = hit
			fail("failure-recorded", errIf.Pos(), "a failed rule can be followed by the next iteration without its error being recorded in the error list")
		} else {
			pass("failure-recorded", "after a failure the loop either stops or records the error")
		}
		sl.records = false
		if E != nil {
			if _, found := pathFrom(tb.Instrs[0], func(in ssa.Instruction) bool { return m.isErrListStore(in, E) }, nil); found {
				sl.records = true
			}
		}
		// required exits by policy
		switch {
		case bPar != nil:
			if !sl.hasStop {
				fail("policy-stop", errIf.Pos(), "with stop-on-error (flag false) the loop must return at the first failed rule, but no such exit exists")
			} else if !sl.records {
				fail("policy-continue", errIf.Pos(), "with continue-on-error (flag true) the error must be collected, but nothing is appended to the error list")
			} else {
				pass("policy", "flag false -> return the error; flag true -> collect and continue")
			}
		case E == nil || !sl.records:
			if !sl.hasStop {
				fail("policy-stop", errIf.Pos(), "this loop neither collects errors nor stops at the first failure")
			} else {
				pass("policy", "constant stop-on-error")
			}
		default:
			pass("policy", "constant continue-on-error, errors collected")
		}
		// A3-T
		if sPar != nil {
			isTagIf := func(in ssa.Instruction) bool {
				iff, ok := in.(*ssa.If)
				if !ok {
					return false
				}
				return x.tagRead(iff.Cond, sPar) != nil
			}
			// from the rule execution, the tag is read and tested before the next rule can
			// start (the test may be part of the loop condition)
			nextRule := func(in ssa.Instruction) bool { return in == ssa.Instruction(e.call) }
			_ = headStart
			// ... and the tag value tested must have been read after this rule ran (a flag that
			// keeps an older reading does not count)
			isTagLoad := func(in ssa.Instruction) bool {
				u, ok := in.(*ssa.UnOp)
				if !ok || u.Op != token.MUL {
					return false
				}
				base, ok := x.isFieldLoad(u, "Stag", "StopTag")
				return ok && x.Origin(base) == ssa.Value(sPar)
			}
			if _, stale := pathExists(fn, e.call, nextRule, isTagLoad); stale {
				fail("tag-checked", e.call.Pos(), "a path from the rule execution to the next rule does not read the stop tag again (an older reading is tested)")
			} else if _, found := pathExists(fn, e.call, nextRule, isTagIf); found {
				fail("tag-checked", e.call.Pos(), "a path from the rule execution to the next iteration does not read the stop tag")
			} else if !sl.hasTag {
				fail("tag-checked", e.call.Pos(), "the stop tag is read but a true tag does not leave the loop")
			} else {
				pass("tag-checked", "stop tag read after every rule; true leaves the loop")
			}
		}
	}
	return loops
}

// tagRead: v is the stop tag of sPar as read at some point: sPar.StopTag
// itself, or a local bool every value of which is that read or the constant
// false it was initialised with (`stopped := false; ...; stopped = sTag.StopTag`).
// Returns the read.
func (x *FnIndex) tagRead(v ssa.Value, sp *ssa.Parameter) *ssa.UnOp {
	var sPar ssa.Value = sp
	if sp == nil {
		return nil
	}
	isTag := func(w ssa.Value) *ssa.UnOp {
		if base, ok := x.isFieldLoad(w, "Stag", "StopTag"); ok && x.Origin(base) == sPar {
			u, _ := x.Origin(w).(*ssa.UnOp)
			return u
		}
		return nil
	}
	if u := isTag(v); u != nil {
		return u
	}
	var rd *ssa.UnOp
	for _, pv := range x.PossibleValues(v) {
		if pv.V == nil || pv.Outside {
			return nil
		}
		if b, isC := constBool(pv.V); isC && !b {
			continue
		}
		u := isTag(pv.V)
		if u == nil {
			return nil
		}
		rd = u
	}
	return rd
}

// storeReaches: some append to the error list happens inside the loop.
func (x *FnIndex) storeReaches(e *ssa.Alloc, l *Loop) bool {
	for _, st := range x.stores[e] {
		if l.Blocks[st.Block()] {
			return true
		}
	}
	return false
}

// pathFrom is pathExists starting at (and including) a given instruction.
func pathFrom(first ssa.Instruction, to func(ssa.Instruction) bool, blocked func(ssa.Instruction) bool) (ssa.Instruction, bool) {
	if to(first) {
		return first, true
	}
	if blocked != nil && blocked(first) {
		return nil, false
	}
	return pathExists(first.Parent(), first, to, blocked)
}

// ---- R7 / O4: collected errors surface -------------------------------------------

// ruleErrSurface: a nil (or passed-through) error is returned only when the
// error list is known to be empty; a return under len(list)>0 is a new error.
func (c *Ctx) ruleErrSurface(rule string, fn *ssa.Function) {
	m := c.engModel(fn)
	x := m.x
	E := m.errList()
	if E == nil {
		c.Check(rule, fnName(fn)+"#no-error-list", true, fn.Pos(), "function keeps no error list")
		return
	}
	writers := m.listWriters(E)
	ri := 0
	eachInstr(fn, func(in ssa.Instruction) {
		r, ok := in.(*ssa.Return)
		if !ok {
			return
		}
		ri++
		key := fmt.Sprintf("%s#return%d", fnName(fn), ri)
		// can a writer reach this return without passing the "list is empty" edge of a test of the list?
		emptyEdges := map[edgeKey]bool{}
		for _, b := range fn.Blocks {
			if iff, ok := b.Instrs[len(b.Instrs)-1].(*ssa.If); ok {
				if arg, nonEmpty, ok := x.lenCmpO(iff.Cond); ok && x.readsList(arg, E) {
					if nonEmpty {
						emptyEdges[edgeKey{b, 1}] = true
					} else {
						emptyEdges[edgeKey{b, 0}] = true
					}
				}
			}
		}
		reach := false
		for _, w := range writers {
			if _, found := pathExistsE(fn, w, func(i2 ssa.Instruction) bool { return i2 == in }, emptyEdges); found {
				reach = true
			}
		}
		// guard on the list
		emptyKnown, nonEmptyKnown := false, false
		for _, g := range x.GuardsOf(r.Block()) {
			if arg, nonEmpty, ok := x.lenCmpO(g.Cond); ok && x.readsList(arg, E) {
				if nonEmpty == g.Pol {
					nonEmptyKnown = true
				} else {
					emptyKnown = true
				}
			}
		}
		if m.contradictoryListTests(in, E, writers) {
			c.Check(rule, key, true, r.Pos(), "not reachable: the error list is tested twice with opposite outcomes and not written in between")
			return
		}
		vals := x.PossibleValues(r.Results[len(r.Results)-1])
		ok2 := true
		why := "ok"
		for _, pv := range vals {
			isNew := pv.V != nil && isNewError(pv.V)
			if nonEmptyKnown && !isNew {
				ok2, why = false, "under len(errors) > 0 the function returns "+x.Describe(pv.V)+" instead of a new error"
			}
			if !isNew && reach && !emptyKnown && !nonEmptyKnown {
				// returning nil / a single rule's error while collected errors may be pending
				if pv.V != nil && !isConstNil(pv.V) && x.knownNonNil(pv.V, r.Block()) {
					continue // a definite error is returned anyway
				}
				ok2, why = false, "returns "+x.Describe(pv.V)+" although errors may have been collected and the list is not known to be empty here"
			}
		}
		c.Check(rule, key, ok2, r.Pos(), "%s", why)
	})
}

// ---- O1: comparator direction ---------------------------------------------------

type sortSite struct {
	call  *ssa.Call
	fn    *ssa.Function
	slice ssa.Value // the sorted slice (first argument, unwrapped)
}

func (c *Ctx) ruleEntitySortSites() []*sortSite {
	var out []*sortSite
	for _, f := range c.AllFns {
		eachInstr(f, func(in ssa.Instruction) {
			call, ok := in.(*ssa.Call)
			if !ok {
				return
			}
			cal := call.Call.StaticCallee()
			if cal == nil || cal.Pkg == nil || cal.Pkg.Pkg.Path() != "sort" {
				return
			}
			if cal.Name() != "SliceStable" && cal.Name() != "Slice" && cal.Name() != "Sort" && cal.Name() != "Stable" {
				return
			}
			x := c.Index(f)
			arg := x.Origin(call.Call.Args[0])
			if mi, ok := arg.(*ssa.MakeInterface); ok {
				arg = mi.X
			}
			sl, ok := arg.Type().Underlying().(*types.Slice)
			if !ok || structName(sl.Elem()) != "RuleEntity" {
				return
			}
			out = append(out, &sortSite{call: call, fn: f, slice: arg})
		})
	}
	sort.Slice(out, func(i, j int) bool { return out[i].call.Pos() < out[j].call.Pos() })
	return out
}

// ruleO1: every sort of rule entities uses less(i,j) = s[i].Salience > s[j].Salience on the sorted slice.
func (c *Ctx) ruleO1(rule string) {
	sites := c.ruleEntitySortSites()
	perFn := map[string]int{}
	for _, s := range sites {
		x := c.Index(s.fn)
		perFn[fnName(s.fn)]++
		key := fmt.Sprintf("%s#sort%d", fnName(s.fn), perFn[fnName(s.fn)])
		cal := s.call.Call.StaticCallee()
		if cal.Name() != "SliceStable" && cal.Name() != "Slice" {
			c.Check(rule, key, false, s.call.Pos(), "rule entities sorted with sort.%s: comparator not analysable", cal.Name())
			continue
		}
		mc, ok := s.call.Call.Args[1].(*ssa.MakeClosure)
		if !ok {
			c.Check(rule, key, false, s.call.Pos(), "less function is not a function literal")
			continue
		}
		less := mc.Fn.(*ssa.Function)
		ok, why := x.lessIsDescendingSalience(less, s.slice)
		c.Check(rule, key, ok, s.call.Pos(), "%s", why)
	}
}

func (x *FnIndex) lessIsDescendingSalience(less *ssa.Function, sorted ssa.Value) (bool, string) {
	var rets []*ssa.Return
	eachInstr(less, func(in ssa.Instruction) {
		if r, ok := in.(*ssa.Return); ok {
			rets = append(rets, r)
		}
	})
	if len(rets) != 1 || len(less.Params) != 2 {
		return false, "less function is not a single comparison"
	}
	bo, ok := x.Origin(rets[0].Results[0]).(*ssa.BinOp)
	if !ok {
		return false, "less function does not return a comparison"
	}
	side := func(v ssa.Value) (idx ssa.Value, sl ssa.Value, ok bool) {
		base, ok := x.isFieldLoad(v, "RuleEntity", "Salience")
		if !ok {
			return nil, nil, false
		}
		u, ok := x.Origin(base).(*ssa.UnOp)
		if !ok {
			return nil, nil, false
		}
		ia, ok := u.X.(*ssa.IndexAddr)
		if !ok {
			return nil, nil, false
		}
		return x.Origin(ia.Index), ia.X, true
	}
	li, ls, ok1 := side(bo.X)
	ri, rs, ok2 := side(bo.Y)
	if !ok1 || !ok2 {
		return false, "less does not compare the Salience of two elements"
	}
	if !x.sameValue(ls, sorted) || !x.sameValue(rs, sorted) {
		return false, "less indexes " + x.Describe(ls) + ", but " + x.Describe(sorted) + " is being sorted"
	}
	i, j := ssa.Value(less.Params[0]), ssa.Value(less.Params[1])
	switch {
	case bo.Op == token.GTR && li == i && ri == j:
		return true, "less(i,j) = s[i].Salience > s[j].Salience (descending)"
	case bo.Op == token.LSS && li == j && ri == i:
		return true, "less(i,j) = s[j].Salience < s[i].Salience (descending)"
	}
	return false, fmt.Sprintf("less(i,j) is s[%s].Salience %s s[%s].Salience: not a strict descending-salience order", x.Describe(li), bo.Op, x.Describe(ri))
}

// ---- O2: order source of a sequential loop ------------------------------------

// orderSource classifies the slice a loop ranges over: "container" (kc.SortRules),
// "sorted-local" (a local slice sorted on every path unless shorter than 2),
// "unsorted-local", or "other".
func (c *Ctx) orderSource(fn *ssa.Function, ranged ssa.Value, before ssa.Instruction) (string, string) {
	x := c.Index(fn)
	base, _, _ := x.sliceInterval(ranged)
	if b, ok := x.isFieldLoad(base, "KnowledgeContext", "SortRules"); ok {
		return "container", x.Describe(b) + ".SortRules"
	}
	cell := x.Cell(base)
	if cell == nil {
		return "other", x.Describe(base)
	}
	// a list known to hold at most one element where the loop starts has no order to get wrong
	for _, g := range x.GuardsOf(before.Block()) {
		la, tlo, thi, flo, fhi, isLen := x.lenTest(g.Cond)
		if !isLen || x.Cell(la) != cell {
			continue
		}
		hi := fhi
		if g.Pol {
			hi = thi
		}
		_, _ = tlo, flo
		if hi > 1 {
			continue
		}
		if _, changed := pathExists(fn, g.If, func(in ssa.Instruction) bool { return x.isStoreTo(in, cell) }, func(in ssa.Instruction) bool { return in == before }); !changed {
			return "sorted-local", cell.Comment + " (at most one element here)"
		}
	}
	// sort calls on this cell
	var sorts []*ssa.Call
	for _, s := range c.ruleEntitySortSites() {
		if s.fn == fn && x.Cell(s.slice) == cell {
			sorts = append(sorts, s.call)
		}
	}
	if len(sorts) == 0 {
		return "unsorted-local", cell.Comment
	}
	isSort := func(in ssa.Instruction) bool {
		for _, s := range sorts {
			if in == ssa.Instruction(s) {
				return true
			}
		}
		return false
	}
	// tests of len(cell) against 2 (`>= 2`, `> 1`, `< 2` ..., written either way
	// round): the edge on which len >= 2 leads to the sort, on the other len <= 1
	isLenTest := func(in ssa.Instruction) bool {
		iff, ok := in.(*ssa.If)
		if !ok {
			return false
		}
		la, tlo, thi, flo, fhi, isLen := x.lenTest(iff.Cond)
		if !isLen || x.Cell(la) != cell {
			return false
		}
		long := -1
		switch {
		case tlo >= 2 && fhi <= 1:
			long = 0
		case flo >= 2 && thi <= 1:
			long = 1
		default:
			return false
		}
		for _, s := range sorts {
			if x.edgeDominated(iff.Block(), long)[s.Block()] {
				return true
			}
		}
		return false
	}
	// every path from the last append to the use passes the sort or the len test
	var lastStores []ssa.Instruction
	for _, st := range x.stores[cell] {
		lastStores = append(lastStores, st)
	}
	for _, st := range lastStores {
		if _, found := pathExists(fn, st, func(in ssa.Instruction) bool { return in == before }, func(in ssa.Instruction) bool { return isSort(in) || isLenTest(in) || x.isStoreTo(in, cell) }); found {
			return "unsorted-local", cell.Comment + " (a path from an append reaches the loop without the sort)"
		}
	}
	return "sorted-local", cell.Comment
}

func (x *FnIndex) isStoreTo(in ssa.Instruction, cell *ssa.Alloc) bool {
	st, ok := in.(*ssa.Store)
	return ok && x.ResolveAddr(st.Addr) == ssa.Value(cell)
}

// ---- stages, windows, synchronous first/last (C05 B2/B3/B4/B5) -----------------

type stage struct {
	kind   string // "seq" or "fan"
	ranged ssa.Value
	loop   *Loop
	pos    token.Pos
	fo     *fanout
	sl     *seqLoop
}

func stagesOf(loops []*seqLoop, fos []*fanout) []*stage {
	var out []*stage
	for _, sl := range loops {
		out = append(out, &stage{kind: "seq", ranged: sl.ranged, loop: sl.loop, pos: sl.site.call.Pos(), sl: sl})
	}
	for _, fo := range fos {
		if fo.loop != nil {
			out = append(out, &stage{kind: "fan", ranged: fo.ranged, loop: fo.loop, pos: fo.goStmt.Pos(), fo: fo})
		}
	}
	// in execution order: a stage comes first when its loop dominates the other's
	// (source positions say nothing once a stage lives in a shared helper)
	sort.SliceStable(out, func(i, j int) bool {
		a, b := out[i], out[j]
		if a.loop != nil && b.loop != nil && a.loop != b.loop {
			if a.loop.Head.Dominates(b.loop.Head) {
				return true
			}
			if b.loop.Head.Dominates(a.loop.Head) {
				return false
			}
		}
		return a.pos < b.pos
	})
	return out
}

// intParams returns the int parameters of fn in order.
func intParams(fn *ssa.Function) []*ssa.Parameter {
	var out []*ssa.Parameter
	for _, p := range fn.Params {
		if b, ok := p.Type().Underlying().(*types.Basic); ok && b.Kind() == types.Int {
			out = append(out, p)
		}
	}
	return out
}

// reachAvoidingEdges: can `to` be reached from the start of block `from`
// without taking any of the forbidden edges?
func reachAvoidingEdges(from, to *ssa.BasicBlock, forbidden map[edgeKey]bool) bool {
	seen := map[*ssa.BasicBlock]bool{from: true}
	st := []*ssa.BasicBlock{from}
	for len(st) > 0 {
		b := st[len(st)-1]
		st = st[:len(st)-1]
		if b == to {
			return true
		}
		for i, s := range b.Succs {
			if forbidden[edgeKey{b, i}] {
				continue
			}
			if !seen[s] {
				seen[s] = true
				st = append(st, s)
			}
		}
	}
	return false
}

// ruleWindows (B3): the two stages of an N-M model are S[0:n) and S[n:n+m).
func (c *Ctx) ruleWindows(rule string, fn *ssa.Function, stages []*stage, selected bool) {
	x := c.Index(fn)
	key := fnName(fn)
	ip := intParams(fn)
	if len(stages) != 2 || len(ip) < 2 {
		c.Check(rule, key+"#two-stages", false, fn.Pos(), "expected two stages and two int parameters, found %d stages, %d int parameters", len(stages), len(ip))
		return
	}
	n, mm := atomForm(ip[0].Name()), atomForm(ip[1].Name())
	if stages[0].ranged == nil || stages[1].ranged == nil {
		c.Check(rule, key+"#windows", false, fn.Pos(), "a stage does not range over a slice")
		return
	}
	b1, lo1, hi1 := x.sliceInterval(stages[0].ranged)
	b2, lo2, hi2 := x.sliceInterval(stages[1].ranged)
	ok := x.sameValue(b1, b2) && lo1.equal(constForm(0)) && hi1.equal(n) && lo2.equal(n) && hi2.equal(n.add(mm, 1))
	c.Check(rule, key+"#windows", ok, stages[0].pos, "stage one is %s[%s:%s), stage two is %s[%s:%s); want S[0:%s) and S[%s:%s+%s)", x.Describe(b1), lo1, hi1, x.Describe(b2), lo2, hi2, ip[0].Name(), ip[0].Name(), ip[0].Name(), ip[1].Name())
	// parameter checks dominate the first stage
	head := stages[0].loop.Head
	gs := x.GuardsOf(head)
	has := func(pred func(g Guard) bool) bool {
		for _, g := range gs {
			if pred(g) {
				return true
			}
		}
		return false
	}
	posParam := func(p *ssa.Parameter) bool {
		// p >= 1, i.e. 1 - p <= 0, however it is written
		w := constForm(1).add(atomForm(p.Name()), -1)
		return has(func(g Guard) bool { return x.guardGivesLE(g, w) })
	}
	c.Check(rule, key+"#n-positive", posParam(ip[0]), fn.Pos(), "the first stage size must be checked > 0 before anything runs")
	c.Check(rule, key+"#m-positive", posParam(ip[1]), fn.Pos(), "the second stage size must be checked > 0 before anything runs")
	sum := n.add(mm, 1)
	if !selected {
		lenB := x.symLen(b1)
		fits := has(func(g Guard) bool { return x.guardGivesLE(g, sum.add(lenB, -1)) })
		c.Check(rule, key+"#fits", fits, fn.Pos(), "n+m <= len(%s) must be checked before anything runs", x.Describe(b1))
	} else {
		var names *ssa.Parameter
		for _, p := range fn.Params {
			if sl, ok := p.Type().Underlying().(*types.Slice); ok {
				if b, ok := sl.Elem().Underlying().(*types.Basic); ok && b.Kind() == types.String {
					names = p
				}
			}
		}
		eq := false
		if names != nil {
			ln := atomForm("len(" + names.Name() + ")")
			le := has(func(g Guard) bool { return x.guardGivesLE(g, sum.add(ln, -1)) })
			ge := has(func(g Guard) bool { return x.guardGivesLE(g, ln.add(sum, -1)) })
			eq = le && ge
		}
		c.Check(rule, key+"#names-count", eq, fn.Pos(), "n+m == len(names) must be checked before anything runs")
	}
}

// ruleStageGate (B4): after a concurrent first stage, `!flag && len(errors)>0 -> return` lies on every path to stage two.
func (c *Ctx) ruleStageGate(rule string, fn *ssa.Function, stages []*stage, E *ssa.Alloc) {
	m := c.engModel(fn)
	x := m.x
	key := fnName(fn) + "#gate"
	if len(stages) != 2 || stages[0].kind != "fan" {
		return
	}
	bPar := m.policyParam()
	if bPar == nil || E == nil {
		c.Check(rule, key, false, fn.Pos(), "no error-policy flag or error list in an N-M model")
		return
	}
	// start: blocks after the first fan-out loop
	forbidden := map[edgeKey]bool{}
	for _, b := range fn.Blocks {
		iff, ok := b.Instrs[len(b.Instrs)-1].(*ssa.If)
		if !ok {
			continue
		}
		if x.Origin(iff.Cond) == ssa.Value(bPar) {
			forbidden[edgeKey{b, 0}] = true // flag true: continue allowed
		}
		if u, ok := iff.Cond.(*ssa.UnOp); ok && u.Op == token.NOT && x.Origin(u.X) == ssa.Value(bPar) {
			forbidden[edgeKey{b, 1}] = true
		}
		if arg, nonEmpty, ok := x.lenCmpO(iff.Cond); ok && x.readsList(arg, E) {
			if nonEmpty {
				forbidden[edgeKey{b, 1}] = true // list empty: continue allowed
			} else {
				forbidden[edgeKey{b, 0}] = true
			}
		}
	}
	bad := false
	for _, t := range stages[0].loop.exitTargets() {
		if reachAvoidingEdges(t, stages[1].loop.Head, forbidden) {
			bad = true
		}
	}
	c.Check(rule, key, !bad, stages[1].pos, "stage two must be reachable only when the flag says continue or no error was collected in stage one")
	// and the gate's return is a new error (covered by errors-surface)
}

// ruleSyncSingles (B2): synchronous executions outside loops are rules[0] before
// the fan-out over rules[1:], rules[len-1] after the joined fan-out over
// rules[:len-1], or the only rule of a one-element list.
func (c *Ctx) ruleSyncSingles(rule string, fn *ssa.Function, fos []*fanout, E *ssa.Alloc, want string) {
	m := c.engModel(fn)
	x := m.x
	seenFirst, seenLast := false, false
	for _, e := range m.execs {
		if e.in != fn || x.InnermostLoop(e.call.Block()) != nil {
			continue
		}
		key := e.key()
		u, ok := e.recv.(*ssa.UnOp)
		var ia *ssa.IndexAddr
		if ok {
			ia, _ = u.X.(*ssa.IndexAddr)
		}
		if ia == nil {
			c.Check(rule, key, false, e.call.Pos(), "synchronous rule execution on %s, not on an element of the rule list", x.Describe(e.recv))
			continue
		}
		idx := x.symInt(ia.Index)
		base := ia.X
		lenB := x.symLen(base)
		// the error test of this call
		var errIf *ssa.If
		eachInstr(fn, func(in ssa.Instruction) {
			if iff, ok := in.(*ssa.If); ok {
				if s, neq, ok := nilCheck(iff.Cond); ok && neq && m.isExtract(s, e.call, 1) {
					errIf = iff
				}
			}
		})
		runsMore := func(from ssa.Instruction) (ssa.Instruction, bool) {
			return pathFrom(from, func(in ssa.Instruction) bool {
				if _, ok := in.(*ssa.Go); ok {
					return true
				}
				call, ok := in.(*ssa.Call)
				return ok && isRuleExec(call)
			}, nil)
		}
		switch {
		case idx.equal(constForm(0)):
			// single-rule list?
			single := false
			for _, g := range x.GuardsOf(e.call.Block()) {
				if bo, ok := g.Cond.(*ssa.BinOp); ok && bo.Op == token.EQL && g.Pol {
					if k, isK := constInt(bo.Y); isK && k == 1 && x.symInt(bo.X).equal(lenB) {
						single = true
					}
				}
			}
			if single {
				_, more := pathExists(fn, e.call, func(in ssa.Instruction) bool {
					if _, ok := in.(*ssa.Go); ok {
						return true
					}
					call, ok := in.(*ssa.Call)
					return ok && isRuleExec(call)
				}, nil)
				c.Check(rule, key, !more && errIf != nil, e.call.Pos(), "single selected rule: executed alone, error returned")
				continue
			}
			seenFirst = true
			// must dominate a fan-out over base[1:len)
			okFan := false
			for _, fo := range fos {
				if fo.ranged == nil {
					continue
				}
				b2, lo, hi := x.sliceInterval(fo.ranged)
				if x.sameValue(b2, base) && lo.equal(constForm(1)) && hi.equal(lenB) && domInstr(e.call, fo.goStmt) {
					okFan = true
				}
			}
			c.Check(rule, key+"/partition", okFan, e.call.Pos(), "rules[0] runs first and the fan-out covers exactly rules[1:len) of the same list")
			if errIf == nil {
				c.Check(rule, key+"/first-fails", false, e.call.Pos(), "the error of the first rule is not tested")
			} else {
				hit, more := runsMore(errIf.Block().Succs[0].Instrs[0])
				p := e.call.Pos()
				if more {
					p = hit.Pos()
				}
				c.Check(rule, key+"/first-fails", !more, p, "if the first rule fails nothing else may run")
			}
		case idx.equal(lenB.add(constForm(1), -1)):
			seenLast = true
			okFan := false
			for _, fo := range fos {
				if fo.ranged == nil || fo.wg == nil {
					continue
				}
				b2, lo, hi := x.sliceInterval(fo.ranged)
				if !(x.sameValue(b2, base) && lo.equal(constForm(0)) && hi.equal(lenB.add(constForm(1), -1))) {
					continue
				}
				// dominated by the Wait of that fan-out
				eachInstr(fn, func(in ssa.Instruction) {
					if wgOp(x, in, "Wait") == fo.wg && domInstr(in, e.call) {
						okFan = true
					}
				})
			}
			c.Check(rule, key+"/partition", okFan, e.call.Pos(), "rules[len-1] runs after the joined fan-out over exactly rules[0:len-1) of the same list")
			empty := false
			for _, g := range x.GuardsOf(e.call.Block()) {
				if arg, nonEmpty, ok := x.lenCmpO(g.Cond); ok && E != nil && x.readsList(arg, E) && nonEmpty != g.Pol {
					empty = true
				}
			}
			c.Check(rule, key+"/last-gated", empty, e.call.Pos(), "the last rule may start only when no earlier rule failed (error list known empty)")
		default:
			c.Check(rule, key, false, e.call.Pos(), "synchronous rule execution on element %s of %s: neither the first nor the last rule", idx, x.Describe(base))
		}
	}
	if want == "first" {
		c.Check(rule, fnName(fn)+"#has-sync-first", seenFirst, fn.Pos(), "mix model must execute the first rule synchronously")
	}
	if want == "last" {
		c.Check(rule, fnName(fn)+"#has-sync-last", seenLast, fn.Pos(), "inverse mix model must execute the last rule synchronously")
	}
}

// ---- selection of rules by name (C12 N1/N3/N4, C13 G3) ---------------------------

type selection struct {
	cell    *ssa.Alloc    // the local slice of selected rules
	lookups []*ssa.Lookup // comma-ok lookups feeding it
	keySrc  []string      // description of the key source per lookup
	loops   []*Loop
}

// lenCmpO is lenCmp for every way of writing the test: through local
// variables (length := len(rules)), with the constant on either side, with
// any comparison operator and offsets (`len(r) < 1`, `0 == len(r)`,
// `len(r)-1 >= 0`): the test must split exactly into "empty" and "non-empty".
func (x *FnIndex) lenCmpO(cond ssa.Value) (ssa.Value, bool, bool) {
	arg, tlo, thi, flo, fhi, ok := x.lenTest(cond)
	if !ok {
		return nil, false, false
	}
	switch {
	case tlo >= 1 && flo == 0 && fhi == 0:
		return arg, true, true
	case tlo == 0 && thi == 0 && flo >= 1:
		return arg, false, true
	}
	return nil, false, false
}

// ruleSelection analyses how the local rule slice of a selected / DAG function
// is filled. missPolicy: "skip" (unknown names are skipped) or "fail"
// (an unknown name returns an error before anything runs).
func (c *Ctx) ruleSelection(rule string, fn *ssa.Function, missPolicy string) *selection {
	m := c.engModel(fn)
	x := m.x
	key := fnName(fn)
	// the cell: a local []*RuleEntity that is appended to, or a pre-sized one whose
	// positions are assigned in a counted loop
	var cell *ssa.Alloc
	isRuleSliceCell := func(al *ssa.Alloc) bool {
		sl, ok := al.Type().(*types.Pointer).Elem().Underlying().(*types.Slice)
		return ok && structName(sl.Elem()) == "RuleEntity"
	}
	pick := func(al *ssa.Alloc, pos token.Pos) {
		if cell == nil {
			cell = al
		} else if cell != al {
			c.Check(rule, key+"#one-selection", false, pos, "two different rule slices are filled")
		}
	}
	eachInstr(fn, func(in ssa.Instruction) {
		st, ok := in.(*ssa.Store)
		if !ok {
			return
		}
		if ia, isIA := st.Addr.(*ssa.IndexAddr); isIA {
			if al := x.Cell(ia.X); al != nil && al.Parent() == fn && isRuleSliceCell(al) && x.InnermostLoop(st.Block()) != nil {
				if _, isSl := ia.X.Type().Underlying().(*types.Slice); isSl {
					pick(al, st.Pos())
				}
			}
			return
		}
		al, ok := x.ResolveAddr(st.Addr).(*ssa.Alloc)
		if !ok || !isRuleSliceCell(al) {
			return
		}
		if args, ok := builtinCall(st.Val, "append"); ok && x.Cell(args[0]) == al {
			pick(al, st.Pos())
		}
	})
	if cell == nil {
		c.Check(rule, key+"#selection", false, fn.Pos(), "no local rule slice is filled by lookups")
		return nil
	}
	sel := &selection{cell: cell}
	allOK := true
	// the places where a rule enters the selection
	type fill struct {
		st  *ssa.Store
		hit ssa.Value
	}
	var fills []fill
	var mk *ssa.MakeSlice
	for _, st := range x.stores[cell] {
		if ms, isMk := x.Origin(st.Val).(*ssa.MakeSlice); isMk && st.Parent() == fn {
			mk = ms
			continue
		}
		args, ok := builtinCall(st.Val, "append")
		if !ok || x.Cell(args[0]) != cell || st.Parent() != fn {
			c.Check(rule, fmt.Sprintf("%s#select-assign@%s", key, x.Describe(st.Val)), false, st.Pos(), "the selected-rule slice is assigned something other than append(itself, hit)")
			allOK = false
			continue
		}
		// the appended element: varargs slice of a one-element array holding the hit
		hit := x.appendedSingle(args[1])
		if hit == nil {
			c.Check(rule, fmt.Sprintf("%s#select-assign@%s", key, x.Describe(st.Val)), false, st.Pos(), "cannot identify the appended element")
			allOK = false
			continue
		}
		fills = append(fills, fill{st, hit})
	}
	eachInstr(fn, func(in ssa.Instruction) {
		st, ok := in.(*ssa.Store)
		if !ok {
			return
		}
		ia, isIA := st.Addr.(*ssa.IndexAddr)
		if !isIA || x.Cell(ia.X) != cell {
			return
		}
		// rules[i] = hit: position i of a slice made with one position per name, i counting
		// the names from 0; only where an unknown name ends the call (no position stays empty)
		okPos := false
		if ctr := x.directCell(x.lastLoad(ia.Index)); ctr != nil && mk != nil && missPolicy == "fail" {
			if cl := x.countedLoop(ctr); cl != nil && cl.start == 0 && cl.boundAdd == 0 && cl.loop.Blocks[st.Block()] && x.symInt(cl.bound).equal(x.symInt(mk.Len)) {
				okPos = true
			}
		}
		if !okPos {
			c.Check(rule, key+"#select-by-position", false, st.Pos(), "an element of the selected-rule slice is assigned other than as position i of a slice with one position per name, in the loop counting the names (and only where an unknown name is an error)")
			allOK = false
			return
		}
		fills = append(fills, fill{st, st.Val})
	})
	sort.Slice(fills, func(i, j int) bool { return fills[i].st.Pos() < fills[j].st.Pos() })
	si := 0
	for _, fl := range fills {
		st, hit := fl.st, fl.hit
		si++
		skey := fmt.Sprintf("%s#select%d", key, si)
		ex, ok := x.Origin(hit).(*ssa.Extract)
		var lk *ssa.Lookup
		if ok && ex.Index == 0 {
			lk, _ = ex.Tuple.(*ssa.Lookup)
		}
		if lk == nil || !lk.CommaOk {
			c.Check(rule, skey, false, st.Pos(), "appended element %s is not the hit of a comma-ok map lookup", x.Describe(hit))
			allOK = false
			continue
		}
		base, ok := x.isFieldLoad(lk.X, "KnowledgeContext", "RuleEntities")
		if !ok {
			c.Check(rule, skey, false, lk.Pos(), "lookup is made in %s, not in the rule container's name map", x.Describe(lk.X))
			allOK = false
			continue
		}
		_ = base
		// guarded by ok == true
		var okIf *ssa.If
		eachInstr(fn, func(in ssa.Instruction) {
			if iff, isIf := in.(*ssa.If); isIf {
				if e2, isEx := x.Origin(iff.Cond).(*ssa.Extract); isEx && e2.Tuple == ssa.Value(lk) && e2.Index == 1 {
					okIf = iff
				}
			}
		})
		if okIf == nil || !x.edgeDominated(okIf.Block(), 0)[st.Block()] {
			c.Check(rule, skey, false, st.Pos(), "the append is not under the ok-edge of its lookup")
			allOK = false
			continue
		}
		// ... and under nothing else: every hit is selected, once per occurrence of its name
		extra := ""
		for _, g := range x.GuardsOfInLoop(st.Block()) {
			if g.If != okIf {
				d := x.Describe(g.Cond)
				if !g.Pol {
					d = "!" + d
				}
				extra = d
			}
		}
		c.Check(rule, skey+"/every-hit-selected", extra == "", st.Pos(), "a found rule is selected only under the additional condition %s: each named existing rule must be selected once per occurrence of its name", extra)
		// key source: element of a ranged []string or dag[i][j] in a forward counted loop
		ksrc := x.Describe(lk.Index)
		L := x.InnermostLoop(lk.Block())
		forward := L != nil
		if s, l, isRange := x.rangedSlice(lk.Index); isRange {
			ksrc = "each element of " + x.Describe(s)
			forward = forward && l == L
		}
		sel.lookups = append(sel.lookups, lk)
		sel.keySrc = append(sel.keySrc, ksrc)
		sel.loops = append(sel.loops, L)
		c.Check(rule, skey, forward, st.Pos(), "hit of RuleEntities[%s] appended on the ok-edge inside the loop over the names", ksrc)
		// miss edge: the looked-up value must not be used
		missBlocks := x.edgeDominated(okIf.Block(), 1)
		hitCell := x.cellHolding(ex)
		used := ""
		var usedPos token.Pos
		for b := range missBlocks {
			for _, in := range b.Instrs {
				for _, op := range in.Operands(nil) {
					if *op == nil {
						continue
					}
					if *op == ssa.Value(ex) {
						used, usedPos = "the missing rule", in.Pos()
					}
					if u, isU := (*op).(*ssa.UnOp); isU && u.Op == token.MUL && hitCell != nil && x.ResolveAddr(u.X) == ssa.Value(hitCell) {
						used, usedPos = "the missing rule", in.Pos()
					}
				}
			}
		}
		c.Check(rule, skey+"/miss-not-used", used == "", usedPos, "on the miss edge the looked-up (nil) rule is used at %s", c.pos(usedPos))
		// miss policy
		if missPolicy == "fail" {
			bad := false
			first := okIf.Block().Succs[1].Instrs[0]
			if _, found := pathFrom(first, func(in ssa.Instruction) bool {
				if in == L.Head.Instrs[0] {
					return true
				}
				if _, isGo := in.(*ssa.Go); isGo {
					return true
				}
				call, isCall := in.(*ssa.Call)
				return isCall && isRuleExec(call)
			}, nil); found {
				bad = true
			}
			if _, found := pathFrom(first, func(in ssa.Instruction) bool {
				r, isR := in.(*ssa.Return)
				if !isR {
					return false
				}
				for _, pv := range x.PossibleValues(r.Results[len(r.Results)-1]) {
					if pv.V == nil || !isNewError(pv.V) {
						return true
					}
				}
				return false
			}, nil); found {
				bad = true
			}
			c.Check(rule, skey+"/miss-fails", !bad, okIf.Pos(), "an unknown name must return an error without running anything")
		} else {
			// skip: the miss edge continues the loop and runs nothing itself
			first := okIf.Block().Succs[1].Instrs[0]
			_, runs := pathFrom(first, func(in ssa.Instruction) bool {
				if isReturn(in) {
					return true
				}
				call, isCall := in.(*ssa.Call)
				return isCall && isRuleExec(call)
			}, func(in ssa.Instruction) bool { return in == L.Head.Instrs[0] })
			c.Check(rule, skey+"/miss-skipped", !runs, okIf.Pos(), "an unknown name must simply be skipped (continue with the next name)")
		}
	}
	_ = allOK
	return sel
}

// appendedSingle: for append(s, e) SSA passes a slice of a fresh 1-element array; return e.
func (x *FnIndex) appendedSingle(v ssa.Value) ssa.Value {
	sl, ok := v.(*ssa.Slice)
	if !ok {
		return nil
	}
	arr, ok := sl.X.(*ssa.Alloc)
	if !ok {
		return nil
	}
	var val ssa.Value
	n := 0
	for _, ref := range *arr.Referrers() {
		if ia, ok := ref.(*ssa.IndexAddr); ok {
			for _, r2 := range *ia.Referrers() {
				if st, ok := r2.(*ssa.Store); ok && st.Addr == ssa.Value(ia) {
					val = st.Val
					n++
				}
			}
		}
	}
	if n != 1 {
		return nil
	}
	return val
}

// cellHolding: the local variable cell that a value is stored into right away.
func (x *FnIndex) cellHolding(v ssa.Value) *ssa.Alloc {
	for _, ref := range *v.Referrers() {
		if st, ok := ref.(*ssa.Store); ok && st.Val == v {
			if al, ok := x.ResolveAddr(st.Addr).(*ssa.Alloc); ok {
				return al
			}
		}
	}
	return nil
}

// ruleNonEmptySelection (N3): every execution / fan-out is dominated by the
// knowledge that the selected slice is not empty, and the empty case returns an error.
func (c *Ctx) ruleNonEmptySelection(rule string, fn *ssa.Function, sel *selection) {
	if sel == nil {
		return
	}
	m := c.engModel(fn)
	x := m.x
	key := fnName(fn)
	// the test
	var test *ssa.If
	nonEmptyEdge := 0
	eachInstr(fn, func(in ssa.Instruction) {
		if iff, ok := in.(*ssa.If); ok && test == nil {
			if arg, ne, ok := x.lenCmpO(iff.Cond); ok && x.Cell(arg) == sel.cell {
				test = iff
				if ne {
					nonEmptyEdge = 0
				} else {
					nonEmptyEdge = 1
				}
			}
		}
	})
	if test == nil {
		c.Check(rule, key+"#empty-test", false, fn.Pos(), "the selected-rule slice is never tested for being empty")
		return
	}
	dom := x.edgeDominated(test.Block(), nonEmptyEdge)
	bad := ""
	var badPos token.Pos
	eachInstr(fn, func(in ssa.Instruction) {
		isRun := false
		if _, ok := in.(*ssa.Go); ok {
			isRun = true
		}
		if call, ok := in.(*ssa.Call); ok && isRuleExec(call) {
			isRun = true
		}
		if isRun && !dom[in.Block()] {
			bad, badPos = "runs", in.Pos()
		}
	})
	c.Check(rule, key+"#nothing-runs-when-empty", bad == "", badPos, "a rule can run at %s although no named rule exists", c.pos(badPos))
	// the empty edge returns a new error
	first := test.Block().Succs[1-nonEmptyEdge].Instrs[0]
	_, wrong := pathFrom(first, func(in ssa.Instruction) bool {
		r, ok := in.(*ssa.Return)
		if !ok {
			return false
		}
		for _, pv := range x.PossibleValues(r.Results[len(r.Results)-1]) {
			if pv.V == nil || !isNewError(pv.V) {
				return true
			}
		}
		return false
	}, func(in ssa.Instruction) bool {
		_, isGo := in.(*ssa.Go)
		return isGo
	})
	c.Check(rule, key+"#empty-is-error", !wrong, test.Pos(), "with no existing named rule the call must fail with an error")
}

// ruleOwnDc (P5): every rule execution receives rb.Dc of the function's own rb parameter.
func (c *Ctx) ruleOwnDc(rule string, fns []*ssa.Function) {
	for _, fn := range fns {
		m := c.engModel(fn)
		var rb *ssa.Parameter
		for _, p := range fn.Params {
			if isNamedPtr(p.Type(), pBuilder, "RuleBuilder") {
				rb = p
			}
		}
		for _, e := range m.execs {
			base, ok := m.x.isFieldLoad(e.call.Call.Args[1], "RuleBuilder", "Dc")
			c.Check(rule, e.key(), ok && rb != nil && m.x.Origin(base) == ssa.Value(rb), e.call.Pos(), "the rule must run against the data context of the rule builder passed to this call (got %s)", m.x.Describe(e.call.Call.Args[1]))
		}
	}
}

func errorIface() *types.Interface {
	return types.Universe.Lookup("error").Type().Underlying().(*types.Interface)
}

// listWriters: the instructions of the function that add to the error list E: in-function
// appends and go statements whose literal appends.
func (m *engFn) listWriters(E *ssa.Alloc) []ssa.Instruction {
	isWriter := func(in ssa.Instruction) bool {
		if m.isErrListStore(in, E) {
			return true
		}
		if g, ok := in.(*ssa.Go); ok {
			if mc, ok := g.Call.Value.(*ssa.MakeClosure); ok {
				if af, ok := mc.Fn.(*ssa.Function); ok {
					w := false
					eachInstrDeep(af, func(_ *ssa.Function, i2 ssa.Instruction) {
						if m.isErrListStore(i2, E) {
							w = true
						}
					})
					return w
				}
			}
		}
		return false
	}
	var writers []ssa.Instruction
	eachInstr(m.fn, func(in ssa.Instruction) {
		if isWriter(in) {
			writers = append(writers, in)
		}
	})
	return writers
}

// contradictoryListTests: the instruction stands under two tests of the error list with opposite
// outcomes (`if !empty(list) { return errorOf(list) }` with errorOf testing again) and the list
// is not written between them: it cannot be reached.
func (m *engFn) contradictoryListTests(in ssa.Instruction, E *ssa.Alloc, writers []ssa.Instruction) bool {
	x := m.x
	fn := m.fn
	emptyKnown, nonEmptyKnown := false, false
	var listTests []*ssa.If
	for _, g := range x.GuardsOf(in.Block()) {
		if arg, nonEmpty, ok := x.lenCmpO(g.Cond); ok && x.readsList(arg, E) {
			if nonEmpty == g.Pol {
				nonEmptyKnown = true
			} else {
				emptyKnown = true
			}
			if g.If != nil {
				listTests = append(listTests, g.If)
			}
		}
	}
	if !emptyKnown || !nonEmptyKnown {
		return false
	}
	sort.Slice(listTests, func(i, j int) bool { return domInstr(listTests[i], listTests[j]) })
	for k, t := range listTests {
		var target ssa.Instruction = in
		if k+1 < len(listTests) {
			target = listTests[k+1]
		}
		from := ssa.Instruction(t)
		for _, w := range writers {
			// a way from this test to the next (or to the instruction) that does not come round to
			// this test again and passes a writer
			if _, a := pathExists(fn, from, func(i2 ssa.Instruction) bool { return i2 == w }, func(i2 ssa.Instruction) bool { return i2 == from || i2 == target }); a {
				if _, b := pathExists(fn, w, func(i2 ssa.Instruction) bool { return i2 == target }, func(i2 ssa.Instruction) bool { return i2 == from }); b {
					return false
				}
			}
		}
	}
	return true
}
