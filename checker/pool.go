package main

// pool.go — model of GenginePool: request lifecycle template (A10), free-list
// discipline, publication of rule containers, management operations.

import (
	"fmt"
	"go/token"
	"go/types"
	"sort"
	"strings"

	"golang.org/x/tools/go/ssa"
)

func (c *Ctx) poolExecFns() []*ssa.Function {
	var out []*ssa.Function
	for _, f := range c.Methods("engine", "GenginePool") {
		if strings.HasPrefix(f.Name(), "Execute") {
			out = append(out, f)
		}
	}
	sort.Slice(out, func(i, j int) bool { return out[i].Name() < out[j].Name() })
	return out
}

type poolExec struct {
	fn          *ssa.Function
	x           *FnIndex
	clearIf     *ssa.If
	prepare     *ssa.Call
	multi       bool
	deferI      *ssa.Defer // the defer that hands the wrapper back (a literal doing it, or `defer gp.putGengineLocked(gw)`)
	deferLit    *ssa.Function
	defers      []*ssa.Defer
	engineCalls []*ssa.Call
}

// deferredCall: a call the method has deferred: inside a deferred literal, or the deferred call itself.
type deferredCall struct {
	in  ssa.Instruction
	cc  *ssa.CallCommon
	d   *ssa.Defer
	lit *ssa.Function
}

func (p *poolExec) deferredCalls() []deferredCall {
	var out []deferredCall
	for _, d := range p.defers {
		if mc, ok := d.Call.Value.(*ssa.MakeClosure); ok {
			lit := mc.Fn.(*ssa.Function)
			eachInstr(lit, func(in ssa.Instruction) {
				if call, ok := in.(*ssa.Call); ok {
					out = append(out, deferredCall{in, &call.Call, d, lit})
				}
			})
			continue
		}
		out = append(out, deferredCall{d, &d.Call, d, nil})
	}
	return out
}

func (c *Ctx) poolModel(fn *ssa.Function) *poolExec {
	p := &poolExec{fn: fn, x: c.Index(fn)}
	eachInstr(fn, func(in ssa.Instruction) {
		switch t := in.(type) {
		case *ssa.If:
			if b, ok := p.x.isFieldLoad(t.Cond, "GenginePool", "clear"); ok && p.x.Origin(b) == ssa.Value(fn.Params[0]) && p.clearIf == nil {
				p.clearIf = t
			}
		case *ssa.Call:
			if calleeIs(t, pEngine, "GenginePool", "prepare") {
				p.prepare = t
			} else if calleeIs(t, pEngine, "GenginePool", "prepareWithMultiInput") {
				p.prepare, p.multi = t, true
			} else if cal := t.Call.StaticCallee(); cal != nil && recvName(cal) == "Gengine" && strings.HasPrefix(cal.Name(), "Execute") {
				p.engineCalls = append(p.engineCalls, t)
			}
		case *ssa.Defer:
			p.defers = append(p.defers, t)
		}
	})
	// the defer that hands the wrapper back; a deferred literal otherwise (so that its absence is reported there)
	for _, dc := range p.deferredCalls() {
		if fnIs(dc.cc.StaticCallee(), pEngine, "GenginePool", "putGengineLocked") {
			p.deferI, p.deferLit = dc.d, dc.lit
		}
	}
	if p.deferI == nil {
		for _, d := range p.defers {
			if mc, ok := d.Call.Value.(*ssa.MakeClosure); ok {
				p.deferI, p.deferLit = d, mc.Fn.(*ssa.Function)
			}
		}
	}
	return p
}

// isGwField: v is a load of field `name` of the wrapper obtained from prepare.
func (p *poolExec) isGwField(v ssa.Value, name string) bool {
	base, ok := p.x.isFieldLoad(v, "gengineWrapper", name)
	if !ok || p.prepare == nil {
		return false
	}
	ex, ok := p.x.Origin(base).(*ssa.Extract)
	return ok && ex.Tuple == ssa.Value(p.prepare) && ex.Index == 0
}

func (p *poolExec) isGw(v ssa.Value) bool {
	if p.prepare == nil {
		return false
	}
	ex, ok := p.x.Origin(v).(*ssa.Extract)
	return ok && ex.Tuple == ssa.Value(p.prepare) && ex.Index == 0
}

// ruleLifecycle (A10): P2 / W2 / Q4 / P5 slots of every pool execute method.
func (c *Ctx) ruleLifecycle(rule string, want map[string]bool) {
	fns := c.poolExecFns()
	for _, fn := range fns {
		p := c.poolModel(fn)
		x := p.x
		key := fnName(fn)
		chk := func(slot string, ok bool, pos token.Pos, f string, a ...interface{}) {
			if want == nil || want[slot] {
				c.Check(rule, key+"/"+slot, ok, pos, f, a...)
			}
		}
		if p.prepare == nil {
			chk("acquire", false, fn.Pos(), "no prepare/prepareWithMultiInput call: the method does not acquire an engine")
			continue
		}
		// one request, one instance: the method acquires once and never calls another request method of the
		// pool while it holds its instance (a nested acquire takes a second instance for one request; with
		// more than max/2 such requests in flight each holds one and waits for another for ever)
		nAcq, nested, nestedPos := 0, "", p.prepare.Pos()
		eachInstrDeep(fn, func(_ *ssa.Function, in ssa.Instruction) {
			cc := callCommon(in)
			if cc == nil {
				return
			}
			cal := cc.StaticCallee()
			if cal == nil || recvName(cal) != "GenginePool" || cal.Pkg == nil || cal.Pkg.Pkg.Path() != pEngine {
				return
			}
			switch n := cal.Name(); {
			case n == "prepare" || n == "prepareWithMultiInput" || n == "getGengine":
				nAcq++
			case strings.HasPrefix(n, "Execute"):
				nested, nestedPos = n, in.Pos()
			}
		})
		chk("one-acquire", nAcq == 1 && nested == "", nestedPos, "a request method must acquire exactly one instance (%d acquiring call(s)) and must not call another request method of the pool while holding it (%s)", nAcq, orStr(nested, "none"))
		// Q4: cleared guard dominates the acquire and returns (nil, empty map)
		okClear := p.clearIf != nil && x.edgeDominated(p.clearIf.Block(), 1)[p.prepare.Block()]
		if okClear {
			_, bad := pathFrom(p.clearIf.Block().Succs[0].Instrs[0], func(in ssa.Instruction) bool {
				if call, ok := in.(*ssa.Call); ok && call == p.prepare {
					return true
				}
				r, ok := in.(*ssa.Return)
				if !ok {
					return false
				}
				for _, pv := range x.PossibleValues(r.Results[0]) {
					if pv.V != nil && !isConstNil(pv.V) {
						return true
					}
				}
				for _, pv := range x.PossibleValues(r.Results[1]) {
					if _, isMake := pv.V.(*ssa.MakeMap); !isMake {
						return true
					}
				}
				return false
			}, nil)
			okClear = !bad
		}
		chk("cleared-runs-nothing", okClear, fn.Pos(), "on a cleared pool the method must return (nil, empty map) before acquiring an engine")
		// error of acquire
		var errIf *ssa.If
		eachInstr(fn, func(in ssa.Instruction) {
			if iff, ok := in.(*ssa.If); ok {
				if s, neq, ok := nilCheck(iff.Cond); ok && neq {
					if ex, ok := x.Origin(s).(*ssa.Extract); ok && ex.Tuple == ssa.Value(p.prepare) && ex.Index == 1 {
						errIf = iff
					}
				}
			}
		})
		// W2: deferred release registered on every non-error path before anything else can fail
		if p.deferI == nil {
			chk("release-deferred", false, p.prepare.Pos(), "no deferred release after a successful acquire: the engine is lost on error or panic")
			continue
		}
		isDefer := func(in ssa.Instruction) bool { return in == ssa.Instruction(p.deferI) }
		hit, leak := pathExists(fn, p.prepare, func(in ssa.Instruction) bool {
			if isDefer(in) {
				return false
			}
			if isExit(in) {
				// allowed only under acquire-error
				if errIf != nil && x.edgeDominated(errIf.Block(), 0)[in.Block()] {
					return false
				}
				return true
			}
			if cc := callCommon(in); cc != nil {
				if cal := cc.StaticCallee(); cal != nil && cal.Pkg != nil && cal.Pkg.Pkg.Path() == pEngine && !fnIs(cal, pEngine, "", "getKeys") {
					return true // something of the engine runs before the release is registered
				}
			}
			return false
		}, isDefer)
		lp := p.prepare.Pos()
		if leak {
			lp = hit.Pos()
		}
		chk("release-deferred", !leak, lp, "after a successful acquire the deferred release must be registered before anything else runs or returns")
		// what is deferred: clear exactly the injected keys, then put the same wrapper — in one
		// deferred literal, or as two deferred calls registered in the opposite order
		var clr, put *deferredCall
		nPut := 0
		clrOK := false
		dcs := p.deferredCalls()
		for i := range dcs {
			dc := &dcs[i]
			cal := dc.cc.StaticCallee()
			switch {
			case fnIs(cal, pEngine, "gengineWrapper", "clearInjected"):
				clr = dc
				// receiver is gw; keys = getKeys(data) with the data given to prepareWithMultiInput
				if p.multi && p.isGw(dc.cc.Args[0]) && len(dc.cc.Args) == 2 {
					if kc, ok := x.Origin(dc.cc.Args[1]).(*ssa.Call); ok && calleeIs(kc, pEngine, "", "getKeys") {
						if x.sameValue(kc.Call.Args[0], p.prepare.Call.Args[1]) {
							clrOK = true
						}
					}
				}
				// ... or, for the request with two named objects, exactly those two names
				if !p.multi && p.isGw(dc.cc.Args[0]) && len(dc.cc.Args) == 2 {
					keys := x.variadicElems(dc.cc.Args[1])
					if len(keys) == 2 && x.sameValue(keys[0], p.prepare.Call.Args[1]) && x.sameValue(keys[1], p.prepare.Call.Args[3]) {
						clrOK = true
					}
				}
			case fnIs(cal, pContext, "DataContext", "Del"):
				clr = dc
				// receiver gw.rulebuilder.Dc; keys = the two names given to prepare
				if !p.multi && len(dc.cc.Args) == 2 {
					if b, ok := x.isFieldLoad(dc.cc.Args[0], "RuleBuilder", "Dc"); ok && p.isGwField(b, "rulebuilder") {
						keys := x.variadicElems(dc.cc.Args[1])
						if len(keys) == 2 && x.sameValue(keys[0], p.prepare.Call.Args[1]) && x.sameValue(keys[1], p.prepare.Call.Args[3]) {
							clrOK = true
						}
					}
				}
			case fnIs(cal, pEngine, "GenginePool", "putGengineLocked"):
				put = dc
				nPut++
			}
		}
		chk("clears-own-keys", clr != nil && clrOK, p.deferI.Pos(), "the deferred function must delete exactly the keys this request injected (same data / same names as given to prepare) from the wrapper's own data context")
		putOK := false
		if put != nil {
			putOK = p.isGw(put.cc.Args[1]) && x.Origin(put.cc.Args[0]) == ssa.Value(fn.Params[0])
		}
		// no other hand-back outside the deferred code (an early release plus the deferred one puts the wrapper twice)
		nOutside := 0
		isDeferLit := map[*ssa.Function]bool{}
		for _, dc := range dcs {
			if dc.lit != nil {
				isDeferLit[dc.lit] = true
			}
		}
		eachInstrDeep(fn, func(g *ssa.Function, in ssa.Instruction) {
			if isDeferLit[g] {
				return
			}
			if _, isD := in.(*ssa.Defer); isD && g == fn {
				return
			}
			if cc := callCommon(in); cc != nil && fnIs(cc.StaticCallee(), pEngine, "GenginePool", "putGengineLocked") {
				nOutside++
			}
		})
		if nOutside > 0 {
			putOK = false
		}
		chk("puts-own-wrapper", putOK && nPut == 1, p.deferI.Pos(), "the wrapper this request acquired must be handed back to this pool exactly once, by the deferred function only")
		// the deferred code reaches the hand-back on every way to its end: a way out of it (a return
		// or a panic raised again) before the hand-back loses the instance for exactly the requests
		// that fault
		if put != nil && put.lit != nil {
			at, early := pathExists(put.lit, nil, isExit, func(in ssa.Instruction) bool { return in == put.in })
			pos := p.deferI.Pos()
			if early && at.Pos().IsValid() {
				pos = at.Pos()
			}
			chk("put-on-every-way-out", !early, pos, "the deferred function can end (return, or panic again) before it hands the wrapper back: the instance is lost to the pool on that way")
		}
		order := clr != nil && put != nil && nPut == 1
		if order {
			if clr.lit != nil && clr.lit == put.lit {
				order = domInstr(clr.in, put.in)
				if order {
					_, twice := pathExists(clr.lit, put.in, func(in ssa.Instruction) bool {
						call, ok := in.(*ssa.Call)
						return ok && calleeIs(call, pEngine, "GenginePool", "putGengineLocked")
					}, nil)
					order = !twice
				}
			} else {
				// two defers run in the reverse order of their registration: the hand-back is
				// registered first, the clearing after it — and before any rule runs
				order = clr.d != put.d && domInstr(put.d, clr.d)
				for _, ec := range p.engineCalls {
					if !domInstr(clr.d, ec) {
						order = false
					}
				}
			}
		}
		chk("clear-before-put", order, p.deferI.Pos(), "the request's data must be deleted before the wrapper is handed back (once)")
		// P5: engine calls run on the acquired wrapper's engine with its own rule builder
		if len(p.engineCalls) == 0 {
			chk("engine-call", false, fn.Pos(), "no engine call")
		}
		for i, ec := range p.engineCalls {
			okE := p.isGwField(ec.Call.Args[0], "gengine")
			okRb := false
			for _, a := range ec.Call.Args[1:] {
				if isNamedPtr(a.Type(), pBuilder, "RuleBuilder") {
					okRb = p.isGwField(a, "rulebuilder")
				}
			}
			chk(fmt.Sprintf("engine-call%d-own-engine", i+1), okE && okRb && domInstr(p.deferI, ec), ec.Pos(), "the engine call must run on gw.gengine with gw.rulebuilder of the acquired wrapper, after the release was deferred")
			// result map read from the same engine after the call
			var grm *ssa.Call
			if hit, found := pathExists(fn, ec, func(in ssa.Instruction) bool {
				call, ok := in.(*ssa.Call)
				return ok && calleeIs(call, pEngine, "Gengine", "GetRulesResultMap")
			}, isReturn); found {
				grm = hit.(*ssa.Call)
			}
			okMap := grm != nil && p.isGwField(grm.Call.Args[0], "gengine")
			if okMap {
				// the returned map is that result
				_, wrong := pathExists(fn, grm, func(in ssa.Instruction) bool {
					r, ok := in.(*ssa.Return)
					if !ok {
						return false
					}
					// on executions that made this engine call: the returned map is the one
					// read after it, the returned error is this call's
					for _, v := range x.valuesVia(fn, ec, r, r.Results[1]) {
						if ex, ok := v.(*ssa.Extract); ok && ex.Tuple == ssa.Value(grm) && ex.Index == 0 {
							continue
						}
						return true
					}
					for _, v := range x.valuesVia(fn, ec, r, r.Results[0]) {
						if v != ssa.Value(ec) {
							return true
						}
					}
					return false
				}, nil)
				okMap = !wrong
				// and no way from the engine call to a return goes round the read of the map (an error
				// path that hands back an empty map of its own withholds the entries of the rules that
				// returned before the failure)
				if _, round := pathExists(fn, ec, isReturn, func(in ssa.Instruction) bool {
					call, ok := in.(*ssa.Call)
					return ok && calleeIs(call, pEngine, "Gengine", "GetRulesResultMap")
				}); round {
					okMap = false
				}
			}
			chk(fmt.Sprintf("engine-call%d-own-result", i+1), okMap, ec.Pos(), "the method must return the error of its engine call and the result map of the same engine, read after the call")
			// the error part on its own (armed by the properties whose clauses speak of the call's error)
			_, wrongErr := pathExists(fn, ec, func(in ssa.Instruction) bool {
				r, ok := in.(*ssa.Return)
				if !ok {
					return false
				}
				for _, v := range x.valuesVia(fn, ec, r, r.Results[0]) {
					if v != ssa.Value(ec) {
						return true
					}
				}
				return false
			}, nil)
			chk(fmt.Sprintf("engine-call%d-own-error", i+1), !wrongErr, ec.Pos(), "the method must return the error of its engine call: a failure of the model must reach the caller")
			// no pool lock held while the rules run (U6)
			held := x.heldAt(ec)
			chk(fmt.Sprintf("engine-call%d-no-lock", i+1), len(held) == 0, ec.Pos(), "no pool lock may be held while rules run (an update triggered by a rule would deadlock): held %v", heldNames(held))
		}
	}
	if len(fns) < 24 {
		c.Lost(rule, "the 24 (*GenginePool).Execute* methods")
	}
}

// variadicElems returns the elements of a variadic argument built from a fresh array.
func (x *FnIndex) variadicElems(v ssa.Value) []ssa.Value {
	v = x.Origin(v)
	// append(lit, more...)...: the elements of the literal come first
	if call, isCall := v.(*ssa.Call); isCall {
		if args, isApp := builtinCall(call, "append"); isApp && len(args) >= 1 {
			return x.variadicElems(args[0])
		}
	}
	sl, ok := v.(*ssa.Slice)
	if !ok {
		return nil
	}
	arr, ok := sl.X.(*ssa.Alloc)
	if !ok {
		return nil
	}
	type ent struct {
		i int64
		v ssa.Value
	}
	var es []ent
	for _, ref := range *arr.Referrers() {
		if ia, ok := ref.(*ssa.IndexAddr); ok {
			idx, _ := constInt(ia.Index)
			for _, r2 := range *ia.Referrers() {
				if st, ok := r2.(*ssa.Store); ok && st.Addr == ssa.Value(ia) {
					es = append(es, ent{idx, st.Val})
				}
			}
		}
	}
	sort.Slice(es, func(i, j int) bool { return es[i].i < es[j].i })
	var out []ssa.Value
	for _, e := range es {
		out = append(out, e.v)
	}
	return out
}

// ---- helper functions of the lifecycle: getKeys, clearInjected, prepare* ----------

func (c *Ctx) ruleLifecycleHelpers(rule string) {
	// getKeys returns every key: unconditional append of the range key
	if f := c.MustFn(rule, "engine", "", "getKeys"); f != nil {
		x := c.Index(f)
		ok := false
		branches := 0
		eachInstr(f, func(in ssa.Instruction) {
			if iff, isIf := in.(*ssa.If); isIf {
				// the only branches allowed are the range loop's own and a test that sets the
				// empty map apart (its other edge must go on to the loop)
				if _, isExt := x.Origin(iff.Cond).(*ssa.Extract); !isExt {
					okEmpty := false
					if arg, tlo, thi, flo, fhi, isLT := x.lenTest(iff.Cond); isLT && x.Origin(arg) == ssa.Value(f.Params[0]) && len(iff.Block().Succs) == 2 {
						var other *ssa.BasicBlock
						switch {
						case tlo == 0 && thi == 0:
							other = iff.Block().Succs[1]
						case flo == 0 && fhi == 0:
							other = iff.Block().Succs[0]
						}
						if other != nil && len(other.Instrs) > 0 {
							isNext := func(i2 ssa.Instruction) bool { _, n := i2.(*ssa.Next); return n }
							if isNext(other.Instrs[0]) {
								okEmpty = true
							} else if _, reach := pathFrom(other.Instrs[0], isNext, nil); reach {
								okEmpty = true
							}
						}
					}
					if !okEmpty {
						branches++
					}
				}
			}
			if st, isSt := in.(*ssa.Store); isSt {
				if args, isApp := builtinCall(st.Val, "append"); isApp && x.Cell(args[0]) != nil {
					if el := x.appendedSingle(args[1]); el != nil {
						if ex, isEx := x.Origin(el).(*ssa.Extract); isEx && ex.Index == 1 {
							if nx, isNx := ex.Tuple.(*ssa.Next); isNx {
								if rg, isRg := nx.Iter.(*ssa.Range); isRg && x.Origin(rg.X) == ssa.Value(f.Params[0]) {
									ok = true
								}
							}
						}
					}
				}
			}
		})
		for _, l := range x.Loops(f) {
			if !l.onlyNormalExit() {
				ok = false
			}
		}
		c.Check(rule, "getKeys#every-key", ok && branches == 0, f.Pos(), "getKeys must append every key of the given map unconditionally")
	}
	// clearInjected deletes the given keys from the wrapper's own data context
	if f := c.MustFn(rule, "engine", "gengineWrapper", "clearInjected"); f != nil {
		x := c.Index(f)
		ok := false
		eachInstr(f, func(in ssa.Instruction) {
			if call, isCall := in.(*ssa.Call); isCall && calleeIs(call, pContext, "DataContext", "Del") {
				b, okDc := x.isFieldLoad(call.Call.Args[0], "RuleBuilder", "Dc")
				if okDc {
					if b2, okRb := x.isFieldLoad(b, "gengineWrapper", "rulebuilder"); okRb && x.Origin(b2) == ssa.Value(f.Params[0]) && x.Origin(call.Call.Args[1]) == ssa.Value(f.Params[1]) {
						ok = true
					}
				}
			}
		})
		c.Check(rule, "clearInjected#deletes-given-keys", ok, f.Pos(), "clearInjected must call gw.rulebuilder.Dc.Del with exactly the keys it was given")
	}
	// DataContext.Del deletes each key under lockBase
	if f := c.MustFn(rule, "context", "DataContext", "Del"); f != nil {
		x := c.Index(f)
		ok := false
		eachInstr(f, func(in ssa.Instruction) {
			if call, isCall := in.(*ssa.Call); isCall {
				if args, isDel := builtinCall(call, "delete"); isDel {
					if _, isBase := x.isFieldLoad(args[0], "DataContext", "base"); isBase {
						if s, l, isR := x.rangedSlice(args[1]); isR && x.Origin(s) == ssa.Value(f.Params[1]) {
							_, lo, hi := x.sliceInterval(s)
							// every key: whole slice, unconditional delete, no early way out of the loop
							// (a delete under "the table has this key" deletes what an unconditional one does)
							guarded := false
							for _, g := range x.GuardsOfInLoop(call.Block()) {
								ex, isEx := x.Origin(g.Cond).(*ssa.Extract)
								lk, isLk := (ssa.Value)(nil), false
								if isEx && ex.Index == 1 {
									lk, isLk = ex.Tuple, true
								}
								if l2, isL := lk.(*ssa.Lookup); isLk && isL && l2.CommaOk && g.Pol {
									if _, isB := x.isFieldLoad(l2.X, "DataContext", "base"); isB && x.sameValue(l2.Index, args[1]) {
										continue
									}
								}
								guarded = true
							}
							ok = lo.equal(constForm(0)) && hi.equal(x.symLen(s)) && !guarded && l.onlyNormalExit()
						}
					}
				}
			}
		})
		c.Check(rule, "DataContext.Del#deletes-each-key", ok, f.Pos(), "Del must delete every given key from the injected table: unconditionally, over the whole key list, with no early way out of the loop")
	}
	// prepare* bind the wrapper to its own rule builder: gw.rulebuilder = gp.rbSlice[gw.tag]
	for _, n := range []string{"prepare", "prepareWithMultiInput"} {
		f := c.MustFn(rule, "engine", "GenginePool", n)
		if f == nil {
			continue
		}
		x := c.Index(f)
		bound := false
		var get *ssa.Call
		eachInstr(f, func(in ssa.Instruction) {
			if call, ok := in.(*ssa.Call); ok && calleeIs(call, pEngine, "GenginePool", "getGengine") {
				get = call
			}
		})
		eachInstr(f, func(in ssa.Instruction) {
			st, ok := in.(*ssa.Store)
			if !ok || get == nil {
				return
			}
			fa, ok := st.Addr.(*ssa.FieldAddr)
			if !ok || fieldOf(fa).Name() != "rulebuilder" {
				return
			}
			isGw := func(v ssa.Value) bool { return x.resultOf(v, get, 0) }
			if !isGw(fa.X) {
				return
			}
			// value: *(&(gp.rbSlice)[convert(gw.tag)])
			if u, ok := x.Origin(st.Val).(*ssa.UnOp); ok {
				if ia, ok := u.X.(*ssa.IndexAddr); ok {
					_, isRbs := x.isFieldLoad(ia.X, "GenginePool", "rbSlice")
					idx := x.Origin(ia.Index)
					if cv, ok := idx.(*ssa.Convert); ok {
						idx = x.Origin(cv.X)
					}
					tb, isTag := x.isFieldLoad(idx, "gengineWrapper", "tag")
					if isRbs && isTag && isGw(tb) {
						bound = true
					}
				}
			}
		})
		// once an engine has been taken out of the pool, the function can only hand it to its caller:
		// a return with an error (or without the wrapper) after the acquisition would lose the engine,
		// since the callers install the hand-back only after prepare* succeeded
		if get != nil {
			nilErr, _ := x.nilEdges(f, func(v ssa.Value) bool { return x.resultOf(v, get, 1) })
			okKeep := len(nilErr) > 0
			// a getGengine that has no error result always succeeds: everything after the call holds the instance
			_, hasErr := get.Type().(*types.Tuple)
			if !hasErr {
				okKeep = true
			}
			var lostAt token.Pos
			eachInstr(f, func(in ssa.Instruction) {
				r, ok := in.(*ssa.Return)
				if !ok || len(r.Results) != 2 || r.Block() == f.Recover {
					return
				}
				// returns that can follow a successful acquisition
				after := false
				for e := range nilErr {
					if x.edgeDominated(e.from, e.succ)[r.Block()] {
						after = true
					}
				}
				if !hasErr {
					_, after = pathExists(f, get, func(i2 ssa.Instruction) bool { return i2 == in }, nil)
				}
				if !after {
					return
				}
				for _, pv := range x.PossibleValues(r.Results[1]) {
					if pv.V != nil && !isConstNil(pv.V) {
						okKeep, lostAt = false, r.Pos()
					}
				}
				for _, pv := range x.PossibleValues(r.Results[0]) {
					if pv.V == nil || !x.resultOf(pv.V, get, 0) {
						okKeep, lostAt = false, r.Pos()
					}
				}
			})
			if !lostAt.IsValid() {
				lostAt = f.Pos()
			}
			c.Check(rule, "GenginePool."+n+"#acquired-engine-is-handed-on", okKeep, lostAt, "after getGengine succeeded the function must return that wrapper and no error on every path: an error return here loses the engine for good (the callers defer the hand-back only after a successful prepare)")
		}
		c.Check(rule, "GenginePool."+n+"#own-rulebuilder", bound, f.Pos(), "the acquired wrapper must be bound to gp.rbSlice[gw.tag], its private rule builder and data context")
		// data is injected into that wrapper's data context only
		okAdd := true
		nAdd := 0
		eachInstr(f, func(in ssa.Instruction) {
			if call, ok := in.(*ssa.Call); ok && calleeIs(call, pContext, "DataContext", "Add") {
				nAdd++
				b, okDc := x.isFieldLoad(call.Call.Args[0], "RuleBuilder", "Dc")
				if !okDc {
					okAdd = false
					return
				}
				b2, okRb := x.isFieldLoad(b, "gengineWrapper", "rulebuilder")
				if !okRb {
					okAdd = false
					return
				}
				if get == nil || !x.resultOf(b2, get, 0) {
					okAdd = false
				}
			}
		})
		c.Check(rule, "GenginePool."+n+"#injects-into-own-context", okAdd && nAdd > 0, f.Pos(), "request data must be added to the acquired wrapper's data context only")
	}
}

// ---- free lists: getGengine / putGengineLocked / NewGenginePool -------------------

// resultOf: v is result #i of the call (a tuple's extract, or the call itself when it has one result).
func (x *FnIndex) resultOf(v ssa.Value, call *ssa.Call, i int) bool {
	o := x.Origin(v)
	if ex, ok := o.(*ssa.Extract); ok {
		return ex.Tuple == ssa.Value(call) && ex.Index == i
	}
	if _, isTuple := call.Type().(*types.Tuple); !isTuple && i == 0 {
		return o == ssa.Value(call)
	}
	return false
}

func (c *Ctx) ruleFreeLists(rule string) {
	get := c.MustFn(rule, "engine", "GenginePool", "getGengine")
	if get != nil {
		x := c.Index(get)
		lists := map[string]string{"freeGengines": "GenginePool.runningLock", "additionGengines": "GenginePool.additionLock"}
		ri := 0
		eachInstr(get, func(in ssa.Instruction) {
			r, ok := in.(*ssa.Return)
			if !ok {
				return
			}
			ri++
			key := fmt.Sprintf("getGengine#return%d", ri)
			held := x.mayHeldAt(r)
			c.Check(rule, key+"/locks-released", len(held) == 0, r.Pos(), "getGengine can return with locks held: %v", heldNames(held))
			okVal := true
			why := ""
			if len(r.Results) == 0 {
				c.Check(rule, key, false, r.Pos(), "getGengine returns nothing")
				return
			}
			if len(r.Results) > 1 {
				for _, pv := range x.PossibleValues(r.Results[1]) {
					if pv.V != nil && !isConstNil(pv.V) {
						okVal, why = false, "returns a non-nil error: callers must wait, not fail"
					}
				}
			}
			for _, pv := range x.ValuesAt(r.Results[0], r) {
				u, isU := pv.V.(*ssa.UnOp)
				var ia *ssa.IndexAddr
				if isU {
					ia, _ = u.X.(*ssa.IndexAddr)
				}
				if ia == nil {
					okVal, why = false, "returns "+x.Describe(pv.V)+", not the head of a free list"
					continue
				}
				if k, isK := constInt(ia.Index); !isK || k != 0 {
					okVal, why = false, "returns an element other than the head of the list"
				}
				var lname string
				for n := range lists {
					if _, is := x.isFieldLoad(ia.X, "GenginePool", n); is {
						lname = n
					}
				}
				if lname == "" {
					okVal, why = false, "returned wrapper is not taken from a free list"
					continue
				}
				// non-empty known, list lock and exclusive outer lock held at the read, and popped in the same critical section
				h := x.heldAt(u)
				if _, ok := h[lists[lname]]; !ok {
					okVal, why = false, "head of "+lname+" read without "+lists[lname]
				}
				if k, ok := h["GenginePool.getEngineLock"]; !ok || k != "Lock" {
					okVal, why = false, "head of "+lname+" read without the exclusive getEngineLock"
				}
				nonEmpty := false
				for _, g := range x.GuardsOf(u.Block()) {
					if arg, ne, ok := x.lenCmpO(g.Cond); ok && ne == g.Pol {
						if _, is := x.isFieldLoad(arg, "GenginePool", lname); is {
							// the length must have been read under the list lock too
							if lu, isLoad := x.Origin(arg).(*ssa.UnOp); isLoad {
								if _, okh := x.heldAt(lu)[lists[lname]]; okh {
									nonEmpty = true
								}
							}
						}
					}
				}
				if !nonEmpty {
					okVal, why = false, "head of "+lname+" taken without knowing (under its lock) that the list is non-empty"
				}
				// pop: store list = list[1:] between the read and the unlock, in the same block
				popped := false
				for _, i2 := range u.Block().Instrs {
					if st, isSt := i2.(*ssa.Store); isSt {
						if fa, isFA := st.Addr.(*ssa.FieldAddr); isFA && fieldOf(fa).Name() == lname {
							if sl, isSl := x.Origin(st.Val).(*ssa.Slice); isSl && sl.High == nil {
								if k, isK := constInt(sl.Low); isK && k == 1 {
									if _, is := x.isFieldLoad(sl.X, "GenginePool", lname); is {
										hh := x.heldAt(st)
										if _, ok := hh[lists[lname]]; ok {
											popped = true
										}
									}
								}
							}
						}
					}
				}
				if !popped {
					okVal, why = false, "the returned head is not removed from "+lname+" in the same critical section (two callers could get the same engine)"
				}
			}
			c.Check(rule, key+"/exclusive-head", okVal, r.Pos(), "%s", orStr(why, "returns the head of a non-empty free list, popped under the list lock and the exclusive outer lock"))
		})
		// the wait loop: no lock held when retrying
		for _, l := range x.Loops(get) {
			held := x.mayHeldAt(l.Head.Instrs[0])
			c.Check(rule, "getGengine#retry-without-locks", len(held) == 0, l.Head.Instrs[0].Pos(), "locks held across a retry of the wait loop: %v (a returning request could never put its engine back)", heldNames(held))
		}
		if len(x.Loops(get)) == 0 {
			c.Check(rule, "getGengine#waits", false, get.Pos(), "getGengine has no wait loop: a request that finds all engines busy cannot wait")
		}
		// a request goes round again only after it has found both lists empty: a way back to the head
		// of the wait loop that has not looked at a list can leave a free instance unused for ever
		for _, l := range x.Loops(get) {
			if c.Prop != "C17" {
				break // a capacity matter: not part of the exclusive hand-out (C06)
			}
			head := l.Head.Instrs[0]
			for _, lname := range []string{"freeGengines", "additionGengines"} {
				empty := map[edgeKey]bool{}
				eachInstr(get, func(in ssa.Instruction) {
					iff, isIf := in.(*ssa.If)
					if !isIf || !l.Blocks[iff.Block()] {
						return
					}
					arg, ne, ok := x.lenCmpO(iff.Cond)
					if !ok {
						return
					}
					if _, is := x.isFieldLoad(arg, "GenginePool", lname); !is {
						return
					}
					if ne {
						empty[edgeKey{iff.Block(), 1}] = true
					} else {
						empty[edgeKey{iff.Block(), 0}] = true
					}
				})
				// an element of a free list is never nil (wrappers are made by the constructor only, W1, and
				// putGengineLocked reads gw.addition before it appends gw): the nil edge of a test of a list
				// head -- `if gw := gp.takeFree(); gw != nil` with takeFree inlined -- is not a way on
				avoid := map[edgeKey]bool{}
				for k := range empty {
					avoid[k] = true
				}
				eachInstr(get, func(in ssa.Instruction) {
					iff, isIf := in.(*ssa.If)
					if !isIf || !l.Blocks[iff.Block()] {
						return
					}
					v, neq, isNilTest := nilCheck(iff.Cond)
					if !isNilTest {
						return
					}
					ld, isLd := x.Origin(v).(*ssa.UnOp)
					if !isLd || ld.Op != token.MUL {
						return
					}
					ia, isIA := ld.X.(*ssa.IndexAddr)
					if !isIA {
						return
					}
					_, f1 := x.isFieldLoad(ia.X, "GenginePool", "freeGengines")
					_, f2 := x.isFieldLoad(ia.X, "GenginePool", "additionGengines")
					if !f1 && !f2 {
						return
					}
					if neq {
						avoid[edgeKey{iff.Block(), 1}] = true // v != nil is false
					} else {
						avoid[edgeKey{iff.Block(), 0}] = true // v == nil is true
					}
				})
				_, again := x.pathExistsFlags(get, head, func(in ssa.Instruction) bool { return in == head }, avoid, func(in ssa.Instruction) bool { return !l.Blocks[in.Block()] })
				c.Check(rule, "getGengine#retries-only-after-"+lname+"-was-empty", len(empty) > 0 && !again, head.Pos(), "a pass of the wait loop can end without having found %s empty (%d test(s) of its length in the loop): a request could keep waiting while an instance is free", lname, len(empty))
			}
		}
	}
	put := c.MustFn(rule, "engine", "GenginePool", "putGengineLocked")
	if put != nil {
		x := c.Index(put)
		lists := map[string]string{"freeGengines": "GenginePool.runningLock", "additionGengines": "GenginePool.additionLock"}
		n := 0
		var appendIns []ssa.Instruction
		eachInstrDeep(put, func(f *ssa.Function, in ssa.Instruction) {
			st, ok := in.(*ssa.Store)
			if !ok {
				return
			}
			fa, ok := st.Addr.(*ssa.FieldAddr)
			if !ok || lists[fieldOf(fa).Name()] == "" {
				return
			}
			lname := fieldOf(fa).Name()
			n++
			appendIns = append(appendIns, in)
			okA := false
			if args, isApp := builtinCall(st.Val, "append"); isApp {
				if _, is := x.isFieldLoad(args[0], "GenginePool", lname); is {
					if el := x.appendedSingle(args[1]); el != nil && x.Origin(el) == ssa.Value(put.Params[1]) {
						okA = true
					}
				}
			}
			held := x.heldAt(in)
			_, okL := held[lists[lname]]
			// selected by gw.addition
			sel := false
			for _, g := range x.GuardsOf(in.Block()) {
				if b, is := x.isFieldLoad(g.Cond, "gengineWrapper", "addition"); is && x.Origin(b) == ssa.Value(put.Params[1]) {
					if (lname == "additionGengines") == g.Pol {
						sel = true
					}
				}
			}
			c.Check(rule, "putGengineLocked#append-"+lname, okA && okL && sel, in.Pos(), "the wrapper must be appended to %s under %s, chosen by gw.addition", lname, lists[lname])
		})
		// exactly one append on every path of the literal
		if n == 2 {
			lit := appendIns[0].Parent()
			isApp := func(in ssa.Instruction) bool { return in == appendIns[0] || in == appendIns[1] }
			_, none := pathExists(lit, nil, isReturn, isApp)
			twice := false
			for _, a := range appendIns {
				if _, f := pathExists(lit, a, isApp, nil); f {
					twice = true
				}
			}
			c.Check(rule, "putGengineLocked#exactly-once", !none && !twice, put.Pos(), "the wrapper must be put back exactly once")
			// ... and the code that appends always runs: when it lives in a literal (the
			// asynchronous hand-back), every path through the enclosing function starts it
			always := true
			for f := lit; f != put && f != nil; f = f.Parent() {
				par := f.Parent()
				if par == nil {
					always = false
					break
				}
				starts := func(in ssa.Instruction) bool {
					cc := callCommon(in)
					if cc == nil {
						return false
					}
					if mc, ok := cc.Value.(*ssa.MakeClosure); ok {
						return mc.Fn == ssa.Value(f)
					}
					return cc.Value == ssa.Value(f)
				}
				if _, skip := pathExists(par, nil, isReturn, starts); skip {
					// a hand-back skipped for a wrapper that is not checked out (a guard against
					// putting one wrapper back twice) is fine when every checkout marks the wrapper:
					// the guards test one field of the wrapper, and getGengine writes that field
					// before each of its returns
					always = false
					px := c.Index(par)
					var goIn ssa.Instruction
					eachInstr(par, func(in ssa.Instruction) {
						if starts(in) {
							goIn = in
						}
					})
					field := ""
					okGuards := goIn != nil
					if goIn != nil {
						gs := px.GuardsOf(goIn.Block())
						if len(gs) == 0 {
							okGuards = false
						}
						for _, g := range gs {
							fn := wrapperFieldOf(px, g.Cond)
							if fn == "" || (field != "" && fn != field) {
								okGuards = false
							}
							field = fn
						}
					}
					if okGuards && field != "" && get != nil {
						gx := c.Index(get)
						marked := true
						eachInstr(get, func(in ssa.Instruction) {
							r, isR := in.(*ssa.Return)
							if !isR {
								return
							}
							found := false
							eachInstr(get, func(i2 ssa.Instruction) {
								if wrapperFieldWrite(gx, i2) == field && domInstr(i2, r) {
									found = true
								}
							})
							if !found {
								marked = false
							}
						})
						always = marked
					}
				}
			}
			c.Check(rule, "putGengineLocked#always-hands-back", always, put.Pos(), "every call of putGengineLocked must start the hand-back: a path returns without it (the wrapper would be lost to the pool)")
		} else {
			c.Check(rule, "putGengineLocked#exactly-once", false, put.Pos(), "expected one append per free list, found %d", n)
		}
	}
	// who touches the lists
	allowed := map[string]bool{"NewGenginePool": true, "GenginePool.getGengine": true, "GenginePool.putGengineLocked": true}
	for _, f := range c.AllFns {
		eachInstr(f, func(in ssa.Instruction) {
			fa, ok := in.(*ssa.FieldAddr)
			if !ok {
				return
			}
			fv := fieldOf(fa)
			if fv == nil || (fv.Name() != "freeGengines" && fv.Name() != "additionGengines") || structName(fa.X.Type()) != "GenginePool" {
				return
			}
			root := fnName(rootOf(f))
			c.Check(rule, "who-touches-"+fv.Name()+"@"+root, allowed[root], in.Pos(), "free list %s accessed in %s (allowed: construction, getGengine, putGengineLocked)", fv.Name(), root)
		})
	}
}

// ruleConstruction: P3 / W1 — NewGenginePool builds max wrappers with tags
// 0..max-1 and one private data context + rule builder per tag.
func (c *Ctx) ruleConstruction(rule string) {
	f := c.MustFn(rule, "engine", "", "NewGenginePool")
	if f == nil {
		return
	}
	x := c.Index(f)
	// wrapper allocations anywhere
	for _, g := range c.AllFns {
		eachInstr(g, func(in ssa.Instruction) {
			al, ok := in.(*ssa.Alloc)
			if !ok {
				return
			}
			if structName(al.Type()) == "gengineWrapper" {
				if _, isStruct := al.Type().(*types.Pointer).Elem().(*types.Named); isStruct {
					c.Check(rule, "wrapper-allocated-in@"+fnName(rootOf(g)), rootOf(g) == f, in.Pos(), "gengineWrapper allocated in %s: wrappers may only be created by NewGenginePool (conservation)", fnName(rootOf(g)))
				}
			}
		})
	}
	pmin, pmax := ssa.Value(f.Params[0]), ssa.Value(f.Params[1])
	fmin, fmax := x.symInt(pmin), x.symInt(pmax)
	// tag stores: each wrapper created in a loop gets base + (iteration number); the two
	// loops must cover [0, poolMinLen) and [poolMinLen, poolMaxLen) exactly
	type tagStore struct {
		base, count linform
		ok          bool
		pos         token.Pos
	}
	var tags []tagStore
	eachInstr(f, func(in ssa.Instruction) {
		st, ok := in.(*ssa.Store)
		if !ok {
			return
		}
		fa, ok := st.Addr.(*ssa.FieldAddr)
		if !ok || structName(fa.X.Type()) != "gengineWrapper" || fieldOf(fa).Name() != "tag" {
			return
		}
		_, base, count, okF := x.iterForm(f, st.Val)
		tags = append(tags, tagStore{base, count, okF, st.Pos()})
	})
	okTags := len(tags) == 2 && tags[0].ok && tags[1].ok
	desc := ""
	if okTags {
		for _, t := range tags {
			desc += fmt.Sprintf("[%s, %s + %s); ", t.base, t.base, t.count)
		}
		a, b := tags[0], tags[1]
		if !a.base.equal(constForm(0)) {
			a, b = b, a
		}
		okTags = a.base.equal(constForm(0)) && a.count.equal(fmin) && b.base.equal(fmin) && b.base.add(b.count, 1).equal(fmax)
	} else if len(tags) == 1 && tags[0].ok {
		// all wrappers made in one loop over [0, poolMaxLen), each with its iteration number
		t := tags[0]
		desc = fmt.Sprintf("[%s, %s + %s); ", t.base, t.base, t.count)
		okTags = t.base.equal(constForm(0)) && t.count.equal(fmax)
	}
	c.Check(rule, "NewGenginePool#tags", okTags, f.Pos(), "wrapper tags must be the iteration number for the poolMinLen initial wrappers and poolMinLen + the iteration number for the poolMaxLen-poolMinLen additional ones (a bijection onto [0,max)): %s", desc)
	// one engine per instance: the result map lives in the engine object, each wrapper gets its own
	// NewGengine() made in the iteration that makes the wrapper, and the field is never stored again
	nEng, okEng, engWhy := 0, true, ""
	for _, g := range c.AllFns {
		if g.Pkg == nil {
			continue
		}
		gx := c.Index(g)
		eachInstr(g, func(in ssa.Instruction) {
			st, ok := in.(*ssa.Store)
			if !ok {
				return
			}
			fa, ok := st.Addr.(*ssa.FieldAddr)
			if !ok || structName(fa.X.Type()) != "gengineWrapper" || fieldOf(fa).Name() != "gengine" {
				return
			}
			nEng++
			if rootOf(g) != f {
				okEng, engWhy = false, "the engine of a wrapper is replaced in "+fnName(rootOf(g))
				return
			}
			L := gx.InnermostLoop(st.Block())
			ne, isCall := gx.Origin(st.Val).(*ssa.Call)
			if !isCall || !calleeIs(ne, pEngine, "", "NewGengine") || L == nil || !L.Blocks[ne.Block()] {
				okEng, engWhy = false, "the engine stored into a wrapper is not a NewGengine() made in the iteration that makes the wrapper (one engine object, hence one result map, would serve several instances)"
			}
		})
	}
	// the two free lists and the slice of rule builders each own their memory: each is a slice made for it
	// (make), not a part of an array another list lives in -- `fg := all[:min]; ag := all[min:]` lets the
	// append that hands an instance back to one list, under that list's lock, write into the other
	okOwn, ownWhy := true, ""
	madeBy := map[ssa.Value]string{}
	eachInstr(f, func(in ssa.Instruction) {
		st, ok := in.(*ssa.Store)
		if !ok {
			return
		}
		fa, ok := st.Addr.(*ssa.FieldAddr)
		if !ok || structName(fa.X.Type()) != "GenginePool" {
			return
		}
		name := fieldOf(fa).Name()
		if name != "freeGengines" && name != "additionGengines" && name != "rbSlice" {
			return
		}
		o := x.Origin(st.Val)
		mk, isMake := o.(*ssa.MakeSlice)
		if !isMake {
			okOwn, ownWhy = false, name+" is "+x.Describe(o)+", not a slice made for it"
			return
		}
		if other, dup := madeBy[mk]; dup {
			okOwn, ownWhy = false, name+" and "+other+" are the same slice"
		}
		madeBy[mk] = name
	})
	// every slot of the two lists holds a wrapper of its own: a wrapper allocated in the iteration that
	// fills the slot, or the address of an element of a block of wrappers made here, the index ranges of
	// the fills being disjoint -- otherwise two requests are handed the same instance
	{
		type fill struct {
			base, count linform
			pos         token.Pos
		}
		var fills []fill
		perAlloc := map[*ssa.Alloc]int{}
		okSlots, slotWhy, nSlots := true, "", 0
		isWrapperPtr := func(t types.Type) bool {
			p, ok := t.Underlying().(*types.Pointer)
			return ok && structName(p) == "gengineWrapper"
		}
		put := func(v ssa.Value, at ssa.Instruction) {
			nSlots++
			switch o := x.Origin(v).(type) {
			case *ssa.Alloc:
				perAlloc[o]++
				L := x.InnermostLoop(at.Block())
				if L == nil || !L.Blocks[o.Block()] {
					okSlots, slotWhy = false, "a wrapper made outside the iteration that fills the slot is put into a list at "+c.pos(at.Pos())
				}
				if perAlloc[o] > 1 {
					okSlots, slotWhy = false, "the same wrapper is put into a list twice at "+c.pos(at.Pos())
				}
			case *ssa.IndexAddr:
				if _, isMk := x.Origin(o.X).(*ssa.MakeSlice); !isMk {
					okSlots, slotWhy = false, "a list slot is filled with an element of "+x.Describe(o.X)+" at "+c.pos(at.Pos())
					return
				}
				_, base, count, okF := x.iterForm(f, o.Index)
				if !okF {
					okSlots, slotWhy = false, "a list slot is filled with an element whose index is not the iteration number plus a constant part at "+c.pos(at.Pos())
					return
				}
				fills = append(fills, fill{base, count, at.Pos()})
			default:
				okSlots, slotWhy = false, "a list slot is filled with "+x.Describe(v)+" at "+c.pos(at.Pos())
			}
		}
		eachInstr(f, func(in ssa.Instruction) {
			switch t := in.(type) {
			case *ssa.Store:
				if ia, ok := t.Addr.(*ssa.IndexAddr); ok && isWrapperPtr(t.Val.Type()) {
					if sl, isSl := ia.X.Type().Underlying().(*types.Slice); isSl && isWrapperPtr(sl.Elem()) {
						put(t.Val, in)
					}
				}
			case *ssa.Call:
				if args, isApp := builtinCall(t, "append"); isApp && len(args) == 2 {
					if sl, isSl := t.Type().Underlying().(*types.Slice); isSl && isWrapperPtr(sl.Elem()) {
						if e := x.appendedSingle(args[1]); e != nil {
							put(e, in)
						} else {
							okSlots, slotWhy = false, "several wrappers appended at once at "+c.pos(in.Pos())
						}
					}
				}
			}
		})
		for i := range fills {
			for j := i + 1; j < len(fills); j++ {
				a, b := fills[i], fills[j]
				if !a.base.add(a.count, 1).equal(b.base) && !b.base.add(b.count, 1).equal(a.base) {
					okSlots, slotWhy = false, fmt.Sprintf("the fills at %s and %s take elements [%s, +%s) and [%s, +%s) of the block: not shown to be disjoint", c.pos(a.pos), c.pos(b.pos), a.base, a.count, b.base, b.count)
				}
			}
		}
		c.Check(rule, "NewGenginePool#one-slot-per-wrapper", okSlots && nSlots >= 2, f.Pos(), "every slot of the free lists must hold a wrapper of its own (%d fill(s) found): %s", nSlots, orStr(slotWhy, "ok"))
	}
	c.Check(rule, "NewGenginePool#lists-own-their-memory", okOwn && len(madeBy) == 3, f.Pos(), "freeGengines, additionGengines and rbSlice must each be a slice of its own (%d found): %s", len(madeBy), orStr(ownWhy, "ok"))
	c.Check(rule, "NewGenginePool#own-engine-per-instance", okEng && nEng >= 1, f.Pos(), "every wrapper must get its own engine (%d store(s) of the field found): %s", nEng, orStr(engWhy, "ok"))
	// one data context and rule builder per instance, created inside the loop, for every
	// position 0..poolMaxLen-1
	okPriv := false
	privWhy := "no store of a new rule builder into the instance slice found"
	eachInstr(f, func(in ssa.Instruction) {
		st, ok := in.(*ssa.Store)
		if !ok {
			return
		}
		ia, ok := st.Addr.(*ssa.IndexAddr)
		if !ok {
			return
		}
		sl, ok := ia.X.Type().Underlying().(*types.Slice)
		if !ok || structName(sl.Elem()) != "RuleBuilder" {
			return
		}
		L := x.InnermostLoop(st.Block())
		nb, ok := x.Origin(st.Val).(*ssa.Call)
		if !ok || !calleeIs(nb, pBuilder, "", "NewRuleBuilder") || L == nil || !L.Blocks[nb.Block()] {
			privWhy = "the stored rule builder is not created by NewRuleBuilder inside the loop iteration"
			return
		}
		// its data context is created in the same iteration (directly, or by a constructor
		// helper whose NewDataContext call was inlined into the loop)
		dcFresh := false
		if ndc, ok := x.Origin(nb.Call.Args[0]).(*ssa.Call); ok && calleeIs(ndc, pContext, "", "NewDataContext") && L.Blocks[ndc.Block()] {
			dcFresh = true
		}
		if !dcFresh {
			privWhy = "the data context handed to NewRuleBuilder is not created by NewDataContext inside the loop iteration"
			return
		}
		if lp, base, count, okF := x.iterForm(f, ia.Index); okF && lp == L && base.equal(constForm(0)) && count.equal(fmax) {
			okPriv = true
		} else {
			privWhy = "the position stored to is not the iteration number of a loop making poolMaxLen iterations"
		}
	})
	c.Check(rule, "NewGenginePool#private-context-per-instance", okPriv, f.Pos(), "every rbSlice[i], i in [0,poolMaxLen), must get its own NewRuleBuilder(NewDataContext()) created inside the loop iteration (%s)", privWhy)
	// rbSlice length and max are the same parameter
	okLen := false
	eachInstr(f, func(in ssa.Instruction) {
		if ms, ok := in.(*ssa.MakeSlice); ok {
			if sl, ok := ms.Type().Underlying().(*types.Slice); ok && structName(sl.Elem()) == "RuleBuilder" {
				if x.symInt(ms.Len).equal(x.symInt(pmax)) {
					okLen = true
				}
			}
		}
	})
	okMax := false
	eachInstr(f, func(in ssa.Instruction) {
		if st, ok := in.(*ssa.Store); ok {
			if fa, ok := st.Addr.(*ssa.FieldAddr); ok && structName(fa.X.Type()) == "GenginePool" && fieldOf(fa).Name() == "max" {
				okMax = x.Origin(st.Val) == pmax
			}
		}
	})
	c.Check(rule, "NewGenginePool#rbSlice-covers-max", okLen && okMax, f.Pos(), "rbSlice must have poolMaxLen entries and gp.max must be poolMaxLen")
	// what the constructor set up stays: the rule builder of an instance, and the data context of a
	// rule builder, are never replaced afterwards (a second builder made over a shared context would put
	// two instances on one context)
	if !strings.HasPrefix(rule, "P3") {
		return // a matter of request isolation (C06), not of the number of instances (C17)
	}
	bad, badPos := "", f.Pos()
	for _, g := range c.AllFns {
		if g.Pkg == nil || rootOf(g) == f {
			continue
		}
		gx := c.Index(g)
		eachInstr(g, func(in ssa.Instruction) {
			st, ok := in.(*ssa.Store)
			if !ok || bad != "" {
				return
			}
			switch a := st.Addr.(type) {
			case *ssa.IndexAddr:
				if _, isRbs := gx.isFieldLoad(a.X, "GenginePool", "rbSlice"); isRbs {
					bad, badPos = "an element of gp.rbSlice is replaced in "+fnName(rootOf(g)), in.Pos()
				}
			case *ssa.FieldAddr:
				if structName(a.X.Type()) == "RuleBuilder" && fieldOf(a).Name() == "Dc" && fnName(rootOf(g)) != "NewRuleBuilder" {
					if _, fresh := gx.Origin(a.X).(*ssa.Alloc); !fresh {
						bad, badPos = "the data context of a rule builder is replaced in "+fnName(rootOf(g)), in.Pos()
					}
				}
				if structName(a.X.Type()) == "GenginePool" && fieldOf(a).Name() == "rbSlice" {
					bad, badPos = "gp.rbSlice is replaced in "+fnName(rootOf(g)), in.Pos()
				}
			}
		})
	}
	c.Check(rule, "instances-keep-their-builder-and-context", bad == "", badPos, "the rule builder of an instance and its data context are set by the constructors only (%s)", orStr(bad, "no other store"))
}

// wrapperFieldOf: the condition tests one field of a gengineWrapper (a read of it, or an
// atomic load / compare-and-swap on its address); the field's name.
func wrapperFieldOf(x *FnIndex, cond ssa.Value) string {
	var find func(v ssa.Value, d int) string
	find = func(v ssa.Value, d int) string {
		if d > 5 || v == nil {
			return ""
		}
		switch t := x.Origin(v).(type) {
		case *ssa.UnOp:
			if t.Op == token.MUL {
				if fa, ok := t.X.(*ssa.FieldAddr); ok && structName(fa.X.Type()) == "gengineWrapper" {
					return fieldOf(fa).Name()
				}
				return ""
			}
			return find(t.X, d+1)
		case *ssa.BinOp:
			if f := find(t.X, d+1); f != "" {
				return f
			}
			return find(t.Y, d+1)
		case *ssa.Call:
			if cal := t.Call.StaticCallee(); cal != nil && cal.Pkg != nil && cal.Pkg.Pkg.Path() == "sync/atomic" && len(t.Call.Args) > 0 {
				if fa, ok := t.Call.Args[0].(*ssa.FieldAddr); ok && structName(fa.X.Type()) == "gengineWrapper" {
					return fieldOf(fa).Name()
				}
			}
		}
		return ""
	}
	return find(cond, 0)
}

// wrapperFieldWrite: the instruction writes a field of a gengineWrapper (a store, or an
// atomic store / swap / add on its address); the field's name.
func wrapperFieldWrite(x *FnIndex, in ssa.Instruction) string {
	switch t := in.(type) {
	case *ssa.Store:
		if fa, ok := t.Addr.(*ssa.FieldAddr); ok && structName(fa.X.Type()) == "gengineWrapper" {
			return fieldOf(fa).Name()
		}
	case *ssa.Call:
		if cal := t.Call.StaticCallee(); cal != nil && cal.Pkg != nil && cal.Pkg.Pkg.Path() == "sync/atomic" && len(t.Call.Args) > 0 {
			if strings.HasPrefix(cal.Name(), "Load") {
				return ""
			}
			if fa, ok := t.Call.Args[0].(*ssa.FieldAddr); ok && structName(fa.X.Type()) == "gengineWrapper" {
				return fieldOf(fa).Name()
			}
		}
	}
	return ""
}

// armPoolError: the pool methods accepted by pick return the error of their engine call (the own-error
// slots of the request life cycle), recorded under rule.
func (c *Ctx) armPoolError(rule string, pick func(method string) bool, min int) {
	c.only = func(key string) bool {
		if !strings.HasSuffix(key, "-own-error") {
			return false
		}
		m := strings.TrimPrefix(key, "GenginePool.")
		if i := strings.Index(m, "/"); i >= 0 {
			m = m[:i]
		}
		return pick(m)
	}
	c.ruleLifecycle(rule, nil)
	c.only = nil
	c.Min(rule, min)
}

// armPoolArgs arms, under another property's rule name, the same-name dispatch of the pool's execute methods:
// the method calls the engine method of its own name with its own arguments, each in its place (the
// stage sizes N and M, the error policy, the names, the tag). pick selects the methods by name.
func (c *Ctx) armPoolArgs(rule string, pick func(method string) bool, min int) {
	c.only = func(key string) bool {
		if !strings.HasSuffix(key, "#same-name") {
			return false
		}
		m := strings.TrimSuffix(strings.TrimPrefix(key, "GenginePool."), "#same-name")
		return pick(m)
	}
	c.ruleModelTable(rule)
	c.only = nil
	c.Min(rule, min)
}
