package main

// ir.go — helpers over go/ssa: value origins through single-store cells,
// closure bindings, edge guards (A2), natural loops, instruction-level path
// queries, callee resolution.

import (
	"fmt"
	"go/constant"
	"go/token"
	"go/types"
	"sort"
	"strings"

	"golang.org/x/tools/go/ssa"
)

// FnIndex covers one top-level function and all function literals nested in it.
type FnIndex struct {
	Root      *ssa.Function
	Fns       []*ssa.Function
	closureOf map[*ssa.Function]*ssa.MakeClosure
	stores    map[ssa.Value][]*ssa.Store
	loops     map[*ssa.Function][]*Loop
	edgeDom   map[edgeKey]map[*ssa.BasicBlock]bool
}

type edgeKey struct {
	from *ssa.BasicBlock
	succ int
}

func rootOf(f *ssa.Function) *ssa.Function {
	for f.Parent() != nil {
		f = f.Parent()
	}
	return f
}

func (c *Ctx) Index(f *ssa.Function) *FnIndex {
	r := rootOf(f)
	if x, ok := c.fnIndexes[r]; ok {
		return x
	}
	x := &FnIndex{Root: r, closureOf: map[*ssa.Function]*ssa.MakeClosure{}, stores: map[ssa.Value][]*ssa.Store{},
		loops: map[*ssa.Function][]*Loop{}, edgeDom: map[edgeKey]map[*ssa.BasicBlock]bool{}}
	var walk func(f *ssa.Function)
	walk = func(f *ssa.Function) {
		x.Fns = append(x.Fns, f)
		for _, b := range f.Blocks {
			for _, in := range b.Instrs {
				if mc, ok := in.(*ssa.MakeClosure); ok {
					if af, ok := mc.Fn.(*ssa.Function); ok {
						x.closureOf[af] = mc
					}
				}
			}
		}
		for _, a := range f.AnonFuncs {
			walk(a)
		}
	}
	walk(r)
	for _, f := range x.Fns {
		for _, b := range f.Blocks {
			for _, in := range b.Instrs {
				if st, ok := in.(*ssa.Store); ok {
					a := x.ResolveAddr(st.Addr)
					x.stores[a] = append(x.stores[a], st)
				}
			}
		}
	}
	c.fnIndexes[r] = x
	return x
}

// ResolveAddr maps a free variable of a closure to the cell bound in the
// enclosing function (transitively).
func (x *FnIndex) ResolveAddr(v ssa.Value) ssa.Value {
	for i := 0; i < 16; i++ {
		fv, ok := v.(*ssa.FreeVar)
		if !ok {
			return v
		}
		fn := fv.Parent()
		mc := x.closureOf[fn]
		if mc == nil {
			return v
		}
		found := false
		for i, f := range fn.FreeVars {
			if f == fv && i < len(mc.Bindings) {
				v = mc.Bindings[i]
				found = true
				break
			}
		}
		if !found {
			return v
		}
	}
	return v
}

// StoresTo lists the stores into a cell (an Alloc), including those made by closures.
func (x *FnIndex) StoresTo(addr ssa.Value) []*ssa.Store { return x.stores[x.ResolveAddr(addr)] }

// Origin looks through loads of single-assignment cells (captured parameters,
// `rr := r` copies, named temporaries), type changes and trivial phis.
func (x *FnIndex) Origin(v ssa.Value) ssa.Value {
	for i := 0; i < 32; i++ {
		switch t := v.(type) {
		case *ssa.UnOp:
			if t.Op != token.MUL {
				return v
			}
			a := x.ResolveAddr(t.X)
			if al, ok := a.(*ssa.Alloc); ok {
				st := x.stores[al]
				if len(st) == 1 {
					v = st[0].Val
					continue
				}
			}
			return v
		case *ssa.ChangeType:
			v = t.X
			continue
		case *ssa.Phi:
			var first ssa.Value
			same := true
			for _, e := range t.Edges {
				o := x.Origin(e)
				if first == nil {
					first = o
				} else if first != o {
					same = false
				}
			}
			if same && first != nil {
				v = first
				continue
			}
			return v
		}
		return v
	}
	return v
}

// Cell returns the variable cell (Alloc) a load reads, or nil.
func (x *FnIndex) Cell(v ssa.Value) *ssa.Alloc {
	if u, ok := v.(*ssa.UnOp); ok && u.Op == token.MUL {
		if al, ok := x.ResolveAddr(u.X).(*ssa.Alloc); ok {
			return al
		}
	}
	return nil
}

// ---- describing values ---------------------------------------------------

// Describe renders a value as a short access path, e.g. "rb.Kc.SortRules",
// "len(rules)", "call Execute#1".
func (x *FnIndex) Describe(v ssa.Value) string {
	return x.describe(v, 0)
}

func (x *FnIndex) describe(v ssa.Value, depth int) string {
	if depth > 12 {
		return "…"
	}
	if v == nil {
		return "<nil>"
	}
	switch t := v.(type) {
	case *ssa.Parameter:
		return t.Name()
	case *ssa.Const:
		if t.Value == nil {
			return "nil"
		}
		return t.Value.ExactString()
	case *ssa.Alloc:
		if t.Comment != "" {
			return "&" + t.Comment
		}
		return "&alloc"
	case *ssa.FreeVar:
		r := x.ResolveAddr(t)
		if r != v {
			return x.describe(r, depth+1)
		}
		return "&" + t.Name()
	case *ssa.Global:
		return t.Name()
	case *ssa.UnOp:
		if t.Op == token.MUL {
			o := x.Origin(t)
			if o != v {
				return x.describe(o, depth+1)
			}
			inner := x.describe(x.ResolveAddr(t.X), depth+1)
			return strings.TrimPrefix(inner, "&")
		}
		return t.Op.String() + x.describe(t.X, depth+1)
	case *ssa.FieldAddr:
		return "&" + strings.TrimPrefix(x.describe(t.X, depth+1), "&") + "." + fieldName(t.X.Type(), t.Field)
	case *ssa.Field:
		return x.describe(t.X, depth+1) + "." + fieldName(t.X.Type(), t.Field)
	case *ssa.IndexAddr:
		return "&" + x.describe(t.X, depth+1) + "[" + x.describe(t.Index, depth+1) + "]"
	case *ssa.Index:
		return x.describe(t.X, depth+1) + "[" + x.describe(t.Index, depth+1) + "]"
	case *ssa.Lookup:
		return x.describe(t.X, depth+1) + "[" + x.describe(t.Index, depth+1) + "]"
	case *ssa.Slice:
		lo, hi := "", ""
		if t.Low != nil {
			lo = x.describe(t.Low, depth+1)
		}
		if t.High != nil {
			hi = x.describe(t.High, depth+1)
		}
		return x.describe(t.X, depth+1) + "[" + lo + ":" + hi + "]"
	case *ssa.BinOp:
		return "(" + x.describe(t.X, depth+1) + " " + t.Op.String() + " " + x.describe(t.Y, depth+1) + ")"
	case *ssa.Extract:
		return fmt.Sprintf("%s#%d", x.describe(t.Tuple, depth+1), t.Index)
	case *ssa.Call:
		if b, ok := t.Call.Value.(*ssa.Builtin); ok {
			args := []string{}
			for _, a := range t.Call.Args {
				args = append(args, x.describe(a, depth+1))
			}
			return b.Name() + "(" + strings.Join(args, ",") + ")"
		}
		if f := t.Call.StaticCallee(); f != nil {
			return "call:" + fnName(f)
		}
		if t.Call.IsInvoke() {
			return "invoke:" + t.Call.Method.Name()
		}
		return "call:?"
	case *ssa.Convert:
		return types.TypeString(t.Type(), func(*types.Package) string { return "" }) + "(" + x.describe(t.X, depth+1) + ")"
	case *ssa.ChangeType:
		return x.describe(t.X, depth+1)
	case *ssa.MakeInterface:
		return x.describe(t.X, depth+1)
	case *ssa.Phi:
		o := x.Origin(t)
		if o != v {
			return x.describe(o, depth+1)
		}
		return "phi:" + t.Comment
	case *ssa.MakeMap:
		return "make(map)"
	case *ssa.MakeSlice:
		return "make(slice)"
	case *ssa.TypeAssert:
		return x.describe(t.X, depth+1) + ".(" + types.TypeString(t.AssertedType, func(*types.Package) string { return "" }) + ")"
	case *ssa.Function:
		return "func:" + fnName(t)
	case *ssa.MakeClosure:
		return "closure"
	case *ssa.Next:
		return "next"
	case *ssa.Range:
		return "range(" + x.describe(t.X, depth+1) + ")"
	}
	return fmt.Sprintf("%T", v)
}

func fieldName(t types.Type, i int) string {
	if p, ok := t.Underlying().(*types.Pointer); ok {
		t = p.Elem()
	}
	if s, ok := t.Underlying().(*types.Struct); ok && i < s.NumFields() {
		return s.Field(i).Name()
	}
	return fmt.Sprintf("f%d", i)
}

// fieldOf returns the struct field object addressed/read by a FieldAddr/Field.
func fieldOf(v ssa.Value) *types.Var {
	var t types.Type
	var i int
	switch f := v.(type) {
	case *ssa.FieldAddr:
		t, i = f.X.Type(), f.Field
	case *ssa.Field:
		t, i = f.X.Type(), f.Field
	default:
		return nil
	}
	if p, ok := t.Underlying().(*types.Pointer); ok {
		t = p.Elem()
	}
	if s, ok := t.Underlying().(*types.Struct); ok && i < s.NumFields() {
		return s.Field(i)
	}
	return nil
}

// isFieldLoad reports whether v (after Origin) is a load of field `name` of a
// struct type named `typ`; returns the base value.
func (x *FnIndex) isFieldLoad(v ssa.Value, typ, name string) (ssa.Value, bool) {
	v = x.Origin(v)
	switch t := v.(type) {
	case *ssa.UnOp:
		if t.Op != token.MUL {
			return nil, false
		}
		fa, ok := t.X.(*ssa.FieldAddr)
		if !ok {
			return nil, false
		}
		if fv := fieldOf(fa); fv != nil && fv.Name() == name && structName(fa.X.Type()) == typ {
			return fa.X, true
		}
	case *ssa.Field:
		if fv := fieldOf(t); fv != nil && fv.Name() == name && structName(t.X.Type()) == typ {
			return t.X, true
		}
	}
	return nil, false
}

func structName(t types.Type) string {
	if p, ok := t.Underlying().(*types.Pointer); ok {
		t = p.Elem()
	}
	if n, ok := t.(*types.Named); ok {
		return n.Obj().Name()
	}
	return ""
}

func namedOf(t types.Type) *types.Named {
	if p, ok := t.(*types.Pointer); ok {
		t = p.Elem()
	}
	n, _ := t.(*types.Named)
	return n
}

// ---- calls --------------------------------------------------------------

func callCommon(in ssa.Instruction) *ssa.CallCommon {
	if ci, ok := in.(ssa.CallInstruction); ok {
		return ci.Common()
	}
	return nil
}

// calleeIs reports whether a call instruction statically calls pkgpath.(recv).name.
func calleeIs(in ssa.Instruction, pkgPath, recv, name string) bool {
	cc := callCommon(in)
	if cc == nil {
		return false
	}
	return fnIs(cc.StaticCallee(), pkgPath, recv, name)
}

func fnIs(f *ssa.Function, pkgPath, recv, name string) bool {
	if f == nil || f.Name() != name {
		return false
	}
	var p *types.Package
	if f.Pkg != nil {
		p = f.Pkg.Pkg
	} else if f.Object() != nil {
		p = f.Object().Pkg()
	}
	if p == nil || p.Path() != pkgPath {
		return false
	}
	return recvName(f) == recv
}

func gpath(p string) string { return modPath + "/" + p }

// builtinCall returns the args when v is a call of the named builtin.
func builtinCall(v ssa.Value, name string) ([]ssa.Value, bool) {
	c, ok := v.(*ssa.Call)
	if !ok {
		return nil, false
	}
	b, ok := c.Call.Value.(*ssa.Builtin)
	if !ok || b.Name() != name {
		return nil, false
	}
	return c.Call.Args, true
}

// eachInstr visits every instruction of f (not of nested literals).
func eachInstr(f *ssa.Function, fn func(ssa.Instruction)) {
	for _, b := range f.Blocks {
		for _, in := range b.Instrs {
			fn(in)
		}
	}
}

// eachInstrDeep visits f and all nested function literals.
func eachInstrDeep(f *ssa.Function, fn func(*ssa.Function, ssa.Instruction)) {
	eachInstr(f, func(in ssa.Instruction) { fn(f, in) })
	for _, a := range f.AnonFuncs {
		eachInstrDeep(a, fn)
	}
}

func instrIdx(in ssa.Instruction) int {
	for i, x := range in.Block().Instrs {
		if x == in {
			return i
		}
	}
	return -1
}

// ---- dominance and paths --------------------------------------------------

// domInstr: a executes before b on every path from entry to b.
func domInstr(a, b ssa.Instruction) bool {
	if a.Parent() != b.Parent() {
		return false
	}
	if a.Block() == b.Block() {
		return instrIdx(a) < instrIdx(b)
	}
	return a.Block().Dominates(b.Block())
}

// pathExists: is there a CFG path that starts right after `from`, reaches
// `to` and executes no instruction for which blocked() holds on the way?
// from == nil starts at function entry.
func pathExists(fn *ssa.Function, from ssa.Instruction, to func(ssa.Instruction) bool, blocked func(ssa.Instruction) bool) (ssa.Instruction, bool) {
	type start struct {
		b *ssa.BasicBlock
		i int
	}
	var work []start
	seen := map[*ssa.BasicBlock]bool{}
	if from == nil {
		if len(fn.Blocks) == 0 {
			return nil, false
		}
		work = append(work, start{fn.Blocks[0], 0})
		seen[fn.Blocks[0]] = true
	} else {
		work = append(work, start{from.Block(), instrIdx(from) + 1})
	}
	for len(work) > 0 {
		s := work[len(work)-1]
		work = work[:len(work)-1]
		stop := false
		for i := s.i; i < len(s.b.Instrs); i++ {
			in := s.b.Instrs[i]
			if to(in) {
				return in, true
			}
			if blocked != nil && blocked(in) {
				stop = true
				break
			}
		}
		if stop {
			continue
		}
		for _, n := range s.b.Succs {
			if !seen[n] {
				seen[n] = true
				work = append(work, start{n, 0})
			}
		}
	}
	return nil, false
}

func isExit(in ssa.Instruction) bool {
	switch in.(type) {
	case *ssa.Return, *ssa.Panic:
		return true
	}
	return false
}

func isReturn(in ssa.Instruction) bool {
	_, ok := in.(*ssa.Return)
	return ok
}

// ---- edge guards (A2) ------------------------------------------------------

// Guard is a branch whose given outcome lies on every path to a block.
type Guard struct {
	If   *ssa.If
	Cond ssa.Value
	Pol  bool // true: the condition held
}

func (x *FnIndex) edgeDominated(from *ssa.BasicBlock, succ int) map[*ssa.BasicBlock]bool {
	k := edgeKey{from, succ}
	if m, ok := x.edgeDom[k]; ok {
		return m
	}
	fn := from.Parent()
	reach := map[*ssa.BasicBlock]bool{}
	var st []*ssa.BasicBlock
	st = append(st, fn.Blocks[0])
	reach[fn.Blocks[0]] = true
	for len(st) > 0 {
		b := st[len(st)-1]
		st = st[:len(st)-1]
		for i, n := range b.Succs {
			if b == from && i == succ {
				continue
			}
			if !reach[n] {
				reach[n] = true
				st = append(st, n)
			}
		}
	}
	m := map[*ssa.BasicBlock]bool{}
	for _, b := range fn.Blocks {
		if !reach[b] {
			m[b] = true
		}
	}
	x.edgeDom[k] = m
	return m
}

// GuardsOf lists the branch outcomes that hold whenever block b runs.
// (Unreachable blocks have every guard; callers only ask about live code.)
func (x *FnIndex) GuardsOf(b *ssa.BasicBlock) []Guard {
	var out []Guard
	fn := b.Parent()
	for _, d := range fn.Blocks {
		if len(d.Instrs) == 0 {
			continue
		}
		iff, ok := d.Instrs[len(d.Instrs)-1].(*ssa.If)
		if !ok || len(d.Succs) != 2 {
			continue
		}
		if d.Succs[0] == d.Succs[1] {
			continue
		}
		if x.edgeDominated(d, 0)[b] {
			out = append(out, Guard{iff, iff.Cond, true})
		}
		if x.edgeDominated(d, 1)[b] {
			out = append(out, Guard{iff, iff.Cond, false})
		}
	}
	return out
}

// reachable blocks of a function
func liveBlocks(fn *ssa.Function) map[*ssa.BasicBlock]bool {
	reach := map[*ssa.BasicBlock]bool{}
	if len(fn.Blocks) == 0 {
		return reach
	}
	st := []*ssa.BasicBlock{fn.Blocks[0]}
	reach[fn.Blocks[0]] = true
	for len(st) > 0 {
		b := st[len(st)-1]
		st = st[:len(st)-1]
		for _, n := range b.Succs {
			if !reach[n] {
				reach[n] = true
				st = append(st, n)
			}
		}
	}
	if fn.Recover != nil && !reach[fn.Recover] {
		// recover block is entered by the runtime
		st = []*ssa.BasicBlock{fn.Recover}
		reach[fn.Recover] = true
		for len(st) > 0 {
			b := st[len(st)-1]
			st = st[:len(st)-1]
			for _, n := range b.Succs {
				if !reach[n] {
					reach[n] = true
					st = append(st, n)
				}
			}
		}
	}
	return reach
}

// ---- condition atoms -------------------------------------------------------

// nilCheck decodes `v != nil` / `v == nil`; neq reports the operator.
func nilCheck(cond ssa.Value) (subject ssa.Value, neq bool, ok bool) {
	b, isb := cond.(*ssa.BinOp)
	if !isb || (b.Op != token.NEQ && b.Op != token.EQL) {
		return nil, false, false
	}
	isNil := func(v ssa.Value) bool {
		c, ok := v.(*ssa.Const)
		return ok && c.Value == nil && !isBasic(c.Type())
	}
	switch {
	case isNil(b.Y):
		return b.X, b.Op == token.NEQ, true
	case isNil(b.X):
		return b.Y, b.Op == token.NEQ, true
	}
	return nil, false, false
}

func isBasic(t types.Type) bool {
	_, ok := t.Underlying().(*types.Basic)
	return ok
}

func constInt(v ssa.Value) (int64, bool) {
	c, ok := v.(*ssa.Const)
	if !ok || c.Value == nil || c.Value.Kind() != constant.Int {
		return 0, false
	}
	return c.Int64(), true
}

func constString(v ssa.Value) (string, bool) {
	c, ok := v.(*ssa.Const)
	if !ok || c.Value == nil || c.Value.Kind() != constant.String {
		return "", false
	}
	return constant.StringVal(c.Value), true
}

// lenCmp decodes comparisons of len(X) with an integer constant into the
// truth of "len(X) >= 1" when the condition holds: returns (X, nonEmptyWhenTrue, ok)
// where nonEmptyWhenTrue says whether cond==true implies len>0 (true) or len==0 (false).
func lenCmp(cond ssa.Value) (arg ssa.Value, nonEmptyWhenTrue bool, ok bool) {
	b, isb := cond.(*ssa.BinOp)
	if !isb {
		return nil, false, false
	}
	la, isLen := builtinCall(b.X, "len")
	k, isK := constInt(b.Y)
	if !isLen || !isK {
		return nil, false, false
	}
	switch {
	case b.Op == token.GTR && k == 0, b.Op == token.GEQ && k == 1, b.Op == token.NEQ && k == 0:
		return la[0], true, true
	case b.Op == token.EQL && k == 0, b.Op == token.LSS && k == 1, b.Op == token.LEQ && k == 0:
		return la[0], false, true
	}
	return nil, false, false
}

// ---- loops ------------------------------------------------------------------

type Loop struct {
	Head    *ssa.BasicBlock
	Blocks  map[*ssa.BasicBlock]bool
	Latches []*ssa.BasicBlock
}

func (x *FnIndex) Loops(fn *ssa.Function) []*Loop {
	if l, ok := x.loops[fn]; ok {
		return l
	}
	byHead := map[*ssa.BasicBlock]*Loop{}
	var out []*Loop
	for _, b := range fn.Blocks {
		for _, s := range b.Succs {
			if s.Dominates(b) { // back edge b -> s
				l := byHead[s]
				if l == nil {
					l = &Loop{Head: s, Blocks: map[*ssa.BasicBlock]bool{s: true}}
					byHead[s] = l
					out = append(out, l)
				}
				l.Latches = append(l.Latches, b)
				// collect body: nodes that reach b without passing s
				st := []*ssa.BasicBlock{b}
				for len(st) > 0 {
					n := st[len(st)-1]
					st = st[:len(st)-1]
					if l.Blocks[n] {
						continue
					}
					l.Blocks[n] = true
					for _, p := range n.Preds {
						st = append(st, p)
					}
				}
			}
		}
	}
	sort.Slice(out, func(i, j int) bool { return out[i].Head.Index < out[j].Head.Index })
	x.loops[fn] = out
	return out
}

// InnermostLoop returns the smallest natural loop containing b, or nil.
func (x *FnIndex) InnermostLoop(b *ssa.BasicBlock) *Loop {
	var best *Loop
	for _, l := range x.Loops(b.Parent()) {
		if l.Blocks[b] && (best == nil || len(l.Blocks) < len(best.Blocks)) {
			best = l
		}
	}
	return best
}

// EnclosingLoops returns all loops containing b, innermost first.
func (x *FnIndex) EnclosingLoops(b *ssa.BasicBlock) []*Loop {
	var out []*Loop
	for _, l := range x.Loops(b.Parent()) {
		if l.Blocks[b] {
			out = append(out, l)
		}
	}
	sort.Slice(out, func(i, j int) bool { return len(out[i].Blocks) < len(out[j].Blocks) })
	return out
}

// exitEdges lists (from,to) edges leaving the loop.
func (l *Loop) exitTargets() []*ssa.BasicBlock {
	seen := map[*ssa.BasicBlock]bool{}
	var out []*ssa.BasicBlock
	for b := range l.Blocks {
		for _, s := range b.Succs {
			if !l.Blocks[s] && !seen[s] {
				seen[s] = true
				out = append(out, s)
			}
		}
	}
	sort.Slice(out, func(i, j int) bool { return out[i].Index < out[j].Index })
	return out
}

// rangedSlice: if v is the element loaded inside a `for _, e := range S` loop
// (SSA: *(&S[i]) with i the loop's index phi), return S and the loop.
func (x *FnIndex) rangedSlice(v ssa.Value) (ssa.Value, *Loop, bool) {
	v = x.Origin(v)
	u, ok := v.(*ssa.UnOp)
	if !ok || u.Op != token.MUL {
		return nil, nil, false
	}
	ia, ok := u.X.(*ssa.IndexAddr)
	if !ok {
		return nil, nil, false
	}
	phi, ok := ia.Index.(*ssa.Phi)
	if !ok {
		// rangeindex: index is BinOp(phi+1)
		if bo, ok2 := ia.Index.(*ssa.BinOp); ok2 && bo.Op == token.ADD {
			if p, ok3 := bo.X.(*ssa.Phi); ok3 {
				phi = p
				ok = true
			}
		}
		if !ok {
			return nil, nil, false
		}
	}
	l := x.InnermostLoop(ia.Block())
	if l == nil {
		return nil, nil, false
	}
	if !l.Blocks[phi.Block()] {
		return nil, nil, false
	}
	return ia.X, l, true
}

// describeGuards renders guards for reports.
func (x *FnIndex) describeGuards(gs []Guard) string {
	var s []string
	for _, g := range gs {
		d := x.Describe(g.Cond)
		if !g.Pol {
			d = "!" + d
		}
		s = append(s, d)
	}
	return strings.Join(s, " && ")
}
