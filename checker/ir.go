package main

// ir.go — helpers over go/ssa: value origins through single-store cells,
// closure bindings, edge guards (A2), natural loops, instruction-level path
// queries, callee resolution.

import (
	"fmt"
	"go/constant"
	"go/token"
	"go/types"
	"sort"
	"strings"

	"golang.org/x/tools/go/ssa"
)

// FnIndex covers one top-level function and all function literals nested in it.
type FnIndex struct {
	Root      *ssa.Function
	Fns       []*ssa.Function
	closureOf map[*ssa.Function]*ssa.MakeClosure
	stores    map[ssa.Value][]*ssa.Store
	loops     map[*ssa.Function][]*Loop
	edgeDom   map[edgeKey]map[*ssa.BasicBlock]bool
}

type edgeKey struct {
	from *ssa.BasicBlock
	succ int
}

func rootOf(f *ssa.Function) *ssa.Function {
	for f.Parent() != nil {
		f = f.Parent()
	}
	return f
}

func (c *Ctx) Index(f *ssa.Function) *FnIndex {
	r := rootOf(f)
	if x, ok := c.fnIndexes[r]; ok {
		return x
	}
	x := &FnIndex{Root: r, closureOf: map[*ssa.Function]*ssa.MakeClosure{}, stores: map[ssa.Value][]*ssa.Store{},
		loops: map[*ssa.Function][]*Loop{}, edgeDom: map[edgeKey]map[*ssa.BasicBlock]bool{}}
	var walk func(f *ssa.Function)
	walk = func(f *ssa.Function) {
		x.Fns = append(x.Fns, f)
		for _, b := range f.Blocks {
			for _, in := range b.Instrs {
				if mc, ok := in.(*ssa.MakeClosure); ok {
					if af, ok := mc.Fn.(*ssa.Function); ok {
						x.closureOf[af] = mc
					}
				}
			}
		}
		for _, a := range f.AnonFuncs {
			walk(a)
		}
	}
	walk(r)
	for _, f := range x.Fns {
		for _, b := range f.Blocks {
			for _, in := range b.Instrs {
				if st, ok := in.(*ssa.Store); ok {
					a := x.ResolveAddr(st.Addr)
					x.stores[a] = append(x.stores[a], st)
				}
			}
		}
	}
	c.fnIndexes[r] = x
	return x
}

// ResolveAddr maps a free variable of a closure to the cell bound in the
// enclosing function (transitively).
func (x *FnIndex) ResolveAddr(v ssa.Value) ssa.Value {
	for i := 0; i < 16; i++ {
		fv, ok := v.(*ssa.FreeVar)
		if !ok {
			return v
		}
		fn := fv.Parent()
		mc := x.closureOf[fn]
		if mc == nil {
			return v
		}
		found := false
		for i, f := range fn.FreeVars {
			if f == fv && i < len(mc.Bindings) {
				v = mc.Bindings[i]
				found = true
				break
			}
		}
		if !found {
			return v
		}
	}
	return v
}

// StoresTo lists the stores into a cell (an Alloc), including those made by closures.
func (x *FnIndex) StoresTo(addr ssa.Value) []*ssa.Store { return x.stores[x.ResolveAddr(addr)] }

// reachingStores lists the stores to cell `al` that may reach the load `ld`
// (both in the same function); zero reports that the cell's initial (zero)
// value may reach it too.
func (x *FnIndex) reachingStores(ld ssa.Instruction, al *ssa.Alloc) (defs []*ssa.Store, zero bool) {
	type pt struct {
		b *ssa.BasicBlock
		i int
	}
	seen := map[*ssa.BasicBlock]bool{}
	work := []pt{{ld.Block(), instrIdx(ld)}}
	for len(work) > 0 {
		p := work[len(work)-1]
		work = work[:len(work)-1]
		hit := false
		for i := p.i - 1; i >= 0; i-- {
			in := p.b.Instrs[i]
			if st, ok := in.(*ssa.Store); ok && x.ResolveAddr(st.Addr) == ssa.Value(al) {
				dup := false
				for _, d := range defs {
					if d == st {
						dup = true
					}
				}
				if !dup {
					defs = append(defs, st)
				}
				hit = true
				break
			}
			if in == ssa.Instruction(al) {
				zero = true
				hit = true
				break
			}
		}
		if hit {
			continue
		}
		if len(p.b.Preds) == 0 {
			zero = true
			continue
		}
		for _, q := range p.b.Preds {
			if !seen[q] {
				seen[q] = true
				work = append(work, pt{q, len(q.Instrs)})
			}
		}
	}
	return
}

// closureWrites reports whether a function literal other than fn stores to the cell.
func (x *FnIndex) storesOutside(al *ssa.Alloc, fn *ssa.Function) bool {
	for _, st := range x.stores[al] {
		if st.Parent() != fn {
			return true
		}
	}
	return false
}

// deferredOnly: the literal is used only as the operand of defer statements,
// so its stores happen while the deferred calls run (at `rundefers`).
func (x *FnIndex) deferredOnly(lit *ssa.Function) bool {
	mc := x.closureOf[lit]
	if mc == nil {
		return false
	}
	n := 0
	for _, ref := range *mc.Referrers() {
		switch ref.(type) {
		case *ssa.Defer:
			n++
		case *ssa.DebugRef:
		default:
			return false
		}
	}
	return n > 0
}

// outsideStoresInterfere: can a store made by a function literal be seen by
// this load? Stores of literals that only run as deferred calls are seen only
// by loads that follow `rundefers`.
func (x *FnIndex) outsideStoresInterfere(al *ssa.Alloc, ld *ssa.UnOp) bool {
	for _, st := range x.stores[al] {
		if st.Parent() == ld.Parent() {
			continue
		}
		if !x.deferredOnly(st.Parent()) {
			return true
		}
		// deferred: interferes only if the load comes after rundefers in its block
		for _, in := range ld.Block().Instrs {
			if in == ssa.Instruction(ld) {
				break
			}
			if _, ok := in.(*ssa.RunDefers); ok {
				return true
			}
		}
		if ld.Block() == ld.Parent().Recover {
			return true
		}
	}
	return false
}

// Origin looks through loads of local variable cells: a cell assigned once
// (captured parameters, `rr := r` copies, temporaries) resolves to the stored
// value; a cell assigned several times resolves when exactly one store of the
// same function reaches the load and no function literal writes the cell.
func (x *FnIndex) Origin(v ssa.Value) ssa.Value {
	for i := 0; i < 48; i++ {
		switch t := v.(type) {
		case *ssa.UnOp:
			if t.Op != token.MUL {
				return v
			}
			a := x.ResolveAddr(t.X)
			al, ok := a.(*ssa.Alloc)
			if !ok {
				return v
			}
			st := x.stores[al]
			if len(st) == 1 && al.Parent() != t.Parent() && st[0].Block() == al.Block() {
				// a cell captured by this function literal and assigned once
				// by the enclosing function (`rr := r`, spilled parameters)
				v = st[0].Val
				continue
			}
			if len(st) >= 1 && al.Parent() == t.Parent() && !x.outsideStoresInterfere(al, t) {
				defs, zero := x.reachingStores(t, al)
				if len(defs) == 1 && !zero {
					v = defs[0].Val
					continue
				}
			}
			return v
		case *ssa.ChangeType:
			v = t.X
			continue
		case *ssa.Phi:
			var first ssa.Value
			same := true
			for _, e := range t.Edges {
				o := x.Origin(e)
				if first == nil {
					first = o
				} else if first != o {
					same = false
				}
			}
			if same && first != nil {
				v = first
				continue
			}
			return v
		}
		return v
	}
	return v
}

// Cell returns the variable cell (Alloc) a load reads, or nil.
func (x *FnIndex) Cell(v ssa.Value) *ssa.Alloc {
	if u, ok := v.(*ssa.UnOp); ok && u.Op == token.MUL {
		if al, ok := x.ResolveAddr(u.X).(*ssa.Alloc); ok {
			return al
		}
	}
	return nil
}

// ---- describing values ---------------------------------------------------

// Describe renders a value as a short access path, e.g. "rb.Kc.SortRules",
// "len(rules)", "call Execute#1".
func (x *FnIndex) Describe(v ssa.Value) string {
	return x.describe(v, 0)
}

func (x *FnIndex) describe(v ssa.Value, depth int) string {
	if depth > 12 {
		return "…"
	}
	if v == nil {
		return "<nil>"
	}
	switch t := v.(type) {
	case *ssa.Parameter:
		return t.Name()
	case *ssa.Const:
		if t.Value == nil {
			return "nil"
		}
		return t.Value.ExactString()
	case *ssa.Alloc:
		if t.Comment != "" {
			return "&" + t.Comment
		}
		return "&alloc"
	case *ssa.FreeVar:
		r := x.ResolveAddr(t)
		if r != v {
			return x.describe(r, depth+1)
		}
		return "&" + t.Name()
	case *ssa.Global:
		return t.Name()
	case *ssa.UnOp:
		if t.Op == token.MUL {
			o := x.Origin(t)
			if o != v {
				return x.describe(o, depth+1)
			}
			inner := x.describe(x.ResolveAddr(t.X), depth+1)
			return strings.TrimPrefix(inner, "&")
		}
		return t.Op.String() + x.describe(t.X, depth+1)
	case *ssa.FieldAddr:
		return "&" + strings.TrimPrefix(x.describe(t.X, depth+1), "&") + "." + fieldName(t.X.Type(), t.Field)
	case *ssa.Field:
		return x.describe(t.X, depth+1) + "." + fieldName(t.X.Type(), t.Field)
	case *ssa.IndexAddr:
		return "&" + x.describe(t.X, depth+1) + "[" + x.describe(t.Index, depth+1) + "]"
	case *ssa.Index:
		return x.describe(t.X, depth+1) + "[" + x.describe(t.Index, depth+1) + "]"
	case *ssa.Lookup:
		return x.describe(t.X, depth+1) + "[" + x.describe(t.Index, depth+1) + "]"
	case *ssa.Slice:
		lo, hi := "", ""
		if t.Low != nil {
			lo = x.describe(t.Low, depth+1)
		}
		if t.High != nil {
			hi = x.describe(t.High, depth+1)
		}
		return x.describe(t.X, depth+1) + "[" + lo + ":" + hi + "]"
	case *ssa.BinOp:
		return "(" + x.describe(t.X, depth+1) + " " + t.Op.String() + " " + x.describe(t.Y, depth+1) + ")"
	case *ssa.Extract:
		return fmt.Sprintf("%s#%d", x.describe(t.Tuple, depth+1), t.Index)
	case *ssa.Call:
		if b, ok := t.Call.Value.(*ssa.Builtin); ok {
			args := []string{}
			for _, a := range t.Call.Args {
				args = append(args, x.describe(a, depth+1))
			}
			return b.Name() + "(" + strings.Join(args, ",") + ")"
		}
		if f := t.Call.StaticCallee(); f != nil {
			return "call:" + fnName(f)
		}
		if t.Call.IsInvoke() {
			return "invoke:" + t.Call.Method.Name()
		}
		return "call:?"
	case *ssa.Convert:
		return types.TypeString(t.Type(), func(*types.Package) string { return "" }) + "(" + x.describe(t.X, depth+1) + ")"
	case *ssa.ChangeType:
		return x.describe(t.X, depth+1)
	case *ssa.MakeInterface:
		return x.describe(t.X, depth+1)
	case *ssa.Phi:
		o := x.Origin(t)
		if o != v {
			return x.describe(o, depth+1)
		}
		return "phi:" + t.Comment
	case *ssa.MakeMap:
		return "make(map)"
	case *ssa.MakeSlice:
		return "make(slice)"
	case *ssa.TypeAssert:
		return x.describe(t.X, depth+1) + ".(" + types.TypeString(t.AssertedType, func(*types.Package) string { return "" }) + ")"
	case *ssa.Function:
		return "func:" + fnName(t)
	case *ssa.MakeClosure:
		return "closure"
	case *ssa.Next:
		return "next"
	case *ssa.Range:
		return "range(" + x.describe(t.X, depth+1) + ")"
	}
	return fmt.Sprintf("%T", v)
}

func fieldName(t types.Type, i int) string {
	if p, ok := t.Underlying().(*types.Pointer); ok {
		t = p.Elem()
	}
	if s, ok := t.Underlying().(*types.Struct); ok && i < s.NumFields() {
		return s.Field(i).Name()
	}
	return fmt.Sprintf("f%d", i)
}

// fieldOf returns the struct field object addressed/read by a FieldAddr/Field.
func fieldOf(v ssa.Value) *types.Var {
	var t types.Type
	var i int
	switch f := v.(type) {
	case *ssa.FieldAddr:
		t, i = f.X.Type(), f.Field
	case *ssa.Field:
		t, i = f.X.Type(), f.Field
	default:
		return nil
	}
	if p, ok := t.Underlying().(*types.Pointer); ok {
		t = p.Elem()
	}
	if s, ok := t.Underlying().(*types.Struct); ok && i < s.NumFields() {
		return s.Field(i)
	}
	return nil
}

// isFieldLoad reports whether v (after Origin) is a load of field `name` of a
// struct type named `typ`; returns the base value.
func (x *FnIndex) isFieldLoad(v ssa.Value, typ, name string) (ssa.Value, bool) {
	v = x.Origin(v)
	switch t := v.(type) {
	case *ssa.UnOp:
		if t.Op != token.MUL {
			return nil, false
		}
		fa, ok := t.X.(*ssa.FieldAddr)
		if !ok {
			return nil, false
		}
		if fv := fieldOf(fa); fv != nil && fv.Name() == name && structName(fa.X.Type()) == typ {
			return fa.X, true
		}
	case *ssa.Field:
		if fv := fieldOf(t); fv != nil && fv.Name() == name && structName(t.X.Type()) == typ {
			return t.X, true
		}
	}
	return nil, false
}

func structName(t types.Type) string {
	if p, ok := t.Underlying().(*types.Pointer); ok {
		t = p.Elem()
	}
	if n, ok := t.(*types.Named); ok {
		return n.Obj().Name()
	}
	return ""
}

func namedOf(t types.Type) *types.Named {
	if p, ok := t.(*types.Pointer); ok {
		t = p.Elem()
	}
	n, _ := t.(*types.Named)
	return n
}

// ---- calls --------------------------------------------------------------

func callCommon(in ssa.Instruction) *ssa.CallCommon {
	if ci, ok := in.(ssa.CallInstruction); ok {
		return ci.Common()
	}
	return nil
}

// calleeIs reports whether a call instruction statically calls pkgpath.(recv).name.
func calleeIs(in ssa.Instruction, pkgPath, recv, name string) bool {
	cc := callCommon(in)
	if cc == nil {
		return false
	}
	return fnIs(cc.StaticCallee(), pkgPath, recv, name)
}

func fnIs(f *ssa.Function, pkgPath, recv, name string) bool {
	if f == nil || f.Name() != name {
		return false
	}
	var p *types.Package
	if f.Pkg != nil {
		p = f.Pkg.Pkg
	} else if f.Object() != nil {
		p = f.Object().Pkg()
	}
	if p == nil || p.Path() != pkgPath {
		return false
	}
	return recvName(f) == recv
}

func gpath(p string) string { return modPath + "/" + p }

// builtinCall returns the args when v is a call of the named builtin.
func builtinCall(v ssa.Value, name string) ([]ssa.Value, bool) {
	c, ok := v.(*ssa.Call)
	if !ok {
		return nil, false
	}
	b, ok := c.Call.Value.(*ssa.Builtin)
	if !ok || b.Name() != name {
		return nil, false
	}
	return c.Call.Args, true
}

// eachInstr visits every instruction of f (not of nested literals).
func eachInstr(f *ssa.Function, fn func(ssa.Instruction)) {
	for _, b := range f.Blocks {
		for _, in := range b.Instrs {
			fn(in)
		}
	}
}

// eachInstrDeep visits f and all nested function literals.
func eachInstrDeep(f *ssa.Function, fn func(*ssa.Function, ssa.Instruction)) {
	eachInstr(f, func(in ssa.Instruction) { fn(f, in) })
	for _, a := range f.AnonFuncs {
		eachInstrDeep(a, fn)
	}
}

func instrIdx(in ssa.Instruction) int {
	for i, x := range in.Block().Instrs {
		if x == in {
			return i
		}
	}
	return -1
}

// ---- dominance and paths --------------------------------------------------

// domInstr: a executes before b on every path from entry to b.
func domInstr(a, b ssa.Instruction) bool {
	if a.Parent() != b.Parent() {
		return false
	}
	if a.Block() == b.Block() {
		return instrIdx(a) < instrIdx(b)
	}
	return a.Block().Dominates(b.Block())
}

// pathExists: is there a CFG path that starts right after `from`, reaches
// `to` and executes no instruction for which blocked() holds on the way?
// from == nil starts at function entry.
func pathExists(fn *ssa.Function, from ssa.Instruction, to func(ssa.Instruction) bool, blocked func(ssa.Instruction) bool) (ssa.Instruction, bool) {
	type start struct {
		b *ssa.BasicBlock
		i int
	}
	var work []start
	seen := map[*ssa.BasicBlock]bool{}
	if from == nil {
		if len(fn.Blocks) == 0 {
			return nil, false
		}
		work = append(work, start{fn.Blocks[0], 0})
		seen[fn.Blocks[0]] = true
	} else {
		work = append(work, start{from.Block(), instrIdx(from) + 1})
	}
	for len(work) > 0 {
		s := work[len(work)-1]
		work = work[:len(work)-1]
		stop := false
		for i := s.i; i < len(s.b.Instrs); i++ {
			in := s.b.Instrs[i]
			if to(in) {
				return in, true
			}
			if blocked != nil && blocked(in) {
				stop = true
				break
			}
		}
		if stop {
			continue
		}
		for _, n := range s.b.Succs {
			if !seen[n] {
				seen[n] = true
				work = append(work, start{n, 0})
			}
		}
	}
	return nil, false
}

func isExit(in ssa.Instruction) bool {
	switch in.(type) {
	case *ssa.Return, *ssa.Panic:
		return true
	}
	return false
}

func isReturn(in ssa.Instruction) bool {
	_, ok := in.(*ssa.Return)
	return ok
}

// ---- edge guards (A2) ------------------------------------------------------

// Guard is a branch whose given outcome lies on every path to a block.
type Guard struct {
	If   *ssa.If
	Cond ssa.Value
	Pol  bool // true: the condition held
}

func (x *FnIndex) edgeDominated(from *ssa.BasicBlock, succ int) map[*ssa.BasicBlock]bool {
	k := edgeKey{from, succ}
	if m, ok := x.edgeDom[k]; ok {
		return m
	}
	fn := from.Parent()
	reach := map[*ssa.BasicBlock]bool{}
	var st []*ssa.BasicBlock
	st = append(st, fn.Blocks[0])
	reach[fn.Blocks[0]] = true
	for len(st) > 0 {
		b := st[len(st)-1]
		st = st[:len(st)-1]
		for i, n := range b.Succs {
			if b == from && i == succ {
				continue
			}
			if !reach[n] {
				reach[n] = true
				st = append(st, n)
			}
		}
	}
	m := map[*ssa.BasicBlock]bool{}
	for _, b := range fn.Blocks {
		if !reach[b] {
			m[b] = true
		}
	}
	x.edgeDom[k] = m
	return m
}

// GuardsOf lists the branch outcomes that hold whenever block b runs.
// (Unreachable blocks have every guard; callers only ask about live code.)
func (x *FnIndex) GuardsOf(b *ssa.BasicBlock) []Guard {
	var out []Guard
	fn := b.Parent()
	for _, d := range fn.Blocks {
		if len(d.Instrs) == 0 {
			continue
		}
		iff, ok := d.Instrs[len(d.Instrs)-1].(*ssa.If)
		if !ok || len(d.Succs) != 2 {
			continue
		}
		if d.Succs[0] == d.Succs[1] {
			continue
		}
		// `!c` is reported as c with the opposite outcome
		cond, flip := iff.Cond, false
		for i := 0; i < 4; i++ {
			u, ok := x.Origin(cond).(*ssa.UnOp)
			if !ok || u.Op != token.NOT {
				break
			}
			cond, flip = u.X, !flip
		}
		if x.edgeDominated(d, 0)[b] {
			out = append(out, Guard{iff, cond, !flip})
		}
		if x.edgeDominated(d, 1)[b] {
			out = append(out, Guard{iff, cond, flip})
		}
	}
	return out
}

// reachable blocks of a function
func liveBlocks(fn *ssa.Function) map[*ssa.BasicBlock]bool {
	reach := map[*ssa.BasicBlock]bool{}
	if len(fn.Blocks) == 0 {
		return reach
	}
	st := []*ssa.BasicBlock{fn.Blocks[0]}
	reach[fn.Blocks[0]] = true
	for len(st) > 0 {
		b := st[len(st)-1]
		st = st[:len(st)-1]
		for _, n := range b.Succs {
			if !reach[n] {
				reach[n] = true
				st = append(st, n)
			}
		}
	}
	if fn.Recover != nil && !reach[fn.Recover] {
		// recover block is entered by the runtime
		st = []*ssa.BasicBlock{fn.Recover}
		reach[fn.Recover] = true
		for len(st) > 0 {
			b := st[len(st)-1]
			st = st[:len(st)-1]
			for _, n := range b.Succs {
				if !reach[n] {
					reach[n] = true
					st = append(st, n)
				}
			}
		}
	}
	return reach
}

// ---- condition atoms -------------------------------------------------------

// nilCheck decodes `v != nil` / `v == nil`; neq reports the operator.
func nilCheck(cond ssa.Value) (subject ssa.Value, neq bool, ok bool) {
	b, isb := cond.(*ssa.BinOp)
	if !isb || (b.Op != token.NEQ && b.Op != token.EQL) {
		return nil, false, false
	}
	isNil := func(v ssa.Value) bool {
		c, ok := v.(*ssa.Const)
		return ok && c.Value == nil && !isBasic(c.Type())
	}
	switch {
	case isNil(b.Y):
		return b.X, b.Op == token.NEQ, true
	case isNil(b.X):
		return b.Y, b.Op == token.NEQ, true
	}
	return nil, false, false
}

func isBasic(t types.Type) bool {
	_, ok := t.Underlying().(*types.Basic)
	return ok
}

func constInt(v ssa.Value) (int64, bool) {
	c, ok := v.(*ssa.Const)
	if !ok || c.Value == nil || c.Value.Kind() != constant.Int {
		return 0, false
	}
	return c.Int64(), true
}

func constString(v ssa.Value) (string, bool) {
	c, ok := v.(*ssa.Const)
	if !ok || c.Value == nil || c.Value.Kind() != constant.String {
		return "", false
	}
	return constant.StringVal(c.Value), true
}

// lenCmp decodes comparisons of len(X) with an integer constant into the
// truth of "len(X) >= 1" when the condition holds: returns (X, nonEmptyWhenTrue, ok)
// where nonEmptyWhenTrue says whether cond==true implies len>0 (true) or len==0 (false).
func lenCmp(cond ssa.Value) (arg ssa.Value, nonEmptyWhenTrue bool, ok bool) {
	b, isb := cond.(*ssa.BinOp)
	if !isb {
		return nil, false, false
	}
	la, isLen := builtinCall(b.X, "len")
	k, isK := constInt(b.Y)
	if !isLen || !isK {
		return nil, false, false
	}
	switch {
	case b.Op == token.GTR && k == 0, b.Op == token.GEQ && k == 1, b.Op == token.NEQ && k == 0:
		return la[0], true, true
	case b.Op == token.EQL && k == 0, b.Op == token.LSS && k == 1, b.Op == token.LEQ && k == 0:
		return la[0], false, true
	}
	return nil, false, false
}

// ---- loops ------------------------------------------------------------------

type Loop struct {
	Head    *ssa.BasicBlock
	Blocks  map[*ssa.BasicBlock]bool
	Latches []*ssa.BasicBlock
}

func (x *FnIndex) Loops(fn *ssa.Function) []*Loop {
	if l, ok := x.loops[fn]; ok {
		return l
	}
	byHead := map[*ssa.BasicBlock]*Loop{}
	var out []*Loop
	for _, b := range fn.Blocks {
		for _, s := range b.Succs {
			if s.Dominates(b) { // back edge b -> s
				l := byHead[s]
				if l == nil {
					l = &Loop{Head: s, Blocks: map[*ssa.BasicBlock]bool{s: true}}
					byHead[s] = l
					out = append(out, l)
				}
				l.Latches = append(l.Latches, b)
				// collect body: nodes that reach b without passing s
				st := []*ssa.BasicBlock{b}
				for len(st) > 0 {
					n := st[len(st)-1]
					st = st[:len(st)-1]
					if l.Blocks[n] {
						continue
					}
					l.Blocks[n] = true
					for _, p := range n.Preds {
						st = append(st, p)
					}
				}
			}
		}
	}
	sort.Slice(out, func(i, j int) bool { return out[i].Head.Index < out[j].Head.Index })
	x.loops[fn] = out
	return out
}

// InnermostLoop returns the smallest natural loop containing b, or nil.
func (x *FnIndex) InnermostLoop(b *ssa.BasicBlock) *Loop {
	var best *Loop
	for _, l := range x.Loops(b.Parent()) {
		if l.Blocks[b] && (best == nil || len(l.Blocks) < len(best.Blocks)) {
			best = l
		}
	}
	return best
}

// EnclosingLoops returns all loops containing b, innermost first.
func (x *FnIndex) EnclosingLoops(b *ssa.BasicBlock) []*Loop {
	var out []*Loop
	for _, l := range x.Loops(b.Parent()) {
		if l.Blocks[b] {
			out = append(out, l)
		}
	}
	sort.Slice(out, func(i, j int) bool { return len(out[i].Blocks) < len(out[j].Blocks) })
	return out
}

// exitEdges lists (from,to) edges leaving the loop.
func (l *Loop) exitTargets() []*ssa.BasicBlock {
	seen := map[*ssa.BasicBlock]bool{}
	var out []*ssa.BasicBlock
	for b := range l.Blocks {
		for _, s := range b.Succs {
			if !l.Blocks[s] && !seen[s] {
				seen[s] = true
				out = append(out, s)
			}
		}
	}
	sort.Slice(out, func(i, j int) bool { return out[i].Index < out[j].Index })
	return out
}

// rangedSlice: if v is the element of a `for _, e := range S` loop (naive SSA:
// *(&S[*rangeindex])), return S and the loop.
func (x *FnIndex) rangedSlice(v ssa.Value) (ssa.Value, *Loop, bool) {
	v = x.Origin(v)
	u, ok := v.(*ssa.UnOp)
	if !ok || u.Op != token.MUL {
		return nil, nil, false
	}
	ia, ok := u.X.(*ssa.IndexAddr)
	if !ok {
		return nil, nil, false
	}
	il, ok := ia.Index.(*ssa.UnOp)
	if !ok || il.Op != token.MUL {
		return nil, nil, false
	}
	al, ok := il.X.(*ssa.Alloc)
	if !ok || al.Comment != "rangeindex" {
		return nil, nil, false
	}
	l := x.InnermostLoop(ia.Block())
	if l == nil {
		return nil, nil, false
	}
	// the index cell must be advanced in this loop's header
	adv := false
	for _, st := range x.stores[al] {
		if st.Block() == l.Head {
			adv = true
		}
	}
	if !adv {
		return nil, nil, false
	}
	return ia.X, l, true
}

// rangedMap: if v is the value variable of `for _, e := range M` over a map
// (naive SSA: extract (next it) #2 with it = range M), return M and the loop.
func (x *FnIndex) rangedMap(v ssa.Value) (ssa.Value, *Loop, bool) {
	v = x.Origin(v)
	ex, ok := v.(*ssa.Extract)
	if !ok {
		return nil, nil, false
	}
	nx, ok := ex.Tuple.(*ssa.Next)
	if !ok {
		return nil, nil, false
	}
	rg, ok := nx.Iter.(*ssa.Range)
	if !ok {
		return nil, nil, false
	}
	l := x.InnermostLoop(nx.Block())
	if l == nil {
		return nil, nil, false
	}
	return rg.X, l, true
}

// describeGuards renders guards for reports.
func (x *FnIndex) describeGuards(gs []Guard) string {
	var s []string
	for _, g := range gs {
		d := x.Describe(g.Cond)
		if !g.Pol {
			d = "!" + d
		}
		s = append(s, d)
	}
	return strings.Join(s, " && ")
}

// sameValue: structural equality of two values after Origin: identical values,
// equal constants, loads of the same field/element of equal bases, the same
// operator over equal operands, len of equal values.  Memory between the two
// reads is assumed unchanged (the callers compare reads of rule slices and of
// immutable rule entities within one function).
func (x *FnIndex) sameValue(a, b ssa.Value) bool { return x.sameValueD(a, b, 0) }

func (x *FnIndex) sameValueD(a, b ssa.Value, d int) bool {
	if d > 10 {
		return false
	}
	a, b = x.Origin(a), x.Origin(b)
	if a == b {
		return true
	}
	switch ta := a.(type) {
	case *ssa.Const:
		tb, ok := b.(*ssa.Const)
		if !ok {
			return false
		}
		if ta.Value == nil || tb.Value == nil {
			return ta.Value == nil && tb.Value == nil && types.Identical(ta.Type(), tb.Type())
		}
		return constant.Compare(ta.Value, token.EQL, tb.Value)
	case *ssa.UnOp:
		tb, ok := b.(*ssa.UnOp)
		if !ok || ta.Op != tb.Op {
			return false
		}
		if ta.Op != token.MUL {
			return x.sameValueD(ta.X, tb.X, d+1)
		}
		return x.sameAddr(x.ResolveAddr(ta.X), x.ResolveAddr(tb.X), d+1)
	case *ssa.BinOp:
		tb, ok := b.(*ssa.BinOp)
		return ok && ta.Op == tb.Op && x.sameValueD(ta.X, tb.X, d+1) && x.sameValueD(ta.Y, tb.Y, d+1)
	case *ssa.Call:
		tb, ok := b.(*ssa.Call)
		if !ok {
			return false
		}
		aa, oka := builtinCall(ta, "len")
		bb, okb := builtinCall(tb, "len")
		return oka && okb && x.sameValueD(aa[0], bb[0], d+1)
	case *ssa.Slice:
		tb, ok := b.(*ssa.Slice)
		if !ok {
			return false
		}
		eq := func(p, q ssa.Value) bool {
			if p == nil || q == nil {
				return p == nil && q == nil
			}
			return x.sameValueD(p, q, d+1)
		}
		return x.sameValueD(ta.X, tb.X, d+1) && eq(ta.Low, tb.Low) && eq(ta.High, tb.High) && eq(ta.Max, tb.Max)
	case *ssa.Field:
		tb, ok := b.(*ssa.Field)
		return ok && ta.Field == tb.Field && x.sameValueD(ta.X, tb.X, d+1)
	case *ssa.Convert:
		tb, ok := b.(*ssa.Convert)
		return ok && types.Identical(ta.Type(), tb.Type()) && x.sameValueD(ta.X, tb.X, d+1)
	}
	return false
}

func (x *FnIndex) sameAddr(a, b ssa.Value, d int) bool {
	if a == b {
		return true
	}
	switch ta := a.(type) {
	case *ssa.FieldAddr:
		tb, ok := b.(*ssa.FieldAddr)
		return ok && ta.Field == tb.Field && types.Identical(ta.X.Type(), tb.X.Type()) && x.sameValueD(ta.X, tb.X, d+1)
	case *ssa.IndexAddr:
		tb, ok := b.(*ssa.IndexAddr)
		return ok && x.sameValueD(ta.X, tb.X, d+1) && x.sameValueD(ta.Index, tb.Index, d+1)
	}
	return false
}

// PVal is one value a variable read may yield.
type PVal struct {
	V       ssa.Value // nil: the zero value of the cell
	Outside bool      // stored by another function (a deferred or spawned literal)
	Store   *ssa.Store
}

// PossibleValues lists what a value may be when it is a read of a local
// variable cell: the stores of the same function that reach the read, the
// zero value if it can reach, and every store made by function literals.
// Any other value yields itself.
func (x *FnIndex) PossibleValues(v ssa.Value) []PVal {
	return x.possibleValues(v, 0)
}

func (x *FnIndex) possibleValues(v ssa.Value, depth int) []PVal {
	v = x.Origin(v)
	u, ok := v.(*ssa.UnOp)
	if !ok || u.Op != token.MUL || depth > 6 {
		return []PVal{{V: v}}
	}
	al, ok := x.ResolveAddr(u.X).(*ssa.Alloc)
	if !ok {
		return []PVal{{V: v}}
	}
	var out []PVal
	if al.Parent() == u.Parent() {
		defs, zero := x.reachingStores(u, al)
		for _, d := range defs {
			for _, pv := range x.possibleValues(d.Val, depth+1) {
				pv.Store = d
				out = append(out, pv)
			}
		}
		if zero {
			out = append(out, PVal{})
		}
		for _, st := range x.stores[al] {
			if st.Parent() != u.Parent() {
				out = append(out, PVal{V: x.Origin(st.Val), Outside: true, Store: st})
			}
		}
		return out
	}
	for _, st := range x.stores[al] {
		out = append(out, PVal{V: x.Origin(st.Val), Outside: st.Parent() != u.Parent(), Store: st})
	}
	if len(out) == 0 {
		out = append(out, PVal{})
	}
	return out
}

func isConstNil(v ssa.Value) bool {
	c, ok := v.(*ssa.Const)
	return ok && c.Value == nil
}

func constBool(v ssa.Value) (bool, bool) {
	c, ok := v.(*ssa.Const)
	if !ok || c.Value == nil || c.Value.Kind() != constant.Bool {
		return false, false
	}
	return constant.BoolVal(c.Value), true
}

// knownNil: at block b, value v (an error or pointer) is known to be nil
// because a dominating branch tested it.
func (x *FnIndex) knownNil(v ssa.Value, b *ssa.BasicBlock) bool {
	for _, g := range x.GuardsOf(b) {
		if s, neq, ok := nilCheck(g.Cond); ok && x.sameValue(s, v) {
			if (neq && !g.Pol) || (!neq && g.Pol) {
				return true
			}
		}
	}
	return false
}

// knownNonNil: the dual.
func (x *FnIndex) knownNonNil(v ssa.Value, b *ssa.BasicBlock) bool {
	for _, g := range x.GuardsOf(b) {
		if s, neq, ok := nilCheck(g.Cond); ok && x.sameValue(s, v) {
			if (neq && g.Pol) || (!neq && !g.Pol) {
				return true
			}
		}
	}
	return false
}

// ---- symbolic linear forms over lengths and parameters (A4-len) -------------

type linform struct {
	k     int64
	terms map[string]int64
}

func (l linform) add(o linform, sign int64) linform {
	r := linform{k: l.k + sign*o.k, terms: map[string]int64{}}
	for a, c := range l.terms {
		r.terms[a] += c
	}
	for a, c := range o.terms {
		r.terms[a] += sign * c
	}
	for a, c := range r.terms {
		if c == 0 {
			delete(r.terms, a)
		}
	}
	return r
}

func (l linform) equal(o linform) bool {
	d := l.add(o, -1)
	return d.k == 0 && len(d.terms) == 0
}

func (l linform) String() string {
	var parts []string
	var atoms []string
	for a := range l.terms {
		atoms = append(atoms, a)
	}
	sort.Strings(atoms)
	for _, a := range atoms {
		c := l.terms[a]
		switch c {
		case 1:
			parts = append(parts, a)
		case -1:
			parts = append(parts, "-"+a)
		default:
			parts = append(parts, fmt.Sprintf("%d*%s", c, a))
		}
	}
	if l.k != 0 || len(parts) == 0 {
		parts = append(parts, fmt.Sprintf("%d", l.k))
	}
	return strings.Join(parts, " + ")
}

func atomForm(a string) linform { return linform{terms: map[string]int64{a: 1}} }
func constForm(k int64) linform { return linform{k: k, terms: map[string]int64{}} }

// canon names a value for use as an atom: parameters, field paths, variable
// cells (by declaration position, so that same-named locals differ).
func (x *FnIndex) canon(v ssa.Value) string {
	v = x.Origin(v)
	switch t := v.(type) {
	case *ssa.Parameter:
		return t.Name()
	case *ssa.Const:
		return x.Describe(t)
	case *ssa.UnOp:
		if t.Op == token.MUL {
			a := x.ResolveAddr(t.X)
			switch at := a.(type) {
			case *ssa.Alloc:
				return fmt.Sprintf("%s@%d", at.Comment, at.Pos())
			case *ssa.FieldAddr:
				return x.canon(at.X) + "." + fieldName(at.X.Type(), at.Field)
			case *ssa.IndexAddr:
				return x.canon(at.X) + "[" + x.canon(at.Index) + "]"
			}
		}
	case *ssa.Field:
		return x.canon(t.X) + "." + fieldName(t.X.Type(), t.Field)
	case *ssa.Call:
		if a, ok := builtinCall(t, "len"); ok {
			return x.symLen(a[0]).String()
		}
	case *ssa.BinOp:
		if t.Op == token.ADD || t.Op == token.SUB {
			return "(" + x.symInt(t).String() + ")"
		}
	case *ssa.Slice:
		lo, hi := "", ""
		if t.Low != nil {
			lo = x.canon(t.Low)
		}
		if t.High != nil {
			hi = x.canon(t.High)
		}
		return x.canon(t.X) + "[" + lo + ":" + hi + "]"
	}
	return fmt.Sprintf("%s<%s@%d>", x.Describe(v), v.Name(), v.Pos())
}

func (x *FnIndex) symInt(v ssa.Value) linform {
	v = x.Origin(v)
	switch t := v.(type) {
	case *ssa.Const:
		if k, ok := constInt(t); ok {
			return constForm(k)
		}
	case *ssa.BinOp:
		switch t.Op {
		case token.ADD:
			return x.symInt(t.X).add(x.symInt(t.Y), 1)
		case token.SUB:
			return x.symInt(t.X).add(x.symInt(t.Y), -1)
		}
	case *ssa.Call:
		if a, ok := builtinCall(t, "len"); ok {
			return x.symLen(a[0])
		}
	case *ssa.Convert:
		if b, ok := t.X.Type().Underlying().(*types.Basic); ok && b.Info()&types.IsInteger != 0 {
			return x.symInt(t.X)
		}
	}
	return atomForm(x.canon(v))
}

// sliceInterval describes S as base[lo:hi).
func (x *FnIndex) sliceInterval(s ssa.Value) (base ssa.Value, lo, hi linform) {
	s = x.Origin(s)
	if sl, ok := s.(*ssa.Slice); ok {
		if _, isArr := sl.X.Type().Underlying().(*types.Pointer); !isArr {
			b, lo0, hi0 := x.sliceInterval(sl.X)
			lo = lo0
			if sl.Low != nil {
				lo = lo0.add(x.symInt(sl.Low), 1)
			}
			hi = hi0
			if sl.High != nil {
				hi = lo0.add(x.symInt(sl.High), 1)
			}
			return b, lo, hi
		}
	}
	return s, constForm(0), atomForm("len(" + x.canon(s) + ")")
}

func (x *FnIndex) symLen(s ssa.Value) linform {
	_, lo, hi := x.sliceInterval(s)
	return hi.add(lo, -1)
}

// pathExistsE is pathExists with a set of CFG edges that may not be taken.
func pathExistsE(fn *ssa.Function, from ssa.Instruction, to func(ssa.Instruction) bool, forbidden map[edgeKey]bool) (ssa.Instruction, bool) {
	return pathExistsEB(fn, from, to, forbidden, nil)
}

// pathExistsEB: forbidden edges and blocking instructions; from == nil starts at the entry.
func pathExistsEB(fn *ssa.Function, from ssa.Instruction, to func(ssa.Instruction) bool, forbidden map[edgeKey]bool, blocked func(ssa.Instruction) bool) (ssa.Instruction, bool) {
	type start struct {
		b *ssa.BasicBlock
		i int
	}
	var work []start
	seen := map[*ssa.BasicBlock]bool{}
	if from == nil {
		work = []start{{fn.Blocks[0], 0}}
		seen[fn.Blocks[0]] = true
	} else {
		work = []start{{from.Block(), instrIdx(from) + 1}}
	}
	for len(work) > 0 {
		s := work[len(work)-1]
		work = work[:len(work)-1]
		stop := false
		for i := s.i; i < len(s.b.Instrs); i++ {
			if to(s.b.Instrs[i]) {
				return s.b.Instrs[i], true
			}
			if blocked != nil && blocked(s.b.Instrs[i]) {
				stop = true
				break
			}
		}
		if stop {
			continue
		}
		for k, n := range s.b.Succs {
			if forbidden[edgeKey{s.b, k}] {
				continue
			}
			if !seen[n] {
				seen[n] = true
				work = append(work, start{n, 0})
			}
		}
	}
	return nil, false
}

// Unwrap is Origin that also looks through interface conversions.
func (x *FnIndex) Unwrap(v ssa.Value) ssa.Value {
	for i := 0; i < 8; i++ {
		v = x.Origin(v)
		switch t := v.(type) {
		case *ssa.MakeInterface:
			v = t.X
			continue
		case *ssa.ChangeInterface:
			v = t.X
			continue
		}
		break
	}
	return v
}

// nilOnAllPaths: the value stored by pv.Store can reach instruction `at` only
// over the "is nil" edge of a test of that same value (with no other store to
// the variable in between): so it is nil whenever it arrives.
func (x *FnIndex) nilOnAllPaths(pv PVal, at ssa.Instruction) bool {
	if pv.Store == nil || pv.V == nil || pv.Outside {
		return false
	}
	fn := at.Parent()
	if pv.Store.Parent() != fn {
		return false
	}
	cell := x.ResolveAddr(pv.Store.Addr)
	nilEdges := map[edgeKey]bool{}
	for _, b := range fn.Blocks {
		iff, ok := b.Instrs[len(b.Instrs)-1].(*ssa.If)
		if !ok {
			continue
		}
		s, neq, ok := nilCheck(iff.Cond)
		if !ok {
			continue
		}
		if x.Origin(s) != pv.V {
			// the test may read the variable cell directly
			u, isU := s.(*ssa.UnOp)
			if !isU || x.ResolveAddr(u.X) != cell {
				continue
			}
			defs, zero := []*ssa.Store(nil), false
			if al, isAl := cell.(*ssa.Alloc); isAl {
				defs, zero = x.reachingStores(u, al)
			}
			if zero || len(defs) != 1 || defs[0] != pv.Store {
				continue
			}
		}
		// remove the "is nil" edges: if the use is still reachable, the value can arrive untested
		if neq {
			nilEdges[edgeKey{b, 1}] = true
		} else {
			nilEdges[edgeKey{b, 0}] = true
		}
	}
	if len(nilEdges) == 0 {
		return false
	}
	_, found := pathExistsEB(fn, pv.Store, func(in ssa.Instruction) bool { return in == at }, nilEdges, func(in ssa.Instruction) bool {
		st, ok := in.(*ssa.Store)
		return ok && st != pv.Store && x.ResolveAddr(st.Addr) == cell
	})
	return !found
}

// flowsTo: does the value reach (through local variables, conversions, reflect accessors,
// interface boxing and the given pass-through functions) an instruction for which sink() holds?
// sink receives the instruction and the operand index at which the value arrives.
func (x *FnIndex) flowsTo(v ssa.Value, passThrough func(*ssa.Call) bool, sink func(in ssa.Instruction, v ssa.Value) bool) bool {
	seen := map[ssa.Value]bool{}
	work := []ssa.Value{v}
	for len(work) > 0 {
		cur := work[len(work)-1]
		work = work[:len(work)-1]
		if cur == nil || seen[cur] {
			continue
		}
		seen[cur] = true
		refs := cur.Referrers()
		if refs == nil {
			continue
		}
		for _, r := range *refs {
			if sink(r, cur) {
				return true
			}
			switch t := r.(type) {
			case *ssa.Store:
				if t.Val == cur {
					if al, ok := x.ResolveAddr(t.Addr).(*ssa.Alloc); ok {
						// every load of the cell
						for _, f := range x.Fns {
							eachInstr(f, func(in ssa.Instruction) {
								if u, ok := in.(*ssa.UnOp); ok && u.Op == token.MUL && x.ResolveAddr(u.X) == ssa.Value(al) {
									work = append(work, u)
								}
							})
						}
					}
				}
			case *ssa.Convert:
				work = append(work, t)
			case *ssa.ChangeType:
				work = append(work, t)
			case *ssa.MakeInterface:
				work = append(work, t)
			case *ssa.Extract:
				work = append(work, t)
			case *ssa.Phi:
				work = append(work, t)
			case *ssa.Call:
				name, cc := "", t.Common()
				if cal := cc.StaticCallee(); cal != nil {
					name = cal.Name()
					if cal.Pkg != nil && cal.Pkg.Pkg.Path() == "reflect" && (name == "Int" || name == "Uint" || name == "Float" || name == "String" || name == "Elem" || name == "ValueOf" || name == "Interface") {
						work = append(work, t)
					}
				}
				if passThrough != nil && passThrough(t) {
					work = append(work, t)
				}
			}
		}
	}
	return false
}

// onlyNormalExit: the loop is left only from its header (no break / return inside the body).
func (l *Loop) onlyNormalExit() bool {
	for b := range l.Blocks {
		if b == l.Head {
			continue
		}
		for _, s := range b.Succs {
			if !l.Blocks[s] {
				return false
			}
		}
		if len(b.Instrs) > 0 {
			if _, isRet := b.Instrs[len(b.Instrs)-1].(*ssa.Return); isRet {
				return false
			}
		}
	}
	return true
}
