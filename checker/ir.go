package main

// ir.go — helpers over go/ssa: value origins through single-store cells,
// closure bindings, edge guards (A2), natural loops, instruction-level path
// queries, callee resolution.

import (
	"fmt"
	"go/constant"
	"go/token"
	"go/types"
	"os"
	"sort"
	"strings"

	"golang.org/x/tools/go/ssa"
)

// FnIndex covers one top-level function and all function literals nested in it.
type FnIndex struct {
	Root      *ssa.Function
	Fns       []*ssa.Function
	closureOf map[*ssa.Function]*ssa.MakeClosure
	stores    map[ssa.Value][]*ssa.Store
	condCache map[*ssa.Function][]ssa.Value
	listSinks map[*ssa.Alloc]bool // the lists of messages the function reports from (set by engFn.errList)
	loops     map[*ssa.Function][]*Loop
	edgeDom   map[edgeKey]map[*ssa.BasicBlock]bool
	built     bool
	// slices that exist only for the analysis: the part of s an index loop visits
	virtSlices map[string]ssa.Value
	allocNames map[*ssa.Alloc]string
	flagCache  map[*ssa.Function][]*ssa.Alloc
	guardCache map[*ssa.BasicBlock][]Guard
	// fields of local struct variables as cells of their own (fieldCell)
	fieldCells   map[*ssa.Alloc]map[int]*ssa.Alloc
	escapedCells map[*ssa.Alloc]bool
	raCache      map[ssa.Value]ssa.Value
	raBusy       map[ssa.Value]bool
	ready        bool
}

type edgeKey struct {
	from *ssa.BasicBlock
	succ int
}

func rootOf(f *ssa.Function) *ssa.Function {
	for f.Parent() != nil {
		f = f.Parent()
	}
	return f
}

func (c *Ctx) Index(f *ssa.Function) *FnIndex {
	r := rootOf(f)
	if x, ok := c.fnIndexes[r]; ok {
		return x
	}
	x := &FnIndex{Root: r, closureOf: map[*ssa.Function]*ssa.MakeClosure{}, stores: map[ssa.Value][]*ssa.Store{},
		loops: map[*ssa.Function][]*Loop{}, edgeDom: map[edgeKey]map[*ssa.BasicBlock]bool{}}
	var walk func(f *ssa.Function)
	walk = func(f *ssa.Function) {
		x.Fns = append(x.Fns, f)
		for _, b := range f.Blocks {
			for _, in := range b.Instrs {
				if mc, ok := in.(*ssa.MakeClosure); ok {
					if af, ok := mc.Fn.(*ssa.Function); ok {
						x.closureOf[af] = mc
					}
				}
			}
		}
		for _, a := range f.AnonFuncs {
			walk(a)
		}
	}
	walk(r)
	// the stores of every cell; an address that is itself a pointer read from
	// a cell (`p := &v` handed to a helper or a literal, then `*p = ...`) is
	// resolved to the cell it points to once the plain cells are known.
	var late []*ssa.Store
	for _, f := range x.Fns {
		for _, b := range f.Blocks {
			for _, in := range b.Instrs {
				if st, ok := in.(*ssa.Store); ok {
					a := x.resolveFreeVar(st.Addr)
					if _, isLoad := a.(*ssa.UnOp); isLoad {
						late = append(late, st)
						continue
					}
					if _, isField := a.(*ssa.FieldAddr); isField {
						late = append(late, st)
						continue
					}
					x.stores[a] = append(x.stores[a], st)
				}
			}
		}
	}
	x.built = true
	for _, st := range late {
		a := x.ResolveAddr(st.Addr)
		x.stores[a] = append(x.stores[a], st)
	}
	// A branch condition that was first put in a variable (`ok := v != nil;
	// if ok`, or the result cell of an inlined helper) is replaced by the
	// value the variable holds there (the unique reaching store; its
	// definition dominates the branch), so that every rule sees the test
	// itself.
	for _, f := range x.Fns {
		for _, b := range f.Blocks {
			if len(b.Instrs) == 0 {
				continue
			}
			if iff, ok := b.Instrs[len(b.Instrs)-1].(*ssa.If); ok {
				if o := x.Origin(iff.Cond); o != iff.Cond && types.Identical(o.Type().Underlying(), iff.Cond.Type().Underlying()) {
					delRef(iff.Cond, iff)
					iff.Cond = o
					addRef(o, iff)
				}
				x.canonBranch(b, iff)
			}
		}
	}
	x.ready = true
	c.fnIndexes[r] = x
	return x
}

// fieldCell returns the analysis-only cell that stands for field fa.Field of the
// local struct variable al (nil when al is not a struct variable). The cell is
// not part of any block; it carries the variable's block, position and a name
// "var.field". When the struct's address leaves the function other than into
// inlined code (a call argument, a return, a heap store), the field can be
// written elsewhere: the cell is marked as escaped and its reads are never
// resolved to a stored value.
func (x *FnIndex) fieldCell(al *ssa.Alloc, fa *ssa.FieldAddr) *ssa.Alloc {
	pt, ok := al.Type().(*types.Pointer)
	if !ok {
		return nil
	}
	st, ok := pt.Elem().Underlying().(*types.Struct)
	if !ok || fa.Field >= st.NumFields() {
		return nil
	}
	if x.fieldCells == nil {
		x.fieldCells = map[*ssa.Alloc]map[int]*ssa.Alloc{}
		x.escapedCells = map[*ssa.Alloc]bool{}
	}
	m := x.fieldCells[al]
	if m == nil {
		m = map[int]*ssa.Alloc{}
		x.fieldCells[al] = m
	}
	if c, ok := m[fa.Field]; ok {
		return c
	}
	name := al.Comment
	if name == "" || name == "complit" {
		name = structName(al.Type())
	}
	c := &ssa.Alloc{Comment: name + "." + st.Field(fa.Field).Name(), Heap: al.Heap}
	ssa.XSetType(c, types.NewPointer(st.Field(fa.Field).Type()))
	ssa.XSetPos(c, al.Pos())
	ssa.XSetBlock(c, al.Block())
	m[fa.Field] = c
	if x.structEscapes(al, true, 0) {
		x.escapedCells[c] = true
	}
	return c
}

// structCopySource: the struct variable b is assigned exactly once, as a whole, from a read
// of another local struct variable a of the same function, its fields are only read, and
// every field of a is set before that copy (a composite literal copied into a parameter
// object): then b.f is a.f.
func (x *FnIndex) structCopySource(b *ssa.Alloc) *ssa.Alloc {
	if _, isStruct := b.Type().(*types.Pointer).Elem().Underlying().(*types.Struct); !isStruct {
		return nil
	}
	var copySt *ssa.Store
	for _, r := range *b.Referrers() {
		switch t := r.(type) {
		case *ssa.Store:
			if t.Addr != ssa.Value(b) || copySt != nil {
				return nil
			}
			copySt = t
		case *ssa.FieldAddr:
			for _, r2 := range *t.Referrers() {
				switch u := r2.(type) {
				case *ssa.UnOp:
					if u.Op != token.MUL {
						return nil
					}
				case *ssa.DebugRef:
				default:
					return nil // a field of the copy is written or its address used
				}
			}
		case *ssa.UnOp:
			if t.Op != token.MUL {
				return nil
			}
		case *ssa.DebugRef:
		default:
			return nil
		}
	}
	if copySt == nil {
		return nil
	}
	ld, ok := copySt.Val.(*ssa.UnOp)
	if !ok || ld.Op != token.MUL {
		return nil
	}
	a, ok := ld.X.(*ssa.Alloc)
	if !ok || a == b || a.Parent() != b.Parent() || !types.Identical(a.Type(), b.Type()) {
		return nil
	}
	// a: only field stores, all before the copy; never overwritten as a whole, address not used otherwise
	for _, r := range *a.Referrers() {
		switch t := r.(type) {
		case *ssa.Store:
			if t.Addr == ssa.Value(a) {
				return nil
			}
		case *ssa.FieldAddr:
			for _, r2 := range *t.Referrers() {
				switch u := r2.(type) {
				case *ssa.Store:
					if u.Addr != ssa.Value(t) || !domInstr(u, copySt) {
						return nil
					}
				case *ssa.UnOp:
					if u.Op != token.MUL {
						return nil
					}
				case *ssa.DebugRef:
				default:
					return nil
				}
			}
		case *ssa.UnOp:
			if t.Op != token.MUL {
				return nil
			}
		case *ssa.DebugRef:
		default:
			return nil
		}
	}
	return a
}

// structEscapes: the address of the struct variable reaches code the index does
// not see (or the struct is assigned as a whole).
func (x *FnIndex) structEscapes(v ssa.Value, isPtr bool, d int) bool {
	// isPtr: v is a pointer to the struct (the variable's address or a copy of it);
	// otherwise v is the address of a cell that holds such a pointer
	if d > 24 {
		return true
	}
	r := v.Referrers()
	if r == nil {
		return true
	}
	for _, u := range *r {
		switch t := u.(type) {
		case *ssa.DebugRef:
		case *ssa.FieldAddr:
			if !isPtr {
				return true
			}
		case *ssa.UnOp:
			if t.Op != token.MUL {
				return true
			}
			if !isPtr {
				// the pointer read back out of its cell
				if x.structEscapes(t, true, d+1) {
					return true
				}
			}
			// isPtr: a read of the whole struct, harmless
		case *ssa.Store:
			if t.Addr == v {
				if isPtr {
					return true // the struct is overwritten as a whole
				}
				continue // the pointer variable is assigned
			}
			// v is stored somewhere: only into a local pointer cell
			cell, isCell := t.Addr.(*ssa.Alloc)
			if !isCell || !isPtr {
				return true
			}
			if x.structEscapes(cell, false, d+1) {
				return true
			}
		case *ssa.MakeClosure:
			lit, ok := t.Fn.(*ssa.Function)
			if !ok {
				return true
			}
			for i, b := range t.Bindings {
				if b == v && i < len(lit.FreeVars) {
					if x.structEscapes(lit.FreeVars[i], isPtr, d+1) {
						return true
					}
				}
			}
		default:
			if os.Getenv("GVERIF_DEBUG_ESC") != "" {
				fmt.Printf("DEBUG escape via %T %v in %v\n", u, u, u.Parent())
			}
			return true
		}
	}
	return false
}

// canonBranch brings a two-way branch into one canonical form, so that the
// rules need not know every way of writing a test: `if !c` and `if a != b`
// become `if c` / `if a == b` with the successors exchanged (when the
// negated value has no other use; nil tests are kept as `v != nil` instead), and a comparison with the constant on the
// left is mirrored (`nil == v` -> `v == nil`, `2 <= n` -> `n >= 2`).
func (x *FnIndex) canonBranch(b *ssa.BasicBlock, iff *ssa.If) {
	if len(b.Succs) != 2 || b.Succs[0] == b.Succs[1] {
		return
	}
	soleUse := func(v ssa.Value) bool {
		r := v.Referrers()
		if r == nil {
			return false
		}
		for _, u := range *r {
			if u == ssa.Instruction(iff) {
				continue
			}
			if _, isDbg := u.(*ssa.DebugRef); isDbg {
				continue
			}
			return false
		}
		return true
	}
	for i := 0; i < 4; i++ {
		u, ok := iff.Cond.(*ssa.UnOp)
		if !ok || u.Op != token.NOT || !soleUse(u) {
			break
		}
		inner := x.Origin(u.X)
		if !types.Identical(inner.Type().Underlying(), iff.Cond.Type().Underlying()) {
			break
		}
		delRef(iff.Cond, iff)
		iff.Cond = inner
		addRef(inner, iff)
		b.Succs[0], b.Succs[1] = b.Succs[1], b.Succs[0]
	}
	bo, ok := iff.Cond.(*ssa.BinOp)
	if !ok {
		return
	}
	_, lc := bo.X.(*ssa.Const)
	_, rc := bo.Y.(*ssa.Const)
	if lc && !rc {
		mirror := map[token.Token]token.Token{token.EQL: token.EQL, token.NEQ: token.NEQ, token.LSS: token.GTR, token.LEQ: token.GEQ, token.GTR: token.LSS, token.GEQ: token.LEQ}
		if m, ok := mirror[bo.Op]; ok {
			bo.X, bo.Y = bo.Y, bo.X
			bo.Op = m
		}
	}
	// nil tests are kept as `v != nil` (true edge: v is there), every other
	// equality test as `a == b`
	_, _, isNilTest := nilCheck(bo)
	if ((bo.Op == token.NEQ && !isNilTest) || (bo.Op == token.EQL && isNilTest)) && soleUse(bo) {
		if bo.Op == token.NEQ {
			bo.Op = token.EQL
		} else {
			bo.Op = token.NEQ
		}
		b.Succs[0], b.Succs[1] = b.Succs[1], b.Succs[0]
	}
}

// ResolveAddr maps an address to the cell it denotes: a free variable of a
// closure to the cell bound in the enclosing function (transitively), and a
// pointer value read from a cell to what that pointer was set to (`&v`, a
// field address) when a single store reaches the read.
func (x *FnIndex) ResolveAddr(v ssa.Value) ssa.Value {
	switch v.(type) {
	case *ssa.Alloc, *ssa.Global, *ssa.Const, nil:
		return v
	}
	if r, ok := x.raCache[v]; ok {
		return r
	}
	if x.raBusy[v] {
		return v // resolving v needs v: leave it as it is
	}
	if x.raBusy == nil {
		x.raBusy = map[ssa.Value]bool{}
	}
	x.raBusy[v] = true
	r := x.resolveAddr(v)
	delete(x.raBusy, v)
	// only a result that did not depend on a value still being resolved is kept
	if x.ready && len(x.raBusy) == 0 {
		if x.raCache == nil {
			x.raCache = map[ssa.Value]ssa.Value{}
		}
		x.raCache[v] = r
	}
	return r
}

func (x *FnIndex) resolveAddr(v ssa.Value) ssa.Value {
	for i := 0; i < 16; i++ {
		v = x.resolveFreeVar(v)
		if fa, isField := v.(*ssa.FieldAddr); isField && x.built {
			// a field of a local struct variable (`var ec errCollector` ... ec.msgs, also
			// through a pointer to it handed to an inlined method or captured by a literal)
			// is a variable of its own
			if al, isAl := x.ResolveAddr(fa.X).(*ssa.Alloc); isAl && al != nil {
				// a struct variable that is only ever a copy of another one (a parameter object
				// handed by value to an inlined helper): its fields are the other one's fields
				for k := 0; k < 4; k++ {
					src := x.structCopySource(al)
					if src == nil {
						break
					}
					al = src
				}
				if fc := x.fieldCell(al, fa); fc != nil {
					return fc
				}
			}
			return v
		}
		u, ok := v.(*ssa.UnOp)
		if !ok || u.Op != token.MUL || !x.built {
			return v
		}
		if _, isPtr := u.Type().Underlying().(*types.Pointer); !isPtr {
			return v
		}
		o := x.Origin(u)
		if o == ssa.Value(u) {
			return v
		}
		switch o.(type) {
		case *ssa.Alloc, *ssa.FieldAddr, *ssa.FreeVar, *ssa.IndexAddr, *ssa.Global:
			v = o
		default:
			return v
		}
	}
	return v
}

func (x *FnIndex) resolveFreeVar(v ssa.Value) ssa.Value {
	for i := 0; i < 16; i++ {
		fv, ok := v.(*ssa.FreeVar)
		if !ok {
			return v
		}
		fn := fv.Parent()
		mc := x.closureOf[fn]
		if mc == nil {
			return v
		}
		found := false
		for i, f := range fn.FreeVars {
			if f == fv && i < len(mc.Bindings) {
				v = mc.Bindings[i]
				found = true
				break
			}
		}
		if !found {
			return v
		}
	}
	return v
}

// StoresTo lists the stores into a cell (an Alloc), including those made by closures.
func (x *FnIndex) StoresTo(addr ssa.Value) []*ssa.Store { return x.stores[x.ResolveAddr(addr)] }

// reachingStores lists the stores to cell `al` that may reach the load `ld`
// (both in the same function); zero reports that the cell's initial (zero)
// value may reach it too.
func (x *FnIndex) reachingStores(ld ssa.Instruction, al *ssa.Alloc) (defs []*ssa.Store, zero bool) {
	type pt struct {
		b *ssa.BasicBlock
		i int
	}
	seen := map[*ssa.BasicBlock]bool{}
	work := []pt{{ld.Block(), instrIdx(ld)}}
	for len(work) > 0 {
		p := work[len(work)-1]
		work = work[:len(work)-1]
		hit := false
		for i := p.i - 1; i >= 0; i-- {
			in := p.b.Instrs[i]
			if st, ok := in.(*ssa.Store); ok && x.ResolveAddr(st.Addr) == ssa.Value(al) {
				dup := false
				for _, d := range defs {
					if d == st {
						dup = true
					}
				}
				if !dup {
					defs = append(defs, st)
				}
				hit = true
				break
			}
			if in == ssa.Instruction(al) {
				zero = true
				hit = true
				break
			}
		}
		if hit {
			continue
		}
		if len(p.b.Preds) == 0 {
			zero = true
			continue
		}
		for _, q := range p.b.Preds {
			if !seen[q] {
				seen[q] = true
				work = append(work, pt{q, len(q.Instrs)})
			}
		}
	}
	return
}

// closureWrites reports whether a function literal other than fn stores to the cell.
func (x *FnIndex) storesOutside(al *ssa.Alloc, fn *ssa.Function) bool {
	for _, st := range x.stores[al] {
		if st.Parent() != fn {
			return true
		}
	}
	return false
}

// deferredOnly: the literal is used only as the operand of defer statements,
// so its stores happen while the deferred calls run (at `rundefers`).
func (x *FnIndex) deferredOnly(lit *ssa.Function) bool {
	mc := x.closureOf[lit]
	if mc == nil {
		return false
	}
	n := 0
	for _, ref := range *mc.Referrers() {
		switch ref.(type) {
		case *ssa.Defer:
			n++
		case *ssa.DebugRef:
		default:
			return false
		}
	}
	return n > 0
}

// outsideStoresInterfere: can a store made by a function literal be seen by
// this load? Stores of literals that only run as deferred calls are seen only
// by loads that follow `rundefers`.
func (x *FnIndex) outsideStoresInterfere(al *ssa.Alloc, ld *ssa.UnOp) bool {
	for _, st := range x.stores[al] {
		if st.Parent() == ld.Parent() {
			continue
		}
		if !x.deferredOnly(st.Parent()) {
			return true
		}
		// deferred: interferes only if the load comes after rundefers in its block
		for _, in := range ld.Block().Instrs {
			if in == ssa.Instruction(ld) {
				break
			}
			if _, ok := in.(*ssa.RunDefers); ok {
				return true
			}
		}
		if ld.Block() == ld.Parent().Recover {
			return true
		}
	}
	return false
}

// Origin looks through loads of local variable cells: a cell assigned once
// (captured parameters, `rr := r` copies, temporaries) resolves to the stored
// value; a cell assigned several times resolves when exactly one store of the
// same function reaches the load and no function literal writes the cell.
func (x *FnIndex) Origin(v ssa.Value) ssa.Value { return x.originTrace(v, nil) }

// originTrace is Origin reporting every variable read it looks through.
func (x *FnIndex) originTrace(v ssa.Value, rec func(*ssa.UnOp)) ssa.Value {
	for i := 0; i < 48; i++ {
		switch t := v.(type) {
		case *ssa.UnOp:
			if t.Op != token.MUL {
				return v
			}
			a := x.ResolveAddr(t.X)
			al, ok := a.(*ssa.Alloc)
			if !ok {
				return v
			}
			if x.escapedCells[al] {
				return v
			}
			if rec != nil {
				rec(t)
			}
			st := x.stores[al]
			if len(st) == 1 && al.Parent() != t.Parent() && (st[0].Block() == al.Block() || x.storedBeforeLiteral(st[0], t.Parent(), al.Parent())) {
				// a cell captured by this function literal and assigned once
				// by the enclosing function (`rr := r`, spilled parameters), in
				// the declaration's block or before the literal is created
				v = st[0].Val
				continue
			}
			if len(st) > 1 && al.Parent() != t.Parent() {
				// a captured cell assigned on several ways (one per return site of an inlined
				// helper) of which exactly one reaches the creation of the literal, and none
				// can run after it
				if def := x.soleDefAtLiteral(al, st, t.Parent()); def != nil {
					v = def.Val
					continue
				}
			}
			if len(st) >= 1 && al.Parent() == t.Parent() && !x.outsideStoresInterfere(al, t) {
				defs, zero := x.reachingStores(t, al)
				if len(defs) == 1 && !zero {
					v = defs[0].Val
					continue
				}
			}
			return v
		case *ssa.ChangeType:
			v = t.X
			continue
		case *ssa.TypeAssert:
			// a value put into an interface and asserted back to its own type (A0 2g) is that value
			if !t.CommaOk {
				if mi, ok := x.originTrace(t.X, rec).(*ssa.MakeInterface); ok && types.Identical(mi.X.Type(), t.AssertedType) {
					v = mi.X
					continue
				}
			}
			return v
		case *ssa.Phi:
			var first ssa.Value
			same := true
			for _, e := range t.Edges {
				o := x.originTrace(e, nil)
				if first == nil {
					first = o
				} else if first != o {
					same = false
				}
			}
			if same && first != nil {
				v = first
				continue
			}
			return v
		}
		return v
	}
	return v
}

// soleDefAtLiteral: the one store to the cell that reaches the creation of the literal lit (or of the
// literal of the cell's function that encloses lit), when every store is made by the cell's function
// and none can run once the literal exists.
func (x *FnIndex) soleDefAtLiteral(al *ssa.Alloc, stores []*ssa.Store, lit *ssa.Function) *ssa.Store {
	owner := al.Parent()
	for _, st := range stores {
		if st.Parent() != owner {
			return nil
		}
	}
	for lit != nil && lit.Parent() != owner {
		lit = lit.Parent()
	}
	if lit == nil {
		return nil
	}
	mc := x.closureOf[lit]
	if mc == nil || mc.Parent() != owner {
		return nil
	}
	defs, zero := x.reachingStores(mc, al)
	if len(defs) != 1 || zero {
		return nil
	}
	for _, st := range stores {
		if _, again := pathExists(owner, mc, func(in ssa.Instruction) bool { return in == ssa.Instruction(st) }, nil); again {
			return nil
		}
	}
	return defs[0]
}

// storedBeforeLiteral: the store (in function owner) dominates the creation
// of the literal lit (or of the literal of owner that encloses lit): whenever
// the literal runs, the store has happened.
func (x *FnIndex) storedBeforeLiteral(st *ssa.Store, lit, owner *ssa.Function) bool {
	if st.Parent() != owner {
		return false
	}
	for lit != nil && lit.Parent() != owner {
		lit = lit.Parent()
	}
	if lit == nil {
		return false
	}
	mc := x.closureOf[lit]
	if mc == nil || mc.Parent() != owner || !domInstr(st, mc) {
		return false
	}
	// the store must not run again for the same cell after the literal was created: every
	// loop around the store also re-creates the cell (a loop variable declared outside the
	// loop is overwritten by the next iteration while earlier literals still hold it)
	al, ok := st.Addr.(*ssa.Alloc)
	if !ok {
		return false
	}
	for _, l := range x.Loops(owner) {
		if l.Blocks[st.Block()] && !l.Blocks[al.Block()] {
			return false
		}
	}
	return true
}

// Cell returns the variable cell (Alloc) whose value a load reads, or nil.
// Copies are looked through: when the loaded value is itself (by the single
// reaching store) a read of another variable — `rr := r`, a parameter of an
// inlined helper, a result handed back by one — the last variable in that
// chain of copies is returned, so that two reads of "the same variable" agree
// whether or not a helper or a local copy lies in between.
func (x *FnIndex) Cell(v ssa.Value) *ssa.Alloc {
	if x.directCell(v) == nil {
		return nil
	}
	var last *ssa.UnOp
	x.originTrace(v, func(u *ssa.UnOp) { last = u })
	if last != nil {
		return x.directCell(last)
	}
	return x.directCell(v)
}

// readsRangeIndex: the value is (a copy of) the counter of a `for i := range`
// loop; it returns the counter's cell.
func (x *FnIndex) readsRangeIndex(v ssa.Value) *ssa.Alloc {
	var out *ssa.Alloc
	x.originTrace(v, func(u *ssa.UnOp) {
		if a := x.directCell(u); a != nil && a.Comment == "rangeindex" {
			out = a
		}
	})
	return out
}

func (x *FnIndex) directCell(v ssa.Value) *ssa.Alloc {
	if u, ok := v.(*ssa.UnOp); ok && u.Op == token.MUL {
		if al, ok := x.ResolveAddr(u.X).(*ssa.Alloc); ok {
			return al
		}
	}
	return nil
}

// ---- describing values ---------------------------------------------------

// Describe renders a value as a short access path, e.g. "rb.Kc.SortRules",
// "len(rules)", "call Execute#1".
func (x *FnIndex) Describe(v ssa.Value) string {
	return x.describe(v, 0)
}

func (x *FnIndex) describe(v ssa.Value, depth int) string {
	if depth > 12 {
		return "…"
	}
	if v == nil {
		return "<nil>"
	}
	switch t := v.(type) {
	case *ssa.Parameter:
		return t.Name()
	case *ssa.Const:
		if t.Value == nil {
			return "nil"
		}
		return t.Value.ExactString()
	case *ssa.Alloc:
		if t.Comment != "" {
			return "&" + t.Comment
		}
		return "&alloc"
	case *ssa.FreeVar:
		r := x.ResolveAddr(t)
		if r != v {
			return x.describe(r, depth+1)
		}
		return "&" + t.Name()
	case *ssa.Global:
		return t.Name()
	case *ssa.UnOp:
		if t.Op == token.MUL {
			o := x.Origin(t)
			if o != v {
				return x.describe(o, depth+1)
			}
			inner := x.describe(x.ResolveAddr(t.X), depth+1)
			return strings.TrimPrefix(inner, "&")
		}
		return t.Op.String() + x.describe(t.X, depth+1)
	case *ssa.FieldAddr:
		return "&" + strings.TrimPrefix(x.describe(t.X, depth+1), "&") + "." + fieldName(t.X.Type(), t.Field)
	case *ssa.Field:
		return x.describe(t.X, depth+1) + "." + fieldName(t.X.Type(), t.Field)
	case *ssa.IndexAddr:
		return "&" + x.describe(t.X, depth+1) + "[" + x.describe(t.Index, depth+1) + "]"
	case *ssa.Index:
		return x.describe(t.X, depth+1) + "[" + x.describe(t.Index, depth+1) + "]"
	case *ssa.Lookup:
		return x.describe(t.X, depth+1) + "[" + x.describe(t.Index, depth+1) + "]"
	case *ssa.Slice:
		lo, hi := "", ""
		if t.Low != nil {
			lo = x.describe(t.Low, depth+1)
		}
		if t.High != nil {
			hi = x.describe(t.High, depth+1)
		}
		return x.describe(t.X, depth+1) + "[" + lo + ":" + hi + "]"
	case *ssa.BinOp:
		return "(" + x.describe(t.X, depth+1) + " " + t.Op.String() + " " + x.describe(t.Y, depth+1) + ")"
	case *ssa.Extract:
		return fmt.Sprintf("%s#%d", x.describe(t.Tuple, depth+1), t.Index)
	case *ssa.Call:
		if b, ok := t.Call.Value.(*ssa.Builtin); ok {
			args := []string{}
			for _, a := range t.Call.Args {
				args = append(args, x.describe(a, depth+1))
			}
			return b.Name() + "(" + strings.Join(args, ",") + ")"
		}
		if f := t.Call.StaticCallee(); f != nil {
			return "call:" + fnName(f)
		}
		if t.Call.IsInvoke() {
			return "invoke:" + t.Call.Method.Name()
		}
		return "call:?"
	case *ssa.Convert:
		return types.TypeString(t.Type(), func(*types.Package) string { return "" }) + "(" + x.describe(t.X, depth+1) + ")"
	case *ssa.ChangeType:
		return x.describe(t.X, depth+1)
	case *ssa.MakeInterface:
		return x.describe(t.X, depth+1)
	case *ssa.Phi:
		o := x.Origin(t)
		if o != v {
			return x.describe(o, depth+1)
		}
		return "phi:" + t.Comment
	case *ssa.MakeMap:
		return "make(map)"
	case *ssa.MakeSlice:
		return "make(slice)"
	case *ssa.TypeAssert:
		return x.describe(t.X, depth+1) + ".(" + types.TypeString(t.AssertedType, func(*types.Package) string { return "" }) + ")"
	case *ssa.Function:
		return "func:" + fnName(t)
	case *ssa.MakeClosure:
		return "closure"
	case *ssa.Next:
		return "next"
	case *ssa.Range:
		return "range(" + x.describe(t.X, depth+1) + ")"
	}
	return fmt.Sprintf("%T", v)
}

func fieldName(t types.Type, i int) string {
	if p, ok := t.Underlying().(*types.Pointer); ok {
		t = p.Elem()
	}
	if s, ok := t.Underlying().(*types.Struct); ok && i < s.NumFields() {
		return s.Field(i).Name()
	}
	return fmt.Sprintf("f%d", i)
}

// fieldOf returns the struct field object addressed/read by a FieldAddr/Field.
func fieldOf(v ssa.Value) *types.Var {
	var t types.Type
	var i int
	switch f := v.(type) {
	case *ssa.FieldAddr:
		t, i = f.X.Type(), f.Field
	case *ssa.Field:
		t, i = f.X.Type(), f.Field
	default:
		return nil
	}
	if p, ok := t.Underlying().(*types.Pointer); ok {
		t = p.Elem()
	}
	if s, ok := t.Underlying().(*types.Struct); ok && i < s.NumFields() {
		return s.Field(i)
	}
	return nil
}

// isFieldLoad reports whether v (after Origin) is a load of field `name` of a
// struct type named `typ`; returns the base value.
func (x *FnIndex) isFieldLoad(v ssa.Value, typ, name string) (ssa.Value, bool) {
	v = x.Origin(v)
	switch t := v.(type) {
	case *ssa.UnOp:
		if t.Op != token.MUL {
			return nil, false
		}
		fa, ok := t.X.(*ssa.FieldAddr)
		if !ok {
			return nil, false
		}
		if fv := fieldOf(fa); fv != nil && fv.Name() == name && structName(fa.X.Type()) == typ {
			return fa.X, true
		}
	case *ssa.Field:
		if fv := fieldOf(t); fv != nil && fv.Name() == name && structName(t.X.Type()) == typ {
			return t.X, true
		}
	}
	return nil, false
}

func structName(t types.Type) string {
	if p, ok := t.Underlying().(*types.Pointer); ok {
		t = p.Elem()
	}
	if n, ok := t.(*types.Named); ok {
		return n.Obj().Name()
	}
	return ""
}

func namedOf(t types.Type) *types.Named {
	if p, ok := t.(*types.Pointer); ok {
		t = p.Elem()
	}
	n, _ := t.(*types.Named)
	return n
}

// ---- calls --------------------------------------------------------------

func callCommon(in ssa.Instruction) *ssa.CallCommon {
	if ci, ok := in.(ssa.CallInstruction); ok {
		return ci.Common()
	}
	return nil
}

// calleeIs reports whether a call instruction statically calls pkgpath.(recv).name.
func calleeIs(in ssa.Instruction, pkgPath, recv, name string) bool {
	cc := callCommon(in)
	if cc == nil {
		return false
	}
	return fnIs(cc.StaticCallee(), pkgPath, recv, name)
}

func fnIs(f *ssa.Function, pkgPath, recv, name string) bool {
	if f == nil || f.Name() != name {
		return false
	}
	var p *types.Package
	if f.Pkg != nil {
		p = f.Pkg.Pkg
	} else if f.Object() != nil {
		p = f.Object().Pkg()
	}
	if p == nil || p.Path() != pkgPath {
		return false
	}
	return recvName(f) == recv
}

func gpath(p string) string { return modPath + "/" + p }

// builtinCall returns the args when v is a call of the named builtin.
func builtinCall(v ssa.Value, name string) ([]ssa.Value, bool) {
	c, ok := v.(*ssa.Call)
	if !ok {
		return nil, false
	}
	b, ok := c.Call.Value.(*ssa.Builtin)
	if !ok || b.Name() != name {
		return nil, false
	}
	return c.Call.Args, true
}

// eachInstr visits every instruction of f (not of nested literals).
func eachInstr(f *ssa.Function, fn func(ssa.Instruction)) {
	for _, b := range f.Blocks {
		for _, in := range b.Instrs {
			fn(in)
		}
	}
}

// eachInstrDeep visits f and all nested function literals.
func eachInstrDeep(f *ssa.Function, fn func(*ssa.Function, ssa.Instruction)) {
	eachInstr(f, func(in ssa.Instruction) { fn(f, in) })
	for _, a := range f.AnonFuncs {
		eachInstrDeep(a, fn)
	}
}

func instrIdx(in ssa.Instruction) int {
	for i, x := range in.Block().Instrs {
		if x == in {
			return i
		}
	}
	return -1
}

// ---- dominance and paths --------------------------------------------------

// domInstr: a executes before b on every path from entry to b.
func domInstr(a, b ssa.Instruction) bool {
	if a.Parent() != b.Parent() {
		return false
	}
	if a.Block() == b.Block() {
		return instrIdx(a) < instrIdx(b)
	}
	return a.Block().Dominates(b.Block())
}

// pathExists: is there a CFG path that starts right after `from`, reaches
// `to` and executes no instruction for which blocked() holds on the way?
// from == nil starts at function entry.
func pathExists(fn *ssa.Function, from ssa.Instruction, to func(ssa.Instruction) bool, blocked func(ssa.Instruction) bool) (ssa.Instruction, bool) {
	type start struct {
		b *ssa.BasicBlock
		i int
	}
	var work []start
	seen := map[*ssa.BasicBlock]bool{}
	if from == nil {
		if len(fn.Blocks) == 0 {
			return nil, false
		}
		work = append(work, start{fn.Blocks[0], 0})
		seen[fn.Blocks[0]] = true
	} else {
		work = append(work, start{from.Block(), instrIdx(from) + 1})
	}
	for len(work) > 0 {
		s := work[len(work)-1]
		work = work[:len(work)-1]
		stop := false
		for i := s.i; i < len(s.b.Instrs); i++ {
			in := s.b.Instrs[i]
			if to(in) {
				return in, true
			}
			if blocked != nil && blocked(in) {
				stop = true
				break
			}
		}
		if stop {
			continue
		}
		for _, n := range s.b.Succs {
			if !seen[n] {
				seen[n] = true
				work = append(work, start{n, 0})
			}
		}
	}
	return nil, false
}

func isExit(in ssa.Instruction) bool {
	switch in.(type) {
	case *ssa.Return, *ssa.Panic:
		return true
	}
	return false
}

func isReturn(in ssa.Instruction) bool {
	_, ok := in.(*ssa.Return)
	return ok
}

// ---- edge guards (A2) ------------------------------------------------------

// Guard is a branch whose given outcome lies on every path to a block.
type Guard struct {
	If   *ssa.If
	Cond ssa.Value
	Pol  bool // true: the condition held
}

func (x *FnIndex) edgeDominated(from *ssa.BasicBlock, succ int) map[*ssa.BasicBlock]bool {
	k := edgeKey{from, succ}
	if m, ok := x.edgeDom[k]; ok {
		return m
	}
	fn := from.Parent()
	reach := map[*ssa.BasicBlock]bool{}
	var st []*ssa.BasicBlock
	st = append(st, fn.Blocks[0])
	reach[fn.Blocks[0]] = true
	for len(st) > 0 {
		b := st[len(st)-1]
		st = st[:len(st)-1]
		for i, n := range b.Succs {
			if b == from && i == succ {
				continue
			}
			if !reach[n] {
				reach[n] = true
				st = append(st, n)
			}
		}
	}
	m := map[*ssa.BasicBlock]bool{}
	for _, b := range fn.Blocks {
		if !reach[b] {
			m[b] = true
		}
	}
	x.edgeDom[k] = m
	return m
}

// GuardsOf lists the branch outcomes that hold whenever block b runs.
// (Unreachable blocks have every guard; callers only ask about live code.)
func (x *FnIndex) GuardsOf(b *ssa.BasicBlock) []Guard {
	if g, ok := x.guardCache[b]; ok {
		return g
	}
	out := x.domGuards(b)
	// what holds on every way in: each predecessor contributes what dominates it plus the
	// outcome of its own test on the edge to b; a fact all of them share (the same condition,
	// written the same way, with the same outcome) holds in b although no single test
	// dominates it (`if gw.addition` tested once per earlier branch)
	if len(b.Preds) >= 2 {
		type kf struct {
			g Guard
			n int
		}
		facts := map[string]*kf{}
		var order []string
		for pi, p := range b.Preds {
			seen := map[string]bool{}
			add := func(g Guard) {
				k := fmt.Sprintf("%v|%s", g.Pol, x.Describe(g.Cond))
				if seen[k] {
					return
				}
				seen[k] = true
				if f, ok := facts[k]; ok {
					if f.n == pi {
						f.n++
					}
				} else if pi == 0 {
					facts[k] = &kf{g, 1}
					order = append(order, k)
				}
			}
			for _, g := range x.domGuards(p) {
				add(g)
			}
			if len(p.Instrs) > 0 && len(p.Succs) == 2 && p.Succs[0] != p.Succs[1] {
				if iff, ok := p.Instrs[len(p.Instrs)-1].(*ssa.If); ok {
					cond, flip := iff.Cond, false
					for i := 0; i < 4; i++ {
						u, ok := x.Origin(cond).(*ssa.UnOp)
						if !ok || u.Op != token.NOT {
							break
						}
						cond, flip = u.X, !flip
					}
					cond = x.Origin(cond)
					pol := p.Succs[0] == b
					for _, f := range x.implied(cond, pol != flip, 0) {
						add(Guard{iff, f.v, f.pol})
					}
				}
			}
		}
		have := map[string]bool{}
		for _, g := range out {
			have[fmt.Sprintf("%v|%s", g.Pol, x.Describe(g.Cond))] = true
		}
		for _, k := range order {
			if f := facts[k]; f.n == len(b.Preds) && !have[k] {
				out = append(out, f.g)
			}
		}
	}
	if x.ready {
		if x.guardCache == nil {
			x.guardCache = map[*ssa.BasicBlock][]Guard{}
		}
		x.guardCache[b] = out
	}
	return out
}

// domGuards: the branch outcomes that dominate b.
func (x *FnIndex) domGuards(b *ssa.BasicBlock) []Guard {
	var out []Guard
	fn := b.Parent()
	for _, d := range fn.Blocks {
		if len(d.Instrs) == 0 {
			continue
		}
		iff, ok := d.Instrs[len(d.Instrs)-1].(*ssa.If)
		if !ok || len(d.Succs) != 2 {
			continue
		}
		if d.Succs[0] == d.Succs[1] {
			continue
		}
		// `!c` is reported as c with the opposite outcome
		cond, flip := iff.Cond, false
		for i := 0; i < 4; i++ {
			u, ok := x.Origin(cond).(*ssa.UnOp)
			if !ok || u.Op != token.NOT {
				break
			}
			cond, flip = u.X, !flip
		}
		cond = x.Origin(cond)
		if x.edgeDominated(d, 0)[b] {
			for _, f := range x.implied(cond, !flip, 0) {
				out = append(out, Guard{iff, f.v, f.pol})
			}
		}
		if x.edgeDominated(d, 1)[b] {
			for _, f := range x.implied(cond, flip, 0) {
				out = append(out, Guard{iff, f.v, f.pol})
			}
		}
	}
	return out
}

type boolFact struct {
	v   ssa.Value
	pol bool
}

// implied lists what follows from "v has the truth value pol": v itself, the
// operand of a negation, and for a short-circuit value kept in a variable
// (`no := a || b`: a phi of true constants and b) the operands it was computed
// from: `no` false gives a false and b false; `all := a && b` true gives both true.
func (x *FnIndex) implied(v ssa.Value, pol bool, d int) []boolFact {
	v = x.Origin(v)
	out := []boolFact{{v, pol}}
	if d > 6 {
		return out
	}
	switch t := v.(type) {
	case *ssa.UnOp:
		if t.Op == token.NOT {
			out = append(out, x.implied(t.X, !pol, d+1)...)
		}
	case *ssa.Phi:
		// a || b: edges are `true` from the blocks that tested an operand true, and the last operand
		// a && b: edges are `false` ..., and the last operand
		short := !pol // the constant the short-circuit edges carry
		okShape := true
		var rest []ssa.Value
		var shortPreds []*ssa.BasicBlock
		for i, e := range t.Edges {
			if bv, isC := constBool(e); isC {
				if bv != short {
					okShape = false
				}
				shortPreds = append(shortPreds, t.Block().Preds[i])
			} else {
				rest = append(rest, e)
			}
		}
		if !okShape || len(rest) != 1 || len(shortPreds) == 0 {
			return out
		}
		out = append(out, x.implied(rest[0], pol, d+1)...)
		for _, p := range shortPreds {
			if len(p.Instrs) == 0 || len(p.Succs) != 2 {
				continue
			}
			if pi, ok := p.Instrs[len(p.Instrs)-1].(*ssa.If); ok {
				// the operand tested in p sent control straight here with the constant `short`
				switch {
				case p.Succs[0] == t.Block() && p.Succs[1] != t.Block():
					// operand true -> short-circuit; we know the value is pol = !short, so that did not happen
					out = append(out, x.implied(pi.Cond, false, d+1)...)
				case p.Succs[1] == t.Block() && p.Succs[0] != t.Block():
					out = append(out, x.implied(pi.Cond, true, d+1)...)
				}
			}
		}
	}
	return out
}

// reachable blocks of a function
func liveBlocks(fn *ssa.Function) map[*ssa.BasicBlock]bool {
	reach := map[*ssa.BasicBlock]bool{}
	if len(fn.Blocks) == 0 {
		return reach
	}
	st := []*ssa.BasicBlock{fn.Blocks[0]}
	reach[fn.Blocks[0]] = true
	for len(st) > 0 {
		b := st[len(st)-1]
		st = st[:len(st)-1]
		for _, n := range b.Succs {
			if !reach[n] {
				reach[n] = true
				st = append(st, n)
			}
		}
	}
	if fn.Recover != nil && !reach[fn.Recover] {
		// recover block is entered by the runtime
		st = []*ssa.BasicBlock{fn.Recover}
		reach[fn.Recover] = true
		for len(st) > 0 {
			b := st[len(st)-1]
			st = st[:len(st)-1]
			for _, n := range b.Succs {
				if !reach[n] {
					reach[n] = true
					st = append(st, n)
				}
			}
		}
	}
	return reach
}

// ---- condition atoms -------------------------------------------------------

// nilCheck decodes `v != nil` / `v == nil`; neq reports the operator.
func nilCheck(cond ssa.Value) (subject ssa.Value, neq bool, ok bool) {
	b, isb := cond.(*ssa.BinOp)
	if !isb || (b.Op != token.NEQ && b.Op != token.EQL) {
		return nil, false, false
	}
	isNil := func(v ssa.Value) bool {
		c, ok := v.(*ssa.Const)
		return ok && c.Value == nil && !isBasic(c.Type())
	}
	switch {
	case isNil(b.Y):
		return b.X, b.Op == token.NEQ, true
	case isNil(b.X):
		return b.Y, b.Op == token.NEQ, true
	}
	return nil, false, false
}

func isBasic(t types.Type) bool {
	_, ok := t.Underlying().(*types.Basic)
	return ok
}

func constInt(v ssa.Value) (int64, bool) {
	c, ok := v.(*ssa.Const)
	if !ok || c.Value == nil || c.Value.Kind() != constant.Int {
		return 0, false
	}
	return c.Int64(), true
}

func constString(v ssa.Value) (string, bool) {
	c, ok := v.(*ssa.Const)
	if !ok || c.Value == nil || c.Value.Kind() != constant.String {
		return "", false
	}
	return constant.StringVal(c.Value), true
}

// lenCmp decodes comparisons of len(X) with an integer constant into the
const lenInf = int64(1) << 62

// lenTest decomposes a condition that compares one length with a constant,
// however it is written (`len(r) > 1`, `2 <= len(r)`, `len(r)-1 >= 1`,
// `n < 2` with n := len(r)): it returns the argument of len and the interval
// of len(arg) implied by the true edge [tlo,thi] and by the false edge
// [flo,fhi] (lenInf = unbounded).
func (x *FnIndex) lenTest(cond ssa.Value) (arg ssa.Value, tlo, thi, flo, fhi int64, ok bool) {
	b, isb := cond.(*ssa.BinOp)
	if !isb {
		return
	}
	switch b.Op {
	case token.LSS, token.LEQ, token.GTR, token.GEQ, token.EQL, token.NEQ:
	default:
		return
	}
	var lens []ssa.Value
	var walk func(v ssa.Value, d int)
	walk = func(v ssa.Value, d int) {
		if d > 8 {
			return
		}
		v = x.Origin(v)
		switch t := v.(type) {
		case *ssa.BinOp:
			if t.Op == token.ADD || t.Op == token.SUB {
				walk(t.X, d+1)
				walk(t.Y, d+1)
			}
		case *ssa.Convert:
			walk(t.X, d+1)
		case *ssa.Call:
			if a, isLen := builtinCall(t, "len"); isLen {
				lens = append(lens, a[0])
			}
		}
	}
	walk(b.X, 0)
	walk(b.Y, 0)
	if len(lens) != 1 {
		return
	}
	if bt, isBasic := b.X.Type().Underlying().(*types.Basic); !isBasic || bt.Info()&types.IsInteger == 0 {
		return
	}
	d := x.symInt(b.X).add(x.symInt(b.Y), -1)
	L := x.symLen(lens[0])
	op := b.Op
	var k int64
	found := false
	for _, sgn := range []int64{1, -1} {
		e := d.add(L, -sgn)
		if len(e.terms) != 0 {
			continue
		}
		found = true
		if sgn == 1 { // L + c OP 0  <=>  L OP -c
			k = -e.k
		} else { // -L + c OP 0  <=>  L flip(OP) c
			k = e.k
			switch op {
			case token.LSS:
				op = token.GTR
			case token.LEQ:
				op = token.GEQ
			case token.GTR:
				op = token.LSS
			case token.GEQ:
				op = token.LEQ
			}
		}
		break
	}
	if !found {
		return
	}
	clamp := func(lo, hi int64) (int64, int64) {
		if lo < 0 {
			lo = 0
		}
		return lo, hi
	}
	switch op {
	case token.LSS:
		tlo, thi = clamp(0, k-1)
		flo, fhi = clamp(k, lenInf)
	case token.LEQ:
		tlo, thi = clamp(0, k)
		flo, fhi = clamp(k+1, lenInf)
	case token.GTR:
		tlo, thi = clamp(k+1, lenInf)
		flo, fhi = clamp(0, k)
	case token.GEQ:
		tlo, thi = clamp(k, lenInf)
		flo, fhi = clamp(0, k-1)
	case token.EQL:
		tlo, thi = k, k
		flo, fhi = 0, lenInf
		if k == 0 {
			flo = 1
		}
	case token.NEQ:
		flo, fhi = k, k
		tlo, thi = 0, lenInf
		if k == 0 {
			tlo = 1
		}
	}
	return lens[0], tlo, thi, flo, fhi, true
}

// ---- loops ------------------------------------------------------------------

type Loop struct {
	Head    *ssa.BasicBlock
	Blocks  map[*ssa.BasicBlock]bool
	Latches []*ssa.BasicBlock
}

func (x *FnIndex) Loops(fn *ssa.Function) []*Loop {
	if l, ok := x.loops[fn]; ok {
		return l
	}
	byHead := map[*ssa.BasicBlock]*Loop{}
	var out []*Loop
	for _, b := range fn.Blocks {
		for _, s := range b.Succs {
			if s.Dominates(b) { // back edge b -> s
				l := byHead[s]
				if l == nil {
					l = &Loop{Head: s, Blocks: map[*ssa.BasicBlock]bool{s: true}}
					byHead[s] = l
					out = append(out, l)
				}
				l.Latches = append(l.Latches, b)
				// collect body: nodes that reach b without passing s
				st := []*ssa.BasicBlock{b}
				for len(st) > 0 {
					n := st[len(st)-1]
					st = st[:len(st)-1]
					if l.Blocks[n] {
						continue
					}
					l.Blocks[n] = true
					for _, p := range n.Preds {
						st = append(st, p)
					}
				}
			}
		}
	}
	sort.Slice(out, func(i, j int) bool { return out[i].Head.Index < out[j].Head.Index })
	x.loops[fn] = out
	return out
}

// InnermostLoop returns the smallest natural loop containing b, or nil.
func (x *FnIndex) InnermostLoop(b *ssa.BasicBlock) *Loop {
	var best *Loop
	for _, l := range x.Loops(b.Parent()) {
		if l.Blocks[b] && (best == nil || len(l.Blocks) < len(best.Blocks)) {
			best = l
		}
	}
	return best
}

// EnclosingLoops returns all loops containing b, innermost first.
func (x *FnIndex) EnclosingLoops(b *ssa.BasicBlock) []*Loop {
	var out []*Loop
	for _, l := range x.Loops(b.Parent()) {
		if l.Blocks[b] {
			out = append(out, l)
		}
	}
	sort.Slice(out, func(i, j int) bool { return len(out[i].Blocks) < len(out[j].Blocks) })
	return out
}

// exitEdges lists (from,to) edges leaving the loop.
func (l *Loop) exitTargets() []*ssa.BasicBlock {
	seen := map[*ssa.BasicBlock]bool{}
	var out []*ssa.BasicBlock
	for b := range l.Blocks {
		for _, s := range b.Succs {
			if !l.Blocks[s] && !seen[s] {
				seen[s] = true
				out = append(out, s)
			}
		}
	}
	sort.Slice(out, func(i, j int) bool { return out[i].Index < out[j].Index })
	return out
}

// rangedSlice: if v is the element of a `for _, e := range S` loop (naive SSA:
// *(&S[*rangeindex])), return S and the loop.
func (x *FnIndex) rangedSlice(v ssa.Value) (ssa.Value, *Loop, bool) {
	v = x.Origin(v)
	u, ok := v.(*ssa.UnOp)
	if !ok || u.Op != token.MUL {
		return nil, nil, false
	}
	ia, ok := u.X.(*ssa.IndexAddr)
	if !ok {
		return nil, nil, false
	}
	il, ok := x.lastLoad(ia.Index).(*ssa.UnOp)
	if !ok || il.Op != token.MUL {
		return nil, nil, false
	}
	al, ok := il.X.(*ssa.Alloc)
	if !ok {
		return nil, nil, false
	}
	if al.Comment != "rangeindex" {
		if ri := x.readsRangeIndex(ia.Index); ri != nil {
			// `for i := range s { s[i] }`: the counter of a range loop over the same slice
			for l := x.InnermostLoop(ia.Block()); l != nil; l = x.parentLoop(l) {
				adv := false
				for _, st := range x.stores[ri] {
					if st.Block() == l.Head {
						adv = true
					}
				}
				if !adv {
					continue
				}
				if iff, ok := l.Head.Instrs[len(l.Head.Instrs)-1].(*ssa.If); ok {
					if bo, ok := iff.Cond.(*ssa.BinOp); ok && bo.Op == token.LSS {
						if a, isLen := builtinCall(x.Origin(bo.Y), "len"); isLen && x.sameValue(a[0], ia.X) {
							if cell := x.Cell(ia.X); cell != nil {
								for _, st := range x.stores[cell] {
									if l.Blocks[st.Block()] && st.Parent() == cell.Parent() {
										return nil, nil, false
									}
								}
							}
							return ia.X, l, true
						}
					}
				}
			}
			return nil, nil, false
		}
		return x.indexedSlice(ia, al)
	}
	l := x.InnermostLoop(ia.Block())
	for l != nil {
		// the index cell must be advanced in this loop's header
		for _, st := range x.stores[al] {
			if st.Block() == l.Head {
				return ia.X, l, true
			}
		}
		l = x.parentLoop(l)
	}
	return nil, nil, false
}

// parentLoop returns the innermost loop strictly containing l.
func (x *FnIndex) parentLoop(l *Loop) *Loop {
	var best *Loop
	for _, o := range x.Loops(l.Head.Parent()) {
		if o != l && o.Blocks[l.Head] && len(o.Blocks) > len(l.Blocks) {
			if best == nil || len(o.Blocks) < len(best.Blocks) {
				best = o
			}
		}
	}
	return best
}

// counted describes `for i := c0; i < bound; i++`: the counter cell is set to
// the constant c0 before the loop and incremented by one exactly once per
// iteration (in a block every back edge passes), and the loop header stays in
// the loop exactly while counter < bound (+ boundAdd for <=).
type counted struct {
	cell     *ssa.Alloc
	loop     *Loop
	start    int64
	bound    ssa.Value
	boundAdd int64
}

func (x *FnIndex) countedLoop(cell *ssa.Alloc) *counted {
	fn := cell.Parent()
	for _, l := range x.Loops(fn) {
		var incs []*ssa.Store
		var inits []*ssa.Store
		bad := false
		for _, st := range x.stores[cell] {
			if st.Parent() != fn {
				bad = true
				continue
			}
			if l.Blocks[st.Block()] {
				incs = append(incs, st)
			} else {
				inits = append(inits, st)
			}
		}
		if bad || len(incs) == 0 || len(inits) == 0 {
			continue
		}
		// one `cell + 1` per iteration: a single step, or (the tail of the body copied per way,
		// A0 2e) one step on each way to the back edge and never two on the same way
		okInc := true
		for _, inc := range incs {
			bo, ok := inc.Val.(*ssa.BinOp)
			if !ok || bo.Op != token.ADD || x.directCell(bo.X) != cell {
				okInc = false
				break
			}
			if k, isK := constInt(bo.Y); !isK || k != 1 {
				okInc = false
			}
		}
		if !okInc {
			continue
		}
		perIter := true
		for _, latch := range l.Latches {
			n := 0
			for _, inc := range incs {
				if inc.Block().Dominates(latch) {
					n++
				}
			}
			if n != 1 {
				perIter = false
			}
		}
		if len(incs) > 1 && perIter {
			head := l.Head.Instrs[0]
			for _, a := range incs {
				for _, b := range incs {
					if a == b {
						continue
					}
					if _, reach := pathExists(fn, a, func(in ssa.Instruction) bool { return in == ssa.Instruction(b) }, func(in ssa.Instruction) bool { return in == head }); reach {
						perIter = false
					}
				}
			}
		}
		if !perIter {
			continue
		}
		// the value on entry: one constant
		var c0 int64
		okInit := true
		for i, st := range inits {
			k, isK := constInt(st.Val)
			if !isK || (i > 0 && k != c0) || k < 0 {
				okInit = false
			}
			c0 = k
		}
		// the nearest init must dominate the header (the loop is entered with it)
		if okInit {
			dom := false
			for _, st := range inits {
				if st.Block().Dominates(l.Head) {
					dom = true
				}
			}
			okInit = dom
		}
		if !okInit || len(l.Head.Instrs) == 0 || len(l.Head.Succs) != 2 {
			continue
		}
		iff, ok := l.Head.Instrs[len(l.Head.Instrs)-1].(*ssa.If)
		if !ok {
			continue
		}
		cb, ok := iff.Cond.(*ssa.BinOp)
		if !ok {
			continue
		}
		stayOnTrue := l.Blocks[l.Head.Succs[0]] && !l.Blocks[l.Head.Succs[1]]
		stayOnFalse := l.Blocks[l.Head.Succs[1]] && !l.Blocks[l.Head.Succs[0]]
		isCtr := func(v ssa.Value) bool { return x.directCell(x.lastLoad(v)) == cell }
		c := &counted{cell: cell, loop: l, start: c0}
		switch {
		case stayOnTrue && cb.Op == token.LSS && isCtr(cb.X):
			c.bound = cb.Y
		case stayOnTrue && cb.Op == token.GTR && isCtr(cb.Y):
			c.bound = cb.X
		case stayOnTrue && cb.Op == token.LEQ && isCtr(cb.X):
			c.bound, c.boundAdd = cb.Y, 1
		case stayOnTrue && cb.Op == token.GEQ && isCtr(cb.Y):
			c.bound, c.boundAdd = cb.X, 1
		case stayOnFalse && cb.Op == token.GEQ && isCtr(cb.X):
			c.bound = cb.Y
		case stayOnFalse && cb.Op == token.LEQ && isCtr(cb.Y):
			c.bound = cb.X
		case stayOnFalse && cb.Op == token.GTR && isCtr(cb.X):
			c.bound, c.boundAdd = cb.Y, 1
		case stayOnFalse && cb.Op == token.LSS && isCtr(cb.Y):
			c.bound, c.boundAdd = cb.X, 1
		default:
			continue
		}
		return c
	}
	return nil
}

// stepsOncePerTrip: the cell is set to one non-negative constant before loop l (by a store
// that dominates its head) and, inside l, only by `cell = cell + 1`, exactly once on every way
// round the loop. Returns the constant and the increments.
func (x *FnIndex) stepsOncePerTrip(cell *ssa.Alloc, l *Loop) (int64, []*ssa.Store, bool) {
	fn := cell.Parent()
	var incs, inits []*ssa.Store
	for _, st := range x.stores[cell] {
		if st.Parent() != fn {
			return 0, nil, false
		}
		if l.Blocks[st.Block()] {
			incs = append(incs, st)
		} else {
			inits = append(inits, st)
		}
	}
	if len(incs) == 0 || len(inits) == 0 {
		return 0, nil, false
	}
	for _, inc := range incs {
		bo, ok := inc.Val.(*ssa.BinOp)
		if !ok || bo.Op != token.ADD || x.directCell(bo.X) != cell {
			return 0, nil, false
		}
		if k, isK := constInt(bo.Y); !isK || k != 1 {
			return 0, nil, false
		}
	}
	for _, latch := range l.Latches {
		n := 0
		for _, inc := range incs {
			if inc.Block().Dominates(latch) {
				n++
			}
		}
		if n != 1 {
			return 0, nil, false
		}
	}
	if len(incs) > 1 {
		head := l.Head.Instrs[0]
		for _, a := range incs {
			for _, b := range incs {
				if a == b {
					continue
				}
				if _, reach := pathExists(fn, a, func(in ssa.Instruction) bool { return in == ssa.Instruction(b) }, func(in ssa.Instruction) bool { return in == head }); reach {
					return 0, nil, false
				}
			}
		}
	}
	var c0 int64
	dom := false
	for i, st := range inits {
		k, isK := constInt(st.Val)
		if !isK || (i > 0 && k != c0) || k < 0 {
			return 0, nil, false
		}
		c0 = k
		if st.Block().Dominates(l.Head) {
			dom = true
		}
	}
	if !dom {
		return 0, nil, false
	}
	return c0, incs, true
}

// filledFromMap recognises `s[i] = v; i++` in `for _, v := range m` with `s = make([]T, len(m))`
// and i counting from 0: every value of the map is stored at a position of its own, none is left
// empty (the same as appending each value to an empty list). st is the store of the element.
func (x *FnIndex) filledFromMap(st *ssa.Store) (list ssa.Value, m ssa.Value, l *Loop, ok bool) {
	ia, isIA := st.Addr.(*ssa.IndexAddr)
	if !isIA {
		return nil, nil, nil, false
	}
	if _, isSl := ia.X.Type().Underlying().(*types.Slice); !isSl {
		return nil, nil, nil, false
	}
	m, l, isR := x.rangedMap(st.Val)
	if !isR || l != x.InnermostLoop(st.Block()) {
		return nil, nil, nil, false
	}
	ld, _ := x.lastLoad(ia.Index).(*ssa.UnOp)
	ctr := x.directCell(x.lastLoad(ia.Index))
	if ctr == nil || ld == nil {
		return nil, nil, nil, false
	}
	c0, incs, okStep := x.stepsOncePerTrip(ctr, l)
	if !okStep || c0 != 0 {
		return nil, nil, nil, false
	}
	// the position is read before the step of its trip
	for _, inc := range incs {
		if _, back := pathExists(st.Parent(), inc, func(in ssa.Instruction) bool { return in == ssa.Instruction(ld) }, func(in ssa.Instruction) bool { return in == l.Head.Instrs[0] }); back {
			return nil, nil, nil, false
		}
	}
	// one store per trip: on every way round, unconditionally
	if len(x.GuardsOfInLoop(st.Block())) != 0 {
		return nil, nil, nil, false
	}
	// the list: made with one position per key of this map, and not assigned in the loop
	var mk *ssa.MakeSlice
	if cell := x.Cell(ia.X); cell != nil {
		for _, s2 := range x.stores[cell] {
			if l.Blocks[s2.Block()] || s2.Parent() != st.Parent() {
				return nil, nil, nil, false
			}
			ms, isMk := x.Origin(s2.Val).(*ssa.MakeSlice)
			if !isMk || (mk != nil && mk != ms) {
				return nil, nil, nil, false
			}
			mk = ms
		}
	} else if ms, isMk := x.Origin(ia.X).(*ssa.MakeSlice); isMk {
		mk = ms
	}
	if mk == nil || l.Blocks[mk.Block()] {
		return nil, nil, nil, false
	}
	a, isLen := builtinCall(x.Origin(mk.Len), "len")
	if !isLen || !x.sameValue(a[0], m) {
		return nil, nil, nil, false
	}
	return ia.X, m, l, true
}

// indexedSlice recognises the element of an index loop, `s[i]` inside
// `for i := c0; i < n; i++`, as the element of ranging s[c0:n] (s itself when
// c0 == 0 and n == len(s)): the loop visits exactly those elements, in order.
// The bounds are expressed by a Slice value that exists only for the analysis.
func (x *FnIndex) indexedSlice(ia *ssa.IndexAddr, ctr *ssa.Alloc) (ssa.Value, *Loop, bool) {
	c := x.countedLoop(ctr)
	if c == nil || !c.loop.Blocks[ia.Block()] {
		return nil, nil, false
	}
	if _, isSlice := ia.X.Type().Underlying().(*types.Slice); !isSlice {
		return nil, nil, false
	}
	// the slice must be the same on every iteration: a local not assigned in the loop,
	// or a path read from such
	if cell := x.Cell(ia.X); cell != nil {
		for _, st := range x.stores[cell] {
			if c.loop.Blocks[st.Block()] && st.Parent() == cell.Parent() {
				return nil, nil, false
			}
		}
	}
	key := fmt.Sprintf("%p/%p", ia.X, c)
	if v, ok := x.virtSlices[key]; ok {
		return v, c.loop, true
	}
	boundIsLen := false
	if c.boundAdd == 0 {
		if a, isLen := builtinCall(x.Origin(c.bound), "len"); isLen && x.sameValue(a[0], ia.X) {
			boundIsLen = true
		}
	}
	var out ssa.Value = ia.X
	if c.start != 0 || !boundIsLen {
		sl := &ssa.Slice{X: ia.X}
		if c.start != 0 {
			sl.Low = ssa.NewConst(constant.MakeInt64(c.start), types.Typ[types.Int])
		}
		if !boundIsLen {
			if c.boundAdd != 0 {
				return nil, nil, false
			}
			sl.High = c.bound
		}
		ssa.XSetType(sl, ia.X.Type())
		ssa.XSetPos(sl, ia.Pos())
		out = sl
	}
	if x.virtSlices == nil {
		x.virtSlices = map[string]ssa.Value{}
	}
	x.virtSlices[key] = out
	return out, c.loop, true
}

func (x *FnIndex) rangedMap(v ssa.Value) (ssa.Value, *Loop, bool) {
	v = x.Origin(v)
	ex, ok := v.(*ssa.Extract)
	if !ok {
		return nil, nil, false
	}
	nx, ok := ex.Tuple.(*ssa.Next)
	if !ok {
		return nil, nil, false
	}
	rg, ok := nx.Iter.(*ssa.Range)
	if !ok {
		return nil, nil, false
	}
	l := x.InnermostLoop(nx.Block())
	if l == nil {
		return nil, nil, false
	}
	return rg.X, l, true
}

// describeGuards renders guards for reports.
func (x *FnIndex) describeGuards(gs []Guard) string {
	var s []string
	for _, g := range gs {
		d := x.Describe(g.Cond)
		if !g.Pol {
			d = "!" + d
		}
		s = append(s, d)
	}
	return strings.Join(s, " && ")
}

// sameValue: structural equality of two values after Origin: identical values,
// equal constants, loads of the same field/element of equal bases, the same
// operator over equal operands, len of equal values.  Memory between the two
// reads is assumed unchanged (the callers compare reads of rule slices and of
// immutable rule entities within one function).
func (x *FnIndex) sameValue(a, b ssa.Value) bool { return x.sameValueD(a, b, 0) }

func (x *FnIndex) sameValueD(a, b ssa.Value, d int) bool {
	if d > 10 {
		return false
	}
	a, b = x.Origin(a), x.Origin(b)
	if a == b {
		return true
	}
	switch ta := a.(type) {
	case *ssa.Const:
		tb, ok := b.(*ssa.Const)
		if !ok {
			return false
		}
		if ta.Value == nil || tb.Value == nil {
			return ta.Value == nil && tb.Value == nil && types.Identical(ta.Type(), tb.Type())
		}
		return constant.Compare(ta.Value, token.EQL, tb.Value)
	case *ssa.UnOp:
		tb, ok := b.(*ssa.UnOp)
		if !ok || ta.Op != tb.Op {
			return false
		}
		if ta.Op != token.MUL {
			return x.sameValueD(ta.X, tb.X, d+1)
		}
		return x.sameAddr(x.ResolveAddr(ta.X), x.ResolveAddr(tb.X), d+1)
	case *ssa.BinOp:
		tb, ok := b.(*ssa.BinOp)
		return ok && ta.Op == tb.Op && x.sameValueD(ta.X, tb.X, d+1) && x.sameValueD(ta.Y, tb.Y, d+1)
	case *ssa.Call:
		tb, ok := b.(*ssa.Call)
		if !ok {
			return false
		}
		aa, oka := builtinCall(ta, "len")
		bb, okb := builtinCall(tb, "len")
		return oka && okb && x.sameValueD(aa[0], bb[0], d+1)
	case *ssa.Slice:
		tb, ok := b.(*ssa.Slice)
		if !ok {
			return false
		}
		eq := func(p, q ssa.Value) bool {
			if p == nil || q == nil {
				return p == nil && q == nil
			}
			return x.sameValueD(p, q, d+1)
		}
		return x.sameValueD(ta.X, tb.X, d+1) && eq(ta.Low, tb.Low) && eq(ta.High, tb.High) && eq(ta.Max, tb.Max)
	case *ssa.Field:
		tb, ok := b.(*ssa.Field)
		return ok && ta.Field == tb.Field && x.sameValueD(ta.X, tb.X, d+1)
	case *ssa.Convert:
		tb, ok := b.(*ssa.Convert)
		return ok && types.Identical(ta.Type(), tb.Type()) && x.sameValueD(ta.X, tb.X, d+1)
	}
	return false
}

func (x *FnIndex) sameAddr(a, b ssa.Value, d int) bool {
	if a == b {
		return true
	}
	switch ta := a.(type) {
	case *ssa.FieldAddr:
		tb, ok := b.(*ssa.FieldAddr)
		return ok && ta.Field == tb.Field && types.Identical(ta.X.Type(), tb.X.Type()) && x.sameValueD(ta.X, tb.X, d+1)
	case *ssa.IndexAddr:
		tb, ok := b.(*ssa.IndexAddr)
		return ok && x.sameValueD(ta.X, tb.X, d+1) && x.sameValueD(ta.Index, tb.Index, d+1)
	}
	return false
}

// PVal is one value a variable read may yield.
type PVal struct {
	V       ssa.Value // nil: the zero value of the cell
	Outside bool      // stored by another function (a deferred or spawned literal)
	Store   *ssa.Store
	Leaf    *ssa.Store // the store that first put the value into a variable (Store: into the variable read)
	ZeroOf  *ssa.Alloc // for the zero value (V == nil): the variable that was never assigned
}

// PossibleValues lists what a value may be when it is a read of a local
// variable cell: the stores of the same function that reach the read, the
// zero value if it can reach, and every store made by function literals.
// Any other value yields itself.
func (x *FnIndex) PossibleValues(v ssa.Value) []PVal {
	pvs := x.possibleValues(v, 0)
	u, ok := x.Origin(v).(*ssa.UnOp)
	if !ok || u.Op != token.MUL || len(pvs) < 2 || len(x.flagCells(u.Parent())) == 0 {
		return pvs
	}
	// drop the values that cannot be in the variable at this read on any path the flag
	// variables allow (`v, ok := lookup(); if ok { use(v) }` after inlining)
	var out []PVal
	for _, pv := range pvs {
		if pv.Leaf != nil && !pv.Outside && pv.Leaf.Parent() == u.Parent() && !x.tokenReaches(u.Parent(), pv.Leaf, nil, u, u) {
			continue
		}
		if pv.V == nil && pv.ZeroOf != nil && pv.ZeroOf.Parent() == u.Parent() && x.localOnly(pv.ZeroOf) && !x.tokenReaches(u.Parent(), nil, pv.ZeroOf, u, u) {
			continue
		}
		out = append(out, pv)
	}
	return out
}

func (x *FnIndex) possibleValues(v ssa.Value, depth int) []PVal {
	v = x.Origin(v)
	u, ok := v.(*ssa.UnOp)
	if !ok || u.Op != token.MUL || depth > 6 {
		return []PVal{{V: v}}
	}
	al, ok := x.ResolveAddr(u.X).(*ssa.Alloc)
	if !ok {
		return []PVal{{V: v}}
	}
	var out []PVal
	if al.Parent() == u.Parent() {
		defs, zero := x.reachingStores(u, al)
		for _, d := range defs {
			for _, pv := range x.possibleValues(d.Val, depth+1) {
				pv.Store = d
				if pv.Leaf == nil {
					pv.Leaf = d
				}
				out = append(out, pv)
			}
		}
		if zero {
			out = append(out, PVal{ZeroOf: al})
		}
		for _, st := range x.stores[al] {
			if st.Parent() != u.Parent() {
				out = append(out, PVal{V: x.Origin(st.Val), Outside: true, Store: st})
			}
		}
		return out
	}
	for _, st := range x.stores[al] {
		out = append(out, PVal{V: x.Origin(st.Val), Outside: st.Parent() != u.Parent(), Store: st})
	}
	if len(out) == 0 {
		out = append(out, PVal{})
	}
	return out
}

// leafValues is PossibleValues that keeps, for a value that went through
// several variables, the store that first put it into a variable.
func (x *FnIndex) leafValues(v ssa.Value, depth int) []PVal {
	v = x.Origin(v)
	u, ok := v.(*ssa.UnOp)
	if !ok || u.Op != token.MUL || depth > 6 {
		return []PVal{{V: v}}
	}
	al, ok := x.ResolveAddr(u.X).(*ssa.Alloc)
	if !ok {
		return []PVal{{V: v}}
	}
	var out []PVal
	if al.Parent() == u.Parent() {
		defs, zero := x.reachingStores(u, al)
		for _, d := range defs {
			for _, pv := range x.leafValues(d.Val, depth+1) {
				if pv.Store == nil {
					pv.Store = d
				}
				out = append(out, pv)
			}
		}
		if zero {
			out = append(out, PVal{ZeroOf: al})
		}
		for _, st := range x.stores[al] {
			if st.Parent() != u.Parent() {
				out = append(out, PVal{V: x.Origin(st.Val), Outside: true, Store: st})
			}
		}
		return out
	}
	for _, st := range x.stores[al] {
		out = append(out, PVal{V: x.Origin(st.Val), Outside: st.Parent() != u.Parent(), Store: st})
	}
	if len(out) == 0 {
		out = append(out, PVal{})
	}
	return out
}

// ValuesAt lists what v (an operand of instruction at) may be when at executes:
// PossibleValues, without the values that cannot get there. A value put into a
// variable by a store is followed from that store, through copies into other
// variables, along the paths that the flag variables allow (pathExistsFlags);
// it counts only if some such path reaches at with v holding it. This is what
// separates `return gw` under `if ok` from the `gw = nil; ok = false` of a miss.
func (x *FnIndex) ValuesAt(v ssa.Value, at ssa.Instruction) []PVal {
	fn := at.Parent()
	var out []PVal
	for _, pv := range x.leafValues(v, 0) {
		if pv.V == nil && pv.Store == nil && pv.ZeroOf != nil && pv.ZeroOf.Parent() == fn && x.localOnly(pv.ZeroOf) {
			// the zero value of a variable: follows from its declaration like a stored value
			if x.tokenReaches(fn, nil, pv.ZeroOf, at, v) {
				out = append(out, pv)
			}
			continue
		}
		if pv.Store == nil || pv.Outside || pv.Store.Parent() != fn {
			out = append(out, pv)
			continue
		}
		if x.tokenReaches(fn, pv.Store, nil, at, v) {
			out = append(out, pv)
		}
	}
	return out
}

// localOnly: the variable is only read and written by plain loads and stores of its own
// function (no literal captures it any more, its address goes nowhere).
func (x *FnIndex) localOnly(al *ssa.Alloc) bool {
	if r := al.Referrers(); r != nil {
		for _, u := range *r {
			switch t := u.(type) {
			case *ssa.Store:
				if t.Addr != ssa.Value(al) {
					return false
				}
			case *ssa.UnOp:
				if t.Op != token.MUL {
					return false
				}
			case *ssa.DebugRef:
			default:
				return false
			}
		}
	}
	return true
}

// tokenReaches: the value stored by `from` can be what `use` holds when `at`
// executes. The search follows the value through loads, stores into other local
// variables and conversions, forgets a variable when something else is stored
// into it, and prunes branches on flag variables like pathExistsFlags.
func (x *FnIndex) tokenReaches(fn *ssa.Function, from *ssa.Store, zeroOf *ssa.Alloc, at ssa.Instruction, use ssa.Value) bool {
	flags := x.flagCells(fn)
	fidx := map[*ssa.Alloc]int{}
	for i, f := range flags {
		fidx[f] = i
	}
	vidx := map[ssa.Value]int{}
	for i, v := range x.condValues(fn, 8-len(flags)) {
		vidx[v] = len(flags) + i
	}
	pow := func(i int) int {
		p := 1
		for ; i > 0; i-- {
			p *= 3
		}
		return p
	}
	get := func(st, i int) int { return (st / pow(i)) % 3 }
	set := func(st, i, v int) int { return st - get(st, i)*pow(i) + v*pow(i) }
	cellOf := func(a ssa.Value) *ssa.Alloc {
		if al, ok := a.(*ssa.Alloc); ok {
			return al
		}
		al, _ := x.ResolveAddr(a).(*ssa.Alloc)
		return al
	}
	var c0 *ssa.Alloc
	var startB *ssa.BasicBlock
	startI := 0
	if from != nil {
		c0 = cellOf(from.Addr)
		startB, startI = from.Block(), instrIdx(from)+1
	} else {
		c0 = zeroOf
		startB, startI = zeroOf.Block(), instrIdx(zeroOf)+1
	}
	if c0 == nil {
		return true
	}
	type tok struct {
		cells map[*ssa.Alloc]bool
		vals  map[ssa.Value]bool
	}
	sig := func(t tok) string {
		var parts []string
		for c := range t.cells {
			parts = append(parts, fmt.Sprintf("c%p", c))
		}
		for v := range t.vals {
			parts = append(parts, fmt.Sprintf("v%p", v))
		}
		sort.Strings(parts)
		return strings.Join(parts, ",")
	}
	clone := func(t tok) tok {
		n := tok{map[*ssa.Alloc]bool{}, map[ssa.Value]bool{}}
		for c := range t.cells {
			n.cells[c] = true
		}
		for v := range t.vals {
			n.vals[v] = true
		}
		return n
	}
	type node struct {
		b  *ssa.BasicBlock
		i  int
		st int
		t  tok
	}
	seen := map[string]bool{}
	start := tok{map[*ssa.Alloc]bool{c0: true}, map[ssa.Value]bool{}}
	work := []node{{startB, startI, 0, start}}
	steps := 0
	for len(work) > 0 {
		n := work[len(work)-1]
		work = work[:len(work)-1]
		st, t := n.st, clone(n.t)
		loaded := map[ssa.Value]int{}
		loadedOf := map[ssa.Value]int{}
		for i := n.i; i < len(n.b.Instrs); i++ {
			in := n.b.Instrs[i]
			steps++
			if steps > 400000 {
				return true // give up: assume it can
			}
			if in == at {
				if t.vals[use] {
					return true
				}
				// the use is this very read
				if u, ok := use.(*ssa.UnOp); ok && u.Op == token.MUL && ssa.Instruction(u) == at {
					if c := cellOf(u.X); c != nil && t.cells[c] {
						return true
					}
				}
			}
			if vv, isV := in.(ssa.Value); isV {
				if vi, tracked := vidx[vv]; tracked {
					st = set(st, vi, 0) // computed anew
				}
			}
			switch s := in.(type) {
			case *ssa.Alloc:
				// the declaration is executed again (a loop): a new variable, zero again
				if from == nil && s == zeroOf {
					t.cells[s] = true
				} else {
					delete(t.cells, s)
				}
			case *ssa.Store:
				c := cellOf(s.Addr)
				if c != nil {
					if t.vals[s.Val] {
						t.cells[c] = true
					} else {
						delete(t.cells, c)
					}
					if al, ok := s.Addr.(*ssa.Alloc); ok {
						if fi, isF := fidx[al]; isF {
							if bv, isC := constBool(s.Val); isC {
								if bv {
									st = set(st, fi, 1)
								} else {
									st = set(st, fi, 2)
								}
							} else if lv, isL := loaded[s.Val]; isL {
								st = set(st, fi, lv)
							} else {
								st = set(st, fi, 0)
							}
						}
					}
				}
			case *ssa.UnOp:
				if s.Op == token.MUL {
					if c := cellOf(s.X); c != nil && t.cells[c] {
						t.vals[s] = true
					} else {
						delete(t.vals, s)
					}
					if al, ok := s.X.(*ssa.Alloc); ok {
						if fi, isF := fidx[al]; isF {
							loaded[s] = get(st, fi)
							loadedOf[s] = fi
						}
					}
				}
			case *ssa.ChangeType:
				if t.vals[s.X] {
					t.vals[s] = true
				} else {
					delete(t.vals, s)
				}
			case *ssa.ChangeInterface:
				if t.vals[s.X] {
					t.vals[s] = true
				} else {
					delete(t.vals, s)
				}
			case *ssa.MakeInterface:
				if t.vals[s.X] {
					t.vals[s] = true
				} else {
					delete(t.vals, s)
				}
			case *ssa.Phi:
				any := false
				for _, e := range s.Edges {
					if t.vals[e] {
						any = true
					}
				}
				if any {
					t.vals[s] = true
				} else {
					delete(t.vals, s)
				}
			}
		}
		if len(t.cells) == 0 && len(t.vals) == 0 {
			continue
		}
		only := -1
		learn, learnNeg := -1, false
		if len(n.b.Instrs) > 0 {
			if iff, ok := n.b.Instrs[len(n.b.Instrs)-1].(*ssa.If); ok && len(n.b.Succs) == 2 {
				cond, neg := iff.Cond, false
				for {
					u, isU := cond.(*ssa.UnOp)
					if !isU || u.Op != token.NOT {
						break
					}
					cond, neg = u.X, !neg
				}
				if v, ok := loaded[cond]; ok && v == 0 {
					// the variable's value is not known here: each edge tells it (provided the
					// variable was not assigned between this read and the branch)
					fi := loadedOf[cond]
					clean := true
					for j := instrIdx(cond.(ssa.Instruction)) + 1; j < len(n.b.Instrs); j++ {
						if stj, isSt := n.b.Instrs[j].(*ssa.Store); isSt && stj.Addr == ssa.Value(flags[fi]) {
							clean = false
						}
					}
					if clean && cond.(ssa.Instruction).Block() == n.b {
						learn, learnNeg = fi, neg
					}
				}
				if v, ok := loaded[cond]; ok && v != 0 {
					tv := v == 1
					if neg {
						tv = !tv
					}
					if tv {
						only = 0
					} else {
						only = 1
					}
				}
				if vi, tracked := vidx[cond]; tracked {
					if v := get(st, vi); v != 0 {
						tv := (v == 1) != neg
						if tv {
							only = 0
						} else {
							only = 1
						}
					} else {
						learn, learnNeg = vi, neg
					}
				}
			}
		}
		for k, sc := range n.b.Succs {
			if only >= 0 && k != only {
				continue
			}
			stk := st
			if learn >= 0 {
				if (k == 0) != learnNeg {
					stk = set(st, learn, 1)
				} else {
					stk = set(st, learn, 2)
				}
			}
			// a flag variable assigned the tested value in this very block holds the outcome too
			if iff, isIf := n.b.Instrs[len(n.b.Instrs)-1].(*ssa.If); isIf {
				cond, neg := iff.Cond, false
				for {
					u, isU := cond.(*ssa.UnOp)
					if !isU || u.Op != token.NOT {
						break
					}
					cond, neg = u.X, !neg
				}
				for fi, fc := range flags {
					if holdsAtEnd(n.b, fc, cond) {
						if (k == 0) != neg {
							stk = set(stk, fi, 1)
						} else {
							stk = set(stk, fi, 2)
						}
					}
				}
			}
			key := fmt.Sprintf("%d|%d|%s", sc.Index, stk, sig(t))
			if !seen[key] {
				seen[key] = true
				work = append(work, node{sc, 0, stk, t})
			}
		}
	}
	return false
}

func isConstNil(v ssa.Value) bool {
	c, ok := v.(*ssa.Const)
	return ok && c.Value == nil
}

func constBool(v ssa.Value) (bool, bool) {
	c, ok := v.(*ssa.Const)
	if !ok || c.Value == nil || c.Value.Kind() != constant.Bool {
		return false, false
	}
	return constant.BoolVal(c.Value), true
}

// knownNil: at block b, value v (an error or pointer) is known to be nil
// because a dominating branch tested it.
func (x *FnIndex) knownNil(v ssa.Value, b *ssa.BasicBlock) bool {
	for _, g := range x.GuardsOf(b) {
		if s, neq, ok := nilCheck(g.Cond); ok && x.sameValue(s, v) {
			if (neq && !g.Pol) || (!neq && g.Pol) {
				return true
			}
		}
	}
	return false
}

// knownNonNil: the dual.
func (x *FnIndex) knownNonNil(v ssa.Value, b *ssa.BasicBlock) bool {
	for _, g := range x.GuardsOf(b) {
		if s, neq, ok := nilCheck(g.Cond); ok && x.sameValue(s, v) {
			if (neq && g.Pol) || (!neq && !g.Pol) {
				return true
			}
		}
	}
	return false
}

// ---- symbolic linear forms over lengths and parameters (A4-len) -------------

type linform struct {
	k     int64
	terms map[string]int64
}

func (l linform) add(o linform, sign int64) linform {
	r := linform{k: l.k + sign*o.k, terms: map[string]int64{}}
	for a, c := range l.terms {
		r.terms[a] += c
	}
	for a, c := range o.terms {
		r.terms[a] += sign * c
	}
	for a, c := range r.terms {
		if c == 0 {
			delete(r.terms, a)
		}
	}
	return r
}

func (l linform) equal(o linform) bool {
	d := l.add(o, -1)
	return d.k == 0 && len(d.terms) == 0
}

func (l linform) String() string {
	var parts []string
	var atoms []string
	for a := range l.terms {
		atoms = append(atoms, a)
	}
	sort.Strings(atoms)
	for _, a := range atoms {
		c := l.terms[a]
		switch c {
		case 1:
			parts = append(parts, a)
		case -1:
			parts = append(parts, "-"+a)
		default:
			parts = append(parts, fmt.Sprintf("%d*%s", c, a))
		}
	}
	if l.k != 0 || len(parts) == 0 {
		parts = append(parts, fmt.Sprintf("%d", l.k))
	}
	return strings.Join(parts, " + ")
}

func atomForm(a string) linform { return linform{terms: map[string]int64{a: 1}} }
func constForm(k int64) linform { return linform{k: k, terms: map[string]int64{}} }

// allocName names a variable cell by its variable and declaration position;
// copies of one declaration (a helper inlined at several places) are numbered.
func (x *FnIndex) allocName(al *ssa.Alloc) string {
	if x.allocNames == nil {
		x.allocNames = map[*ssa.Alloc]string{}
		for _, f := range x.Fns {
			seen := map[string]int{}
			for _, b := range f.Blocks {
				for _, in := range b.Instrs {
					if a, ok := in.(*ssa.Alloc); ok {
						n := fmt.Sprintf("%s@%d", a.Comment, a.Pos())
						seen[n]++
						if seen[n] > 1 {
							n = fmt.Sprintf("%s#%d", n, seen[n])
						}
						x.allocNames[a] = n
					}
				}
			}
		}
	}
	if n, ok := x.allocNames[al]; ok {
		return n
	}
	return fmt.Sprintf("%s@%d", al.Comment, al.Pos())
}

// canon names a value for use as an atom: parameters, field paths, variable
// cells (by declaration position, so that same-named locals differ).
func (x *FnIndex) canon(v ssa.Value) string {
	v = x.Origin(v)
	switch t := v.(type) {
	case *ssa.Parameter:
		return t.Name()
	case *ssa.Const:
		return x.Describe(t)
	case *ssa.UnOp:
		if t.Op == token.MUL {
			a := x.ResolveAddr(t.X)
			switch at := a.(type) {
			case *ssa.Alloc:
				return x.allocName(at)
			case *ssa.FieldAddr:
				return x.canon(at.X) + "." + fieldName(at.X.Type(), at.Field)
			case *ssa.IndexAddr:
				return x.canon(at.X) + "[" + x.canon(at.Index) + "]"
			}
		}
	case *ssa.Field:
		return x.canon(t.X) + "." + fieldName(t.X.Type(), t.Field)
	case *ssa.Call:
		if a, ok := builtinCall(t, "len"); ok {
			return x.symLen(a[0]).String()
		}
	case *ssa.BinOp:
		if t.Op == token.ADD || t.Op == token.SUB {
			return "(" + x.symInt(t).String() + ")"
		}
	case *ssa.Slice:
		lo, hi := "", ""
		if t.Low != nil {
			lo = x.canon(t.Low)
		}
		if t.High != nil {
			hi = x.canon(t.High)
		}
		return x.canon(t.X) + "[" + lo + ":" + hi + "]"
	}
	return fmt.Sprintf("%s<%s@%d>", x.Describe(v), v.Name(), v.Pos())
}

func (x *FnIndex) symInt(v ssa.Value) linform {
	v = x.Origin(v)
	switch t := v.(type) {
	case *ssa.Const:
		if k, ok := constInt(t); ok {
			return constForm(k)
		}
	case *ssa.BinOp:
		switch t.Op {
		case token.ADD:
			return x.symInt(t.X).add(x.symInt(t.Y), 1)
		case token.SUB:
			return x.symInt(t.X).add(x.symInt(t.Y), -1)
		}
	case *ssa.Call:
		if a, ok := builtinCall(t, "len"); ok {
			return x.symLen(a[0])
		}
	case *ssa.Convert:
		if b, ok := t.X.Type().Underlying().(*types.Basic); ok && b.Info()&types.IsInteger != 0 {
			return x.symInt(t.X)
		}
	}
	return atomForm(x.canon(v))
}

// sliceInterval describes S as base[lo:hi). The base is the variable read (or
// the field path) the slice expressions start from, not the value that
// variable happens to hold.
func (x *FnIndex) sliceInterval(s ssa.Value) (base ssa.Value, lo, hi linform) {
	o := x.Origin(s)
	if sl, ok := o.(*ssa.Slice); ok {
		if _, isArr := sl.X.Type().Underlying().(*types.Pointer); !isArr {
			b, lo0, hi0 := x.sliceInterval(sl.X)
			lo = lo0
			if sl.Low != nil {
				lo = lo0.add(x.symInt(sl.Low), 1)
			}
			hi = hi0
			if sl.High != nil {
				hi = lo0.add(x.symInt(sl.High), 1)
			}
			return b, lo, hi
		}
	}
	if mk, isMk := o.(*ssa.MakeSlice); isMk {
		// a variable holding a freshly made slice: the variable is the base,
		// its length is the length it was made with
		var last *ssa.UnOp
		x.originTrace(s, func(u *ssa.UnOp) { last = u })
		if last != nil {
			return last, constForm(0), x.symInt(mk.Len)
		}
		return o, constForm(0), x.symInt(mk.Len)
	}
	return o, constForm(0), atomForm("len(" + x.canon(o) + ")")
}

func (x *FnIndex) symLen(s ssa.Value) linform {
	_, lo, hi := x.sliceInterval(s)
	return hi.add(lo, -1)
}

// pathExistsE is pathExists with a set of CFG edges that may not be taken.
func pathExistsE(fn *ssa.Function, from ssa.Instruction, to func(ssa.Instruction) bool, forbidden map[edgeKey]bool) (ssa.Instruction, bool) {
	return pathExistsEB(fn, from, to, forbidden, nil)
}

// pathExistsEB: forbidden edges and blocking instructions; from == nil starts at the entry.
func pathExistsEB(fn *ssa.Function, from ssa.Instruction, to func(ssa.Instruction) bool, forbidden map[edgeKey]bool, blocked func(ssa.Instruction) bool) (ssa.Instruction, bool) {
	type start struct {
		b *ssa.BasicBlock
		i int
	}
	var work []start
	seen := map[*ssa.BasicBlock]bool{}
	if from == nil {
		work = []start{{fn.Blocks[0], 0}}
		seen[fn.Blocks[0]] = true
	} else {
		work = []start{{from.Block(), instrIdx(from) + 1}}
	}
	for len(work) > 0 {
		s := work[len(work)-1]
		work = work[:len(work)-1]
		stop := false
		for i := s.i; i < len(s.b.Instrs); i++ {
			if to(s.b.Instrs[i]) {
				return s.b.Instrs[i], true
			}
			if blocked != nil && blocked(s.b.Instrs[i]) {
				stop = true
				break
			}
		}
		if stop {
			continue
		}
		for k, n := range s.b.Succs {
			if forbidden[edgeKey{s.b, k}] {
				continue
			}
			if !seen[n] {
				seen[n] = true
				work = append(work, start{n, 0})
			}
		}
	}
	return nil, false
}

// Unwrap is Origin that also looks through interface conversions.
func (x *FnIndex) Unwrap(v ssa.Value) ssa.Value {
	for i := 0; i < 8; i++ {
		v = x.Origin(v)
		switch t := v.(type) {
		case *ssa.MakeInterface:
			v = t.X
			continue
		case *ssa.ChangeInterface:
			v = t.X
			continue
		}
		break
	}
	return v
}

// nilOnAllPaths: the value stored by pv.Store can reach instruction `at` only
// over the "is nil" edge of a test of that same value (with no other store to
// the variable in between): so it is nil whenever it arrives.
func (x *FnIndex) nilOnAllPaths(pv PVal, at ssa.Instruction) bool {
	if pv.Store == nil || pv.V == nil || pv.Outside {
		return false
	}
	fn := at.Parent()
	if pv.Store.Parent() != fn {
		return false
	}
	cell := x.ResolveAddr(pv.Store.Addr)
	nilEdges := map[edgeKey]bool{}
	for _, b := range fn.Blocks {
		iff, ok := b.Instrs[len(b.Instrs)-1].(*ssa.If)
		if !ok {
			continue
		}
		s, neq, ok := nilCheck(iff.Cond)
		if !ok {
			continue
		}
		if x.Origin(s) != pv.V {
			// the test may read the variable cell directly
			u, isU := s.(*ssa.UnOp)
			if !isU || x.ResolveAddr(u.X) != cell {
				continue
			}
			defs, zero := []*ssa.Store(nil), false
			if al, isAl := cell.(*ssa.Alloc); isAl {
				defs, zero = x.reachingStores(u, al)
			}
			if zero || len(defs) != 1 || defs[0] != pv.Store {
				continue
			}
		}
		// remove the "is nil" edges: if the use is still reachable, the value can arrive untested
		if neq {
			nilEdges[edgeKey{b, 1}] = true
		} else {
			nilEdges[edgeKey{b, 0}] = true
		}
	}
	if len(nilEdges) == 0 {
		return false
	}
	_, found := pathExistsEB(fn, pv.Store, func(in ssa.Instruction) bool { return in == at }, nilEdges, func(in ssa.Instruction) bool {
		st, ok := in.(*ssa.Store)
		return ok && st != pv.Store && x.ResolveAddr(st.Addr) == cell
	})
	return !found
}

// flowsTo: does the value reach (through local variables, conversions, reflect accessors,
// interface boxing and the given pass-through functions) an instruction for which sink() holds?
// sink receives the instruction and the operand index at which the value arrives.
func (x *FnIndex) flowsTo(v ssa.Value, passThrough func(*ssa.Call) bool, sink func(in ssa.Instruction, v ssa.Value) bool) bool {
	seen := map[ssa.Value]bool{}
	work := []ssa.Value{v}
	for len(work) > 0 {
		cur := work[len(work)-1]
		work = work[:len(work)-1]
		if cur == nil || seen[cur] {
			continue
		}
		seen[cur] = true
		refs := cur.Referrers()
		if refs == nil {
			continue
		}
		for _, r := range *refs {
			if sink(r, cur) {
				return true
			}
			switch t := r.(type) {
			case *ssa.Store:
				if t.Val == cur {
					if al, ok := x.ResolveAddr(t.Addr).(*ssa.Alloc); ok {
						// every load of the cell
						for _, f := range x.Fns {
							eachInstr(f, func(in ssa.Instruction) {
								if u, ok := in.(*ssa.UnOp); ok && u.Op == token.MUL && x.ResolveAddr(u.X) == ssa.Value(al) {
									work = append(work, u)
								}
							})
						}
					}
				}
			case *ssa.Convert:
				work = append(work, t)
			case *ssa.ChangeType:
				work = append(work, t)
			case *ssa.MakeInterface:
				work = append(work, t)
			case *ssa.Extract:
				work = append(work, t)
			case *ssa.Phi:
				work = append(work, t)
			case *ssa.Call:
				name, cc := "", t.Common()
				if cal := cc.StaticCallee(); cal != nil {
					name = cal.Name()
					if cal.Pkg != nil && cal.Pkg.Pkg.Path() == "reflect" && (name == "Int" || name == "Uint" || name == "Float" || name == "String" || name == "Elem" || name == "ValueOf" || name == "Interface") {
						work = append(work, t)
					}
				}
				if passThrough != nil && passThrough(t) {
					work = append(work, t)
				}
			}
		}
	}
	return false
}

// onlyNormalExit: the loop is left only from its header (no break / return inside the body).
func (l *Loop) onlyNormalExit() bool {
	for b := range l.Blocks {
		if b == l.Head {
			continue
		}
		for _, s := range b.Succs {
			if !l.Blocks[s] {
				return false
			}
		}
		if len(b.Instrs) > 0 {
			if _, isRet := b.Instrs[len(b.Instrs)-1].(*ssa.Return); isRet {
				return false
			}
		}
	}
	return true
}

// ---- specialised reachability ---------------------------------------------------

// reachUnder explores fn's control flow with one integer quantity (the values
// v with isQ(v)) fixed to k: a branch that compares the quantity with a
// constant (either way round, any comparison operator, negated or not) takes
// its determined edge, every other branch both. It returns the reachable
// blocks. This decides "for which values does the function get here" without
// depending on how the tests are written (if-chain, switch, != with early
// return, helper).
func (x *FnIndex) reachUnder(fn *ssa.Function, isQ func(ssa.Value) bool, k int64) map[*ssa.BasicBlock]bool {
	var eval func(v ssa.Value, d int) (bool, bool)
	eval = func(v ssa.Value, d int) (bool, bool) {
		if d > 6 {
			return false, false
		}
		v = x.Origin(v)
		switch t := v.(type) {
		case *ssa.Const:
			return constBool(t)
		case *ssa.UnOp:
			if t.Op == token.NOT {
				if b, ok := eval(t.X, d+1); ok {
					return !b, true
				}
			}
		case *ssa.BinOp:
			var c int64
			op := t.Op
			if kc, ok := constInt(x.Origin(t.Y)); ok && isQ(t.X) {
				c = kc
			} else if kc, ok := constInt(x.Origin(t.X)); ok && isQ(t.Y) {
				c = kc
				switch op {
				case token.LSS:
					op = token.GTR
				case token.LEQ:
					op = token.GEQ
				case token.GTR:
					op = token.LSS
				case token.GEQ:
					op = token.LEQ
				}
			} else {
				return false, false
			}
			switch op {
			case token.EQL:
				return k == c, true
			case token.NEQ:
				return k != c, true
			case token.LSS:
				return k < c, true
			case token.LEQ:
				return k <= c, true
			case token.GTR:
				return k > c, true
			case token.GEQ:
				return k >= c, true
			}
		}
		return false, false
	}
	reach := map[*ssa.BasicBlock]bool{}
	work := []*ssa.BasicBlock{fn.Blocks[0]}
	for len(work) > 0 {
		b := work[len(work)-1]
		work = work[:len(work)-1]
		if reach[b] {
			continue
		}
		reach[b] = true
		if len(b.Instrs) > 0 {
			if iff, ok := b.Instrs[len(b.Instrs)-1].(*ssa.If); ok && len(b.Succs) == 2 {
				if v, known := eval(iff.Cond, 0); known {
					if v {
						work = append(work, b.Succs[0])
					} else {
						work = append(work, b.Succs[1])
					}
					continue
				}
			}
		}
		work = append(work, b.Succs...)
	}
	return reach
}

// lastLoad follows a value through copies like Origin but stops at the last
// load of a variable cell it cannot resolve further (the variable whose
// several possible values reach here); v itself when there is none.
func (x *FnIndex) lastLoad(v ssa.Value) ssa.Value {
	o := x.Origin(v)
	if x.directCell(o) != nil {
		return o
	}
	return v
}

// ---- flag-sensitive reachability ---------------------------------------------------

// flagCells lists the local bool variables of fn that only fn itself assigns: constants
// (`found := false; ...; found = true`), the value of another such variable, or a condition
// (`hasFree := len(list) > 0`), whose outcome a path learns at the first branch on the variable.
// Variables assigned constants come first (at most 8 are tracked).
func (x *FnIndex) flagCells(fn *ssa.Function) []*ssa.Alloc {
	if fc, ok := x.flagCache[fn]; ok {
		return fc
	}
	var cands []*ssa.Alloc
	for _, b := range fn.Blocks {
		for _, in := range b.Instrs {
			al, ok := in.(*ssa.Alloc)
			if !ok || len(x.stores[al]) == 0 || (al.Heap && !x.localOnly(al)) {
				continue
			}
			if bt, isB := al.Type().(*types.Pointer).Elem().Underlying().(*types.Basic); !isB || bt.Kind() != types.Bool {
				continue
			}
			cands = append(cands, al)
		}
	}
	// a flag is assigned constants, or the value of another flag (`ok = found`)
	isFlag := map[*ssa.Alloc]bool{}
	for _, al := range cands {
		isFlag[al] = true
	}
	for changed := true; changed; {
		changed = false
		for _, al := range cands {
			if !isFlag[al] {
				continue
			}
			for _, st := range x.stores[al] {
				// (a value that is not a constant makes the flag unknown until a branch on it tells)
				good := st.Parent() == fn
				if !good {
					isFlag[al] = false
					changed = true
					break
				}
			}
		}
	}
	var out []*ssa.Alloc
	onlyConst := func(al *ssa.Alloc) bool {
		for _, st := range x.stores[al] {
			if _, isC := constBool(st.Val); !isC && flagLoad(st.Val) == nil {
				return false
			}
		}
		return true
	}
	for pass := 0; pass < 2; pass++ {
		for _, al := range cands {
			if isFlag[al] && len(out) < 8 && onlyConst(al) == (pass == 0) {
				out = append(out, al)
			}
		}
	}
	if x.flagCache == nil {
		x.flagCache = map[*ssa.Function][]*ssa.Alloc{}
	}
	x.flagCache[fn] = out
	return out
}

// condValues lists the boolean values of fn that two or more branches test (`hasFree := len(l) > 0;
// if hasFree {..}; ..; if hasFree || hasMore {..}` after the variable has been read through): what a
// path learnt about such a value at one branch holds at the next, until the instruction that computes
// the value is executed again. At most `room` of them, in block order.
func (x *FnIndex) condValues(fn *ssa.Function, room int) []ssa.Value {
	if room <= 0 {
		return nil
	}
	if cv, ok := x.condCache[fn]; ok {
		if len(cv) > room {
			return cv[:room]
		}
		return cv
	}
	count := map[ssa.Value]int{}
	var order []ssa.Value
	for _, b := range fn.Blocks {
		if len(b.Instrs) == 0 {
			continue
		}
		iff, ok := b.Instrs[len(b.Instrs)-1].(*ssa.If)
		if !ok {
			continue
		}
		cond := iff.Cond
		for {
			u, isU := cond.(*ssa.UnOp)
			if !isU || u.Op != token.NOT {
				break
			}
			cond = u.X
		}
		if _, isC := cond.(*ssa.Const); isC {
			continue
		}
		if flagLoad(cond) != nil {
			continue
		}
		if _, isInstr := cond.(ssa.Instruction); !isInstr {
			// a parameter (or captured variable's value): never computed anew
			if _, isPar := cond.(*ssa.Parameter); !isPar {
				continue
			}
		}
		if count[cond] == 0 {
			order = append(order, cond)
		}
		count[cond]++
	}
	var out []ssa.Value
	for _, v := range order {
		if count[v] >= 2 && len(out) < 6 {
			out = append(out, v)
		}
	}
	if x.condCache == nil {
		x.condCache = map[*ssa.Function][]ssa.Value{}
	}
	x.condCache[fn] = out
	if len(out) > room {
		return out[:room]
	}
	return out
}

// holdsAtEnd: the last assignment of the variable in block b stores the value v.
func holdsAtEnd(b *ssa.BasicBlock, cell *ssa.Alloc, v ssa.Value) bool {
	for i := len(b.Instrs) - 1; i >= 0; i-- {
		if st, ok := b.Instrs[i].(*ssa.Store); ok && st.Addr == ssa.Value(cell) {
			return st.Val == v
		}
	}
	return false
}

// flagLoad: v is a plain read of a local variable; that variable.
func flagLoad(v ssa.Value) *ssa.Alloc {
	if u, ok := v.(*ssa.UnOp); ok && u.Op == token.MUL {
		if al, ok := u.X.(*ssa.Alloc); ok {
			return al
		}
	}
	return nil
}

// pathExistsFlags is pathExistsEB that does not follow paths made impossible
// by a boolean flag: it tracks the value of every flag variable (flagCells)
// along the path and, at a branch on such a variable, takes only the edge its
// current value selects. A flag whose value is not known on the path (nothing
// assigned since `from`) takes both.
func (x *FnIndex) pathExistsFlags(fn *ssa.Function, from ssa.Instruction, to func(ssa.Instruction) bool, forbidden map[edgeKey]bool, blocked func(ssa.Instruction) bool) (ssa.Instruction, bool) {
	if from == nil {
		return x.pathExistsFlagsAt(fn, fn.Blocks[0], 0, to, forbidden, blocked)
	}
	return x.pathExistsFlagsAt(fn, from.Block(), instrIdx(from)+1, to, forbidden, blocked)
}

// pathExistsFlagsAt starts at instruction number i0 of block b0 (inclusive).
func (x *FnIndex) pathExistsFlagsAt(fn *ssa.Function, b0 *ssa.BasicBlock, i0 int, to func(ssa.Instruction) bool, forbidden map[edgeKey]bool, blocked func(ssa.Instruction) bool) (ssa.Instruction, bool) {
	flags := x.flagCells(fn)
	idx := map[*ssa.Alloc]int{}
	for i, f := range flags {
		idx[f] = i
	}
	vidx := map[ssa.Value]int{}
	for i, v := range x.condValues(fn, 8-len(flags)) {
		vidx[v] = len(flags) + i
	}
	pow := func(i int) int {
		p := 1
		for ; i > 0; i-- {
			p *= 3
		}
		return p
	}
	get := func(st, i int) int { return (st / pow(i)) % 3 } // 0 unknown, 1 true, 2 false
	set := func(st, i, v int) int { return st - get(st, i)*pow(i) + v*pow(i) }
	type node struct {
		b  *ssa.BasicBlock
		i  int
		st int
	}
	type key struct {
		b  *ssa.BasicBlock
		st int
	}
	seen := map[key]bool{}
	work := []node{{b0, i0, 0}}
	if i0 == 0 {
		seen[key{b0, 0}] = true
	}
	for len(work) > 0 {
		n := work[len(work)-1]
		work = work[:len(work)-1]
		st := n.st
		loaded := map[ssa.Value]int{}
		loadedOf := map[ssa.Value]int{}
		stop := false
		for i := n.i; i < len(n.b.Instrs); i++ {
			in := n.b.Instrs[i]
			if to(in) {
				return in, true
			}
			if blocked != nil && blocked(in) {
				stop = true
				break
			}
			if vv, isV := in.(ssa.Value); isV {
				if vi, tracked := vidx[vv]; tracked {
					st = set(st, vi, 0) // computed anew
				}
			}
			switch t := in.(type) {
			case *ssa.Store:
				if al, ok := t.Addr.(*ssa.Alloc); ok {
					if fi, isF := idx[al]; isF {
						if bv, isC := constBool(t.Val); isC {
							if bv {
								st = set(st, fi, 1)
							} else {
								st = set(st, fi, 2)
							}
						} else if lv, isL := loaded[t.Val]; isL {
							st = set(st, fi, lv)
						} else {
							st = set(st, fi, 0)
						}
					}
				}
			case *ssa.UnOp:
				if t.Op == token.MUL {
					if al, ok := t.X.(*ssa.Alloc); ok {
						if fi, isF := idx[al]; isF {
							loaded[t] = get(st, fi)
							loadedOf[t] = fi
						}
					}
				}
			}
		}
		if stop {
			continue
		}
		only := -1
		learn, learnNeg := -1, false
		if len(n.b.Instrs) > 0 {
			if iff, ok := n.b.Instrs[len(n.b.Instrs)-1].(*ssa.If); ok && len(n.b.Succs) == 2 {
				cond, neg := iff.Cond, false
				for {
					u, isU := cond.(*ssa.UnOp)
					if !isU || u.Op != token.NOT {
						break
					}
					cond, neg = u.X, !neg
				}
				if v, ok := loaded[cond]; ok && v == 0 {
					fi := loadedOf[cond]
					clean := cond.(ssa.Instruction).Block() == n.b
					for j := instrIdx(cond.(ssa.Instruction)) + 1; clean && j < len(n.b.Instrs); j++ {
						if stj, isSt := n.b.Instrs[j].(*ssa.Store); isSt && stj.Addr == ssa.Value(flags[fi]) {
							clean = false
						}
					}
					if clean {
						learn, learnNeg = fi, neg
					}
				}
				if v, ok := loaded[cond]; ok && v != 0 {
					tv := v == 1
					if neg {
						tv = !tv
					}
					if tv {
						only = 0
					} else {
						only = 1
					}
				}
				if vi, tracked := vidx[cond]; tracked {
					if v := get(st, vi); v != 0 {
						tv := (v == 1) != neg
						if tv {
							only = 0
						} else {
							only = 1
						}
					} else {
						learn, learnNeg = vi, neg
					}
				}
			}
		}
		for k, s := range n.b.Succs {
			if forbidden[edgeKey{n.b, k}] || (only >= 0 && k != only) {
				continue
			}
			stk := st
			if learn >= 0 {
				isTrue := (k == 0) != learnNeg
				if isTrue {
					stk = set(st, learn, 1)
				} else {
					stk = set(st, learn, 2)
				}
			}
			if iff, isIf := n.b.Instrs[len(n.b.Instrs)-1].(*ssa.If); isIf {
				cond, neg := iff.Cond, false
				for {
					u, isU := cond.(*ssa.UnOp)
					if !isU || u.Op != token.NOT {
						break
					}
					cond, neg = u.X, !neg
				}
				for fi, fc := range flags {
					if holdsAtEnd(n.b, fc, cond) {
						if (k == 0) != neg {
							stk = set(stk, fi, 1)
						} else {
							stk = set(stk, fi, 2)
						}
					}
				}
			}
			if !seen[key{s, stk}] {
				seen[key{s, stk}] = true
				work = append(work, node{s, 0, stk})
			}
		}
	}
	return nil, false
}

// valuesVia lists the values v can have at instruction `at` on executions that
// passed instruction src before: the values of PossibleValues whose store
// lies on a path src -> store -> at, or that were stored before src and are
// not overwritten between src and at.
func (x *FnIndex) valuesVia(fn *ssa.Function, src, at ssa.Instruction, v ssa.Value) []ssa.Value {
	var out []ssa.Value
	for _, pv := range x.PossibleValues(v) {
		if pv.Store == nil || pv.Outside {
			out = append(out, pv.V)
			continue
		}
		cell, _ := x.ResolveAddr(pv.Store.Addr).(*ssa.Alloc)
		other := func(in ssa.Instruction) bool {
			return cell != nil && in != ssa.Instruction(pv.Store) && x.isStoreTo(in, cell)
		}
		isS := func(in ssa.Instruction) bool { return in == ssa.Instruction(pv.Store) }
		isAt := func(in ssa.Instruction) bool { return in == at }
		isSrc := func(in ssa.Instruction) bool { return in == src }
		_, after := pathExists(fn, src, isS, nil)
		if after {
			if _, ok := pathExists(fn, pv.Store, isAt, other); ok {
				out = append(out, pv.V)
				continue
			}
		}
		if _, before := pathExists(fn, pv.Store, isSrc, other); before {
			if _, ok := pathExists(fn, src, isAt, func(in ssa.Instruction) bool { return other(in) || isS(in) }); ok {
				out = append(out, pv.V)
			}
		}
	}
	return out
}

// reachesOnlyVia: the value pv of a variable read at `at` gets there, on
// executions that passed src, only along paths that take one of the edges
// `need` after src. pv.Store == nil means the value is used directly (no
// variable in between). Used for "this value is used only when that test
// had this outcome", whether the use sits inside the branch or the value was
// first put in a variable there.
func (x *FnIndex) reachesOnlyVia(fn *ssa.Function, src ssa.Instruction, pv PVal, at ssa.Instruction, need map[edgeKey]bool) bool {
	if len(need) == 0 {
		return false
	}
	reSrc := func(i ssa.Instruction) bool { return i == src }
	isAt := func(i ssa.Instruction) bool { return i == at }
	if pv.Store == nil {
		_, bad := pathExistsEB(fn, src, isAt, need, reSrc)
		return !bad
	}
	cell, _ := x.ResolveAddr(pv.Store.Addr).(*ssa.Alloc)
	_, r1 := pathExistsEB(fn, src, func(i ssa.Instruction) bool { return i == ssa.Instruction(pv.Store) }, need, reSrc)
	_, r2 := pathExistsEB(fn, pv.Store, isAt, need, func(i ssa.Instruction) bool {
		return reSrc(i) || (cell != nil && i != ssa.Instruction(pv.Store) && x.isStoreTo(i, cell))
	})
	return !(r1 && r2)
}

// nilEdges lists, over all branches of fn that test `isSubject(v)` against nil,
// the edges on which the subject is nil and those on which it is not.
func (x *FnIndex) nilEdges(fn *ssa.Function, isSubject func(ssa.Value) bool) (isNil, notNil map[edgeKey]bool) {
	isNil, notNil = map[edgeKey]bool{}, map[edgeKey]bool{}
	for _, b := range fn.Blocks {
		if len(b.Instrs) == 0 || len(b.Succs) != 2 {
			continue
		}
		iff, ok := b.Instrs[len(b.Instrs)-1].(*ssa.If)
		if !ok {
			continue
		}
		cond, pol := iff.Cond, true
		for {
			u, isU := cond.(*ssa.UnOp)
			if !isU || u.Op != token.NOT {
				break
			}
			cond, pol = x.Origin(u.X), !pol
		}
		s, neq, ok := nilCheck(cond)
		if !ok || !isSubject(s) {
			continue
		}
		nonNilOnTrue := neq == pol
		if nonNilOnTrue {
			notNil[edgeKey{b, 0}], isNil[edgeKey{b, 1}] = true, true
		} else {
			isNil[edgeKey{b, 0}], notNil[edgeKey{b, 1}] = true, true
		}
	}
	return
}

// guardGivesLE: the guard (a comparison of two integer expressions, taken with
// its outcome) implies w <= 0, whatever way round and with whichever operator
// it is written: `n+m > len` false, `len < n+m` false, `n+m <= len` true and
// `len >= n+m` true all give n+m-len <= 0.
func (x *FnIndex) guardGivesLE(g Guard, w linform) bool {
	bo, ok := g.Cond.(*ssa.BinOp)
	if !ok {
		return false
	}
	if bt, isB := bo.X.Type().Underlying().(*types.Basic); !isB || bt.Info()&types.IsInteger == 0 {
		return false
	}
	d := x.symInt(bo.X).add(x.symInt(bo.Y), -1) // X - Y  OP  0
	op := bo.Op
	if !g.Pol {
		neg := map[token.Token]token.Token{token.LSS: token.GEQ, token.LEQ: token.GTR, token.GTR: token.LEQ, token.GEQ: token.LSS, token.EQL: token.NEQ, token.NEQ: token.EQL}
		n, ok := neg[op]
		if !ok {
			return false
		}
		op = n
	}
	minus := func(l linform) linform { return constForm(0).add(l, -1) }
	// facts of the form e <= c
	type fact struct {
		e linform
		c int64
	}
	var facts []fact
	switch op {
	case token.LSS:
		facts = []fact{{d, -1}}
	case token.LEQ:
		facts = []fact{{d, 0}}
	case token.GTR:
		facts = []fact{{minus(d), -1}}
	case token.GEQ:
		facts = []fact{{minus(d), 0}}
	case token.EQL:
		facts = []fact{{d, 0}, {minus(d), 0}}
	default:
		return false
	}
	for _, f := range facts {
		diff := w.add(f.e, -1)
		if len(diff.terms) == 0 && f.c+diff.k <= 0 {
			return true
		}
	}
	return false
}

// sameIndex: the element address ia and the ranged element value v use the
// same position of the same loop (dst[k] = src[k] with k the loop's counter).
func (x *FnIndex) sameIndex(ia *ssa.IndexAddr, v ssa.Value) bool {
	u, ok := x.Origin(v).(*ssa.UnOp)
	if !ok || u.Op != token.MUL {
		return false
	}
	src, ok := u.X.(*ssa.IndexAddr)
	if !ok {
		return false
	}
	a, b := x.readsRangeIndex(ia.Index), x.readsRangeIndex(src.Index)
	if a != nil && a == b {
		return true
	}
	ca, cb := x.directCell(x.lastLoad(ia.Index)), x.directCell(x.lastLoad(src.Index))
	return ca != nil && ca == cb
}

// iterForm expresses an integer value computed inside a loop as
// base + (number of the iteration, counted from 0), for a range loop over a
// slice or a counted loop (see countedLoop); count is how many iterations the
// loop makes. `tag: firstTag + int64(i)` in `for i := range s` gives
// (firstTag, len(s)); `tag: j + poolMinLen` in `for j := 0; j < n; j++` gives
// (poolMinLen, n).
func (x *FnIndex) iterForm(fn *ssa.Function, v ssa.Value) (l *Loop, base, count linform, ok bool) {
	f := x.symInt(v)
	for _, b := range fn.Blocks {
		for _, in := range b.Instrs {
			al, isAl := in.(*ssa.Alloc)
			if !isAl {
				continue
			}
			name := x.allocName(al)
			if f.terms[name] != 1 {
				continue
			}
			rest := f.add(atomForm(name), -1)
			if al.Comment == "rangeindex" {
				for _, lp := range x.Loops(fn) {
					adv := false
					for _, st := range x.stores[al] {
						if st.Block() == lp.Head {
							adv = true
						}
					}
					if !adv || len(lp.Head.Instrs) == 0 {
						continue
					}
					iff, isIf := lp.Head.Instrs[len(lp.Head.Instrs)-1].(*ssa.If)
					if !isIf {
						continue
					}
					bo, isB := iff.Cond.(*ssa.BinOp)
					if !isB || bo.Op != token.LSS {
						continue
					}
					// in the body the cell holds the iteration number; a read resolved to the
					// header's `old+1` has the atom (old value) plus one
					return lp, rest.add(constForm(1), -1), x.symInt(bo.Y), true
				}
				continue
			}
			if cl := x.countedLoop(al); cl != nil {
				cnt := x.symInt(cl.bound).add(constForm(cl.boundAdd-cl.start), 1)
				return cl.loop, rest.add(constForm(cl.start), 1), cnt, true
			}
		}
	}
	return nil, linform{}, linform{}, false
}

// reachUnderSentinel explores the instructions reachable from `from` when the
// error value (isErr) is a given sentinel ("BREAKFLAG", "CONTINUEFLAG", or
// "nil"): every comparison of the error with one of the two package sentinels
// or with nil takes its determined edge (the sentinels are distinct non-nil
// values, S5), all other branches both. stop ends a path. It returns the
// reached instructions, so that "a break never reaches the step" holds however
// the tests are arranged (one combined test, a helper, a switch).
func (x *FnIndex) reachUnderSentinel(fn *ssa.Function, from ssa.Instruction, isErr func(ssa.Value) bool, which string, stop func(ssa.Instruction) bool) map[ssa.Instruction]bool {
	sentinelOf := func(v ssa.Value) string {
		v = x.Origin(v)
		if c, ok := v.(*ssa.Const); ok && c.IsNil() {
			return "nil"
		}
		if u, ok := v.(*ssa.UnOp); ok && u.Op == token.MUL {
			if g, ok := u.X.(*ssa.Global); ok && (g.Name() == "BREAKFLAG" || g.Name() == "CONTINUEFLAG") {
				return g.Name()
			}
		}
		return ""
	}
	var eval func(v ssa.Value, d int) (bool, bool)
	eval = func(v ssa.Value, d int) (bool, bool) {
		if d > 6 {
			return false, false
		}
		v = x.Origin(v)
		switch t := v.(type) {
		case *ssa.Const:
			return constBool(t)
		case *ssa.UnOp:
			if t.Op == token.NOT {
				if b, ok := eval(t.X, d+1); ok {
					return !b, true
				}
			}
		case *ssa.BinOp:
			if t.Op != token.EQL && t.Op != token.NEQ {
				return false, false
			}
			other := ""
			switch {
			case isErr(t.X):
				other = sentinelOf(t.Y)
			case isErr(t.Y):
				other = sentinelOf(t.X)
			}
			if other == "" {
				return false, false
			}
			return (other == which) == (t.Op == token.EQL), true
		}
		return false, false
	}
	reached := map[ssa.Instruction]bool{}
	type pt struct {
		b *ssa.BasicBlock
		i int
	}
	seen := map[*ssa.BasicBlock]bool{}
	work := []pt{{from.Block(), instrIdx(from) + 1}}
	for len(work) > 0 {
		p := work[len(work)-1]
		work = work[:len(work)-1]
		stopped := false
		for i := p.i; i < len(p.b.Instrs); i++ {
			in := p.b.Instrs[i]
			reached[in] = true
			if stop != nil && stop(in) {
				stopped = true
				break
			}
		}
		if stopped {
			continue
		}
		only := -1
		if iff, ok := p.b.Instrs[len(p.b.Instrs)-1].(*ssa.If); ok && len(p.b.Succs) == 2 {
			if v, known := eval(iff.Cond, 0); known {
				only = 1
				if v {
					only = 0
				}
			}
		}
		for k, sc := range p.b.Succs {
			if only >= 0 && k != only {
				continue
			}
			if !seen[sc] {
				seen[sc] = true
				work = append(work, pt{sc, 0})
			}
		}
	}
	return reached
}

// isFieldLoadAny: v is a read of some field of a struct of the named type; the struct value.
func (x *FnIndex) isFieldLoadAny(v ssa.Value, typ string) (ssa.Value, bool) {
	v = x.Origin(v)
	if t, ok := v.(*ssa.UnOp); ok && t.Op == token.MUL {
		if fa, ok := t.X.(*ssa.FieldAddr); ok && structName(fa.X.Type()) == typ {
			return fa.X, true
		}
	}
	return nil, false
}

// readsList: arg is a read of the list variable e -- of e itself, also when e was just assigned a copy of
// another list (the result of a helper that builds its own), or of a variable e is a copy of.
func (x *FnIndex) readsList(arg ssa.Value, e *ssa.Alloc) bool {
	if e == nil {
		return false
	}
	if x.Cell(arg) == e || x.directCell(x.lastLoad(arg)) == e {
		return true
	}
	// the variable read is e, or another list the function reports from (one per way through it), whatever
	// it was assigned from
	if u, ok := arg.(*ssa.UnOp); ok && u.Op == token.MUL {
		if al, isAl := x.ResolveAddr(u.X).(*ssa.Alloc); isAl && (al == e || x.listSinks[al]) {
			return true
		}
	}
	if dc := x.directCell(x.lastLoad(arg)); dc != nil && x.listSinks[dc] {
		return true
	}
	return false
}
