package main

// forkjoin.go — A4: fan-out / join pairing, count agreement, barrier.

import (
	"fmt"
	"go/token"
	"sort"
	"strings"

	"golang.org/x/tools/go/ssa"
)

type fanout struct {
	goStmt  *ssa.Go
	lit     *ssa.Function // the goroutine body
	worker  *ssa.Call     // the single worker call in lit
	loop    *Loop         // loop in goStmt.Parent() containing the go statement
	ranged  ssa.Value     // collection the loop ranges over
	isMap   bool
	wg      *ssa.Alloc // WaitGroup signalled by lit
	topGo   ssa.Instruction
	topLoop *Loop
}

func closureOfGo(g *ssa.Go) *ssa.Function {
	if mc, ok := g.Call.Value.(*ssa.MakeClosure); ok {
		if f, ok := mc.Fn.(*ssa.Function); ok {
			return f
		}
	}
	return nil
}

func wgOp(x *FnIndex, in ssa.Instruction, method string) *ssa.Alloc {
	typ, m, recv, ok := syncCall(in)
	if !ok || typ != "WaitGroup" || m != method {
		return nil
	}
	al, _ := x.ResolveAddr(recv).(*ssa.Alloc)
	return al
}

// ruleA4 checks every fan-out of fn. isWorker selects the call a goroutine is
// started for. It returns the fan-outs found.
func (c *Ctx) ruleA4(rule string, fn *ssa.Function, isWorker func(*ssa.Call) bool, E *ssa.Alloc) []*fanout {
	x := c.Index(fn)
	var fos []*fanout
	var spawners []*ssa.Go
	gi := 0
	var walk func(f *ssa.Function, top ssa.Instruction)
	walk = func(f *ssa.Function, top ssa.Instruction) {
		eachInstr(f, func(in ssa.Instruction) {
			g, ok := in.(*ssa.Go)
			if !ok {
				return
			}
			lit := closureOfGo(g)
			t := top
			if t == nil {
				t = g
			}
			if lit == nil {
				gi++
				c.Check(rule, fmt.Sprintf("%s#go%d/literal", fnName(fn), gi), false, g.Pos(), "go statement does not start a function literal; not analysable")
				return
			}
			var workers []*ssa.Call
			hasGo := false
			eachInstr(lit, func(i2 ssa.Instruction) {
				if call, ok := i2.(*ssa.Call); ok && isWorker(call) {
					workers = append(workers, call)
				}
				if _, ok := i2.(*ssa.Go); ok {
					hasGo = true
				}
			})
			if len(workers) == 0 && hasGo {
				spawners = append(spawners, g)
				walk(lit, t)
				return
			}
			gi++
			key := fmt.Sprintf("%s#go%d", fnName(fn), gi)
			fo := &fanout{goStmt: g, lit: lit, topGo: t}
			fos = append(fos, fo)
			if len(workers) != 1 {
				c.Check(rule, key+"/one-worker", false, g.Pos(), "goroutine body runs %d rule/statement executions (want exactly one)", len(workers))
				return
			}
			c.Check(rule, key+"/one-worker", true, g.Pos(), "goroutine body makes exactly one worker call")
			fo.worker = workers[0]
			// not inside a loop within the literal
			if x.InnermostLoop(fo.worker.Block()) != nil {
				c.Check(rule, key+"/worker-not-looped", false, fo.worker.Pos(), "the worker call sits in a loop inside the goroutine")
			}
			// receiver: per-iteration copy of the loop element
			fo.loop = x.InnermostLoop(g.Block())
			recv := fo.worker.Call.Args[0]
			if s, l, ok := x.rangedSlice(recv); ok {
				fo.ranged, fo.loop = s, l
			} else if mm, l, ok := x.rangedMap(recv); ok {
				fo.ranged, fo.loop, fo.isMap = mm, l, true
			}
			if fo.ranged == nil || fo.loop == nil || !fo.loop.Blocks[g.Block()] || x.InnermostLoop(g.Block()) != fo.loop {
				c.Check(rule, key+"/element", false, fo.worker.Pos(), "the goroutine does not execute the element of the loop that starts it (receiver: %s)", x.Describe(recv))
			} else {
				// the captured cell must be allocated per iteration
				cellOf := recv
				if ta, isTA := cellOf.(*ssa.TypeAssert); isTA && !ta.CommaOk {
					cellOf = ta.X // the element travelled as an interface value (A0 2g)
				}
				cell := x.directCell(cellOf)
				perIter := cell != nil && fo.loop.Blocks[cell.Block()] && cell.Parent() == g.Parent()
				c.Check(rule, key+"/element", perIter, fo.worker.Pos(), "goroutine executes the element of %s through a per-iteration copy (a direct capture of the loop variable is shared by all goroutines under go 1.13 semantics)", x.Describe(fo.ranged))
			}
			// one goroutine per element: the go statement is not under a further condition inside its loop
			if fo.loop != nil {
				if gs := x.GuardsOfInLoop(g.Block()); len(gs) > 0 {
					c.Check(rule, key+"/every-element", false, g.Pos(), "the goroutine is started conditionally inside the fan-out loop (%s): some elements would not run", x.describeGuards(gs))
				}
			}
			// Done on all paths
			var dones []ssa.Instruction
			eachInstr(lit, func(i2 ssa.Instruction) {
				if w := wgOp(x, i2, "Done"); w != nil {
					dones = append(dones, i2)
					if fo.wg == nil {
						fo.wg = w
					} else if fo.wg != w {
						c.Check(rule, key+"/done", false, i2.Pos(), "goroutine signals two different WaitGroups")
					}
				}
			})
			if fo.wg == nil {
				c.Check(rule, key+"/done", false, g.Pos(), "goroutine never calls Done on a WaitGroup: nobody can wait for it")
				return
			}
			isDone := func(i2 ssa.Instruction) bool {
				for _, d := range dones {
					if d == i2 {
						return true
					}
				}
				return false
			}
			_, missing := pathExists(lit, nil, isReturn, isDone)
			if _, isDefer := dones[0].(*ssa.Defer); isDefer && len(dones) == 1 {
				missing = false
				if _, found := pathExists(lit, nil, func(i2 ssa.Instruction) bool { return i2 == ssa.Instruction(fo.worker) }, isDone); found {
					missing = true // worker before the defer is registered
				}
			}
			c.Check(rule, key+"/done", !missing, g.Pos(), "Done() of %s must be reached on every path through the goroutine", fo.wg.Comment)
			// Done only after the work: no path reaches Done without having run the worker
			_, early := pathExists(lit, nil, isDone, func(i2 ssa.Instruction) bool { return i2 == ssa.Instruction(fo.worker) })
			if _, isDefer := dones[0].(*ssa.Defer); isDefer {
				early = false
			}
			c.Check(rule, key+"/done-after-work", !early, g.Pos(), "Done() can be reached before the worker call has run: the join would not wait for it")
			// the goroutine is started for its element and runs it whatever the others did: no way
			// from its entry to its end round the worker call
			if _, skip := pathExists(lit, nil, isReturn, func(i2 ssa.Instruction) bool { return i2 == ssa.Instruction(fo.worker) }); skip {
				c.Check(rule, key+"/worker-on-every-path", false, fo.worker.Pos(), "the goroutine can end without having run its rule or statement (a condition inside the goroutine skips the call): an element scheduled in this stage would not run")
			} else {
				c.Check(rule, key+"/worker-on-every-path", true, fo.worker.Pos(), "every path through the goroutine runs the worker call")
			}
			// more than one Done on a path would release the barrier early
			twice := false
			for _, d := range dones {
				if _, found := pathExists(lit, d, isDone, nil); found {
					twice = true
				}
			}
			c.Check(rule, key+"/done-once", !twice, g.Pos(), "Done() must not be called twice on one path")
			// Done is the last thing the goroutine does: whatever it records (an error, a result)
			// after Done may come after the join has returned and read the shared state
			var lateAt ssa.Instruction
			for _, d := range dones {
				if _, isDefer := d.(*ssa.Defer); isDefer {
					continue
				}
				if hit, found := pathExists(lit, d, func(i2 ssa.Instruction) bool {
					switch t := i2.(type) {
					case *ssa.Store:
						if al, isAl := x.ResolveAddr(t.Addr).(*ssa.Alloc); isAl && al.Parent() == lit {
							return false // a variable of the goroutine itself
						}
						// an element or field of something the goroutine allocated itself (the
						// argument array of a variadic call)
						root := t.Addr
						for k := 0; k < 6; k++ {
							if ia, ok := root.(*ssa.IndexAddr); ok {
								root = ia.X
							} else if fa, ok := root.(*ssa.FieldAddr); ok {
								root = fa.X
							} else {
								break
							}
						}
						if al, isAl := root.(*ssa.Alloc); isAl && al.Parent() == lit {
							return false
						}
						return true
					case *ssa.MapUpdate:
						return true
					case *ssa.Call:
						if _, isB := t.Call.Value.(*ssa.Builtin); isB {
							return false
						}
						if isDone(i2) {
							return false
						}
						// the module's own code (addResult, an evaluator ...), a lock, or a call that
						// cannot be resolved; a library call such as a log line is of no concern
						cal := t.Call.StaticCallee()
						if cal == nil || cal.Pkg == nil {
							return true
						}
						pp := cal.Pkg.Pkg.Path()
						return strings.HasPrefix(pp, modPath) || pp == "sync" || pp == "sync/atomic"
					}
					return false
				}, nil); found {
					lateAt = hit
				}
			}
			latePos := g.Pos()
			if lateAt != nil {
				latePos = lateAt.Pos()
			}
			c.Check(rule, key+"/done-last", lateAt == nil, latePos, "the goroutine still writes shared state, takes a lock or calls the module's own code after Done(): the join may already have returned and read the error list / results without it")
			// error list writes under a lock
			if E != nil {
				eachInstr(lit, func(i2 ssa.Instruction) {
					if st, ok := i2.(*ssa.Store); ok && c.isErrFamAddr(x, E, st.Addr) {
						held := x.heldAt(i2)
						locked := false
						for n := range held {
							if len(n) > 6 && n[:6] == "local:" {
								locked = true
							}
						}
						c.Check(rule, key+"/errlist-locked", locked, i2.Pos(), "append to the shared error list inside a goroutine with locks held: %v", heldNames(held))
					}
				})
			}
		})
	}
	walk(fn, nil)

	// group by WaitGroup
	byWG := map[*ssa.Alloc][]*fanout{}
	var wgs []*ssa.Alloc
	for _, fo := range fos {
		if fo.wg != nil {
			if byWG[fo.wg] == nil {
				wgs = append(wgs, fo.wg)
			}
			byWG[fo.wg] = append(byWG[fo.wg], fo)
		}
	}
	sort.Slice(wgs, func(i, j int) bool { return wgs[i].Pos() < wgs[j].Pos() })
	for wi, w := range wgs {
		group := byWG[w]
		key := fmt.Sprintf("%s#wg%d(%s)", fnName(fn), wi+1, w.Comment)
		if w.Parent() != fn {
			c.Check(rule, key+"/scope", false, w.Pos(), "WaitGroup is not a local of the executing function")
			continue
		}
		var adds, waits []ssa.Instruction
		eachInstrDeep(fn, func(f *ssa.Function, in ssa.Instruction) {
			if wgOp(x, in, "Add") == w {
				adds = append(adds, in)
			}
			if wgOp(x, in, "Wait") == w {
				waits = append(waits, in)
			}
		})
		// an Add is either the one count taken before the fan-out, or `Add(1)` in the fan-out
		// loop itself: once per iteration, before that iteration's go statement
		perIter := map[*fanout]ssa.Instruction{}
		var bulk []ssa.Instruction
		foreign := false
		for _, a := range adds {
			if a.Parent() != fn {
				foreign = true
				continue
			}
			matched := false
			for _, fo := range group {
				if fo.topGo != ssa.Instruction(fo.goStmt) || fo.loop == nil || perIter[fo] != nil {
					continue
				}
				if !fo.loop.Blocks[a.Block()] || x.InnermostLoop(a.Block()) != fo.loop {
					continue
				}
				if x.symInt(a.(*ssa.Call).Call.Args[1]).equal(constForm(1)) && domInstr(a, fo.goStmt) && len(x.GuardsOfInLoop(a.Block())) == 0 {
					perIter[fo] = a
					matched = true
					break
				}
			}
			if !matched {
				bulk = append(bulk, a)
			}
		}
		var rest []*fanout
		for _, fo := range group {
			if perIter[fo] == nil {
				rest = append(rest, fo)
			}
		}
		if foreign || len(bulk) > 1 || (len(bulk) == 0 && len(rest) > 0) || (len(bulk) == 1 && len(rest) == 0) {
			c.Check(rule, key+"/add", false, w.Pos(), "expected one Add on %s before the fan-out (or Add(1) at the head of each iteration of a fan-out loop) in the executing function, found %d", w.Comment, len(adds))
			continue
		}
		var add ssa.Instruction
		if len(bulk) == 1 {
			add = bulk[0]
		} else {
			add = perIter[group[0]]
		}
		// Add dominates every fan-out of the group and is outside their loops
		addOK := true
		for _, fo := range rest {
			if !domInstr(add, fo.topGo) {
				addOK = false
			}
			if fo.topGo == ssa.Instruction(fo.goStmt) && fo.loop != nil && fo.loop.Blocks[add.Block()] {
				addOK = false
			}
		}
		// every loop containing Add must contain the fan-outs too
		if len(bulk) == 1 {
			for _, l := range x.EnclosingLoops(add.Block()) {
				for _, fo := range group {
					if !l.Blocks[fo.topGo.Block()] {
						addOK = false
					}
				}
			}
		}
		c.Check(rule, key+"/add-before", addOK, add.Pos(), "Add must run once, before the goroutines are started")
		// count agreement
		total := constForm(0)
		countable := true
		for _, fo := range group {
			if fo.ranged == nil {
				countable = false
				continue
			}
			if perIter[fo] != nil {
				continue // one Add(1) and one go statement per iteration
			}
			fx := x
			if fo.isMap {
				total = total.add(atomForm("len("+fx.canon(fo.ranged)+")"), 1)
			} else {
				total = total.add(fx.symLen(fo.ranged), 1)
			}
		}
		if len(bulk) == 1 {
			n := x.symInt(add.(*ssa.Call).Call.Args[1])
			c.Check(rule, key+"/count", countable && n.equal(total), add.Pos(), "Add(%s) against %s goroutines started", n, total)
		} else {
			c.Check(rule, key+"/count", countable, add.Pos(), "Add(1) per iteration against one goroutine per iteration")
		}
		// the fan-out loop of a fan-out (as opposed to a loop around the whole stage)
		fanLoop := func(fo *fanout, tl *Loop) bool {
			if tl == nil {
				return false
			}
			if perIter[fo] != nil {
				return tl == fo.loop
			}
			return !tl.Blocks[add.Block()]
		}
		// barrier
		if len(waits) == 0 {
			c.Check(rule, key+"/wait", false, add.Pos(), "nobody waits for %s", w.Comment)
			continue
		}
		isWait := func(in ssa.Instruction) bool {
			for _, wt := range waits {
				if wt == in {
					return true
				}
			}
			return false
		}
		inGroup := func(in ssa.Instruction) bool {
			for _, fo := range group {
				if fo.topGo == in {
					return true
				}
			}
			return false
		}
		// region ends: exits of the loops holding top-level go statements, or the go statement itself
		var starts []ssa.Instruction
		for _, fo := range group {
			tl := x.InnermostLoop(fo.topGo.Block())
			if fanLoop(fo, tl) {
				for _, t := range tl.exitTargets() {
					starts = append(starts, t.Instrs[0])
				}
			} else {
				starts = append(starts, fo.topGo)
			}
		}
		// loop heads that enclose the fan-out but not... (next layer)
		var heads []ssa.Instruction
		for _, fo := range group {
			tl := x.InnermostLoop(fo.topGo.Block())
			for _, l := range x.EnclosingLoops(fo.topGo.Block()) {
				if l != tl || !fanLoop(fo, tl) {
					// an enclosing loop (DAG layers): reaching its head again starts the next round
					heads = append(heads, l.Head.Instrs[0])
				}
			}
		}
		bad := ""
		var badPos token.Pos
		for _, s := range starts {
			target := func(in ssa.Instruction) bool {
				if isReturn(in) {
					return true
				}
				if c.joinBeforeReturnOnly {
					// asked only whether the goroutines are joined before the method returns
					return false
				}
				if _, ok := in.(*ssa.Go); ok && !inGroup(in) {
					return true
				}
				if call, ok := in.(*ssa.Call); ok && isWorker(call) {
					return true
				}
				if u, ok := in.(*ssa.UnOp); ok && u.Op == token.MUL && E != nil && c.isErrFamAddr(x, E, u.X) {
					return true
				}
				for _, h := range heads {
					if h == in {
						return true
					}
				}
				return false
			}
			var hit ssa.Instruction
			var found bool
			// (ways a flag or a condition tested twice rules out are not followed: `if !b { wg.Wait() } ..
			// if b { wg.Wait() }` joins on every way)
			if s == ssa.Instruction(s) && inGroup(s) {
				hit, found = x.pathExistsFlags(fn, s, target, nil, isWait)
			} else {
				hit, found = x.pathExistsFlagsAt(fn, s.Block(), instrIdx(s), target, nil, isWait)
			}
			if found {
				bad = fmt.Sprintf("%T", hit)
				switch hit.(type) {
				case *ssa.Return:
					bad = "a return"
				case *ssa.Go:
					bad = "the next fan-out"
				case *ssa.Call:
					bad = "a later rule execution"
				case *ssa.UnOp:
					bad = "a read of the error list"
				default:
					bad = "the next layer"
				}
				badPos = hit.Pos()
				break
			}
		}
		c.Check(rule, key+"/barrier", bad == "", badPos, "after the fan-out, %s at %s is reachable without passing %s.Wait()", bad, c.pos(badPos), w.Comment)
	}
	// spawners must belong to some group's top go
	_ = spawners
	return fos
}

// loopWithin: loop l does not contain instruction in (used to tell the fan-out loop from enclosing loops).
func (x *FnIndex) loopWithin(l *Loop, in ssa.Instruction) bool {
	return !l.Blocks[in.Block()]
}

// isErrFamAddr: addr is the list of messages e or one whose content is handed on into it.
func (c *Ctx) isErrFamAddr(x *FnIndex, e *ssa.Alloc, addr ssa.Value) bool {
	al, ok := x.ResolveAddr(addr).(*ssa.Alloc)
	return ok && c.inErrFamily(e, al)
}
