package main

import (
	"fmt"

	"golang.org/x/tools/go/ssa"
)

func init() {
	register("C04", runC04, propMeta{
		Explanation: "Decides, for every rule set, the loop discipline of the sort model and its sorted selected variants: (O1) every sort of rule entities in the product orders by Salience descending on the slice being sorted; (O2) the slice each sequential loop ranges over is the container's SortRules or a local slice on which such a sort lies on every path (except when shorter than 2); (O3, rule A3) exactly one RuleEntity.Execute per iteration on the ranged element, its error tested on every path, the only ways out of the loop are the loop end, `err != nil && !continueOnError -> return non-nil error with nothing else running`, and the stop-tag break; with continue-on-error a failure is appended to the error list on every path to the next iteration; (O4) after the loop a nil error is returned only where the error list is known to be empty and a new error where it is non-empty. The builder's sort that produces SortRules is checked by O1 too. Not decided: that sort.SliceStable sorts (trusted), rule bodies. In the full build no path from the entry to the installing store avoids the sort, except over an edge on which a length test bounds the list to fewer than two rules. The pool's sort-model methods call the engine method of their own name with their own arguments, each in its place (O7). (O8) RuleEntity.Salience, the key of every sort, is stored only by the entity's own Accept method and with the value it is given: no second writer can replace the number written in the rule text. (O9) a conc statement returns only after the join of all its branches, so a rule has finished when RuleEntity.Execute returns and the next rule, or the caller, does not run beside it.",
		Assumptions: []string{"sort.SliceStable is a stable sort by the given less function", "RuleEntity.Execute runs the rule once (C02/C09)"},
		Trusted:     commonTrusted,
	})
}

var c04Fns = []string{"Execute", "ExecuteWithStopTagDirect", "ExecuteSelectedRules", "ExecuteSelectedRulesWithControl", "ExecuteSelectedRulesWithControlAndStopTag"}
var c04PolicyOnly = []string{"ExecuteSelectedRulesWithControlAsGivenSortedName", "ExecuteSelectedRulesWithControlAndStopTagAsGivenSortedName"}

func runC04(c *Ctx) {
	// the pool's sort-model methods hand the model's error to their caller
	c.armPoolError("O6-pool-reports-the-error", func(m string) bool {
		switch m {
		case "Execute", "ExecuteWithStopTagDirect", "ExecuteSelectedRules", "ExecuteSelectedRulesWithControl", "ExecuteSelectedRulesWithControlAndStopTag", "ExecuteSelectedRulesWithControlAsGivenSortedName", "ExecuteSelectedRulesWithControlAndStopTagAsGivenSortedName":
			return true
		}
		return false
	}, 7)
	// ... and hand their own arguments to the engine method of the same name, each in its place
	c.armPoolArgs("O7-pool-passes-its-arguments", func(m string) bool {
		switch m {
		case "Execute", "ExecuteSelectedRules", "ExecuteSelectedRulesWithControl", "ExecuteSelectedRulesWithControlAsGivenSortedName":
			return true
		}
		return false
	}, 4)

	c.ruleO1("O1-comparator-descending")
	c.Min("O1-comparator-descending", 10)
	for _, n := range append(append([]string{}, c04Fns...), c04PolicyOnly...) {
		fn := c.MustFn("O3-loop-discipline", "engine", "Gengine", n)
		if fn == nil {
			continue
		}
		loops := c.ruleA3("O3-loop-discipline", fn)
		if len(loops) != 1 {
			c.Check("O3-loop-discipline", fnName(fn)+"#one-loop", false, fn.Pos(), "expected exactly one sequential rule loop, found %d", len(loops))
		}
		c.ruleErrSurface("O4-errors-surface", fn)
		sorted := true
		for _, p := range c04PolicyOnly {
			if p == n {
				sorted = false
			}
		}
		if sorted {
			for _, sl := range loops {
				if sl.ranged == nil {
					continue
				}
				var before ssa.Instruction = sl.loop.Head.Instrs[0]
				kind, what := c.orderSource(fn, sl.ranged, before)
				c.Check("O2-order-source", sl.site.key(), kind == "container" || kind == "sorted-local", sl.site.call.Pos(), "loop ranges over %s (%s)", what, kind)
				x := c.Index(fn)
				base, lo, hi := x.sliceInterval(sl.ranged)
				whole := lo.equal(constForm(0)) && hi.equal(x.symLen(base))
				c.Check("O2-whole-list", sl.site.key(), whole, sl.site.call.Pos(), "loop covers [%s, %s) of %s; every rule must run, so it has to be the whole list", lo, hi, x.Describe(base))
			}
		}
	}
	// the list the sort model ranges is kept sorted by the builder: necessary conditions of the
	// incremental insertion (shared with C08) — search direction, insertion form and position, index upkeep
	c.ruleBinarySearch("O2-incremental-keeps-order")
	if f := c.MustFn("O2-incremental-keeps-order", "builder", "RuleBuilder", "BuildRuleWithIncremental"); f != nil {
		c.mergeModel("O2-incremental-keeps-order", f)
	}
	if f := c.MustFn("O2-incremental-keeps-order", "engine", "", "updateIncremental"); f != nil {
		c.mergeModel("O2-incremental-keeps-order", f)
	}
	c.ruleFullBuildAndRemoval("O2-full-build-and-removal-sorted")
	// the error policy acts on what RuleEntity.Execute reports: a rule that fails by a fault
	// inside the interpreter must come back as a failed rule (error set, shared with C09-R1)
	if f := c.MustFn("O5-failure-reported", "internal/base", "RuleEntity", "Execute"); f != nil {
		ok, why := c.panicSafe(f)
		c.Check("O5-failure-reported", "RuleEntity.Execute", ok, f.Pos(), "%s", why)
	}
	c.ruleSalienceAsWritten("O8-salience-as-written")
	// "rules run one at a time": a rule has finished when RuleEntity.Execute returns only if a conc block
	// in it returns after the join of all its branches (C18-J1) -- a block that leaves on the first failure
	// lets the next rule start, or the call return, while branches of the failed rule still run
	c.armConcJoin("O9-rule-complete-when-it-returns")
	c.Min("O2-incremental-keeps-order", 30)
	c.Min("O3-loop-discipline", 40)
	c.Min("O2-order-source", 5)
	c.Min("O4-errors-surface", 20)
}

// ruleSalienceAsWritten: the key every sort orders by is the number written in the rule's text.
// RuleEntity.Salience is stored only by the entity's own Accept method, with the value it is
// given (the listener hands it strconv.ParseInt of the literal's text, sign included: E5/G3);
// any other writer replaces the key after it was compiled.
func (c *Ctx) ruleSalienceAsWritten(rule string) {
	nAccept := 0
	for _, f := range c.AllFns {
		if f.Pkg == nil {
			continue
		}
		x := c.Index(f)
		k := 0
		eachInstr(f, func(in ssa.Instruction) {
			st, ok := in.(*ssa.Store)
			if !ok {
				return
			}
			fa, ok := st.Addr.(*ssa.FieldAddr)
			if !ok || structName(fa.X.Type()) != "RuleEntity" || fieldOf(fa).Name() != "Salience" {
				return
			}
			k++
			root := rootOf(f)
			if f.Pkg.Pkg.Path() == pBase && recvName(root) == "RuleEntity" && len(root.Name()) > 6 && root.Name()[:6] == "Accept" {
				given := false
				for _, p := range f.Params[1:] {
					if x.Unwrap(st.Val) == ssa.Value(p) {
						given = true
					}
				}
				nAccept++
				c.Check(rule, fmt.Sprintf("%s#stores-what-it-is-given", fnName(f)), given, in.Pos(), "the entity's salience must be exactly the value handed to %s, got %s", fnName(f), x.Describe(st.Val))
				return
			}
			// an entity the function has just made may be given its default
			if _, fresh := x.Origin(fa.X).(*ssa.Alloc); fresh {
				if _, isK := x.Origin(st.Val).(*ssa.Const); isK {
					return
				}
			}
			c.Check(rule, fmt.Sprintf("%s#salience-store%d", fnName(f), k), false, in.Pos(), "RuleEntity.Salience is written outside the entity's Accept method: the rule is then ordered by something else than the salience written in its text")
		})
	}
	c.Check(rule, "RuleEntity.Salience#set-by-accept", nAccept >= 1, 0, "no Accept method of RuleEntity stores the salience (%d found)", nAccept)
}
