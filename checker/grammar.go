package main

// grammar.go — A11: facts read from the generated parser (type-checked like any other file).

import (
	"go/ast"
	"go/token"
	"sort"
	"strconv"
	"strings"

	"golang.org/x/tools/go/ssa"
)

// literalNames returns the parser's literalNames table (index = token type).
func (c *Ctx) literalNames() []string {
	p := c.Pkgs[pParser]
	if p == nil {
		return nil
	}
	var out []string
	for _, file := range p.Syntax {
		if !strings.HasSuffix(c.Fset.Position(file.Pos()).Filename, "gengine_parser.go") {
			continue
		}
		ast.Inspect(file, func(n ast.Node) bool {
			vs, ok := n.(*ast.ValueSpec)
			if !ok || len(vs.Names) != 1 || vs.Names[0].Name != "literalNames" || len(vs.Values) != 1 {
				return true
			}
			cl, ok := vs.Values[0].(*ast.CompositeLit)
			if !ok {
				return true
			}
			for _, e := range cl.Elts {
				if bl, ok := e.(*ast.BasicLit); ok && bl.Kind == token.STRING {
					s, _ := strconv.Unquote(bl.Value)
					out = append(out, strings.Trim(s, "'"))
				} else {
					out = append(out, "")
				}
			}
			return false
		})
	}
	return out
}

// ruleTokenTypes: the token types a rule's context offers accessors for
// (func (s *XContext) TOKEN() antlr.TerminalNode { return s.GetToken(gengineParserTOKEN, 0) }).
func (c *Ctx) ruleTokenTypes(rule string) []int64 {
	var out []int64
	seen := map[int64]bool{}
	for _, f := range c.Methods("internal/iantlr/alr", rule+"Context") {
		eachInstr(f, func(in ssa.Instruction) {
			call, ok := in.(*ssa.Call)
			if !ok || call.Call.StaticCallee() == nil || call.Call.StaticCallee().Name() != "GetToken" || len(call.Call.Args) != 3 {
				return
			}
			if k, ok := constInt(call.Call.Args[1]); ok && !seen[k] {
				seen[k] = true
				out = append(out, k)
			}
		})
	}
	sort.Slice(out, func(i, j int) bool { return out[i] < out[j] })
	return out
}

// ruleLiterals: the literal spellings of the tokens of an operator rule.
func (c *Ctx) ruleLiterals(rule string) []string {
	ln := c.literalNames()
	var out []string
	for _, k := range c.ruleTokenTypes(rule) {
		if int(k) < len(ln) && ln[k] != "" {
			out = append(out, ln[k])
		}
	}
	sort.Strings(out)
	return out
}
