package main

import (
	"fmt"
	"go/token"
	"go/types"
	"sort"
	"strings"

	"golang.org/x/tools/go/ssa"
)

func init() {
	register("C18", runC18, propMeta{
		Explanation: "Decides, for every conc block and every interleaving of its goroutines, the fork/join shape of ConcStatement.Evaluate: (J1, rule A4) Add(l) with l equal, as a symbolic sum, to len of the four child slices; four spawner goroutines each range exactly one of the four slices (exhaustive over the slice fields of ConcStatement) and start one worker goroutine per element, which evaluates its own per-iteration copy exactly once and reaches Done once on all paths; Wait() lies on every path from the spawners to any return and to any read of the error list; (J2) every worker's error is tested on all paths and appended to the shared list under the local mutex, and after the join a non-empty list yields a new error, a nil error is returned only with the list known empty; (J3) Statement.Evaluate calls ConcStatement.Evaluate synchronously and returns its error, so the next statement starts after the join; (J4) every index, update, delete or range of a map[string]reflect.Value (the local-variable store and the injected table) happens in package context with the matching mutex (lockVars / lockBase) held; (J5) the listener's four Accept* methods of ConcStatement append their child unconditionally. (J8) the evaluators of the four kinds of children defer a function that itself calls recover() and turns a panic into their error result: on the child's own goroutine nothing else could. (J7) the ConcStatement the listener takes off its stack at the end of a conc block is handed to the enclosing statement on every path, so the block that runs has the children that were written. Not decided: effects of the child statements themselves (C02/C03).",
		Assumptions: []string{"sync.WaitGroup and sync.Mutex contracts"},
		Trusted:     commonTrusted,
	})
}

func isBaseEvaluate(call *ssa.Call) bool {
	f := call.Call.StaticCallee()
	if f == nil || f.Name() != "Evaluate" || f.Pkg == nil || f.Pkg.Pkg.Path() != pBase {
		return false
	}
	switch recvName(f) {
	case "Assignment", "FunctionCall", "MethodCall", "ThreeLevelCall":
		return true
	}
	return false
}

func isVarsMapType(t types.Type) bool {
	m, ok := t.Underlying().(*types.Map)
	if !ok {
		return false
	}
	b, ok := m.Key().Underlying().(*types.Basic)
	return ok && b.Kind() == types.String && isReflectValue(m.Elem())
}

// ruleStoresLocked (J4 / C19): accesses to map[string]reflect.Value values.
func (c *Ctx) ruleStoresLocked(rule string) {
	n := 0
	for _, f := range c.AllFns {
		x := c.Index(f)
		k := 0
		eachInstr(f, func(in ssa.Instruction) {
			var mv ssa.Value
			kind := ""
			switch t := in.(type) {
			case *ssa.MapUpdate:
				mv, kind = t.Map, "write"
			case *ssa.Lookup:
				mv, kind = t.X, "read"
			case *ssa.Range:
				mv, kind = t.X, "range"
			case *ssa.Call:
				if b, ok := t.Call.Value.(*ssa.Builtin); ok && (b.Name() == "delete" || b.Name() == "len") && len(t.Call.Args) > 0 {
					mv, kind = t.Call.Args[0], b.Name()
				}
			}
			if mv == nil || !isVarsMapType(mv.Type()) {
				return
			}
			n++
			k++
			key := fmt.Sprintf("%s#%s%d", fnName(f), kind, k)
			if f.Pkg == nil || f.Pkg.Pkg.Path() != pContext {
				c.Check(rule, key, false, in.Pos(), "a map[string]reflect.Value (local-variable store / injected table) is accessed outside package context, where no lock protects it")
				return
			}
			want := "DataContext.lockVars"
			what := "local-variable store"
			if _, ok := x.isFieldLoad(mv, "DataContext", "base"); ok {
				want, what = "DataContext.lockBase", "injected table"
			}
			held := x.heldAt(in)
			hk, ok := held[want]
			if ok && (kind == "write" || kind == "delete") && hk != "Lock" {
				ok = false
			}
			c.Check(rule, key, ok, in.Pos(), "%s of the %s with locks held %v (need %s, exclusively for writes)", kind, what, heldKinds(held), want)
		})
	}
	if n == 0 {
		c.Lost(rule, "accesses to map[string]reflect.Value")
	}
}

func runC18(c *Ctx) {
	fn := c.MustFn("J1-fork-join", "internal/base", "ConcStatement", "Evaluate")
	if fn == nil {
		return
	}
	x := c.Index(fn)
	m := c.engModel(fn)
	E := m.errList()
	fos := c.ruleA4("J1-fork-join", fn, isBaseEvaluate, E)
	c.Min("J1-fork-join", 23)
	// exhaustive over the slice fields of ConcStatement
	want := map[string]bool{}
	if t := c.SSA[pBase].Type("ConcStatement"); t != nil {
		st := t.Type().Underlying().(*types.Struct)
		for i := 0; i < st.NumFields(); i++ {
			if _, ok := st.Field(i).Type().Underlying().(*types.Slice); ok {
				want[st.Field(i).Name()] = true
			}
		}
	}
	got := map[string]int{}
	for _, fo := range fos {
		if fo.ranged == nil {
			continue
		}
		if base, ok := x.Origin(fo.ranged).(*ssa.UnOp); ok {
			if fa, ok := base.X.(*ssa.FieldAddr); ok && structName(fa.X.Type()) == "ConcStatement" {
				if _, isRecv := x.Origin(fa.X).(*ssa.Parameter); isRecv {
					got[fieldOf(fa).Name()]++
				}
			}
		}
	}
	var names []string
	for n := range want {
		names = append(names, n)
	}
	sort.Strings(names)
	for _, n := range names {
		c.Check("J1-every-category", "ConcStatement."+n, got[n] == 1, fn.Pos(), "child slice %s is started by %d fan-out loop(s) (want exactly one)", n, got[n])
	}
	c.Min("J1-every-category", 4)
	// worker receiver type must match the element type (each child evaluated by its own Evaluate)
	// J2: worker errors
	for i, fo := range fos {
		if fo.worker == nil {
			continue
		}
		key := fmt.Sprintf("%s#go%d", fnName(fn), i+1)
		lit := fo.lit
		var errIf *ssa.If
		eachInstr(lit, func(in ssa.Instruction) {
			if iff, ok := in.(*ssa.If); ok {
				if s, neq, ok := nilCheck(iff.Cond); ok && neq {
					if ex, ok := x.Origin(s).(*ssa.Extract); ok && ex.Tuple == ssa.Value(fo.worker) && ex.Index == 1 {
						errIf = iff
					}
				}
			}
		})
		if errIf == nil {
			c.Check("J2-no-error-lost", key, false, fo.worker.Pos(), "the error of the child statement is never tested")
			continue
		}
		_, skip := pathExists(lit, fo.worker, isReturn, func(in ssa.Instruction) bool { return in == ssa.Instruction(errIf) })
		_, unrecorded := pathFrom(errIf.Block().Succs[0].Instrs[0], isReturn, func(in ssa.Instruction) bool { return m.isErrListStore(in, E) })
		c.Check("J2-no-error-lost", key, !skip && !unrecorded && E != nil, fo.worker.Pos(), "a failing child statement must be appended to the block's error list on every path")
	}
	c.Min("J2-no-error-lost", 4)
	c.ruleErrSurface("J2-errors-surface", fn)
	// J3
	st := c.MustFn("J3-synchronous", "internal/base", "Statement", "Evaluate")
	if st != nil {
		sx := c.Index(st)
		found := false
		eachInstr(st, func(in ssa.Instruction) {
			call, ok := in.(*ssa.Call)
			if !ok || !calleeIs(call, pBase, "ConcStatement", "Evaluate") {
				return
			}
			// its error is returned
			ret := false
			eachInstr(st, func(i2 ssa.Instruction) {
				if r, ok := i2.(*ssa.Return); ok {
					for _, pv := range sx.PossibleValues(r.Results[1]) {
						if ex, ok := pv.V.(*ssa.Extract); ok && ex.Tuple == ssa.Value(call) && ex.Index == 1 {
							ret = true
						}
					}
				}
			})
			found = ret
		})
		c.Check("J3-synchronous", "Statement.Evaluate->ConcStatement.Evaluate", found, st.Pos(), "the conc block must be evaluated by a plain call whose error is returned")
	}
	c.ruleStoresLocked("J4-stores-locked")
	c.Min("J4-stores-locked", 20)
	c.ruleLocalsUpdatedAtomically("J6-locals-updated-atomically")
	c.Min("J6-locals-updated-atomically", 1)
	// J5
	for _, n := range []string{"AcceptAssignment", "AcceptFunctionCall", "AcceptMethodCall", "AcceptThreeLevelCall"} {
		f := c.MustFn("J5-children-attached", "internal/base", "ConcStatement", n)
		if f == nil {
			continue
		}
		fx := c.Index(f)
		ok := false
		branches := 0
		eachInstr(f, func(in ssa.Instruction) {
			if _, isIf := in.(*ssa.If); isIf {
				branches++
			}
			if stt, isSt := in.(*ssa.Store); isSt {
				if fa, isFA := stt.Addr.(*ssa.FieldAddr); isFA && structName(fa.X.Type()) == "ConcStatement" {
					if args, isApp := builtinCall(stt.Val, "append"); isApp {
						if b, okb := fx.isFieldLoad(args[0], "ConcStatement", fieldOf(fa).Name()); okb && b != nil {
							if el := fx.appendedSingle(args[1]); el != nil {
								if _, isP := fx.Origin(el).(*ssa.Parameter); isP {
									ok = true
								}
							}
						}
					}
				}
			}
		})
		c.Check("J5-children-attached", "ConcStatement."+n, ok && branches == 0, f.Pos(), "the child must be appended to its slice unconditionally")
	}
	// J7: the block that runs is the block that was written: the ConcStatement the listener takes off its
	// stack at the end of a conc block is handed to the enclosing statement on every path (the attach rule
	// of C02-S9 / C10-K6 for this handler) -- a handler that replaces a "single-statement" block by its
	// one child while counting only three of the four kinds of children drops the others at compile time
	c.only = func(key string) bool { return strings.Contains(key, "ExitConcStatement#") }
	c.ruleListenerAttach("J7-conc-block-compiled-as-written")
	c.only = nil
	c.Min("J7-conc-block-compiled-as-written", 1)
	// J8: a child that faults fails the block, it does not kill the process: each of the four kinds of children
	// runs on a goroutine of its own, where nothing above it can recover; its evaluator defers a function that
	// calls recover() itself and turns the panic into the error the block collects (C09-R1 for these four)
	for _, spec := range [][2]string{{"Assignment", "Evaluate"}, {"FunctionCall", "Evaluate"}, {"MethodCall", "Evaluate"}, {"ThreeLevelCall", "Evaluate"}} {
		if f := c.MustFn("J8-child-fault-fails-the-block", "internal/base", spec[0], spec[1]); f != nil {
			ok, why := c.panicSafe(f)
			c.Check("J8-child-fault-fails-the-block", fnName(f), ok, f.Pos(), "%s", why)
		}
	}
	c.Min("J8-child-fault-fails-the-block", 4)
	_ = strings.Join
}

// ruleLocalsUpdatedAtomically (J6): two children of a conc block may assign the same local (different fields
// of a struct kept by value, say). A new table entry computed from the entry read before must be stored in
// the critical section that read it: a read under lockVars, an unlock, and a later locked store of a value
// derived from that read lets a sibling's store in between be overwritten -- an assignment the statement
// after the block never observes.
func (c *Ctx) ruleLocalsUpdatedAtomically(rule string) {
	n := 0
	for _, f := range c.AllFns {
		if f.Pkg == nil || f.Pkg.Pkg.Path() != pContext {
			continue
		}
		x := c.Index(f)
		var reads []*ssa.Lookup
		var writes []*ssa.MapUpdate
		eachInstr(f, func(in ssa.Instruction) {
			switch t := in.(type) {
			case *ssa.Lookup:
				if isVarsMapType(t.X.Type()) {
					if _, isBase := x.isFieldLoad(t.X, "DataContext", "base"); !isBase {
						reads = append(reads, t)
					}
				}
			case *ssa.MapUpdate:
				if isVarsMapType(t.Map.Type()) {
					if _, isBase := x.isFieldLoad(t.Map, "DataContext", "base"); !isBase {
						writes = append(writes, t)
					}
				}
			}
		})
		for wi, w := range writes {
			n++
			// the reads the stored value is computed from
			from := map[*ssa.Lookup]bool{}
			seen := map[ssa.Value]bool{}
			var slice func(v ssa.Value, d int)
			slice = func(v ssa.Value, d int) {
				if v == nil || d > 12 || seen[v] {
					return
				}
				seen[v] = true
				switch t := v.(type) {
				case *ssa.Lookup:
					for _, r := range reads {
						if r == t {
							from[r] = true
						}
					}
					return
				case *ssa.UnOp:
					if t.Op == token.MUL {
						if _, isAl := x.ResolveAddr(t.X).(*ssa.Alloc); isAl {
							for _, pv := range x.PossibleValues(t) {
								if pv.V != nil {
									slice(pv.V, d+1)
								}
							}
							return
						}
					}
				}
				if in, isIn := v.(ssa.Instruction); isIn {
					for _, op := range in.Operands(nil) {
						if *op != nil {
							slice(*op, d+1)
						}
					}
				}
			}
			slice(w.Value, 0)
			bad := ""
			for r := range from {
				// same critical section: no unlock of the locals lock on the way from the read to the store
				if hit, found := pathExists(f, r, func(in ssa.Instruction) bool {
					_, m, recv, ok := syncCall(in)
					return ok && (m == "Unlock" || m == "RUnlock") && x.mutexName(recv) == "DataContext.lockVars"
				}, func(in ssa.Instruction) bool { return in == ssa.Instruction(w) }); found {
					if _, reaches := pathExists(f, hit, func(in ssa.Instruction) bool { return in == ssa.Instruction(w) }, nil); reaches {
						bad = "the entry read at " + c.pos(r.Pos()) + " is released (" + c.pos(hit.Pos()) + ") before the value computed from it is stored"
					}
				}
			}
			c.Check(rule, fmt.Sprintf("%s#store%d", fnName(f), wi+1), bad == "", w.Pos(), "%s", orStr(bad, "not computed from an entry read in another critical section"))
		}
	}
	if n == 0 {
		c.Lost(rule, "stores into the locals table in package context")
	}
}
