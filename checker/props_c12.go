package main

import (
	"go/token"
	"strings"

	"golang.org/x/tools/go/ssa"
)

func init() {
	register("C12", runC12, propMeta{
		Explanation: "Decides, for all rule sets and name lists, how the 11 ExecuteSelected* functions choose and order rules: (N1) the local rule slice is filled only by appending, on the ok-edge, the hit of a comma-ok lookup of each caller-supplied name (ranged forward) in the container's name map, and has no other store; the looked-up value is never used on the miss edge (no nil dereference); (N3) every rule execution and go statement is dominated by the knowledge that the slice is non-empty and the empty case returns a new error; (N4) in the selected N-M variants a miss returns a new error with nothing running and n+m == len(names) is checked first; (N2) sorted variants sort that slice (descending salience, C04-O1) on every path before ranging it, the AsGivenSortedName variants contain no sort of it at all; (N5) every stage, and every synchronous single execution, takes its rules from that slice — the whole of it for the sort/concurrent variants, the partitions/windows checked in C05 for mix, inverse-mix and N-M. Not decided: rule bodies. The pool's selected methods call the engine method of their own name with their own arguments, each in its place (N8). (N9) the pool's dispatcher by execution model hands a selection to the selected method of that model only. (N10) a faulting rule fails. (N11) a removal installs a fresh container whose name map, sorted list and index hold exactly the rules not named: a removed rule is an unknown name. (N12) every way through one step of the incremental merge writes the name map as well as the list, so a selected call finds the version the update installed.",
		Assumptions: []string{"Go map lookup semantics", "sort.SliceStable"},
		Trusted:     commonTrusted,
	})
}

func selectedFns(c *Ctx) []*ssa.Function {
	var out []*ssa.Function
	for _, f := range c.engineExecFns() {
		if strings.HasPrefix(f.Name(), "ExecuteSelected") {
			out = append(out, f)
		}
	}
	return out
}

func runC12(c *Ctx) {
	// the pool's selected methods hand the model's error to their caller
	c.armPoolError("N7-pool-reports-the-error", func(m string) bool { return strings.HasPrefix(m, "ExecuteSelected") }, 10)
	// ... and hand their own arguments to the engine method of the same name, each in its place
	c.armPoolArgs("N8-pool-passes-its-arguments", func(m string) bool {
		return strings.HasPrefix(m, "ExecuteSelected") && !strings.HasSuffix(m, "WithSpecifiedEM")
	}, 10)
	// the pool's dispatcher by execution model hands a selection to the selected method of that model and to
	// nothing else: with no names it must not fall back on the whole-set method (the dispatch table of C16-Q5)
	c.only = func(key string) bool { return strings.HasPrefix(key, "GenginePool.ExecuteSelectedWithSpecifiedEM#") }
	c.ruleModelTable("N9-selected-dispatch-runs-the-selection-only")
	c.only = nil
	c.Min("N9-selected-dispatch-runs-the-selection-only", 4)
	// "the named rules that exist" are looked up in the name map, the order comes from the rule found
	// there: after an incremental update both are the new version only if every way through one merge
	// step writes the name map as well as the list (the merge model of C08-H2..H5 on both copies)
	for _, spec := range [][3]string{{"builder", "RuleBuilder", "BuildRuleWithIncremental"}, {"engine", "", "updateIncremental"}} {
		if f := c.MustFn("N12-name-map-follows-the-update", spec[0], spec[1], spec[2]); f != nil {
			c.mergeModel("N12-name-map-follows-the-update", f)
		}
	}
	c.Min("N12-name-map-follows-the-update", 30)
	// a rule that faults fails: RuleEntity.Execute turns a panic of the rule body into its (named) error
	// result (C09-R1 for this function); without that a faulting rule counts as a success and whatever the
	// model makes depend on "nothing before failed" runs all the same
	if f := c.MustFn("N10-a-faulting-rule-fails", "internal/base", "RuleEntity", "Execute"); f != nil {
		ok, why := c.panicSafe(f)
		c.Check("N10-a-faulting-rule-fails", "RuleEntity.Execute", ok, f.Pos(), "%s", why)
	}
	// "exactly the named rules that exist": a name exists while the name map of the installed container holds
	// it; a removal installs a fresh container whose name map, sorted list and index hold exactly the rules
	// not named (C04-O2 / C08-H6) -- a removed rule left in the name map is still found by every selected call
	c.ruleFullBuildAndRemoval("N11-removed-rules-are-unknown")

	fns := selectedFns(c)
	if len(fns) < 11 {
		c.Lost("N1-selection", "the 11 (*Gengine).ExecuteSelected* functions")
	}
	for _, fn := range fns {
		n := fn.Name()
		x := c.Index(fn)
		isNM := strings.HasPrefix(n, "ExecuteSelectedN")
		asGiven := strings.HasSuffix(n, "AsGivenSortedName")
		policy := "skip"
		if isNM {
			policy = "fail"
		}
		sel := c.ruleSelection("N1-selection", fn, policy)
		if sel == nil {
			continue
		}
		// names come from the caller's []string parameter
		for i, lk := range sel.lookups {
			s, _, ok := x.rangedSlice(lk.Index)
			isParam := false
			if ok {
				_, isParam = x.Origin(s).(*ssa.Parameter)
			}
			c.Check("N1-names-from-caller", fmtKey(fnName(fn), "lookup", i+1), isParam, lk.Pos(), "names looked up: %s", sel.keySrc[i])
		}
		if !isNM {
			c.ruleNonEmptySelection("N3-nothing-selected", fn, sel)
		}
		m := c.engModel(fn)
		E := m.errList()
		loops := m.syncLoopSites()
		fos := c.fanoutsQuiet(fn)
		stages := stagesOf(loops, fos)
		// N5: sources
		for i, st := range stages {
			ok := false
			whole := false
			if st.ranged != nil {
				base, lo, hi := x.sliceInterval(st.ranged)
				ok = x.Cell(base) == sel.cell
				whole = lo.equal(constForm(0)) && hi.equal(x.symLen(base))
			}
			c.Check("N5-from-selected-set", fmtKey(fnName(fn), "stage", i+1), ok, st.pos, "stage %d must take its rules from the selected slice %s", i+1, sel.cell.Comment)
			simple := !isNM && !strings.Contains(n, "MixModel")
			if simple {
				c.Check("N5-whole-selection", fmtKey(fnName(fn), "stage", i+1), whole, st.pos, "every selected rule must run: the stage has to range the whole selected slice")
			}
		}
		if len(stages) == 0 {
			c.Check("N5-from-selected-set", fnName(fn)+"#stages", false, fn.Pos(), "no execution stage found")
		}
		for _, e := range m.execs {
			if e.in != fn || x.InnermostLoop(e.call.Block()) != nil {
				continue
			}
			ok := false
			if u, isU := e.recv.(*ssa.UnOp); isU {
				if ia, isIA := u.X.(*ssa.IndexAddr); isIA {
					ok = x.Cell(ia.X) == sel.cell
				}
			}
			c.Check("N5-from-selected-set", e.key(), ok, e.call.Pos(), "synchronous execution must be on an element of the selected slice")
		}
		// N2: order typestate
		nsorts := 0
		for _, s := range c.ruleEntitySortSites() {
			if s.fn == fn && x.Cell(s.slice) == sel.cell {
				nsorts++
			}
		}
		switch {
		case asGiven:
			c.Check("N2-order", fnName(fn)+"#as-given", nsorts == 0, fn.Pos(), "an AsGivenSortedName variant must keep the caller's order: %d sort(s) of the selected slice found", nsorts)
		case n == "ExecuteSelectedRulesConcurrent":
			c.Check("N2-order", fnName(fn)+"#unordered", true, fn.Pos(), "purely concurrent variant: order irrelevant")
		default:
			for i, st := range stages {
				if st.ranged == nil {
					continue
				}
				k, what := c.orderSource(fn, st.ranged, st.loop.Head.Instrs[0])
				c.Check("N2-order", fmtKey(fnName(fn), "stage", i+1), k == "sorted-local", st.pos, "stage %d ranges %s (%s); a sorted variant must sort the selection by descending salience first", i+1, what, k)
			}
		}
		// a selected variant never hands the call to a method that runs the whole rule set
		whole := ""
		var wholePos token.Pos
		eachInstrDeep(fn, func(_ *ssa.Function, in ssa.Instruction) {
			cc := callCommon(in)
			if cc == nil {
				return
			}
			cal := cc.StaticCallee()
			if cal == nil || recvName(cal) != "Gengine" || cal.Pkg == nil || cal.Pkg.Pkg.Path() != pEngine {
				return
			}
			if strings.HasPrefix(cal.Name(), "Execute") && !strings.Contains(cal.Name(), "Selected") {
				whole, wholePos = cal.Name(), in.Pos()
			}
		})
		c.Check("N6-no-whole-set-delegation", fnName(fn), whole == "", orPos(wholePos, fn.Pos()), "a selected-rules call must run the selected set only: it calls %s, which runs every rule of the container", orStr(whole, "no whole-set method"))
		// single selected rule path of the concurrent / mix variants and errors
		c.ruleErrSurface("N5-errors-surface", fn)
		if isNM {
			c.ruleWindows("N4-selected-n-m", fn, stages, true)
		}
		if n == "ExecuteSelectedRulesConcurrent" {
			c.ruleSyncSingles("N5-single-rule", fn, fos, E, "")
			c.ruleA4("N5-fork-join", fn, isRuleExec, E)
		}
	}
	c.ruleO1("N2-comparator")
	c.Min("N1-selection", 33)
	c.Min("N3-nothing-selected", 16)
	c.Min("N5-from-selected-set", 14)
	c.Min("N2-order", 11)
	c.Min("N6-no-whole-set-delegation", 8)
	_ = token.NoPos
}

// fanoutsQuiet extracts the fan-outs without recording obligations.
func (c *Ctx) fanoutsQuiet(fn *ssa.Function) []*fanout {
	saved := c.obs
	m := c.engModel(fn)
	fos := c.ruleA4("tmp", fn, isRuleExec, m.errList())
	c.obs = saved
	return fos
}
