package main

import (
	"fmt"
	"go/token"
	"go/types"
	"strings"

	"golang.org/x/tools/go/ssa"
)

func init() {
	register("C15", runC15, propMeta{
		Explanation: "Ownership / escape argument for the local-variable store (a map[string]reflect.Value), sound modulo reflect and unsafe: (V1) the only such map that is not the injected table is allocated by a make in RuleEntity.Execute, once per call, and handed straight to RuleContent.Execute; it starts empty; (V2) in every function of the interpreter that has a parameter of that type, every argument of that type it passes on is that very parameter (so one rule execution threads one map and no other); (V3) a value of that type is never stored into a struct field (other than DataContext.base at construction), a package variable, a map, a slice or a channel, and no function returns one, so it cannot outlive or leave the rule execution; goroutines that capture it (conc) are joined before Evaluate returns (C18); (V4) locals are looked up and written only on the miss edge of a lookup of the same key in the injected table, and the injected table is written only by Add / PluginLoader / Del; (V5) injected names are shared by all rules of a call: every rule execution receives the data context of the call's own rule builder. (V7) package context writes through a reflect value only in SetMapVarValue: a local is assigned by replacing its table entry, never set in place. Consequence: two rule executions never hold the same map, so a local cannot leak between rules, calls, goroutines or pool requests, and starts undefined. Inside the interpreter (packages context and internal/...) only the construction of a data context calls Add; nobody calls Del or PluginLoader: an assignment never creates an injected name. (V9) the compound operators compute from the current value of the target as the data context gave it and fail when that read failed. (V10) outside package context nothing reads or writes a map[string]reflect.Value: the locals table is touched by the data context only. V6 also covers a value read from the locals table that is handed to a method of a field of the DataContext (a sync.Map, a cache) or stored into any map held in one of its fields.",
		Assumptions: []string{"no reflect/unsafe access to the map from injected host functions"},
		Trusted:     commonTrusted,
	})
}

// ruleI1: locals are consulted only after the injected table missed the same key.
func (c *Ctx) ruleI1(rule string) {
	n := 0
	for _, f := range c.Methods("context", "DataContext") {
		x := c.Index(f)
		k := 0
		eachInstr(f, func(in ssa.Instruction) {
			var mv, key ssa.Value
			switch t := in.(type) {
			case *ssa.Lookup:
				mv, key = t.X, t.Index
			case *ssa.MapUpdate:
				mv, key = t.Map, t.Key
			default:
				return
			}
			if !isVarsMapType(mv.Type()) {
				return
			}
			if _, isBase := x.isFieldLoad(mv, "DataContext", "base"); isBase {
				return
			}
			n++
			k++
			okey := fmt.Sprintf("%s#locals-access%d", fnName(f), k)
			found := false
			eachInstr(f, func(i2 ssa.Instruction) {
				lk, ok := i2.(*ssa.Lookup)
				if !ok || !lk.CommaOk {
					return
				}
				if _, isBase := x.isFieldLoad(lk.X, "DataContext", "base"); !isBase || !x.sameValue(lk.Index, key) {
					return
				}
				// the If on its ok
				eachInstr(f, func(i3 ssa.Instruction) {
					iff, ok := i3.(*ssa.If)
					if !ok {
						return
					}
					if ex, ok := x.Origin(iff.Cond).(*ssa.Extract); ok && ex.Tuple == ssa.Value(lk) && ex.Index == 1 {
						if x.edgeDominated(iff.Block(), 1)[in.Block()] {
							found = true
						}
					}
				})
			})
			c.Check(rule, okey, found, in.Pos(), "the local store is accessed with key %s without the injected table having missed that key first (an injected name must always win)", x.Describe(key))
		})
	}
	if n == 0 {
		c.Lost(rule, "accesses to the local store in DataContext")
	}
}

// ruleOneStore: exactly one allocation of a local-variable store, in RuleEntity.Execute, outside any loop,
// handed to the rule body and to nothing else.
func (c *Ctx) ruleOneStore(rule string) {
	nLocal := 0
	for _, f := range c.AllFns {
		x := c.Index(f)
		eachInstr(f, func(in ssa.Instruction) {
			mm, ok := in.(*ssa.MakeMap)
			if !ok || !isVarsMapType(mm.Type()) {
				return
			}
			key := fnName(f) + "#make"
			// uses
			toBase, toExec, other := false, false, ""
			helper := false
			// the uses of the new map, looking through a private local variable it is first put in
			var uses func(v ssa.Value, d int)
			uses = func(v ssa.Value, d int) {
				for _, ref := range *v.Referrers() {
					switch r := ref.(type) {
					case *ssa.Store:
						if fa, ok := r.Addr.(*ssa.FieldAddr); ok && structName(fa.X.Type()) == "DataContext" && fieldOf(fa).Name() == "base" {
							if _, fresh := x.Origin(fa.X).(*ssa.Alloc); fresh {
								toBase = true
								continue
							}
						}
						if al, ok := r.Addr.(*ssa.Alloc); ok && !al.Heap && d < 3 && len(x.stores[al]) == 1 {
							for _, cu := range *al.Referrers() {
								if ld, isLd := cu.(*ssa.UnOp); isLd {
									uses(ld, d+1)
								}
							}
							continue
						}
						other = "stored to " + x.Describe(r.Addr)
					case *ssa.Call:
						if bi, isB := r.Call.Value.(*ssa.Builtin); isB && (bi.Name() == "len" || bi.Name() == "delete") {
							helper = true
							continue
						}
						if calleeIs(r, pBase, "RuleContent", "Execute") && fnName(f) == "RuleEntity.Execute" {
							toExec = true
							continue
						}
						other = "passed to " + x.Describe(r)
					case *ssa.DebugRef:
					case *ssa.Lookup:
						if r.X == v {
							helper = true
							continue
						}
						other = fmt.Sprintf("used by %T", ref)
					case *ssa.MapUpdate:
						if r.Map == v && r.Key != v && r.Value != v {
							helper = true
							continue
						}
						other = fmt.Sprintf("used by %T", ref)
					case *ssa.Range:
						helper = true
					default:
						other = fmt.Sprintf("used by %T", ref)
					}
				}
			}
			uses(mm, 0)
			if helper && !toBase && !toExec && other == "" {
				// a map of the same type used as a private table of this function (looked up, filled,
				// ranged over; never handed on or stored): not a store of rule locals
				return
			}
			if toBase && other == "" {
				c.Check(rule, key, true, in.Pos(), "the injected table of a new data context")
				return
			}
			nLocal++
			inLoop := x.InnermostLoop(in.Block()) != nil
			c.Check(rule, key, toExec && other == "" && !inLoop, in.Pos(), "a local-variable store must be created only in RuleEntity.Execute and handed to the rule body (%s)", orStr(other, "ok"))
		})
	}
	c.Check(rule, "count", nLocal == 1, 0, "%d allocations of a local-variable store (want exactly one, in RuleEntity.Execute)", nLocal)
	c.Min(rule, 3)
}

func runC15(c *Ctx) {
	// V1
	c.ruleOneStore("V1-one-store-per-execution")
	// V7: assigning a local replaces its entry in the table. The data context never writes *through* a
	// value (reflect Set*): a local first read from a field or element of injected data holds an
	// addressable value, and setting it in place would write into that injected object -- visible to
	// every other rule and call. Only the element assignment (SetMapVarValue) may use reflect setters.
	nSet := 0
	for _, f := range c.AllFns {
		if f.Pkg == nil || f.Pkg.Pkg.Path() != pContext {
			continue
		}
		k := 0
		eachInstr(f, func(in ssa.Instruction) {
			name, cc := reflectMethod(in)
			if cc == nil || !reflectMutators[name] {
				return
			}
			nSet++
			k++
			root := fnName(rootOf(f))
			c.Check("V7-locals-replaced-not-set-in-place", fmt.Sprintf("%s#%s%d", root, name, k), root == "DataContext.SetMapVarValue", in.Pos(), "reflect.Value.%s in %s: the data context may write through a value only for an element assignment; a local is assigned by replacing its table entry", name, root)
		})
	}
	c.Check("V7-locals-replaced-not-set-in-place", "inventory", nSet > 0, 0, "%d reflect setter call(s) in package context examined", nSet)
	// V2
	for _, f := range c.AllFns {
		if f.Pkg == nil {
			continue
		}
		root := rootOf(f)
		var par *ssa.Parameter
		for _, p := range root.Params {
			if isVarsMapType(p.Type()) {
				par = p
			}
		}
		x := c.Index(f)
		k := 0
		eachInstr(f, func(in ssa.Instruction) {
			cc := callCommon(in)
			if cc == nil {
				return
			}
			if _, isBuiltin := cc.Value.(*ssa.Builtin); isBuiltin {
				return
			}
			for _, a := range cc.Args {
				if !isVarsMapType(a.Type()) {
					continue
				}
				if fnName(root) == "RuleEntity.Execute" {
					continue // V1
				}
				k++
				key := fmt.Sprintf("%s#vars-arg%d", fnName(f), k)
				c.Check("V2-threaded-unchanged", key, par != nil && x.Origin(a) == ssa.Value(par), in.Pos(), "the local store passed on must be the one this function received (got %s)", x.Describe(a))
			}
		})
	}
	c.Min("V2-threaded-unchanged", 50)
	// V3
	esc := 0
	for _, f := range c.AllFns {
		if f.Pkg == nil {
			continue
		}
		x := c.Index(f)
		if f.Parent() == nil {
			rs := f.Signature.Results()
			for i := 0; i < rs.Len(); i++ {
				if isVarsMapType(rs.At(i).Type()) {
					esc++
					c.Check("V3-no-escape", fnName(f)+"#returns-store", false, f.Pos(), "a function returns a local-variable store")
				}
			}
		}
		k := 0
		eachInstr(f, func(in ssa.Instruction) {
			bad := ""
			switch t := in.(type) {
			case *ssa.Store:
				if !isVarsMapType(t.Val.Type()) {
					return
				}
				switch a := x.ResolveAddr(t.Addr).(type) {
				case *ssa.Alloc:
					if _, isArr := a.Type().(*types.Pointer).Elem().Underlying().(*types.Array); isArr {
						bad = "an array/variadic slot"
					}
					// a local variable / spilled parameter: fine
				case *ssa.FieldAddr:
					if structName(a.X.Type()) == "DataContext" && fieldOf(a).Name() == "base" {
						if _, fresh := x.Origin(a.X).(*ssa.Alloc); fresh {
							return
						}
					}
					bad = "field " + structName(a.X.Type()) + "." + fieldOf(a).Name()
				case *ssa.Global:
					bad = "package variable " + a.Name()
				case *ssa.IndexAddr:
					bad = "a slice/array element"
				default:
					bad = x.Describe(t.Addr)
				}
			case *ssa.MapUpdate:
				if isVarsMapType(t.Value.Type()) {
					bad = "a map"
				}
			case *ssa.Send:
				if isVarsMapType(t.X.Type()) {
					bad = "a channel"
				}
			case *ssa.MakeInterface:
				if isVarsMapType(t.X.Type()) {
					bad = "an interface value"
				}
			}
			if bad != "" {
				k++
				esc++
				c.Check("V3-no-escape", fmt.Sprintf("%s#escape%d", fnName(f), k), false, in.Pos(), "a local-variable store is stored into %s and can outlive the rule execution", bad)
			}
		})
	}
	c.Check("V3-no-escape", "product", esc == 0, 0, "%d escape(s) of a local-variable store found", esc)
	// DataContext has no field that could hold locals beyond the injected table
	if t := c.SSA[pContext].Type("DataContext"); t != nil {
		st := t.Type().Underlying().(*types.Struct)
		nm := 0
		for i := 0; i < st.NumFields(); i++ {
			if _, ok := st.Field(i).Type().Underlying().(*types.Map); ok {
				nm++
			}
		}
		c.Check("V3-no-escape", "DataContext#map-fields", nm == 1, t.Pos(), "DataContext has %d map fields (want one: the injected table)", nm)
	}
	// V4
	c.ruleI1("V4-injected-first")
	c.Min("V4-injected-first", 9)
	c.ruleInjectedTableWriters("V4-injected-table-writers")
	// V9: "locals start undefined" also for the compound operators: `n += 1` computes from the current value
	// of n as the data context gave it, and fails when that read failed (the operator rows of C02-S7) -- a
	// zero value standing in for a local never assigned makes the local start at 0
	c.only = func(key string) bool { return strings.HasPrefix(key, "Assignment.Evaluate#operator ") }
	c.ruleS7("V9-compound-assignment-reads-the-local")
	c.only = nil
	c.Min("V9-compound-assignment-reads-the-local", 4)
	// V10: the locals table is read and written by the data context only, which consults the injected table
	// first (V4): an evaluator that writes a name straight into the table it was handed (the key of a forRange
	// "is always a plain local") creates a local beside an injected name of that name, which no read ever
	// sees (the outside-the-context part of C18-J4)
	c.only = func(key string) bool { return !strings.HasPrefix(key, "DataContext.") }
	c.ruleStoresLocked("V10-locals-table-touched-by-the-context-only")
	c.only = nil
	// V6: what is read out of a rule's locals table never goes into the data context itself:
	// the context is shared by every rule of the call, by later calls and by concurrent
	// executions, the table belongs to one execution. A value looked up in the table and
	// stored into a field (or the injected table) of the DataContext outlives that execution.
	nV6 := 0
	for _, f := range c.Methods("context", "DataContext") {
		x := c.Index(f)
		var varsPar *ssa.Parameter
		for _, p := range f.Params {
			if mt, ok := p.Type().Underlying().(*types.Map); ok {
				if nt, isN := mt.Elem().(*types.Named); isN && nt.Obj().Name() == "Value" && nt.Obj().Pkg() != nil && nt.Obj().Pkg().Path() == "reflect" {
					varsPar = p
				}
			}
		}
		if varsPar == nil {
			continue
		}
		nV6++
		fromVars := func(v ssa.Value) bool {
			for _, pv := range x.PossibleValues(v) {
				o := pv.V
				if o == nil {
					continue
				}
				if ex, ok := x.Origin(o).(*ssa.Extract); ok {
					o = ex.Tuple
				}
				if lk, ok := x.Origin(o).(*ssa.Lookup); ok && x.Origin(lk.X) == ssa.Value(varsPar) {
					return true
				}
			}
			return false
		}
		bad := ""
		var badPos token.Pos
		eachInstrDeep(f, func(_ *ssa.Function, in ssa.Instruction) {
			switch t := in.(type) {
			case *ssa.Store:
				if fa, ok := t.Addr.(*ssa.FieldAddr); ok && structName(fa.X.Type()) == "DataContext" && fromVars(t.Val) {
					bad, badPos = "field "+fieldOf(fa).Name(), in.Pos()
				}
			case *ssa.MapUpdate:
				if _, is := x.isFieldLoad(t.Map, "DataContext", "base"); is && fromVars(t.Value) {
					bad, badPos = "the injected table", in.Pos()
				} else if ld, isLd := x.Origin(t.Map).(*ssa.UnOp); isLd && ld.Op == token.MUL {
					if fa, isFA := ld.X.(*ssa.FieldAddr); isFA && structName(fa.X.Type()) == "DataContext" && fromVars(t.Value) {
						bad, badPos = "the map in field "+fieldOf(fa).Name(), in.Pos()
					}
				}
			case *ssa.Call:
				// a method of a field of the context (a sync.Map, a cache type) handed such a value
				if t.Call.IsInvoke() || len(t.Call.Args) < 2 {
					break
				}
				fa, isFA := x.Origin(t.Call.Args[0]).(*ssa.FieldAddr)
				if !isFA || structName(fa.X.Type()) != "DataContext" {
					break
				}
				for _, a := range t.Call.Args[1:] {
					if mi, isMI := x.Origin(a).(*ssa.MakeInterface); isMI {
						a = mi.X
					}
					if fromVars(a) {
						bad, badPos = "field "+fieldOf(fa).Name()+" (through "+x.Describe(t.Call.Value)+")", in.Pos()
					}
				}
			}
		})
		c.Check("V6-locals-not-kept-in-context", fnName(f), bad == "", orPos(badPos, f.Pos()), "a value read from the rule's locals table is stored into %s of the shared data context: it would be visible to other rules, later calls and concurrent executions", orStr(bad, "nothing"))
	}
	c.Min("V6-locals-not-kept-in-context", 4)
	_ = nV6
	// V5
	c.ruleOwnDc("V5-shared-injected-names", c.engineExecFns())
	c.Min("V5-shared-injected-names", 25)
	// V8: nothing an execution computes is kept on the compiled rule: its nodes are shared by every
	// execution of the rule, also concurrent ones (the node-write part of the immutability rule of C07)
	c.only = func(key string) bool { return strings.Contains(key, "#ast-") }
	c.ruleU2("V8-nothing-kept-on-shared-nodes")
	c.only = nil
}

// ruleInjectedTableWriters: the injected table is written by Add, PluginLoader and Del only, and inside the
// interpreter only the construction of a data context calls those.
func (c *Ctx) ruleInjectedTableWriters(rule string) {
	allowed := map[string]bool{"DataContext.Add": true, "DataContext.PluginLoader": true, "DataContext.Del": true}
	for _, f := range c.AllFns {
		x := c.Index(f)
		eachInstr(f, func(in ssa.Instruction) {
			var mv ssa.Value
			switch t := in.(type) {
			case *ssa.MapUpdate:
				mv = t.Map
			case *ssa.Call:
				if args, ok := builtinCall(t, "delete"); ok {
					mv = args[0]
				}
			}
			if mv == nil {
				return
			}
			if _, isBase := x.isFieldLoad(mv, "DataContext", "base"); isBase {
				c.Check(rule, fnName(f), allowed[fnName(f)], in.Pos(), "the injected table is written in %s (allowed: Add, PluginLoader, Del): an assignment to a local must never create an injected name", fnName(f))
			}
		})
	}
	// ... nor through the writers: inside the interpreter (packages context and internal/...) only the
	// construction of a data context calls Add (its built-in isNil); Add, Del and PluginLoader are the
	// host's, and the engine's on the host's behalf. A rule's assignment that "starts a map under a new
	// name" with dc.Add creates an injected name seen by every rule and every later call.
	for _, f := range c.AllFns {
		if f.Pkg == nil {
			continue
		}
		pk := f.Pkg.Pkg.Path()
		if pk != pContext && !strings.HasPrefix(pk, gpath("internal/")) {
			continue
		}
		eachInstr(f, func(in ssa.Instruction) {
			cc := callCommon(in)
			if cc == nil {
				return
			}
			cal := cc.StaticCallee()
			if cal == nil || recvName(cal) != "DataContext" || cal.Pkg == nil || cal.Pkg.Pkg.Path() != pContext {
				return
			}
			if n := cal.Name(); n != "Add" && n != "Del" && n != "PluginLoader" {
				return
			}
			root := fnName(rootOf(f))
			ctor := root == "NewDataContext" || root == "DataContext.loadInnerUDF"
			c.Check(rule, root+"->"+fnName(cal), ctor, in.Pos(), "%s calls %s: inside the interpreter only the construction of a data context may add to the injected table", root, fnName(cal))
		})
	}
	c.Min(rule, 4)
}
