package main

import (
	"fmt"
	"go/token"
	"go/types"
	"sort"
	"strings"

	"golang.org/x/tools/go/ssa"
)

func init() {
	register("C14", runC14, propMeta{
		Explanation: "Decides, for all rule sets and every position of the rule that sets the tag: (T1, rule A3-T) in the three sorted stop-tag variants every path from a rule execution to the next iteration reads sTag.StopTag after that execution (so the setting rule completes and its result and error are handled first), the true edge leaves the loop at its normal exit (collected errors still surface) and reaches no further rule execution; (T2) in the mix variant the tag is read after the first rule's execution and error handling, every go statement is dominated by the false edge of that test, and the true edge reaches no rule execution; (T3) each tagged function agrees with its untagged sibling: the multiset of branch conditions differs only by reads of sTag.StopTag and the multiset of calls is identical, so with the tag never set the behaviour is the sibling's; (T4) the four pool wrappers hand the caller's *Stag to the engine method unchanged. Not decided: the data race a rule body may create on its own Stag (host data). (T6) a conc statement returns only after the join of all its branches, so a rule has completed, its assignment to the tag included, when the tag is read. (T7) both variants of a selected pair skip a name no rule carries (the miss edge of the selection, checked per variant). (T8) both mix variants treat a failing first rule alike: nothing else runs and its error is returned. (T9) the pool wrappers of the four pairs hand back the error of the engine call and the result map of that engine on every way.",
		Assumptions: []string{"the rule sets the tag through the injected *Stag it was given"},
		Trusted:     commonTrusted,
	})
}

var c14Pairs = [][2]string{
	{"ExecuteWithStopTagDirect", "Execute"},
	{"ExecuteMixModelWithStopTagDirect", "ExecuteMixModel"},
	{"ExecuteSelectedRulesWithControlAndStopTag", "ExecuteSelectedRulesWithControl"},
	{"ExecuteSelectedRulesWithControlAndStopTagAsGivenSortedName", "ExecuteSelectedRulesWithControlAsGivenSortedName"},
}

// condAndCallBags summarises a function for the sibling comparison. Branch
// conditions are named by what they decide, not by how they are written: a
// length test by its operand and the length at which it splits (`len(r) > 1`,
// `len(r) < 2` and `len(r)-1 >= 1` are the same test), a nil test by its
// subject, any other condition by its access path with negation removed.
// Calls are those that act on the engine: callees of this module, the sort
// package, goroutine starts and defers (error-message construction, logging
// and builtins are not compared; the rules of C09/C13 check each function's
// error surface on its own).
func (c *Ctx) condAndCallBags(fn *ssa.Function) (conds, calls map[string]int) {
	x := c.Index(fn)
	conds, calls = map[string]int{}, map[string]int{}
	eachInstrDeep(fn, func(f *ssa.Function, in ssa.Instruction) {
		switch t := in.(type) {
		case *ssa.If:
			// the header test of a loop is loop mechanics (range and index loops test
			// different things for the same iteration); the loops themselves are
			// checked by the loop-discipline rules of each function
			isHead := false
			for _, l := range c.Index(f).Loops(f) {
				if l.Head == t.Block() {
					isHead = true
				}
			}
			if isHead {
				conds["loop header"]++
				return
			}
			cond := t.Cond
			for {
				u, isU := cond.(*ssa.UnOp)
				if !isU || u.Op != token.NOT {
					break
				}
				cond = u.X
			}
			// local variables are named by their type, so that renaming one does not matter
			dT := func(v ssa.Value) string {
				if al := x.directCell(x.lastLoad(v)); al != nil && al.Parent() != nil {
					if _, isCall := x.Origin(v).(*ssa.Call); !isCall {
						if _, isPar := x.Origin(v).(*ssa.Parameter); !isPar {
							return "<" + types.TypeString(al.Type().(*types.Pointer).Elem(), func(p *types.Package) string { return p.Name() }) + ">"
						}
					}
				}
				return x.Describe(v)
			}
			var sp *ssa.Parameter
			for _, p := range rootOf(f).Params {
				if isNamedPtr(p.Type(), pEngine, "Stag") {
					sp = p
				}
			}
			if sp != nil && x.tagRead(cond, sp) != nil {
				conds[sp.Name()+".StopTag"]++
			} else if arg, tlo, _, flo, _, ok := x.lenTest(cond); ok && (tlo == 0) != (flo == 0) {
				split := tlo
				if flo > split {
					split = flo
				}
				// a test on the tail rules[c:] is a test on the list itself: len(rules[c:]) >= k  <=>  len(rules) >= k+c
				for d := 0; d < 4; d++ {
					sl, isSl := x.Origin(arg).(*ssa.Slice)
					if !isSl || sl.High != nil || sl.Max != nil {
						break
					}
					if _, isS := sl.X.Type().Underlying().(*types.Slice); !isS {
						break
					}
					lo := int64(0)
					if sl.Low != nil {
						k, isK := constInt(sl.Low)
						if !isK || k < 0 {
							break
						}
						lo = k
					}
					arg = sl.X
					split += lo
				}
				desc := dT(arg)
				if sl, isSl := arg.Type().Underlying().(*types.Slice); isSl && structName(sl.Elem()) == "RuleEntity" {
					// a list of rules, whichever variable or field holds it
					desc = "<[]*base.RuleEntity>"
				}
				conds[fmt.Sprintf("len(%s) >= %d", desc, split)]++
			} else if subj, _, ok := nilCheck(cond); ok {
				conds["nil? "+dT(subj)]++
			} else if ex, isEx := x.Origin(cond).(*ssa.Extract); isEx {
				if lk, isLk := ex.Tuple.(*ssa.Lookup); isLk && lk.CommaOk && ex.Index == 1 {
					conds["found in "+dT(lk.X)]++
				} else {
					conds[strings.TrimPrefix(dT(cond), "!")]++
				}
			} else {
				conds[strings.TrimPrefix(dT(cond), "!")]++
			}
		case ssa.CallInstruction:
			cc := t.Common()
			name := ""
			if cal := cc.StaticCallee(); cal != nil {
				if cal.Parent() != nil {
					name = "literal"
				} else if cal.Pkg != nil && (strings.HasPrefix(cal.Pkg.Pkg.Path(), modPath) || cal.Pkg.Pkg.Path() == "sort") {
					name = cal.Pkg.Pkg.Name() + "." + fnName(cal)
				}
			} else if _, ok := cc.Value.(*ssa.MakeClosure); ok {
				name = "literal"
			} else if cc.IsInvoke() && cc.Method.Name() == "Error" && isErrorType(cc.Value.Type()) {
				name = "" // the text of an error: formatting, like Sprintf("%v", err)
			} else if _, ok := cc.Value.(*ssa.Builtin); !ok {
				name = "dynamic"
			}
			kind := "call"
			if _, ok := in.(*ssa.Go); ok {
				kind = "go"
			}
			if _, ok := in.(*ssa.Defer); ok {
				kind = "defer"
			}
			if name == "" && kind == "call" {
				return
			}
			calls[kind+" "+name]++
		}
	})
	return
}

func bagDiff(a, b map[string]int) (onlyA, onlyB []string) {
	for k, n := range a {
		for i := b[k]; i < n; i++ {
			onlyA = append(onlyA, k)
		}
	}
	for k, n := range b {
		for i := a[k]; i < n; i++ {
			onlyB = append(onlyB, k)
		}
	}
	sort.Strings(onlyA)
	sort.Strings(onlyB)
	return
}

func runC14(c *Ctx) {
	// the pool's stop-tag methods hand the model's error to their caller
	c.armPoolError("T4-pool-reports-the-error", func(m string) bool { return strings.Contains(m, "StopTag") }, 4)

	for _, pr := range c14Pairs {
		tagged := c.MustFn("T1-tag-after-each-rule", "engine", "Gengine", pr[0])
		plain := c.MustFn("T3-sibling-agreement", "engine", "Gengine", pr[1])
		if tagged == nil || plain == nil {
			continue
		}
		m := c.engModel(tagged)
		x := m.x
		sPar := m.stagParam()
		if sPar == nil {
			c.Check("T1-tag-after-each-rule", fnName(tagged)+"#stag-param", false, tagged.Pos(), "no *Stag parameter")
			continue
		}
		if pr[0] != "ExecuteMixModelWithStopTagDirect" {
			loops := c.ruleA3("T1-tag-after-each-rule", tagged)
			if len(loops) != 1 {
				c.Check("T1-tag-after-each-rule", fnName(tagged)+"#one-loop", false, tagged.Pos(), "expected one sequential loop")
			}
			// the true edge reaches no further rule execution
			for _, sl := range loops {
				c.Check("T1-tag-stops", sl.site.key(), sl.hasTag, sl.site.call.Pos(), "a true stop tag must leave the loop")
			}
		} else {
			// T2
			var tagIf *ssa.If
			eachInstr(tagged, func(in ssa.Instruction) {
				if iff, ok := in.(*ssa.If); ok {
					cond := iff.Cond
					if u, isU := cond.(*ssa.UnOp); isU && u.Op.String() == "!" {
						cond = u.X
					}
					if base, ok := x.isFieldLoad(cond, "Stag", "StopTag"); ok && x.Origin(base) == ssa.Value(sPar) {
						tagIf = iff
					}
				}
			})
			key := fnName(tagged)
			if tagIf == nil {
				c.Check("T2-mix-tag", key+"#tag-read", false, tagged.Pos(), "the stop tag is never read")
			} else {
				negated := false
				cond := tagIf.Cond
				if u, isU := cond.(*ssa.UnOp); isU && u.Op.String() == "!" {
					negated = true
					cond = u.X
				}
				goEdge, stopEdge := 1, 0 // tag false -> go on
				if negated {
					goEdge, stopEdge = 0, 1
				}
				var first *execSite
				for _, e := range m.execs {
					if e.in == tagged && x.InnermostLoop(e.call.Block()) == nil {
						first = e
						break
					}
				}
				ld, _ := x.Origin(cond).(*ssa.UnOp)
				after := first != nil && ld != nil && domInstr(first.call, ld)
				handled := false
				if first != nil {
					for _, g := range x.GuardsOf(tagIf.Block()) {
						if s, neq, ok := nilCheck(g.Cond); ok && m.isExtract(s, first.call, 1) && neq != g.Pol {
							handled = true
						}
					}
				}
				c.Check("T2-mix-tag", key+"#read-after-first-rule", after && handled, tagIf.Pos(), "the tag must be read after the first rule ran and its error was handled")
				dom := x.edgeDominated(tagIf.Block(), goEdge)
				allDom := true
				eachInstr(tagged, func(in ssa.Instruction) {
					if _, ok := in.(*ssa.Go); ok && !dom[in.Block()] {
						allDom = false
					}
				})
				c.Check("T2-mix-tag", key+"#fan-out-gated", allDom, tagIf.Pos(), "every goroutine start must be under `tag not set`")
				_, runs := pathFrom(tagIf.Block().Succs[stopEdge].Instrs[0], func(in ssa.Instruction) bool {
					if _, ok := in.(*ssa.Go); ok {
						return true
					}
					call, ok := in.(*ssa.Call)
					return ok && isRuleExec(call)
				}, nil)
				c.Check("T2-mix-tag", key+"#set-runs-nothing", !runs, tagIf.Pos(), "with the tag set none of the remaining rules may run")
			}
		}
		// T3
		tc, tcalls := c.condAndCallBags(tagged)
		pc, pcalls := c.condAndCallBags(plain)
		onlyT, onlyP := bagDiff(tc, pc)
		okConds := len(onlyP) == 0
		for _, k := range onlyT {
			if !strings.Contains(k, sPar.Name()+".StopTag") {
				okConds = false
			}
		}
		c.Check("T3-sibling-agreement", fnName(tagged)+"~"+pr[1]+"#conditions", okConds && len(onlyT) >= 1, tagged.Pos(), "branch conditions only in the tagged variant: %v; only in the sibling: %v (allowed: reads of the stop tag)", onlyT, onlyP)
		ct, cp := bagDiff(tcalls, pcalls)
		c.Check("T3-sibling-agreement", fnName(tagged)+"~"+pr[1]+"#calls", len(ct) == 0 && len(cp) == 0, tagged.Pos(), "calls only in the tagged variant: %v; only in the sibling: %v", ct, cp)
		// T7: the two variants resolve the caller's names alike — a name no rule carries is skipped
		// by both (conditions and calls can agree while one variant leaves on the miss edge)
		if strings.HasPrefix(pr[0], "ExecuteSelected") {
			c.only = func(key string) bool { return strings.Contains(key, "/miss-") }
			c.ruleSelection("T7-variants-select-alike", tagged, "skip")
			c.ruleSelection("T7-variants-select-alike", plain, "skip")
			c.only = nil
		}
	}
	c.Min("T7-variants-select-alike", 8)
	// T4 pool wrappers
	for _, pr := range c14Pairs {
		pf := c.MustFn("T4-pool-passes-tag", "engine", "GenginePool", pr[0])
		if pf == nil {
			continue
		}
		x := c.Index(pf)
		var sPar *ssa.Parameter
		for _, p := range pf.Params {
			if isNamedPtr(p.Type(), pEngine, "Stag") {
				sPar = p
			}
		}
		found := false
		eachInstr(pf, func(in ssa.Instruction) {
			call, ok := in.(*ssa.Call)
			if !ok || !calleeIs(call, pEngine, "Gengine", pr[0]) {
				return
			}
			for _, a := range call.Call.Args {
				if sPar != nil && x.Origin(a) == ssa.Value(sPar) {
					found = true
				}
			}
		})
		c.Check("T4-pool-passes-tag", fmt.Sprintf("GenginePool.%s", pr[0]), found, pf.Pos(), "the pool method must call the engine method of the same name with the caller's *Stag")
	}
	c.Min("T1-tag-after-each-rule", 21)
	c.Min("T2-mix-tag", 3)
	c.Min("T3-sibling-agreement", 8)
	c.Min("T4-pool-passes-tag", 4)
	// T6: "the rule that set it completes": the tag is read after the rule has returned, so everything the
	// rule does -- the assignment to the tag in a branch of a conc block included -- must have happened by
	// then: a conc statement returns only after the join of all its branches (the join obligations of C18-J1)
	c.armConcJoin("T6-rule-complete-when-it-returns")
	// T8: the two mix variants treat a failing first rule alike: nothing else runs and its error is
	// returned (the first-rule obligations of C05-B2 on both; T3's bags of conditions and calls do not
	// see a failure that is collected where the twin returns)
	for _, n := range []string{"ExecuteMixModel", "ExecuteMixModelWithStopTagDirect"} {
		fn := c.MustFn("T8-mix-variants-fail-alike", "engine", "Gengine", n)
		if fn == nil {
			continue
		}
		E := c.engModel(fn).errList()
		c.only = func(key string) bool { return strings.HasSuffix(key, "/first-fails") }
		fos := c.ruleA4("T8-mix-variants-fail-alike", fn, isRuleExec, E)
		c.ruleSyncSingles("T8-mix-variants-fail-alike", fn, fos, E, "first")
		c.only = nil
	}
	c.Min("T8-mix-variants-fail-alike", 2)
	// T9: the pool's wrappers of a pair hand back alike: the error of the engine call and the result map of
	// that same engine on every way (the own-result slot, C11-M7) -- an untagged wrapper that answers a
	// failure with an empty map differs from its tagged twin, which hands on what the rules returned
	c.only = func(key string) bool {
		if !strings.HasSuffix(key, "-own-result") {
			return false
		}
		for _, pr := range c14Pairs {
			if strings.HasPrefix(key, "GenginePool."+pr[0]+"/") || strings.HasPrefix(key, "GenginePool."+pr[1]+"/") {
				return true
			}
		}
		return false
	}
	c.ruleLifecycle("T9-pool-twins-hand-back-alike", nil)
	c.only = nil
	c.Min("T9-pool-twins-hand-back-alike", 8)
}

// armConcJoin: a conc statement returns only after the join of all its branches (the join
// obligations of C18-J1), so a rule -- and the request that runs it -- has completed when it returns.
func (c *Ctx) armConcJoin(rule string) {
	if cf := c.Fn("internal/base", "ConcStatement", "Evaluate"); cf != nil {
		c.only = func(key string) bool { return strings.HasSuffix(key, "/barrier") || strings.HasSuffix(key, "/wait") }
		c.joinBeforeReturnOnly = true
		c.ruleA4(rule, cf, isBaseEvaluate, c.engModel(cf).errList())
		c.only = nil
		c.joinBeforeReturnOnly = false
	}
	c.Min(rule, 1)
}
