package main

import (
	"fmt"
	"go/token"
	"go/types"
	"os"
	"sort"
	"strings"

	"golang.org/x/tools/go/ssa"
)

func init() {
	register("C02", runC02, propMeta{
		Explanation: "Decides the control-flow shape of every statement evaluator, for all statement trees: (S1) Statements.Evaluate ranges the whole statement list forward once, evaluates each element once, tests error and returned-flag on every path to the next iteration, leaves with that error / that value and flag, and evaluates the trailing return statement only after the loop; (S2) in IfStmt.Evaluate no CFG path leads from one branch-body evaluation to another (so at most one branch runs), each body is dominated by the true edge of .Bool() of its own condition, the else body by the false edges of all conditions, and else-if conditions are evaluated in list order only after the if-condition was false; (S3) in ForStmt.Evaluate the init assignment is evaluated once before the loop, the condition's .Bool() true edge dominates the body, every path from the body to the next condition passes the step assignment (also the continue path), the break edge reaches no condition, other errors return, a true returned-flag returns value and flag; (S4) ForRangeStmt.Evaluate calls Key() exactly once per iteration and binds it with SetValue(keyName, key) before the body; the iterators advance by one and stop at their length (R5); (S5) BREAKFLAG and CONTINUEFLAG are two distinct package variables, each initialised by its own errors.New and never reassigned, returned only by Break/ContinueStmt and compared only by the two loop evaluators, and no other statement evaluator wraps a child's error, so identity survives nesting and the innermost enclosing loop intercepts; (S6) the returned-flag discipline of C11-M3; (S7) the compound assignment table is exhaustive over the six assignOperator tokens read from the generated parser: += -= *= /= call core.Add/Sub/Mul/Div(current, rhs) with current read from the same target and the result written back to it, = and := skip the read; (S8) one flat local store per rule execution (C15-V1/V2). S2-S4 also demand the converse: a true condition evaluates its branch, an existing else runs when every condition is false, every pass of a loop evaluates the body; the store handed to the body is the one fresh table made for this execution. Only Assignment.Evaluate and the key binding of forRange call SetValue, only Assignment.Evaluate calls SetMapVarValue. The map iterator is given value.MapKeys() and the slice iterator value.Len() of the value it is made for. Not decided: values. (S6') where an evaluator hands on a child's returned-flag, and nothing else as the flag, it hands on that child's value: a return inside a loop or branch ends the rule with its value at every level (break and continue, whose flag marks a sentinel, have no value). (S10) every Accept* method of a statement node stores its parameter itself (directly, appended, or wrapped in a node made there). (S11) reads and writes resolve a name the same way, the injected table first: an assignment writes the variable a later read of the same name reads. The iterators hand out every position once: Key() advances the cursor by exactly one, Next() only asks whether the cursor is below a bound fixed at creation and stores nothing (the iterator contract, shared with C09-R5).",
		Assumptions: []string{"reflect.Value.Bool", "core arithmetic (C01)"},
		Trusted:     commonTrusted,
	})
}

// callsTo lists calls in f (not in literals) of pBase.(recv).name.
func callsTo(f *ssa.Function, recv, name string) []*ssa.Call {
	var out []*ssa.Call
	eachInstr(f, func(in ssa.Instruction) {
		if call, ok := in.(*ssa.Call); ok && calleeIs(call, pBase, recv, name) {
			out = append(out, call)
		}
	})
	return out
}

// boolTestOf: the If that branches on (value #0 of call).Bool().
func (x *FnIndex) boolTestOf(f *ssa.Function, call *ssa.Call) *ssa.If {
	var out *ssa.If
	eachInstr(f, func(in ssa.Instruction) {
		iff, ok := in.(*ssa.If)
		if !ok {
			return
		}
		bc, ok := x.Origin(iff.Cond).(*ssa.Call)
		if !ok || bc.Call.StaticCallee() == nil || bc.Call.StaticCallee().Name() != "Bool" || len(bc.Call.Args) != 1 {
			return
		}
		if ex, ok := x.Origin(bc.Call.Args[0]).(*ssa.Extract); ok && ex.Tuple == ssa.Value(call) && ex.Index == 0 {
			out = iff
		}
	})
	return out
}

func isCallTo(in ssa.Instruction, set map[*ssa.Call]bool) bool {
	c, ok := in.(*ssa.Call)
	return ok && set[c]
}

func runC02(c *Ctx) {
	c.ruleS1("S1-sequencing")
	c.ruleS2("S2-one-branch")
	c.ruleListenerAttach("S9-every-construct-compiled")
	c.ruleS3("S3-for")
	c.ruleS4("S4-for-range")
	c.ruleS5("S5-sentinels")
	c.ruleM3("S6-flag-shape", "S6-flag-implies-success")
	c.ruleM3b("S6-flag-filtered-above-break")
	c.ruleM3c("S6-return-sets-flag")
	c.Min("S6-flag-shape", 30)
	c.ruleS7("S7-assignment-table")
	// S10: the statement nodes hold the children the listener gave them
	c.ruleAcceptStoresGiven("S10-nodes-hold-what-was-parsed", map[string]bool{"IfStmt": true, "ElseIfStmt": true, "ElseStmt": true, "ForStmt": true, "ForRangeStmt": true,
		"Statement": true, "RuleContent": true, "ReturnStatement": true, "Assignment": true})
	c.Min("S10-nodes-hold-what-was-parsed", 20)
	// S11: an assignment writes the variable that a later read of the same name reads: reads and writes
	// resolve a name the same way, the injected table first and the rule's locals only when it missed
	// (C03-I1). A write that falls through to the locals for a name the injected table holds binds a local
	// no read ever sees: `Limit = 20` succeeds and the next statement reads 10, a loop counter stands still
	c.ruleI1("S11-assigned-name-is-the-name-read")
	c.Min("S11-assigned-name-is-the-name-read", 9)
	// S8 shares C15's rules: one store per execution, threaded unchanged
	n := 0
	for _, f := range c.AllFns {
		if f.Pkg == nil || f.Pkg.Pkg.Path() != pBase {
			continue
		}
		root := rootOf(f)
		var par *ssa.Parameter
		for _, p := range root.Params {
			if isVarsMapType(p.Type()) {
				par = p
			}
		}
		x := c.Index(f)
		k := 0
		eachInstr(f, func(in ssa.Instruction) {
			cc := callCommon(in)
			if cc == nil {
				return
			}
			if _, isB := cc.Value.(*ssa.Builtin); isB {
				return
			}
			for _, a := range cc.Args {
				if !isVarsMapType(a.Type()) || fnName(root) == "RuleEntity.Execute" {
					continue
				}
				k++
				n++
				c.Check("S8-flat-scope", fmt.Sprintf("%s#vars-arg%d", fnName(f), k), par != nil && x.Origin(a) == ssa.Value(par), in.Pos(), "every nested block must evaluate against the same local store it received (function scope), got %s", x.Describe(a))
			}
		})
	}
	c.Min("S8-flat-scope", 50)
	// the store the body receives is a fresh one: nothing bound by an earlier execution is visible before
	// the first assignment of this one
	c.ruleOneStore("S8-one-store-per-execution")
	// only an assignment (and the key binding of forRange) binds a name: no other statement writes, saves
	// or restores a variable behind the rule's back (a loop-scoped counter would end the visibility of
	// its assignments at the end of the block)
	for _, w := range [][2]string{{"SetValue", "Assignment.Evaluate,ForRangeStmt.Evaluate"}, {"SetMapVarValue", "Assignment.Evaluate"}} {
		got := strings.Join(c.callersOf(pContext, "DataContext", w[0]), ",")
		c.Check("S8-only-assignments-bind", w[0], got == w[1], 0, "%s is called from [%s] (want exactly [%s])", w[0], got, w[1])
	}
	c.Min("S8-only-assignments-bind", 2)
}

func (c *Ctx) ruleS1(rule string) {
	f := c.MustFn(rule, "internal/base", "Statements", "Evaluate")
	if f == nil {
		return
	}
	x := c.Index(f)
	calls := callsTo(f, "Statement", "Evaluate")
	if len(calls) != 1 {
		c.Check(rule, "Statements.Evaluate#one-child-call", false, f.Pos(), "expected one Statement.Evaluate call, found %d", len(calls))
		return
	}
	call := calls[0]
	s, L, ok := x.rangedSlice(call.Call.Args[0])
	whole := false
	if ok {
		if b, is := x.isFieldLoad(s, "Statements", "StatementList"); is && x.Origin(b) == ssa.Value(f.Params[0]) {
			whole = true
		}
	}
	c.Check(rule, "Statements.Evaluate#forward-over-whole-list", ok && whole && L == x.InnermostLoop(call.Block()) && len(x.GuardsOfInLoop(call.Block())) == 0, call.Pos(), "each statement of s.StatementList must be evaluated, in order and unconditionally, by a forward range loop")
	if L == nil {
		return
	}
	head := L.Head.Instrs[0]
	var errIf, flagIf *ssa.If
	eachInstr(f, func(in ssa.Instruction) {
		iff, ok := in.(*ssa.If)
		if !ok {
			return
		}
		if sb, neq, ok := nilCheck(iff.Cond); ok && neq {
			if ex, ok := x.Origin(sb).(*ssa.Extract); ok && ex.Tuple == ssa.Value(call) && ex.Index == 1 {
				errIf = iff
			}
		}
		if ex, ok := x.Origin(iff.Cond).(*ssa.Extract); ok && ex.Tuple == ssa.Value(call) && ex.Index == 2 {
			flagIf = iff
		}
	})
	for name, iff := range map[string]*ssa.If{"error": errIf, "returned-flag": flagIf} {
		if iff == nil {
			c.Check(rule, "Statements.Evaluate#"+name+"-tested", false, call.Pos(), "the %s of a statement is never tested", name)
			continue
		}
		_, skip := pathExists(f, call, func(in ssa.Instruction) bool { return in == head || (name == "error" && isExit(in)) }, func(in ssa.Instruction) bool { return in == ssa.Instruction(iff) })
		// the true edge leaves the loop
		_, stays := pathFrom(iff.Block().Succs[0].Instrs[0], func(in ssa.Instruction) bool { return in == head }, nil)
		c.Check(rule, "Statements.Evaluate#"+name+"-tested", !skip && !stays, iff.Pos(), "after each statement its %s must be tested on every path and a true test must end the list (no later statement may run)", name)
	}
	if errIf != nil {
		okR := true
		pathFrom(errIf.Block().Succs[0].Instrs[0], func(in ssa.Instruction) bool {
			if r, ok := in.(*ssa.Return); ok {
				good := false
				for _, pv := range x.PossibleValues(r.Results[1]) {
					if ex, ok := pv.V.(*ssa.Extract); ok && ex.Tuple == ssa.Value(call) && ex.Index == 1 {
						good = true
					}
				}
				if !good {
					okR = false
				}
			}
			return false
		}, nil)
		c.Check(rule, "Statements.Evaluate#error-returned-unchanged", okR, errIf.Pos(), "a failing statement's error must be returned as it is (break/continue sentinels travel by identity)")
	}
	if flagIf != nil {
		okR := true
		pathFrom(flagIf.Block().Succs[0].Instrs[0], func(in ssa.Instruction) bool {
			if r, ok := in.(*ssa.Return); ok {
				good := false
				for _, pv := range x.PossibleValues(r.Results[0]) {
					if ex, ok := pv.V.(*ssa.Extract); ok && ex.Tuple == ssa.Value(call) && ex.Index == 0 {
						good = true
					}
				}
				if !good {
					okR = false
				}
			}
			return false
		}, nil)
		c.Check(rule, "Statements.Evaluate#returned-value-passed-up", okR, flagIf.Pos(), "when a nested statement returned, its value must be returned")
	}
	// trailing return statement: only after the loop
	rcalls := callsTo(f, "ReturnStatement", "Evaluate")
	okT := len(rcalls) == 1
	if okT {
		rc := rcalls[0]
		okT = !L.Blocks[rc.Block()]
		for _, t := range L.exitTargets() {
			if !t.Dominates(rc.Block()) && t != rc.Block() {
				// must be reached through the normal loop end only
				_ = t
			}
		}
		// not reachable from the early exits
		if errIf != nil {
			if _, reach := pathFrom(errIf.Block().Succs[0].Instrs[0], func(in ssa.Instruction) bool { return in == ssa.Instruction(rc) }, nil); reach {
				okT = false
			}
		}
		if flagIf != nil {
			if _, reach := pathFrom(flagIf.Block().Succs[0].Instrs[0], func(in ssa.Instruction) bool { return in == ssa.Instruction(rc) }, nil); reach {
				okT = false
			}
		}
	}
	c.Check(rule, "Statements.Evaluate#trailing-return-last", okT, f.Pos(), "the block's own return statement must be evaluated once, after all statements, and not after an early exit")
	c.Min(rule, 5)
}

func (c *Ctx) ruleS2(rule string) {
	f := c.MustFn(rule, "internal/base", "IfStmt", "Evaluate")
	if f == nil {
		return
	}
	x := c.Index(f)
	recv := ssa.Value(f.Params[0])
	// bodies
	type body struct {
		call *ssa.Call
		kind string
	}
	var bodies []body
	set := map[*ssa.Call]bool{}
	for _, call := range callsTo(f, "Statements", "Evaluate") {
		kind := "?"
		if b, ok := x.isFieldLoad(call.Call.Args[0], "IfStmt", "StatementList"); ok && x.Origin(b) == recv {
			kind = "if"
		} else if _, ok := x.isFieldLoad(call.Call.Args[0], "ElseIfStmt", "StatementList"); ok {
			kind = "elseif"
		}
		bodies = append(bodies, body{call, kind})
		set[call] = true
	}
	for _, call := range callsTo(f, "ElseStmt", "Evaluate") {
		bodies = append(bodies, body{call, "else"})
		set[call] = true
	}
	for _, call := range callsTo(f, "ElseIfStmt", "Evaluate") {
		bodies = append(bodies, body{call, "elseif"})
		set[call] = true
	}
	kinds := map[string]int{}
	for _, b := range bodies {
		kinds[b.kind]++
	}
	c.Check(rule, "IfStmt.Evaluate#bodies", kinds["if"] == 1 && kinds["elseif"] == 1 && kinds["else"] == 1 && kinds["?"] == 0, f.Pos(), "expected one evaluation site each for the if body, the else-if bodies and the else body, found %v", kinds)
	// conditions
	conds := callsTo(f, "Expression", "Evaluate")
	var ifCond, eiCond *ssa.Call
	for _, cc := range conds {
		if b, ok := x.isFieldLoad(cc.Call.Args[0], "IfStmt", "Expression"); ok && x.Origin(b) == recv {
			ifCond = cc
		} else if _, ok := x.isFieldLoad(cc.Call.Args[0], "ElseIfStmt", "Expression"); ok {
			eiCond = cc
		}
	}
	if ifCond == nil || eiCond == nil {
		c.Check(rule, "IfStmt.Evaluate#conditions", false, f.Pos(), "the if / else-if condition evaluations were not found")
		return
	}
	ifTest, eiTest := x.boolTestOf(f, ifCond), x.boolTestOf(f, eiCond)
	if ifTest == nil || eiTest == nil {
		c.Check(rule, "IfStmt.Evaluate#conditions", false, f.Pos(), "a condition's value is not tested with .Bool()")
		return
	}
	c.Check(rule, "IfStmt.Evaluate#conditions", true, f.Pos(), "if and else-if conditions are evaluated and tested with .Bool()")
	// at most one branch
	for _, b := range bodies {
		_, again := pathExists(f, b.call, func(in ssa.Instruction) bool { return isCallTo(in, set) }, nil)
		c.Check(rule, "IfStmt.Evaluate#"+b.kind+"-body-then-nothing", !again, b.call.Pos(), "after the %s body ran, another branch body (or the same again) can still run", b.kind)
	}
	// dominance by own condition
	for _, b := range bodies {
		switch b.kind {
		case "if":
			c.Check(rule, "IfStmt.Evaluate#if-body-under-own-condition", x.edgeDominated(ifTest.Block(), 0)[b.call.Block()], b.call.Pos(), "the if body must run only when the if condition is true")
		case "elseif":
			ok := x.edgeDominated(eiTest.Block(), 0)[b.call.Block()] && x.edgeDominated(ifTest.Block(), 1)[b.call.Block()]
			// the body belongs to the same element as the condition
			sameEl := false
			if bb, is := x.isFieldLoad(b.call.Call.Args[0], "ElseIfStmt", "StatementList"); is {
				if cb, is2 := x.isFieldLoad(eiCond.Call.Args[0], "ElseIfStmt", "Expression"); is2 && x.sameValue(bb, cb) {
					sameEl = true
				}
			}
			why := ""
			if calleeIs(b.call, pBase, "ElseIfStmt", "Evaluate") {
				// ElseIfStmt.Evaluate evaluates the condition itself: after IfStmt has already
				// evaluated it, the condition (and its side effects) would run twice, and a
				// different second outcome would end the chain without any branch
				sameEl = false
				why = " (the branch is run through ElseIfStmt.Evaluate, which evaluates the condition a second time)"
			}
			c.Check(rule, "IfStmt.Evaluate#elseif-body-under-own-condition", ok && sameEl, b.call.Pos(), "an else-if body must run only when the if condition was false and its own condition is true, the condition being evaluated once%s", why)
		case "else":
			ok := x.edgeDominated(ifTest.Block(), 1)[b.call.Block()]
			// not reachable from the else-if true edge
			_, fromTrue := pathFrom(eiTest.Block().Succs[0].Instrs[0], func(in ssa.Instruction) bool { return in == ssa.Instruction(b.call) }, nil)
			c.Check(rule, "IfStmt.Evaluate#else-under-all-false", ok && !fromTrue, b.call.Pos(), "the else body must run only when the if condition and every else-if condition were false")
		}
	}
	// the converse: a true condition runs its body, and with every condition false an else that
	// exists runs (only a branch without a block at all, StatementList / ElseStmt == nil, has nothing to run)
	{
		isBody := func(in ssa.Instruction) bool { return isCallTo(in, set) }
		// a way out that reports an error (a condition that failed or is no boolean) is not "the
		// branch was skipped"
		isRet := func(in ssa.Instruction) bool {
			r, isR := in.(*ssa.Return)
			if !isR {
				return false
			}
			if len(r.Results) != 3 {
				return true
			}
			for _, ev := range x.ValuesAt(r.Results[1], r) {
				if ev.V == nil || isConstNil(ev.V) {
					return true
				}
			}
			return false
		}
		nilIf, _ := x.nilEdges(f, func(v ssa.Value) bool {
			b, is := x.isFieldLoad(v, "IfStmt", "StatementList")
			return is && x.Origin(b) == recv
		})
		nilEi, _ := x.nilEdges(f, func(v ssa.Value) bool {
			_, is := x.isFieldLoad(v, "ElseIfStmt", "StatementList")
			return is
		})
		nilElse, _ := x.nilEdges(f, func(v ssa.Value) bool {
			b, is := x.isFieldLoad(v, "IfStmt", "ElseStmt")
			return is && x.Origin(b) == recv
		})
		from := func(t *ssa.If, edge int, forbidden map[edgeKey]bool, end func(ssa.Instruction) bool) bool {
			b := t.Block().Succs[edge]
			if len(b.Instrs) == 0 {
				return false
			}
			first := b.Instrs[0]
			if isBody(first) {
				return false
			}
			if end(first) {
				return true
			}
			_, skips := pathExistsEB(f, first, end, forbidden, isBody)
			return skips
		}
		c.Check(rule, "IfStmt.Evaluate#true-if-condition-runs-body", !from(ifTest, 0, nilIf, isRet), ifCond.Pos(), "when the if condition is true its body must be evaluated: a path from the true edge returns without it")
		eiEnd := func(in ssa.Instruction) bool { return isRet(in) || in == ssa.Instruction(eiCond) }
		c.Check(rule, "IfStmt.Evaluate#true-elseif-condition-runs-body", !from(eiTest, 0, nilEi, eiEnd), eiCond.Pos(), "when an else-if condition is true its body must be evaluated: a path from the true edge returns or goes on to the next condition without it")
		// all false: from the false edge of the if test, not over a true else-if edge, not over an error of a condition
		forb := map[edgeKey]bool{{eiTest.Block(), 0}: true}
		for k := range nilElse {
			forb[k] = true
		}
		eachInstr(f, func(in ssa.Instruction) {
			if iff, ok := in.(*ssa.If); ok {
				if sb, neq, ok := nilCheck(iff.Cond); ok {
					if ex, ok := x.Origin(sb).(*ssa.Extract); ok && ex.Index == 1 && (ex.Tuple == ssa.Value(eiCond) || ex.Tuple == ssa.Value(ifCond)) {
						if neq {
							forb[edgeKey{iff.Block(), 0}] = true
						} else {
							forb[edgeKey{iff.Block(), 1}] = true
						}
					}
				}
			}
		})
		c.Check(rule, "IfStmt.Evaluate#all-false-runs-else", !from(ifTest, 1, forb, isRet), ifCond.Pos(), "when the if condition and every else-if condition are false an existing else block must be evaluated: a path returns without it")
	}
	// else-if conditions: forward range over the whole list, only after the if was false
	s, L, ok := x.rangedSlice(eiCond.Call.Args[0])
	if !ok {
		if b, is := x.isFieldLoad(eiCond.Call.Args[0], "ElseIfStmt", "Expression"); is {
			s, L, ok = x.rangedSlice(b)
		}
	}
	okList := false
	if ok {
		if b, is := x.isFieldLoad(s, "IfStmt", "ElseIfStmtList"); is && x.Origin(b) == recv {
			_, lo, hi := x.sliceInterval(s)
			okList = lo.equal(constForm(0)) && hi.equal(x.symLen(s)) && L != nil
		}
	}
	c.Check(rule, "IfStmt.Evaluate#elseif-in-order", okList && x.edgeDominated(ifTest.Block(), 1)[eiCond.Block()], eiCond.Pos(), "else-if conditions must be evaluated in list order, over the whole list, only after the if condition was false")
	// the error of a condition returns
	for name, cc := range map[string]*ssa.Call{"if": ifCond, "elseif": eiCond} {
		var errIf *ssa.If
		eachInstr(f, func(in ssa.Instruction) {
			if iff, ok := in.(*ssa.If); ok {
				if sb, neq, ok := nilCheck(iff.Cond); ok && neq {
					if ex, ok := x.Origin(sb).(*ssa.Extract); ok && ex.Tuple == ssa.Value(cc) && ex.Index == 1 {
						errIf = iff
					}
				}
			}
		})
		okE := errIf != nil
		if okE {
			_, runs := pathFrom(errIf.Block().Succs[0].Instrs[0], func(in ssa.Instruction) bool { return isCallTo(in, set) }, nil)
			okE = !runs
		}
		c.Check(rule, "IfStmt.Evaluate#"+name+"-condition-error-stops", okE, cc.Pos(), "a failing condition must end the statement without running a branch")
	}
	c.Min(rule, 10)
}

func isStepCall(steps []*ssa.Call, in ssa.Instruction) bool {
	for _, st := range steps {
		if in == ssa.Instruction(st) {
			return true
		}
	}
	return false
}

func (c *Ctx) ruleS3(rule string) {
	f := c.MustFn(rule, "internal/base", "ForStmt", "Evaluate")
	if f == nil {
		return
	}
	x := c.Index(f)
	recv := ssa.Value(f.Params[0])
	var initC, stepCs []*ssa.Call
	for _, call := range callsTo(f, "Assignment", "Evaluate") {
		u, ok := x.Origin(call.Call.Args[0]).(*ssa.UnOp)
		if !ok {
			continue
		}
		ia, ok := u.X.(*ssa.IndexAddr)
		if !ok {
			continue
		}
		if b, is := x.isFieldLoad(ia.X, "ForStmt", "Assignments"); !is || x.Origin(b) != recv {
			continue
		}
		k, _ := constInt(ia.Index)
		if k == 0 {
			initC = append(initC, call)
		} else if k == 1 {
			stepCs = append(stepCs, call)
		}
	}
	conds := callsTo(f, "Expression", "Evaluate")
	bodiesC := callsTo(f, "Statements", "Evaluate")
	if len(initC) != 1 || len(conds) != 1 || len(bodiesC) != 1 || len(stepCs) == 0 {
		c.Check(rule, "ForStmt.Evaluate#shape", false, f.Pos(), "expected one init, one condition, one body and at least one step evaluation; found %d/%d/%d/%d", len(initC), len(conds), len(bodiesC), len(stepCs))
		return
	}
	ini, cond, bodyC := initC[0], conds[0], bodiesC[0]
	L := x.InnermostLoop(cond.Block())
	c.Check(rule, "ForStmt.Evaluate#init-once-before-loop", L != nil && !L.Blocks[ini.Block()] && domInstr(ini, cond) && x.InnermostLoop(ini.Block()) == nil, ini.Pos(), "the init assignment must run exactly once, before the loop")
	if L == nil {
		return
	}
	test := x.boolTestOf(f, cond)
	c.Check(rule, "ForStmt.Evaluate#condition-before-every-iteration", test != nil && x.edgeDominated(test.Block(), 0)[bodyC.Block()] && L.Blocks[bodyC.Block()], cond.Pos(), "the body must run only under the true edge of the condition evaluated in the same iteration")
	if test != nil {
		_, again := pathFrom(test.Block().Succs[1].Instrs[0], func(in ssa.Instruction) bool { return in == ssa.Instruction(cond) || in == ssa.Instruction(bodyC) }, nil)
		c.Check(rule, "ForStmt.Evaluate#false-condition-ends-loop", !again, test.Pos(), "a false condition must end the loop")
		// and a true condition runs the body: from the true edge nothing but the body follows
		// (a loop statement without a body block at all, StatementList == nil, excepted)
		nilBody, _ := x.nilEdges(f, func(v ssa.Value) bool {
			_, is := x.isFieldLoad(v, "ForStmt", "StatementList")
			return is
		})
		skips := false
		if t0 := test.Block().Succs[0]; len(t0.Instrs) > 0 {
			first := t0.Instrs[0]
			if first != ssa.Instruction(bodyC) {
				isEnd := func(in ssa.Instruction) bool {
					if _, isRet := in.(*ssa.Return); isRet {
						return true
					}
					return in == ssa.Instruction(cond) || isStepCall(stepCs, in) || !L.Blocks[in.Block()]
				}
				if isEnd(first) {
					skips = true
				} else {
					var hit ssa.Instruction
					hit, skips = pathExistsEB(f, first, isEnd, nilBody, func(in ssa.Instruction) bool { return in == ssa.Instruction(bodyC) })
					if skips && os.Getenv("GVERIF_DEBUG") != "" {
						fmt.Println("DEBUG true-condition-runs-body hit", hit, c.pos(hit.Pos()), "nil edges", len(nilBody))
					}
				}
			}
		}
		c.Check(rule, "ForStmt.Evaluate#true-condition-runs-body", !skips, test.Pos(), "when the condition is true the body must be evaluated: a path from the true edge reaches the step, the next test or the end of the loop without it")
	}
	isStep := func(in ssa.Instruction) bool {
		for _, s := range stepCs {
			if in == ssa.Instruction(s) {
				return true
			}
		}
		return false
	}
	_, skip := pathExists(f, bodyC, func(in ssa.Instruction) bool { return in == ssa.Instruction(cond) }, isStep)
	c.Check(rule, "ForStmt.Evaluate#step-after-every-iteration", !skip, bodyC.Pos(), "a path from the body to the next condition test does not run the step assignment (e.g. the continue path)")
	// step runs at most once per iteration
	twice := false
	for _, s := range stepCs {
		if _, t := pathExists(f, s, isStep, func(in ssa.Instruction) bool { return in == ssa.Instruction(cond) }); t {
			twice = true
		}
	}
	c.Check(rule, "ForStmt.Evaluate#step-once", !twice, stepCs[0].Pos(), "the step assignment must run once per iteration")
	// a return inside the body ends the rule at once: on the way from the body to a step assignment the
	// returned-flag must have been tested (the continue branch, where the flag is false, excepted)
	{
		var flagIf *ssa.If
		eachInstr(f, func(in ssa.Instruction) {
			if iff, ok := in.(*ssa.If); ok {
				if ex, ok := x.Origin(iff.Cond).(*ssa.Extract); ok && ex.Tuple == ssa.Value(bodyC) && ex.Index == 2 {
					flagIf = iff
				}
			}
		})
		contEdges := map[edgeKey]bool{}
		for _, b := range f.Blocks {
			if iff, ok := b.Instrs[len(b.Instrs)-1].(*ssa.If); ok {
				if bo, ok := iff.Cond.(*ssa.BinOp); ok && bo.Op == token.EQL {
					if g, ok := x.Origin(bo.Y).(*ssa.UnOp); ok {
						if gl, ok := g.X.(*ssa.Global); ok && gl.Name() == "CONTINUEFLAG" {
							contEdges[edgeKey{b, 0}] = true
						}
					}
				}
			}
		}
		okNoStep := flagIf != nil
		if okNoStep {
			_, early := pathExistsEB(f, bodyC, isStep, contEdges, func(in ssa.Instruction) bool { return in == ssa.Instruction(flagIf) })
			okNoStep = !early
			// and the true edge of the flag test runs no step
			if _, later := pathFrom(flagIf.Block().Succs[0].Instrs[0], isStep, nil); later {
				okNoStep = false
			}
		}
		c.Check(rule, "ForStmt.Evaluate#return-before-step", okNoStep, bodyC.Pos(), "when the body returned, the step assignment must not run any more: the returned-flag has to be tested before the step on every non-continue path")
	}
	// sentinels
	sentinel := func(name string) *ssa.If {
		var out *ssa.If
		eachInstr(f, func(in ssa.Instruction) {
			iff, ok := in.(*ssa.If)
			if !ok {
				return
			}
			bo, ok := iff.Cond.(*ssa.BinOp)
			if !ok || bo.Op != token.EQL {
				return
			}
			ex, isEx := x.Origin(bo.X).(*ssa.Extract)
			g, isG := x.Origin(bo.Y).(*ssa.UnOp)
			if !isEx || !isG || ex.Tuple != ssa.Value(bodyC) || ex.Index != 1 {
				return
			}
			if gl, ok := g.X.(*ssa.Global); ok && gl.Name() == name {
				out = iff
			}
		})
		return out
	}
	brk, cnt := sentinel("BREAKFLAG"), sentinel("CONTINUEFLAG")
	isBodyErr := func(v ssa.Value) bool {
		ex, ok := x.Origin(v).(*ssa.Extract)
		return ok && ex.Tuple == ssa.Value(bodyC) && ex.Index == 1
	}
	// with the body's error being BREAKFLAG: nothing of the loop runs any more and the
	// function ends without passing the sentinel on (however the tests are arranged)
	okB := brk != nil
	if okB {
		reach := x.reachUnderSentinel(f, bodyC, isBodyErr, "BREAKFLAG", nil)
		for in := range reach {
			if in == ssa.Instruction(cond) || in == ssa.Instruction(bodyC) || isStep(in) {
				okB = false
			}
			if r, isR := in.(*ssa.Return); isR {
				for _, pv := range x.PossibleValues(r.Results[1]) {
					if pv.V != nil && isBodyErr(pv.V) {
						okB = false
					}
					if pv.V != nil && !isConstNil(pv.V) && !isBodyErr(pv.V) {
						// some other error: only acceptable when it cannot come from this path; be strict
						if _, isCall := pv.V.(*ssa.Call); !isCall {
							okB = false
						}
					}
				}
				for _, pv := range x.PossibleValues(r.Results[2]) {
					if pv.V != nil {
						if b, isB := constBool(pv.V); !isB || b {
							okB = false
						}
					}
				}
			}
		}
	}
	c.Check(rule, "ForStmt.Evaluate#break-ends-loop", okB, bodyC.Pos(), "a break from the body must end this loop normally: no further condition, step or body, and the sentinel is not passed on to an enclosing loop")
	okC := cnt != nil
	if okC {
		// with the body's error being CONTINUEFLAG the condition is reached again
		reach := x.reachUnderSentinel(f, bodyC, isBodyErr, "CONTINUEFLAG", func(in ssa.Instruction) bool { return in == ssa.Instruction(cond) })
		okC = reach[cond]
	}
	c.Check(rule, "ForStmt.Evaluate#continue-goes-on", okC, bodyC.Pos(), "a continue from the body must proceed with the next iteration")
	// other errors return that error; flag returns value
	c.ruleLoopBodyOutcome(rule, "ForStmt.Evaluate", f, bodyC, L)
	c.Min(rule, 9)
}

// ruleLoopBodyOutcome: shared by for / forRange — a non-sentinel error of the body is returned unchanged; a true returned-flag returns the body's value with the flag.
func (c *Ctx) ruleLoopBodyOutcome(rule, name string, f *ssa.Function, bodyC *ssa.Call, L *Loop) {
	x := c.Index(f)
	// the combined test err != nil && err != BREAK && err != CONTINUE
	okErr := false
	eachInstr(f, func(in ssa.Instruction) {
		r, ok := in.(*ssa.Return)
		if !ok {
			return
		}
		for _, pv := range x.PossibleValues(r.Results[1]) {
			if ex, ok := pv.V.(*ssa.Extract); ok && ex.Tuple == ssa.Value(bodyC) && ex.Index == 1 {
				// guarded by err != nil
				for _, g := range x.GuardsOf(r.Block()) {
					if s, neq, ok := nilCheck(g.Cond); ok && neq == g.Pol {
						if e2, ok := x.Origin(s).(*ssa.Extract); ok && e2.Tuple == ssa.Value(bodyC) && e2.Index == 1 {
							okErr = true
						}
					}
				}
			}
		}
	})
	c.Check(rule, name+"#body-error-returned", okErr, bodyC.Pos(), "an error of the body other than break/continue must be returned unchanged")
	okFlag := false
	eachInstr(f, func(in ssa.Instruction) {
		r, ok := in.(*ssa.Return)
		if !ok {
			return
		}
		flagFrom, valFrom := false, false
		for _, pv := range x.PossibleValues(r.Results[2]) {
			if ex, ok := pv.V.(*ssa.Extract); ok && ex.Tuple == ssa.Value(bodyC) && ex.Index == 2 {
				flagFrom = true
			}
		}
		for _, pv := range x.PossibleValues(r.Results[0]) {
			if ex, ok := pv.V.(*ssa.Extract); ok && ex.Tuple == ssa.Value(bodyC) && ex.Index == 0 {
				valFrom = true
			}
		}
		if flagFrom && valFrom {
			for _, g := range x.GuardsOf(r.Block()) {
				if ex, ok := x.Origin(g.Cond).(*ssa.Extract); ok && ex.Tuple == ssa.Value(bodyC) && ex.Index == 2 && g.Pol {
					okFlag = true
				}
			}
		}
	})
	c.Check(rule, name+"#return-from-body-ends-rule", okFlag, bodyC.Pos(), "when the body returned, the loop must return the body's value with the returned-flag")
	// the flag is tested on every path from the body to the next iteration
	var flagIf *ssa.If
	eachInstr(f, func(in ssa.Instruction) {
		if iff, ok := in.(*ssa.If); ok {
			if ex, ok := x.Origin(iff.Cond).(*ssa.Extract); ok && ex.Tuple == ssa.Value(bodyC) && ex.Index == 2 {
				flagIf = iff
			}
		}
	})
	okT := flagIf != nil
	if okT {
		// paths to the loop head that avoid the test are allowed only through the continue/break tests (sentinel errors imply flag handling above)
		_, skip := pathExists(f, bodyC, func(in ssa.Instruction) bool { return in == L.Head.Instrs[0] }, func(in ssa.Instruction) bool {
			if in == ssa.Instruction(flagIf) {
				return true
			}
			// the continue branch
			if iff, ok := in.(*ssa.If); ok {
				if bo, ok := iff.Cond.(*ssa.BinOp); ok && bo.Op == token.EQL {
					if g, ok := x.Origin(bo.Y).(*ssa.UnOp); ok {
						if gl, ok := g.X.(*ssa.Global); ok && gl.Name() == "CONTINUEFLAG" {
							return true
						}
					}
				}
			}
			return false
		})
		okT = !skip
	}
	c.Check(rule, name+"#returned-flag-tested", okT, bodyC.Pos(), "after the body the returned-flag must be tested before the next iteration")
}

// breakEdgeReturnsNil: after intercepting break, the loop statement ends normally (nil error, flag false).
func (x *FnIndex) breakEdgeReturnsNil(first ssa.Instruction) bool {
	ok := true
	pathFrom(first, func(in ssa.Instruction) bool {
		if r, isR := in.(*ssa.Return); isR {
			for _, pv := range x.PossibleValues(r.Results[1]) {
				if pv.V != nil && !isConstNil(pv.V) {
					ok = false
				}
			}
			for _, pv := range x.PossibleValues(r.Results[2]) {
				if pv.V != nil {
					if b, isB := constBool(pv.V); !isB || b {
						ok = false
					}
				}
			}
		}
		return false
	}, nil)
	return ok
}

func (c *Ctx) ruleS4(rule string) {
	f := c.MustFn(rule, "internal/base", "ForRangeStmt", "Evaluate")
	if f == nil {
		return
	}
	x := c.Index(f)
	recv := ssa.Value(f.Params[0])
	var keyC, nextC, setC []*ssa.Call
	eachInstr(f, func(in ssa.Instruction) {
		call, ok := in.(*ssa.Call)
		if !ok {
			return
		}
		if call.Call.IsInvoke() && call.Call.Method.Name() == "Key" {
			keyC = append(keyC, call)
		}
		if call.Call.IsInvoke() && call.Call.Method.Name() == "Next" {
			nextC = append(nextC, call)
		}
		if calleeIs(call, pContext, "DataContext", "SetValue") {
			setC = append(setC, call)
		}
	})
	bodiesC := callsTo(f, "Statements", "Evaluate")
	if len(keyC) != 1 || len(nextC) != 1 || len(setC) != 1 || len(bodiesC) != 1 {
		c.Check(rule, "ForRangeStmt.Evaluate#shape", false, f.Pos(), "expected one Next, one Key, one SetValue and one body evaluation; found %d/%d/%d/%d", len(nextC), len(keyC), len(setC), len(bodiesC))
		return
	}
	key, next, set, bodyC := keyC[0], nextC[0], setC[0], bodiesC[0]
	L := x.InnermostLoop(next.Block())
	ok := L != nil && L.Blocks[key.Block()] && x.sameValue(key.Call.Value, next.Call.Value)
	if ok {
		// Key under Next()==true, once per iteration
		var nt *ssa.If
		eachInstr(f, func(in ssa.Instruction) {
			if iff, isIf := in.(*ssa.If); isIf && x.Origin(iff.Cond) == ssa.Value(next) {
				nt = iff
			}
		})
		ok = nt != nil && x.edgeDominated(nt.Block(), 0)[key.Block()]
		if ok {
			_, again := pathExists(f, key, func(in ssa.Instruction) bool { return in == ssa.Instruction(key) }, func(in ssa.Instruction) bool { return in == ssa.Instruction(next) })
			ok = !again
		}
	}
	c.Check(rule, "ForRangeStmt.Evaluate#one-key-per-iteration", ok, key.Pos(), "each iteration must take exactly one Key() from the iterator, after Next() reported true")
	// the iterator is built over the value of the named variable
	okIt := false
	if it, isCall := x.Unwrap(key.Call.Value).(*ssa.Extract); isCall {
		if ni, isNI := it.Tuple.(*ssa.Call); isNI && calleeIs(ni, pIter, "", "NewInter") {
			if gv, isEx := x.Origin(ni.Call.Args[0]).(*ssa.Extract); isEx {
				if gc, isGC := gv.Tuple.(*ssa.Call); isGC && calleeIs(gc, pContext, "DataContext", "GetValue") {
					if b, is := x.isFieldLoad(gc.Call.Args[2], "ForRangeStmt", "name"); is && x.Origin(b) == recv {
						okIt = true
					}
				}
			}
		}
	}
	c.Check(rule, "ForRangeStmt.Evaluate#iterates-named-collection", okIt, key.Pos(), "the iterator must be created once, over the current value of the ranged variable")
	// what the iterator runs over: every key of the map as reflect hands them out (MapKeys of the value
	// given, in place sorting aside), every index below the length of the slice or array
	if ni := c.MustFn(rule, "internal/iter", "", "NewInter"); ni != nil && len(ni.Params) > 0 {
		nx := c.Index(ni)
		nKeys, okKeys, nMax, okMax := 0, true, 0, true
		eachInstr(ni, func(in ssa.Instruction) {
			st, isSt := in.(*ssa.Store)
			if !isSt {
				return
			}
			fa, isFA := st.Addr.(*ssa.FieldAddr)
			if !isFA {
				return
			}
			fromParam := func(v ssa.Value, method string) bool {
				call, isCall := nx.Origin(v).(*ssa.Call)
				if !isCall {
					return false
				}
				nm, cc := reflectMethod(call)
				return cc != nil && nm == method && nx.Origin(cc.Args[0]) == ssa.Value(ni.Params[0])
			}
			switch fieldOf(fa).Name() {
			case "keys":
				nKeys++
				if !fromParam(st.Val, "MapKeys") {
					okKeys = false
				}
			case "max":
				nMax++
				if !fromParam(st.Val, "Len") {
					okMax = false
				}
			}
		})
		c.Check(rule, "iter.NewInter#every-key-and-index", nKeys >= 1 && okKeys && nMax >= 1 && okMax, ni.Pos(), "the map iterator must run over value.MapKeys() and the slice iterator up to value.Len() of the value given (keys ok %v, length ok %v): a list rebuilt from the keys need not hold each key once", okKeys, okMax)
	}
	// ... handing out every position once: Key() returns the cursor's position and advances by one, Next()
	// only asks whether the cursor is below the bound fixed at creation (the iterator contract of C09-R5)
	c.ruleIteratorContract(rule)
	// key bound before the body
	kb, isK := x.isFieldLoad(set.Call.Args[2], "ForRangeStmt", "keyName")
	okBind := isK && x.Origin(kb) == recv && x.Origin(set.Call.Args[3]) == ssa.Value(key) && domInstr(key, set) && domInstr(set, bodyC)
	c.Check(rule, "ForRangeStmt.Evaluate#key-bound-before-body", okBind, set.Pos(), "the key must be stored with SetValue(keyName, key) before the body of the same iteration runs")
	if L != nil {
		// every element's body runs: once the key is bound, nothing but the body follows (a
		// statement without a body block at all, StatementList == nil, excepted; a failing
		// SetValue returns its error)
		nilBody, _ := x.nilEdges(f, func(v ssa.Value) bool {
			_, is := x.isFieldLoad(v, "ForRangeStmt", "StatementList")
			return is
		})
		errEdges := map[edgeKey]bool{}
		for k := range nilBody {
			errEdges[k] = true
		}
		_, setErrNotNil := x.nilEdges(f, func(v ssa.Value) bool {
			return x.Origin(v) == ssa.Value(set) || x.Origin(v) == x.Origin(ssa.Value(set))
		})
		for k := range setErrNotNil {
			errEdges[k] = true
		}
		_, skips := pathExistsEB(f, set, func(in ssa.Instruction) bool {
			if _, isRet := in.(*ssa.Return); isRet {
				return true
			}
			return in == ssa.Instruction(nextC[0]) || !L.Blocks[in.Block()]
		}, errEdges, func(in ssa.Instruction) bool { return in == ssa.Instruction(bodyC) })
		c.Check(rule, "ForRangeStmt.Evaluate#every-element-runs-body", !skips, set.Pos(), "after the key is bound the body must be evaluated: a path reaches the next element or the end of the loop without it")
		c.ruleLoopBodyOutcome(rule, "ForRangeStmt.Evaluate", f, bodyC, L)
		// break ends, continue goes on
		sent := func(name string) *ssa.If {
			var out *ssa.If
			eachInstr(f, func(in ssa.Instruction) {
				if iff, ok := in.(*ssa.If); ok {
					if bo, ok := iff.Cond.(*ssa.BinOp); ok && bo.Op == token.EQL {
						if g, ok := x.Origin(bo.Y).(*ssa.UnOp); ok {
							if gl, ok := g.X.(*ssa.Global); ok && gl.Name() == name {
								if ex, ok := x.Origin(bo.X).(*ssa.Extract); ok && ex.Tuple == ssa.Value(bodyC) && ex.Index == 1 {
									out = iff
								}
							}
						}
					}
				}
			})
			return out
		}
		b, ct := sent("BREAKFLAG"), sent("CONTINUEFLAG")
		okB := b != nil
		if okB {
			_, more := pathFrom(b.Block().Succs[0].Instrs[0], func(in ssa.Instruction) bool { return in == ssa.Instruction(next) || in == ssa.Instruction(bodyC) }, nil)
			okB = !more && x.breakEdgeReturnsNil(b.Block().Succs[0].Instrs[0])
		}
		c.Check(rule, "ForRangeStmt.Evaluate#break-ends-loop", okB, bodyC.Pos(), "a break from the body must end this loop normally and must not be passed on to an enclosing loop")
		okC := ct != nil
		if okC {
			_, reaches := pathFrom(ct.Block().Succs[0].Instrs[0], func(in ssa.Instruction) bool { return in == ssa.Instruction(next) }, func(in ssa.Instruction) bool { return in == ssa.Instruction(bodyC) })
			okC = reaches
		}
		c.Check(rule, "ForRangeStmt.Evaluate#continue-goes-on", okC, bodyC.Pos(), "a continue from the body must proceed with the next element")
	}
	c.Min(rule, 8)
}

func (c *Ctx) ruleS5(rule string) {
	sp := c.SSA[pBase]
	flags := []string{"BREAKFLAG", "CONTINUEFLAG"}
	inits := map[string]ssa.Value{}
	nStores := map[string]int{}
	readers := map[string]map[string]bool{"BREAKFLAG": {}, "CONTINUEFLAG": {}}
	for _, f := range c.AllFns {
		if f == nil || f.Blocks == nil {
			continue
		}
		eachInstr(f, func(in ssa.Instruction) {
			switch t := in.(type) {
			case *ssa.Store:
				if g, ok := t.Addr.(*ssa.Global); ok {
					for _, n := range flags {
						if g.Name() == n && g.Pkg == sp {
							nStores[n]++
							inits[n] = t.Val
						}
					}
				}
			case *ssa.UnOp:
				if g, ok := t.X.(*ssa.Global); ok && t.Op == token.MUL {
					for _, n := range flags {
						if g.Name() == n && g.Pkg == sp {
							readers[n][fnName(rootOf(f))] = true
						}
					}
				}
			}
		})
	}
	for _, n := range flags {
		call, isCall := inits[n].(*ssa.Call)
		c.Check(rule, n+"#own-errors.New", nStores[n] == 1 && isCall && fnIs(call.Call.StaticCallee(), "errors", "", "New"), 0, "%s must be initialised once, by its own errors.New, and never reassigned (%d stores)", n, nStores[n])
	}
	c.Check(rule, "sentinels-distinct", inits["BREAKFLAG"] != nil && inits["BREAKFLAG"] != inits["CONTINUEFLAG"], 0, "break and continue must be two different error values")
	allowed := map[string]map[string]bool{
		"BREAKFLAG":    {"BreakStmt.Evaluate": true, "ForStmt.Evaluate": true, "ForRangeStmt.Evaluate": true},
		"CONTINUEFLAG": {"ContinueStmt.Evaluate": true, "ForStmt.Evaluate": true, "ForRangeStmt.Evaluate": true},
	}
	for _, n := range flags {
		var rs []string
		okR := true
		for r := range readers[n] {
			rs = append(rs, r)
			if !allowed[n][r] {
				okR = false
			}
		}
		sort.Strings(rs)
		c.Check(rule, n+"#readers", okR && len(rs) == 3, 0, "%s is read in %v; only its statement and the two loop evaluators may produce / intercept it", n, rs)
	}
	// Break/Continue return exactly their sentinel
	for _, pr := range [][2]string{{"BreakStmt", "BREAKFLAG"}, {"ContinueStmt", "CONTINUEFLAG"}} {
		f := c.MustFn(rule, "internal/base", pr[0], "Evaluate")
		if f == nil {
			continue
		}
		x := c.Index(f)
		ok := false
		eachInstr(f, func(in ssa.Instruction) {
			if r, isR := in.(*ssa.Return); isR {
				for _, pv := range x.PossibleValues(r.Results[1]) {
					if u, isU := pv.V.(*ssa.UnOp); isU {
						if g, isG := u.X.(*ssa.Global); isG && g.Name() == pr[1] {
							ok = true
						}
					}
				}
			}
		})
		c.Check(rule, pr[0]+".Evaluate#returns-sentinel", ok, f.Pos(), "%s must return %s", pr[0], pr[1])
	}
	// no wrapping of child errors in the statement-level evaluators
	for _, spec := range [][2]string{{"Statements", "Evaluate"}, {"Statement", "Evaluate"}, {"IfStmt", "Evaluate"}, {"ElseIfStmt", "Evaluate"}, {"ElseStmt", "Evaluate"}, {"RuleContent", "Execute"}} {
		f := c.MustFn(rule, "internal/base", spec[0], spec[1])
		if f == nil {
			continue
		}
		x := c.Index(f)
		wraps := false
		eachInstr(f, func(in ssa.Instruction) {
			call, ok := in.(*ssa.Call)
			if !ok || call.Call.StaticCallee() == nil || call.Call.StaticCallee().Pkg == nil {
				return
			}
			pk := call.Call.StaticCallee().Pkg.Pkg.Path()
			if pk != "fmt" && pk != "errors" {
				return
			}
			for _, a := range call.Call.Args {
				for _, el := range append(x.variadicElems(a), a) {
					if ex, isEx := x.Unwrap(el).(*ssa.Extract); isEx {
						if _, isCall := ex.Tuple.(*ssa.Call); isCall && isErrorType(ex.Type()) {
							wraps = true
						}
					}
				}
			}
		})
		c.Check(rule, fnName(f)+"#passes-errors-by-identity", !wraps, f.Pos(), "a statement-level evaluator must pass a child's error on unchanged; wrapping it would hide break/continue from the enclosing loop")
	}
	c.Min(rule, 12)
	_ = types.Typ
	_ = strings.Join
}

// stringTests: If instructions comparing (load recv.<field>) == "lit"; returns literal -> (If, successor index taken when equal).
type strTest struct {
	iff  *ssa.If
	edge int
	lit  string
}

func (x *FnIndex) stringTests(f *ssa.Function, typ, field string) []strTest {
	var out []strTest
	eachInstr(f, func(in ssa.Instruction) {
		iff, ok := in.(*ssa.If)
		if !ok {
			return
		}
		bo, ok := iff.Cond.(*ssa.BinOp)
		if !ok || (bo.Op != token.EQL && bo.Op != token.NEQ) {
			return
		}
		lit, isL := constString(bo.Y)
		if !isL {
			return
		}
		if _, is := x.isFieldLoad(bo.X, typ, field); !is {
			return
		}
		edge := 0
		if bo.Op == token.NEQ {
			edge = 1
		}
		out = append(out, strTest{iff, edge, lit})
	})
	return out
}

func (c *Ctx) ruleS7(rule string) {
	f := c.MustFn(rule, "internal/base", "Assignment", "Evaluate")
	if f == nil {
		return
	}
	x := c.Index(f)
	recv := ssa.Value(f.Params[0])
	lits := c.ruleLiterals("AssignOperator")
	if len(lits) != 6 {
		c.Check(rule, "grammar#assignOperator-tokens", false, 0, "expected the six assignment operator tokens in the generated parser, found %v", lits)
		return
	}
	tests := x.stringTests(f, "Assignment", "AssignOperator")
	byLit := map[string]strTest{}
	for _, t := range tests {
		byLit[t.lit] = t
	}
	var extra []string
	for l := range byLit {
		known := false
		for _, g := range lits {
			if g == l {
				known = true
			}
		}
		if !known {
			extra = append(extra, l)
		}
	}
	sort.Strings(extra)
	c.Check(rule, "Assignment.Evaluate#no-unknown-operator", len(extra) == 0, f.Pos(), "operators compared that the grammar cannot produce: %v", extra)
	// the write-back sites
	var setV, setM *ssa.Call
	eachInstr(f, func(in ssa.Instruction) {
		if call, ok := in.(*ssa.Call); ok {
			if calleeIs(call, pContext, "DataContext", "SetValue") {
				setV = call
			}
			if calleeIs(call, pContext, "DataContext", "SetMapVarValue") {
				setM = call
			}
		}
	})
	if setV == nil || setM == nil {
		c.Check(rule, "Assignment.Evaluate#write-back", false, f.Pos(), "SetValue / SetMapVarValue write-back not found")
		return
	}
	// targets
	vb, okV := x.isFieldLoad(setV.Call.Args[2], "Assignment", "Variable")
	okTargetV := okV && x.Origin(vb) == recv
	okTargetM := true
	for i, fld := range []string{"Name", "Strkey", "Varkey", "Intkey"} {
		b, ok := x.isFieldLoad(setM.Call.Args[2+i], "MapVar", fld)
		if !ok {
			okTargetM = false
			continue
		}
		mb, ok := x.isFieldLoad(b, "Assignment", "MapVar")
		if !ok || x.Origin(mb) != recv {
			okTargetM = false
		}
	}
	c.Check(rule, "Assignment.Evaluate#write-back-targets", okTargetV && okTargetM, setV.Pos(), "the result must be written to a.Variable through SetValue, or to a.MapVar (Name, Strkey, Varkey, Intkey in that order) through SetMapVarValue")
	written := func(call *ssa.Call, idx int) []ssa.Value {
		var out []ssa.Value
		for _, pv := range x.PossibleValues(call.Call.Args[idx]) {
			if pv.V != nil {
				out = append(out, pv.V)
			}
		}
		return out
	}
	isRhs := func(v ssa.Value) bool {
		ex, ok := v.(*ssa.Extract)
		if !ok || ex.Index != 0 {
			return false
		}
		call, ok := ex.Tuple.(*ssa.Call)
		return ok && (calleeIs(call, pBase, "MathExpression", "Evaluate") || calleeIs(call, pBase, "Expression", "Evaluate"))
	}
	isCurrent := func(v ssa.Value) bool {
		ex, ok := v.(*ssa.Extract)
		if !ok || ex.Index != 0 {
			return false
		}
		call, ok := ex.Tuple.(*ssa.Call)
		if !ok {
			return false
		}
		if calleeIs(call, pContext, "DataContext", "GetValue") {
			b, is := x.isFieldLoad(call.Call.Args[2], "Assignment", "Variable")
			return is && x.Origin(b) == recv
		}
		if calleeIs(call, pBase, "MapVar", "Evaluate") {
			b, is := x.isFieldLoad(call.Call.Args[0], "Assignment", "MapVar")
			return is && x.Origin(b) == recv
		}
		return false
	}
	table := map[string]string{"+=": "Add", "-=": "Sub", "*=": "Mul", "/=": "Div"}
	for _, l := range lits {
		key := "Assignment.Evaluate#operator " + l
		t, ok := byLit[l]
		if !ok {
			c.Check(rule, key, false, f.Pos(), "the grammar produces the assignment operator %q but the evaluator never tests for it (the assignment would silently do nothing or misbehave)", l)
			continue
		}
		first := t.iff.Block().Succs[t.edge].Instrs[0]
		if want, compound := table[l]; compound {
			var coreCall *ssa.Call
			eachInstr(f, func(in ssa.Instruction) {
				if call, ok := in.(*ssa.Call); ok && call.Call.StaticCallee() != nil && call.Call.StaticCallee().Pkg != nil && call.Call.StaticCallee().Pkg.Pkg.Path() == pCore && x.edgeDominated(t.iff.Block(), t.edge)[call.Block()] {
					coreCall = call
				}
			})
			if coreCall == nil {
				c.Check(rule, key, false, t.iff.Pos(), "%s does not call a core arithmetic function", l)
				continue
			}
			okFn := coreCall.Call.StaticCallee().Name() == want
			// arguments: (current, rhs)
			okA := true
			nCur, nRhs := 0, 0
			for _, pv := range x.PossibleValues(coreCall.Call.Args[0]) {
				if pv.V == nil {
					continue // declared, not yet assigned: neither target form present (excluded by the grammar)
				}
				if !isCurrent(pv.V) {
					okA = false
				}
				nCur++
			}
			for _, pv := range x.PossibleValues(coreCall.Call.Args[1]) {
				if pv.V == nil {
					continue
				}
				if !isRhs(pv.V) {
					okA = false
				}
				nRhs++
			}
			okA = okA && nCur == 2 && nRhs == 2
			// the result reaches the write-back
			okW := false
			for _, sc := range []*ssa.Call{setV, setM} {
				idx := 3
				if sc == setM {
					idx = 6
				}
				for _, v := range written(sc, idx) {
					if vo, ok := v.(*ssa.Call); ok && vo.Call.StaticCallee() != nil && vo.Call.StaticCallee().Name() == "ValueOf" {
						// on executions through this core call (the wrapped result may sit in a
						// variable shared by the four operators)
						for _, w := range x.valuesVia(f, coreCall, vo, x.Unwrap(vo.Call.Args[0])) {
							if ex, ok := x.Unwrap(w).(*ssa.Extract); ok && ex.Tuple == ssa.Value(coreCall) && ex.Index == 0 {
								okW = true
							}
						}
					}
				}
			}
			// its error is tested and stops the assignment
			c.Check(rule, key, okFn && okA && okW, coreCall.Pos(), "%s must compute core.%s(current value of the target, right-hand side) and write the result back (calls core.%s; operands ok: %v; written back: %v)", l, want, coreCall.Call.StaticCallee().Name(), okA, okW)
		} else {
			// plain assignment: no read of the current value, no arithmetic
			_, reads := pathFrom(first, func(in ssa.Instruction) bool {
				call, ok := in.(*ssa.Call)
				if !ok || call.Call.StaticCallee() == nil {
					return false
				}
				if calleeIs(call, pContext, "DataContext", "GetValue") || calleeIs(call, pBase, "MapVar", "Evaluate") {
					return true
				}
				return call.Call.StaticCallee().Pkg != nil && call.Call.StaticCallee().Pkg.Pkg.Path() == pCore
			}, func(in ssa.Instruction) bool { return in == ssa.Instruction(setV) || in == ssa.Instruction(setM) })
			okW := false
			for _, v := range written(setV, 3) {
				if isRhs(v) {
					okW = true
				}
			}
			c.Check(rule, key, !reads && okW, t.iff.Pos(), "%s must bind the right-hand side value directly, without reading the target or doing arithmetic", l)
		}
	}
	c.Min(rule, 8)
}
