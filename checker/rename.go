package main

// Names (A0, step 0). The rules name gengine's own unexported helpers, fields
// and types by the names they have on the reference tree (getKeys,
// putGengineLocked, GenginePool.rbSlice, gengineWrapper.rulebuilder ...).
// Renaming one of them changes nothing a user can observe, so it must not
// raise an alarm. Before anything is analysed, every unexported function,
// method, struct field and named type of the reference tree
// (baseline_roles.txt, written by `gverif roles`) that the current tree does
// not declare under its old name is looked for under a new one:
//
//   type   : an unexported named type of the same package, unknown to the
//            reference tree, with the same shape (field types in order, or
//            the same underlying type);
//   field  : a field of the same struct, unknown to the reference tree, of the
//            same type (several of one type: paired in declaration order,
//            only when as many are missing as are new);
//   func   : a function / method of the same receiver, unknown to the
//            reference tree, with the same signature (several: the one whose
//            body refers to the most similar set of fields and functions).
//
// What is found is renamed back *in the syntax tree* (identifier by
// identifier, through the type checker's Defs / Uses of the first load) and
// the tree is type-checked again, so that every rule, the SSA and the
// reports see the reference names; positions are those of the real files.
// What is not found stays as it is and the rule that needs it reports a
// lost anchor. Nothing is renamed when the reference name is still declared.

import (
	_ "embed"
	"fmt"
	"go/ast"
	"go/types"
	"regexp"
	"sort"
	"strings"

	"golang.org/x/tools/go/packages"
)

//go:embed baseline_roles.txt
var baselineRolesTxt string

type roleEntry struct {
	kind  string // type | field | func
	pkg   string // path below the module
	owner string // struct (field) or receiver type (func); "" for plain functions
	name  string
	typ   string   // shape (type), type (field), signature (func)
	refs  []string // func: names the body refers to
}

func (e roleEntry) line() string {
	o := e.owner
	if o == "" {
		o = "-"
	}
	r := strings.Join(e.refs, ",")
	if r == "" {
		r = "-"
	}
	return strings.Join([]string{e.kind, e.pkg, o, e.name, r, e.typ}, "\t")
}

func parseRoles(txt string) []roleEntry {
	var out []roleEntry
	for _, ln := range strings.Split(txt, "\n") {
		if ln == "" || strings.HasPrefix(ln, "#") {
			continue
		}
		f := strings.SplitN(ln, "\t", 6)
		if len(f) != 6 {
			continue
		}
		e := roleEntry{kind: f[0], pkg: f[1], owner: f[2], name: f[3], typ: f[5]}
		if e.owner == "-" {
			e.owner = ""
		}
		if f[4] != "-" {
			e.refs = strings.Split(f[4], ",")
		}
		out = append(out, e)
	}
	return out
}

func isGeneratedPkg(path string) bool { return strings.HasSuffix(path, "/internal/iantlr/alr") }

func relPkg(path string) string { return strings.TrimPrefix(path, modPath+"/") }

func typeStr(t types.Type) string {
	return types.TypeString(t, func(p *types.Package) string { return relPkg(p.Path()) })
}

func unexported(n string) bool { return n != "" && n != "_" && !ast.IsExported(n) }

// shapeOf: what a named type looks like apart from its own and its fields' names.
func shapeOf(t types.Type) string {
	if st, ok := t.Underlying().(*types.Struct); ok {
		var fs []string
		for i := 0; i < st.NumFields(); i++ {
			fs = append(fs, typeStr(st.Field(i).Type()))
		}
		return "struct{" + strings.Join(fs, "; ") + "}"
	}
	return typeStr(t.Underlying())
}

type roleScan struct {
	entries []roleEntry
	objs    map[string]types.Object // kind|pkg|owner|name -> object
	order   map[types.Object]int
}

func roleKey(kind, pkg, owner, name string) string { return kind + "|" + pkg + "|" + owner + "|" + name }

func sigRecvName(sig *types.Signature) string {
	if sig.Recv() == nil {
		return ""
	}
	t := sig.Recv().Type()
	if p, ok := t.(*types.Pointer); ok {
		t = p.Elem()
	}
	if n, ok := t.(*types.Named); ok {
		return n.Obj().Name()
	}
	return ""
}

func sigStr(sig *types.Signature) string {
	r := ""
	if sig.Recv() != nil {
		if _, ok := sig.Recv().Type().(*types.Pointer); ok {
			r = "*"
		}
	}
	return r + typeStr(types.NewSignatureType(nil, nil, nil, sig.Params(), sig.Results(), sig.Variadic()))
}

// scanRoles lists the unexported types, fields and functions of the product packages.
func scanRoles(pkgs map[string]*packages.Package) *roleScan {
	rs := &roleScan{objs: map[string]types.Object{}, order: map[types.Object]int{}}
	add := func(e roleEntry, o types.Object) {
		rs.entries = append(rs.entries, e)
		rs.objs[roleKey(e.kind, e.pkg, e.owner, e.name)] = o
		rs.order[o] = len(rs.order)
	}
	for _, pp := range productPkgs {
		p := pkgs[pp]
		if p == nil || isGeneratedPkg(pp) {
			continue
		}
		rp := relPkg(pp)
		// declared order: walk the syntax
		for _, file := range p.Syntax {
			for _, d := range file.Decls {
				switch d := d.(type) {
				case *ast.GenDecl:
					for _, sp := range d.Specs {
						ts, ok := sp.(*ast.TypeSpec)
						if !ok {
							continue
						}
						tn, _ := p.TypesInfo.Defs[ts.Name].(*types.TypeName)
						if tn == nil || tn.IsAlias() {
							continue
						}
						if unexported(tn.Name()) {
							add(roleEntry{kind: "type", pkg: rp, name: tn.Name(), typ: shapeOf(tn.Type())}, tn)
						}
						if st, ok := tn.Type().Underlying().(*types.Struct); ok {
							for i := 0; i < st.NumFields(); i++ {
								f := st.Field(i)
								if unexported(f.Name()) && !f.Embedded() {
									add(roleEntry{kind: "field", pkg: rp, owner: tn.Name(), name: f.Name(), typ: typeStr(f.Type())}, f)
								}
							}
						}
					}
				case *ast.FuncDecl:
					fn, _ := p.TypesInfo.Defs[d.Name].(*types.Func)
					if fn == nil || !unexported(fn.Name()) || fn.Name() == "init" {
						continue
					}
					sig := fn.Type().(*types.Signature)
					refs := map[string]bool{}
					if d.Body != nil {
						ast.Inspect(d.Body, func(n ast.Node) bool {
							id, ok := n.(*ast.Ident)
							if !ok {
								return true
							}
							switch o := p.TypesInfo.Uses[id].(type) {
							case *types.Func:
								refs[o.Name()] = true
							case *types.Var:
								if o.IsField() {
									refs[o.Name()] = true
								}
							}
							return true
						})
					}
					var rl []string
					for r := range refs {
						rl = append(rl, r)
					}
					sort.Strings(rl)
					add(roleEntry{kind: "func", pkg: rp, owner: sigRecvName(sig), name: fn.Name(), typ: sigStr(sig), refs: rl}, fn)
				}
			}
		}
	}
	return rs
}

func jaccard(a, b []string) float64 {
	if len(a) == 0 && len(b) == 0 {
		return 1
	}
	m := map[string]bool{}
	for _, x := range a {
		m[x] = true
	}
	n := 0
	for _, x := range b {
		if m[x] {
			n++
		}
	}
	return float64(n) / float64(len(a)+len(b)-n)
}

// computeRenames: object of the current tree -> the reference name it is read as.
func computeRenames(pkgs map[string]*packages.Package) (map[types.Object]string, []string) {
	base := parseRoles(baselineRolesTxt)
	cur := scanRoles(pkgs)
	ren := map[types.Object]string{}
	var notes []string
	baseNames := map[string]bool{} // kind|pkg|owner|name known to the reference tree
	for _, e := range base {
		baseNames[roleKey(e.kind, e.pkg, e.owner, e.name)] = true
	}
	// current -> reference spelling of type names, applied to type strings before they are compared
	typeRen := map[string]string{} // pkg.cur -> pkg.ref ; and bare within a package
	norm := func(s string) string {
		for from, to := range typeRen {
			re := regexp.MustCompile(`(^|[^A-Za-z0-9_])` + regexp.QuoteMeta(from) + `($|[^A-Za-z0-9_])`)
			for i := 0; i < 4; i++ {
				s = re.ReplaceAllString(s, "${1}"+to+"${2}")
			}
		}
		return s
	}
	curOwner := func(pkg, refOwner string) string { // the current name of a reference owner
		for from, to := range typeRen {
			if to == pkg+"."+refOwner {
				return strings.TrimPrefix(from, pkg+".")
			}
		}
		return refOwner
	}
	// 1. types
	for _, e := range base {
		if e.kind != "type" || cur.objs[roleKey("type", e.pkg, "", e.name)] != nil {
			continue
		}
		var cands []roleEntry
		for _, c := range cur.entries {
			if c.kind == "type" && c.pkg == e.pkg && !baseNames[roleKey("type", c.pkg, "", c.name)] &&
				strings.ReplaceAll(c.typ, e.pkg+"."+c.name, e.pkg+"."+e.name) == e.typ {
				cands = append(cands, c)
			}
		}
		if len(cands) == 1 {
			c := cands[0]
			ren[cur.objs[roleKey("type", c.pkg, "", c.name)]] = e.name
			typeRen[c.pkg+"."+c.name] = e.pkg + "." + e.name
			notes = append(notes, fmt.Sprintf("type %s.%s is read as %s (same shape, the only new type that has it)", c.pkg, c.name, e.name))
		}
	}
	// 2. fields
	type fk struct{ pkg, owner, typ string }
	missing := map[fk][]roleEntry{}
	for _, e := range base {
		if e.kind != "field" {
			continue
		}
		co := curOwner(e.pkg, e.owner)
		if cur.objs[roleKey("field", e.pkg, co, e.name)] != nil {
			continue
		}
		k := fk{e.pkg, e.owner, e.typ}
		missing[k] = append(missing[k], e)
	}
	for k, miss := range missing {
		co := curOwner(k.pkg, k.owner)
		var cands []roleEntry
		for _, c := range cur.entries {
			if c.kind == "field" && c.pkg == k.pkg && c.owner == co && !baseNames[roleKey("field", k.pkg, k.owner, c.name)] && norm(c.typ) == k.typ {
				cands = append(cands, c)
			}
		}
		if len(cands) != len(miss) || len(cands) == 0 {
			continue
		}
		for i, c := range cands { // both in declaration order
			ren[cur.objs[roleKey("field", c.pkg, c.owner, c.name)]] = miss[i].name
			notes = append(notes, fmt.Sprintf("field %s.%s.%s is read as %s (same struct, same type %s)", c.pkg, c.owner, c.name, miss[i].name, k.typ))
		}
	}
	// 3. functions and methods
	fieldRefRen := map[string]string{} // new field / function names -> reference names, for comparing bodies
	for o, to := range ren {
		fieldRefRen[o.Name()] = to
	}
	normRefs := func(rs []string) []string {
		out := make([]string, len(rs))
		for i, r := range rs {
			if to, ok := fieldRefRen[r]; ok {
				r = to
			}
			out[i] = r
		}
		return out
	}
	taken := map[string]bool{}
	for _, e := range base {
		if e.kind != "func" {
			continue
		}
		co := curOwner(e.pkg, e.owner)
		if cur.objs[roleKey("func", e.pkg, co, e.name)] != nil {
			continue
		}
		var best *roleEntry
		bestS, second := -1.0, -1.0
		n := 0
		for i := range cur.entries {
			c := &cur.entries[i]
			if c.kind != "func" || c.pkg != e.pkg || c.owner != co || baseNames[roleKey("func", e.pkg, e.owner, c.name)] ||
				norm(c.typ) != e.typ || taken[roleKey("func", c.pkg, c.owner, c.name)] {
				continue
			}
			n++
			s := jaccard(normRefs(c.refs), e.refs)
			if s > bestS {
				second, bestS, best = bestS, s, c
			} else if s > second {
				second = s
			}
		}
		if best == nil || (n > 1 && (bestS < 0.5 || bestS-second < 0.2)) {
			continue
		}
		taken[roleKey("func", best.pkg, best.owner, best.name)] = true
		ren[cur.objs[roleKey("func", best.pkg, best.owner, best.name)]] = e.name
		fieldRefRen[best.name] = e.name
		why := "the only new function with this receiver and signature"
		if n > 1 {
			why = fmt.Sprintf("of %d new functions with this receiver and signature the one whose body refers to the same names (%.2f, next %.2f)", n, bestS, second)
		}
		o := ""
		if best.owner != "" {
			o = best.owner + "."
		}
		notes = append(notes, fmt.Sprintf("func %s.%s%s is read as %s (%s)", best.pkg, o, best.name, e.name, why))
	}
	sort.Strings(notes)
	return ren, notes
}

// renameSites: file -> byte offset of an identifier -> the name it gets.
func renameSites(pkgs map[string]*packages.Package, ren map[types.Object]string) map[string]map[int]string {
	sites := map[string]map[int]string{}
	put := func(p *packages.Package, id *ast.Ident, to string) {
		pos := p.Fset.Position(id.Pos())
		if sites[pos.Filename] == nil {
			sites[pos.Filename] = map[int]string{}
		}
		sites[pos.Filename][pos.Offset] = to
	}
	for _, p := range pkgs {
		if p.TypesInfo == nil {
			continue
		}
		for id, o := range p.TypesInfo.Defs {
			if to, ok := ren[o]; ok && o != nil {
				put(p, id, to)
			}
		}
		for id, o := range p.TypesInfo.Uses {
			if to, ok := ren[o]; ok {
				put(p, id, to)
			}
		}
	}
	return sites
}

func printRoles() error {
	l, err := loadRepo(repoDir())
	if err != nil {
		return err
	}
	rs := scanRoles(l.Pkgs)
	fmt.Println("# unexported types, struct fields and functions of the reference tree (kind, package, owner, name, names the body refers to, shape / type / signature); see rename.go")
	var ls []string
	for _, e := range rs.entries {
		ls = append(ls, e.line())
	}
	// keep declaration order within (kind, pkg, owner): fields of one type are paired by it
	fmt.Println(strings.Join(ls, "\n"))
	return nil
}
