package main

// kindeval.go — A8: kind-specialised conditional constant propagation.
// A function that dispatches on reflect kinds / class tags is explored once per
// assignment of those tags: branch conditions that only depend on the tags are
// folded, all other branches keep both successors. Values other than the tags
// are never represented (this is constant propagation, not symbolic execution).

import (
	"go/constant"
	"go/token"
	"strings"

	"golang.org/x/tools/go/ssa"
)

type kenv struct {
	x       *FnIndex
	kindOf  map[ssa.Value]string // reflect.Value parameter -> Kind().String()
	intOf   map[ssa.Value]int64  // int parameter -> value
	strOf   map[ssa.Value]string // string parameter -> value
	mapKeys map[string]bool      // keys of the string->string table consulted with comma-ok (TypeMap)
}

func (e *kenv) evalString(v ssa.Value) (string, bool) {
	v = e.x.Origin(v)
	if s, ok := constString(v); ok {
		return s, true
	}
	if p, ok := v.(*ssa.Parameter); ok {
		s, ok := e.strOf[p]
		return s, ok
	}
	switch t := v.(type) {
	case *ssa.Call:
		cal := t.Call.StaticCallee()
		if cal != nil && cal.Name() == "String" && len(t.Call.Args) == 1 {
			// (reflect.Kind).String() of (reflect.Value).Kind() of a parameter
			if kc, ok := e.x.Origin(t.Call.Args[0]).(*ssa.Call); ok && kc.Call.StaticCallee() != nil && kc.Call.StaticCallee().Name() == "Kind" && len(kc.Call.Args) == 1 {
				k, ok := e.kindOf[e.x.Origin(kc.Call.Args[0])]
				return k, ok
			}
		}
	case *ssa.Extract:
		// l, ok := TypeMap[k]: identity on its keys
		if lk, ok := t.Tuple.(*ssa.Lookup); ok && lk.CommaOk && t.Index == 0 {
			if k, ok := e.evalString(lk.Index); ok && e.mapKeys[k] {
				return k, true
			}
		}
	}
	return "", false
}

func (e *kenv) evalInt(v ssa.Value) (int64, bool) {
	v = e.x.Origin(v)
	if k, ok := constInt(v); ok {
		return k, true
	}
	if p, ok := v.(*ssa.Parameter); ok {
		k, ok := e.intOf[p]
		return k, ok
	}
	return 0, false
}

// evalKind: (reflect.Value).Kind() of a parameter compared with a reflect.Kind constant
func (e *kenv) evalKindName(v ssa.Value) (string, bool) {
	if kc, ok := e.x.Origin(v).(*ssa.Call); ok && kc.Call.StaticCallee() != nil && kc.Call.StaticCallee().Name() == "Kind" && len(kc.Call.Args) == 1 {
		k, ok := e.kindOf[e.x.Origin(kc.Call.Args[0])]
		return k, ok
	}
	return "", false
}

func (e *kenv) evalBool(v ssa.Value, kindConst map[int64]string) (bool, bool) {
	v = e.x.Origin(v)
	if b, ok := constBool(v); ok {
		return b, true
	}
	switch t := v.(type) {
	case *ssa.UnOp:
		if t.Op == token.NOT {
			b, ok := e.evalBool(t.X, kindConst)
			return !b, ok
		}
	case *ssa.BinOp:
		if t.Op == token.EQL || t.Op == token.NEQ {
			if a, ok1 := e.evalString(t.X); ok1 {
				if b, ok2 := e.evalString(t.Y); ok2 {
					return (a == b) == (t.Op == token.EQL), true
				}
			}
			if a, ok1 := e.evalInt(t.X); ok1 {
				if b, ok2 := e.evalInt(t.Y); ok2 {
					return (a == b) == (t.Op == token.EQL), true
				}
			}
			if kn, ok1 := e.evalKindName(t.X); ok1 {
				if c, ok2 := t.Y.(*ssa.Const); ok2 && c.Value != nil && c.Value.Kind() == constant.Int {
					want := strings.ToLower(kindConst[c.Int64()])
					return (kn == want) == (t.Op == token.EQL), true
				}
			}
		}
	case *ssa.Call:
		if fnIs(t.Call.StaticCallee(), "strings", "", "HasPrefix") {
			if a, ok1 := e.evalString(t.Call.Args[0]); ok1 {
				if p, ok2 := e.evalString(t.Call.Args[1]); ok2 {
					return strings.HasPrefix(a, p), true
				}
			}
		}
	case *ssa.Extract:
		// _, ok := TypeMap[k]
		if lk, ok := t.Tuple.(*ssa.Lookup); ok && lk.CommaOk && t.Index == 1 {
			if k, ok := e.evalString(lk.Index); ok && e.mapKeys != nil {
				return e.mapKeys[k], true
			}
		}
	}
	return false, false
}

type kreach struct {
	ret    *ssa.Return
	marked bool // the path passed a marking edge (e.g. the zero-divisor test's "non-zero" edge)
}

// explore returns the Return instructions reachable under env. markEdge, when
// non-nil, names CFG edges whose traversal sets the path's mark.
func (e *kenv) explore(fn *ssa.Function, kindConst map[int64]string, markEdge func(b *ssa.BasicBlock, succ int) bool) []kreach {
	type st struct {
		b *ssa.BasicBlock
		m bool
	}
	seen := map[st]bool{}
	var out []kreach
	var work []st
	push := func(s st) {
		if !seen[s] {
			seen[s] = true
			work = append(work, s)
		}
	}
	push(st{fn.Blocks[0], false})
	for len(work) > 0 {
		s := work[len(work)-1]
		work = work[:len(work)-1]
		last := s.b.Instrs[len(s.b.Instrs)-1]
		switch t := last.(type) {
		case *ssa.Return:
			out = append(out, kreach{t, s.m})
		case *ssa.If:
			val, known := e.evalBool(t.Cond, kindConst)
			for i, n := range s.b.Succs {
				if known && ((i == 0) != val) {
					continue
				}
				m := s.m
				if markEdge != nil && markEdge(s.b, i) {
					m = true
				}
				push(st{n, m})
			}
		default:
			for i, n := range s.b.Succs {
				m := s.m
				if markEdge != nil && markEdge(s.b, i) {
					m = true
				}
				push(st{n, m})
			}
		}
	}
	return out
}
