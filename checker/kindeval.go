package main

// kindeval.go — A8: kind-specialised conditional constant propagation.
// A function that dispatches on reflect kinds / class tags is explored once per
// assignment of those tags: branch conditions that only depend on the tags are
// folded, all other branches keep both successors. Values other than the tags
// are never represented (this is constant propagation, not symbolic execution).

import (
	"go/constant"
	"go/token"
	"go/types"
	"sort"
	"strings"

	"golang.org/x/tools/go/ssa"
)

type kenv struct {
	// cur: constants held by local variables on the path being explored (class tags computed
	// into a variable before they are switched on)
	cur     map[*ssa.Alloc]constant.Value
	x       *FnIndex
	kindOf  map[ssa.Value]string // reflect.Value parameter -> Kind().String()
	intOf   map[ssa.Value]int64  // int parameter -> value
	strOf   map[ssa.Value]string // string parameter -> value
	mapKeys map[string]bool      // keys of the string->string table consulted with comma-ok (TypeMap)
}

// pathConst: the constant a variable read holds on the current path.
func (e *kenv) pathConst(v ssa.Value) (constant.Value, bool) {
	for i := 0; i < 6; i++ {
		u, ok := v.(*ssa.UnOp)
		if !ok || u.Op != token.MUL {
			return nil, false
		}
		al, ok := e.x.ResolveAddr(u.X).(*ssa.Alloc)
		if !ok {
			return nil, false
		}
		if c, ok := e.cur[al]; ok {
			return c, true
		}
		// a copy of another variable
		st := e.x.stores[al]
		if len(st) != 1 {
			return nil, false
		}
		v = st[0].Val
	}
	return nil, false
}

func (e *kenv) evalString(v ssa.Value) (string, bool) {
	if c, ok := e.pathConst(v); ok && c.Kind() == constant.String {
		return constant.StringVal(c), true
	}
	v = e.x.Origin(v)
	if c, ok := e.pathConst(v); ok && c.Kind() == constant.String {
		return constant.StringVal(c), true
	}
	if s, ok := constString(v); ok {
		return s, true
	}
	if p, ok := v.(*ssa.Parameter); ok {
		s, ok := e.strOf[p]
		return s, ok
	}
	switch t := v.(type) {
	case *ssa.Call:
		cal := t.Call.StaticCallee()
		if cal != nil && cal.Name() == "String" && len(t.Call.Args) == 1 {
			// (reflect.Kind).String() of (reflect.Value).Kind() of a parameter
			if kc, ok := e.x.Origin(t.Call.Args[0]).(*ssa.Call); ok && kc.Call.StaticCallee() != nil && kc.Call.StaticCallee().Name() == "Kind" && len(kc.Call.Args) == 1 {
				k, ok := e.kindOf[e.x.Origin(kc.Call.Args[0])]
				return k, ok
			}
		}
	case *ssa.Extract:
		// l, ok := TypeMap[k]: identity on its keys
		if lk, ok := t.Tuple.(*ssa.Lookup); ok && lk.CommaOk && t.Index == 0 {
			if k, ok := e.evalString(lk.Index); ok && e.mapKeys[k] {
				return k, true
			}
		}
	}
	return "", false
}

func (e *kenv) evalInt(v ssa.Value) (int64, bool) {
	if c, ok := e.pathConst(v); ok && c.Kind() == constant.Int {
		k, exact := constant.Int64Val(c)
		return k, exact
	}
	v = e.x.Origin(v)
	if c, ok := e.pathConst(v); ok && c.Kind() == constant.Int {
		k, exact := constant.Int64Val(c)
		return k, exact
	}
	if k, ok := constInt(v); ok {
		return k, true
	}
	if p, ok := v.(*ssa.Parameter); ok {
		k, ok := e.intOf[p]
		return k, ok
	}
	return 0, false
}

// evalKind: (reflect.Value).Kind() of a parameter compared with a reflect.Kind constant
func (e *kenv) evalKindName(v ssa.Value) (string, bool) {
	if kc, ok := e.x.Origin(v).(*ssa.Call); ok && kc.Call.StaticCallee() != nil && kc.Call.StaticCallee().Name() == "Kind" && len(kc.Call.Args) == 1 {
		k, ok := e.kindOf[e.x.Origin(kc.Call.Args[0])]
		return k, ok
	}
	return "", false
}

func (e *kenv) evalBool(v ssa.Value, kindConst map[int64]string) (bool, bool) {
	if c, ok := e.pathConst(v); ok && c.Kind() == constant.Bool {
		return constant.BoolVal(c), true
	}
	v = e.x.Origin(v)
	if c, ok := e.pathConst(v); ok && c.Kind() == constant.Bool {
		return constant.BoolVal(c), true
	}
	if b, ok := constBool(v); ok {
		return b, true
	}
	switch t := v.(type) {
	case *ssa.UnOp:
		if t.Op == token.NOT {
			b, ok := e.evalBool(t.X, kindConst)
			return !b, ok
		}
	case *ssa.BinOp:
		if t.Op == token.EQL || t.Op == token.NEQ {
			if a, ok1 := e.evalString(t.X); ok1 {
				if b, ok2 := e.evalString(t.Y); ok2 {
					return (a == b) == (t.Op == token.EQL), true
				}
			}
			if a, ok1 := e.evalInt(t.X); ok1 {
				if b, ok2 := e.evalInt(t.Y); ok2 {
					return (a == b) == (t.Op == token.EQL), true
				}
			}
			if kn, ok1 := e.evalKindName(t.X); ok1 {
				if c, ok2 := t.Y.(*ssa.Const); ok2 && c.Value != nil && c.Value.Kind() == constant.Int {
					want := strings.ToLower(kindConst[c.Int64()])
					return (kn == want) == (t.Op == token.EQL), true
				}
			}
		}
	case *ssa.Call:
		if fnIs(t.Call.StaticCallee(), "strings", "", "HasPrefix") {
			if a, ok1 := e.evalString(t.Call.Args[0]); ok1 {
				if p, ok2 := e.evalString(t.Call.Args[1]); ok2 {
					return strings.HasPrefix(a, p), true
				}
			}
		}
	case *ssa.Extract:
		// _, ok := TypeMap[k]
		if lk, ok := t.Tuple.(*ssa.Lookup); ok && lk.CommaOk && t.Index == 1 {
			if k, ok := e.evalString(lk.Index); ok && e.mapKeys != nil {
				return e.mapKeys[k], true
			}
		}
	}
	return false, false
}

type kreach struct {
	ret    *ssa.Return
	marked bool // the path passed a marking edge (e.g. the zero-divisor test's "non-zero" edge)
}

// explore returns the Return instructions reachable under env. markEdge, when
// non-nil, names CFG edges whose traversal sets the path's mark.
func (e *kenv) explore(fn *ssa.Function, kindConst map[int64]string, markEdge func(b *ssa.BasicBlock, succ int) bool) []kreach {
	type st struct {
		b   *ssa.BasicBlock
		m   bool
		env string
	}
	envs := map[string]map[*ssa.Alloc]constant.Value{"": {}}
	keyOf := func(env map[*ssa.Alloc]constant.Value) string {
		var parts []string
		for a, c := range env {
			parts = append(parts, e.x.allocName(a)+"="+c.ExactString())
		}
		sort.Strings(parts)
		k := strings.Join(parts, ";")
		if _, ok := envs[k]; !ok {
			cp := map[*ssa.Alloc]constant.Value{}
			for a, c := range env {
				cp[a] = c
			}
			envs[k] = cp
		}
		return k
	}
	seen := map[st]bool{}
	seenRet := map[kreach]bool{}
	var out []kreach
	var work []st
	push := func(s st) {
		if !seen[s] && len(seen) < 20000 {
			seen[s] = true
			work = append(work, s)
		}
	}
	push(st{fn.Blocks[0], false, ""})
	for len(work) > 0 {
		s := work[len(work)-1]
		work = work[:len(work)-1]
		// the constants assigned to local variables along this block
		env := map[*ssa.Alloc]constant.Value{}
		for a, c := range envs[s.env] {
			env[a] = c
		}
		e.cur = env
		for _, in := range s.b.Instrs {
			stI, ok := in.(*ssa.Store)
			if !ok {
				continue
			}
			al, ok := stI.Addr.(*ssa.Alloc)
			if !ok || al.Heap {
				continue
			}
			switch bt := al.Type().Underlying().(*types.Pointer).Elem().Underlying().(type) {
			case *types.Basic:
				switch {
				case bt.Info()&types.IsString != 0:
					if v, ok := e.evalString(stI.Val); ok {
						env[al] = constant.MakeString(v)
						continue
					}
				case bt.Info()&types.IsInteger != 0:
					if v, ok := e.evalInt(stI.Val); ok {
						env[al] = constant.MakeInt64(v)
						continue
					}
				case bt.Info()&types.IsBoolean != 0:
					if v, ok := e.evalBool(stI.Val, kindConst); ok {
						env[al] = constant.MakeBool(v)
						continue
					}
				}
			}
			delete(env, al)
		}
		ek := keyOf(env)
		last := s.b.Instrs[len(s.b.Instrs)-1]
		switch t := last.(type) {
		case *ssa.Return:
			r := kreach{t, s.m}
			if !seenRet[r] {
				seenRet[r] = true
				out = append(out, r)
			}
		case *ssa.If:
			val, known := e.evalBool(t.Cond, kindConst)
			for i, n := range s.b.Succs {
				if known && ((i == 0) != val) {
					continue
				}
				m := s.m
				if markEdge != nil && markEdge(s.b, i) {
					m = true
				}
				push(st{n, m, ek})
			}
		default:
			for i, n := range s.b.Succs {
				m := s.m
				if markEdge != nil && markEdge(s.b, i) {
					m = true
				}
				push(st{n, m, ek})
			}
		}
	}
	e.cur = nil
	return out
}
