package main

// kindeval.go — A8: kind-specialised conditional constant propagation.
// A function that dispatches on reflect kinds / class tags is explored once per
// assignment of those tags: branch conditions that only depend on the tags are
// folded, all other branches keep both successors. Values other than the tags
// are never represented (this is constant propagation, not symbolic execution).

import (
	"fmt"
	"go/constant"
	"go/token"
	"go/types"
	"sort"
	"strconv"
	"strings"

	"golang.org/x/tools/go/ssa"
)

type kenv struct {
	// cur: constants held by local variables on the path being explored (class tags computed
	// into a variable before they are switched on)
	cur     map[*ssa.Alloc]constant.Value
	x       *FnIndex
	kindOf  map[ssa.Value]string               // reflect.Value parameter -> Kind().String()
	intOf   map[ssa.Value]int64                // int parameter -> value
	strOf   map[ssa.Value]string               // string parameter -> value
	mapKeys map[string]bool                    // keys of the string->string table consulted with comma-ok (TypeMap)
	kindNum map[string]int64                   // lower-case kind name -> reflect.Kind value (filled by explore)
	curF    map[string]constant.Value          // constants held by fields of local struct variables on the path
	curS    map[*ssa.Alloc]ssa.Value           // a non-constant condition a bool variable holds on the path (`zero := b.Int() == 0`)
	curV    map[*ssa.Alloc]ssa.Value           // which value a reflect.Value variable holds on the path (`value = value.Elem()` under a test)
	visited map[*ssa.BasicBlock]bool           // blocks reached by the last explore
	callInt func(call *ssa.Call) (int64, bool) // value of a call of another function of the table (getNumType), per explored kind
	// condMark, when set, is asked at every branch with the condition actually tested (a
	// condition kept in a bool variable is replaced by the value stored on this path)
	condMark func(cond ssa.Value, succ int) bool
}

// fieldKey names a field of a local struct variable.
func (e *kenv) fieldKey(al *ssa.Alloc, field int) string {
	return e.x.allocName(al) + "#" + itoa(field)
}

func itoa(i int) string { return strconv.Itoa(i) }

// structConst: the field constants of a struct value read from a local variable whose
// fields are all known on the current path (`p := classPair{ca, cb}`), or copied from one.
func (e *kenv) structConst(v ssa.Value, d int) ([]constant.Value, bool) {
	if d > 6 {
		return nil, false
	}
	u, ok := v.(*ssa.UnOp)
	if !ok || u.Op != token.MUL {
		return nil, false
	}
	al, ok := u.X.(*ssa.Alloc)
	if !ok {
		return nil, false
	}
	st, ok := al.Type().Underlying().(*types.Pointer).Elem().Underlying().(*types.Struct)
	if !ok {
		return nil, false
	}
	var out []constant.Value
	all := true
	for i := 0; i < st.NumFields(); i++ {
		c, ok := e.curF[e.fieldKey(al, i)]
		if !ok {
			all = false
			break
		}
		out = append(out, c)
	}
	if all && st.NumFields() > 0 {
		return out, true
	}
	return nil, false
}

// pathConst: the constant a variable read holds on the current path.
func (e *kenv) pathConst(v ssa.Value) (constant.Value, bool) {
	for i := 0; i < 6; i++ {
		u, ok := v.(*ssa.UnOp)
		if !ok || u.Op != token.MUL {
			return nil, false
		}
		if fa, isFA := u.X.(*ssa.FieldAddr); isFA {
			if sal, isAl := fa.X.(*ssa.Alloc); isAl {
				c, ok := e.curF[e.fieldKey(sal, fa.Field)]
				return c, ok
			}
		}
		al, ok := e.x.ResolveAddr(u.X).(*ssa.Alloc)
		if !ok {
			return nil, false
		}
		if c, ok := e.cur[al]; ok {
			return c, true
		}
		// a copy of another variable
		st := e.x.stores[al]
		if len(st) != 1 {
			return nil, false
		}
		v = st[0].Val
	}
	return nil, false
}

func (e *kenv) evalString(v ssa.Value) (string, bool) {
	if c, ok := e.pathConst(v); ok && c.Kind() == constant.String {
		return constant.StringVal(c), true
	}
	v = e.x.Origin(v)
	if c, ok := e.pathConst(v); ok && c.Kind() == constant.String {
		return constant.StringVal(c), true
	}
	if s, ok := constString(v); ok {
		return s, true
	}
	if p, ok := v.(*ssa.Parameter); ok {
		s, ok := e.strOf[p]
		return s, ok
	}
	switch t := v.(type) {
	case *ssa.Call:
		cal := t.Call.StaticCallee()
		if t.Call.IsInvoke() && t.Call.Method.Name() == "String" {
			// typ.String() through the reflect.Type interface
			if tc, ok := e.x.Origin(t.Call.Value).(*ssa.Call); ok && tc.Call.StaticCallee() != nil && tc.Call.StaticCallee().Name() == "Type" && len(tc.Call.Args) == 1 {
				if r := e.rootValue(tc.Call.Args[0]); r != nil {
					k, ok := e.kindOf[r]
					return k, ok
				}
			}
		}
		if cal != nil && cal.Name() == "String" && len(t.Call.Args) == 1 {
			// (reflect.Kind).String() of (reflect.Value).Kind() of a parameter
			if kc, ok := e.x.Origin(t.Call.Args[0]).(*ssa.Call); ok && kc.Call.StaticCallee() != nil && kc.Call.StaticCallee().Name() == "Kind" && len(kc.Call.Args) == 1 {
				return e.evalKindName(kc)
			}
			// (reflect.Type).String() of (reflect.Value).Type(): for the unnamed types explored, the kind's name
			if tc, ok := e.x.Origin(t.Call.Args[0]).(*ssa.Call); ok && tc.Call.StaticCallee() != nil && tc.Call.StaticCallee().Name() == "Type" && len(tc.Call.Args) == 1 {
				if r := e.rootValue(tc.Call.Args[0]); r != nil {
					k, ok := e.kindOf[r]
					return k, ok
				}
			}
		}
	case *ssa.Extract:
		// l, ok := TypeMap[k]: identity on its keys
		if lk, ok := t.Tuple.(*ssa.Lookup); ok && lk.CommaOk && t.Index == 0 {
			if k, ok := e.evalString(lk.Index); ok && e.mapKeys[k] {
				return k, true
			}
		}
	}
	return "", false
}

func (e *kenv) evalInt(v ssa.Value) (int64, bool) {
	if c, ok := e.pathConst(v); ok && c.Kind() == constant.Int {
		k, exact := constant.Int64Val(c)
		return k, exact
	}
	v = e.x.Origin(v)
	if c, ok := e.pathConst(v); ok && c.Kind() == constant.Int {
		k, exact := constant.Int64Val(c)
		return k, exact
	}
	if k, ok := constInt(v); ok {
		return k, true
	}
	if p, ok := v.(*ssa.Parameter); ok {
		k, ok := e.intOf[p]
		return k, ok
	}
	switch t := v.(type) {
	case *ssa.Convert:
		return e.evalInt(t.X)
	case *ssa.ChangeType:
		return e.evalInt(t.X)
	case *ssa.Call:
		if e.callInt != nil {
			if k, ok := e.callInt(t); ok {
				return k, true
			}
		}
		// (reflect.Value).Kind() of a parameter: the kind explored, as a number
		if kn, ok := e.evalKindName(t); ok {
			if k, ok := e.kindNum[kn]; ok {
				return k, true
			}
		}
	}
	return 0, false
}

// evalKind: (reflect.Value).Kind() of a parameter compared with a reflect.Kind constant
func (e *kenv) evalKindName(v ssa.Value) (string, bool) {
	// typ.Kind() through the reflect.Type interface (tf.In(i).Kind())
	if kc, ok := e.x.Origin(v).(*ssa.Call); ok && kc.Call.IsInvoke() && kc.Call.Method.Name() == "Kind" {
		if k, ok := e.kindOf[e.x.Origin(kc.Call.Value)]; ok {
			return k, true
		}
		if r := e.rootValue(kc.Call.Value); r != nil {
			k, ok := e.kindOf[r]
			return k, ok
		}
		return "", false
	}
	if kc, ok := e.x.Origin(v).(*ssa.Call); ok && kc.Call.StaticCallee() != nil && kc.Call.StaticCallee().Name() == "Kind" && len(kc.Call.Args) == 1 {
		recv := kc.Call.Args[0]
		// Kind() of the Type() of a value is the kind of the value
		if tc, isT := e.x.Origin(recv).(*ssa.Call); isT && tc.Call.StaticCallee() != nil && tc.Call.StaticCallee().Name() == "Type" && len(tc.Call.Args) == 1 && recvName(tc.Call.StaticCallee()) == "Value" {
			recv = tc.Call.Args[0]
		}
		if k, ok := e.kindOf[e.x.Origin(recv)]; ok {
			return k, true
		}
		if r := e.rootValue(recv); r != nil {
			k, ok := e.kindOf[r]
			return k, ok
		}
	}
	return "", false
}

// rootValue: the parameter (or seeded value) a reflect.Value expression denotes on the
// current path: through the variable it was put into, or as an element of a slice parameter.
func (e *kenv) rootValue(v ssa.Value) ssa.Value {
	for i := 0; i < 8; i++ {
		o := e.x.Origin(v)
		if _, ok := e.kindOf[o]; ok {
			return o
		}
		u, ok := o.(*ssa.UnOp)
		if !ok || u.Op != token.MUL {
			return nil
		}
		if al, isAl := u.X.(*ssa.Alloc); isAl {
			w, has := e.curV[al]
			if !has {
				return nil
			}
			v = w
			continue
		}
		if ia, isIA := u.X.(*ssa.IndexAddr); isIA {
			v = ia.X
			continue
		}
		return nil
	}
	return nil
}

func (e *kenv) evalBool(v ssa.Value, kindConst map[int64]string) (bool, bool) {
	if c, ok := e.pathConst(v); ok && c.Kind() == constant.Bool {
		return constant.BoolVal(c), true
	}
	v = e.x.Origin(v)
	if c, ok := e.pathConst(v); ok && c.Kind() == constant.Bool {
		return constant.BoolVal(c), true
	}
	if b, ok := constBool(v); ok {
		return b, true
	}
	switch t := v.(type) {
	case *ssa.UnOp:
		if t.Op == token.NOT {
			b, ok := e.evalBool(t.X, kindConst)
			return !b, ok
		}
	case *ssa.BinOp:
		switch t.Op {
		case token.LSS, token.LEQ, token.GTR, token.GEQ:
			if a, ok1 := e.evalInt(t.X); ok1 {
				if b, ok2 := e.evalInt(t.Y); ok2 {
					switch t.Op {
					case token.LSS:
						return a < b, true
					case token.LEQ:
						return a <= b, true
					case token.GTR:
						return a > b, true
					default:
						return a >= b, true
					}
				}
			}
		case token.LAND, token.LOR:
		}
		if t.Op == token.EQL || t.Op == token.NEQ {
			if a, ok1 := e.structConst(t.X, 0); ok1 {
				if b, ok2 := e.structConst(t.Y, 0); ok2 && len(a) == len(b) {
					same := true
					for i := range a {
						if !constant.Compare(a[i], token.EQL, b[i]) {
							same = false
						}
					}
					return same == (t.Op == token.EQL), true
				}
			}
			if a, ok1 := e.evalString(t.X); ok1 {
				if b, ok2 := e.evalString(t.Y); ok2 {
					return (a == b) == (t.Op == token.EQL), true
				}
			}
			if a, ok1 := e.evalInt(t.X); ok1 {
				if b, ok2 := e.evalInt(t.Y); ok2 {
					return (a == b) == (t.Op == token.EQL), true
				}
			}
			if kn, ok1 := e.evalKindName(t.X); ok1 {
				if c, ok2 := t.Y.(*ssa.Const); ok2 && c.Value != nil && c.Value.Kind() == constant.Int {
					want := strings.ToLower(kindConst[c.Int64()])
					return (kn == want) == (t.Op == token.EQL), true
				}
			}
		}
	case *ssa.Call:
		if fnIs(t.Call.StaticCallee(), "strings", "", "HasPrefix") {
			if a, ok1 := e.evalString(t.Call.Args[0]); ok1 {
				if p, ok2 := e.evalString(t.Call.Args[1]); ok2 {
					return strings.HasPrefix(a, p), true
				}
			}
		}
	case *ssa.Extract:
		// _, ok := TypeMap[k]
		if lk, ok := t.Tuple.(*ssa.Lookup); ok && lk.CommaOk && t.Index == 1 {
			if k, ok := e.evalString(lk.Index); ok && e.mapKeys != nil {
				return e.mapKeys[k], true
			}
		}
	}
	return false, false
}

type kreach struct {
	ret    *ssa.Return
	marked bool // the path passed a marking edge (e.g. the zero-divisor test's "non-zero" edge)
	// vals: which non-constant value each local variable of a basic type holds where the path returns
	// (the result of an inlined conversion helper, `toInt64(a)`, which differs by the kind explored)
	vals map[*ssa.Alloc]ssa.Value
}

// explore returns the Return instructions reachable under env. markEdge, when
// non-nil, names CFG edges whose traversal sets the path's mark.
func (e *kenv) explore(fn *ssa.Function, kindConst map[int64]string, markEdge func(b *ssa.BasicBlock, succ int) bool) []kreach {
	type st struct {
		b   *ssa.BasicBlock
		m   bool
		env string
	}
	e.kindNum = map[string]int64{}
	for k, n := range kindConst {
		e.kindNum[strings.ToLower(n)] = k
	}
	envs := map[string]map[*ssa.Alloc]constant.Value{"": {}}
	envsF := map[string]map[string]constant.Value{"": {}}
	envsS := map[string]map[*ssa.Alloc]ssa.Value{"": {}}
	envsV := map[string]map[*ssa.Alloc]ssa.Value{"": {}}
	e.visited = map[*ssa.BasicBlock]bool{}
	keyOf := func(env map[*ssa.Alloc]constant.Value, envF map[string]constant.Value, envS, envV map[*ssa.Alloc]ssa.Value) string {
		var parts []string
		for a, c := range env {
			parts = append(parts, e.x.allocName(a)+"="+c.ExactString())
		}
		for a, c := range envF {
			parts = append(parts, a+"="+c.ExactString())
		}
		for a, v := range envS {
			parts = append(parts, e.x.allocName(a)+"~"+v.Name())
		}
		for a, v := range envV {
			parts = append(parts, e.x.allocName(a)+"@"+v.Name())
		}
		sort.Strings(parts)
		k := strings.Join(parts, ";")
		if _, ok := envs[k]; !ok {
			cp := map[*ssa.Alloc]constant.Value{}
			for a, c := range env {
				cp[a] = c
			}
			envs[k] = cp
			cpF := map[string]constant.Value{}
			for a, c := range envF {
				cpF[a] = c
			}
			envsF[k] = cpF
			cpS := map[*ssa.Alloc]ssa.Value{}
			for a, v := range envS {
				cpS[a] = v
			}
			envsS[k] = cpS
			cpV := map[*ssa.Alloc]ssa.Value{}
			for a, v := range envV {
				cpV[a] = v
			}
			envsV[k] = cpV
		}
		return k
	}
	evalConst := func(v ssa.Value) (constant.Value, bool) {
		switch bt := v.Type().Underlying().(type) {
		case *types.Basic:
			switch {
			case bt.Info()&types.IsString != 0:
				if c, ok := e.evalString(v); ok {
					return constant.MakeString(c), true
				}
			case bt.Info()&types.IsInteger != 0:
				if c, ok := e.evalInt(v); ok {
					return constant.MakeInt64(c), true
				}
			case bt.Info()&types.IsBoolean != 0:
				if c, ok := e.evalBool(v, kindConst); ok {
					return constant.MakeBool(c), true
				}
			}
		}
		return nil, false
	}
	seen := map[st]bool{}
	seenRet := map[string]bool{}
	var out []kreach
	var work []st
	push := func(s st) {
		if !seen[s] && len(seen) < 20000 {
			seen[s] = true
			work = append(work, s)
		}
	}
	push(st{fn.Blocks[0], false, ""})
	for len(work) > 0 {
		s := work[len(work)-1]
		work = work[:len(work)-1]
		// the constants assigned to local variables along this block
		env := map[*ssa.Alloc]constant.Value{}
		for a, c := range envs[s.env] {
			env[a] = c
		}
		envF := map[string]constant.Value{}
		for a, c := range envsF[s.env] {
			envF[a] = c
		}
		envS := map[*ssa.Alloc]ssa.Value{}
		for a, v := range envsS[s.env] {
			envS[a] = v
		}
		envV := map[*ssa.Alloc]ssa.Value{}
		for a, v := range envsV[s.env] {
			envV[a] = v
		}
		e.cur = env
		e.curF = envF
		e.curS = envS
		e.curV = envV
		e.visited[s.b] = true
		for _, in := range s.b.Instrs {
			stI, ok := in.(*ssa.Store)
			if !ok {
				continue
			}
			// a field of a local struct variable (`p := classPair{ca, cb}`)
			if fa, isFA := stI.Addr.(*ssa.FieldAddr); isFA {
				if sal, isAl := fa.X.(*ssa.Alloc); isAl {
					fk := e.fieldKey(sal, fa.Field)
					if c, ok := evalConst(stI.Val); ok {
						envF[fk] = c
					} else {
						delete(envF, fk)
					}
				}
				continue
			}
			al, ok := stI.Addr.(*ssa.Alloc)
			if !ok {
				continue
			}
			// a struct value copied as a whole
			if stt, isStruct := al.Type().Underlying().(*types.Pointer).Elem().Underlying().(*types.Struct); isStruct {
				cs, known := e.structConst(stI.Val, 0)
				for i := 0; i < stt.NumFields(); i++ {
					if known && i < len(cs) {
						envF[e.fieldKey(al, i)] = cs[i]
					} else {
						delete(envF, e.fieldKey(al, i))
					}
				}
				// which value the variable holds now (a reflect.Value parameter put into a local)
				if r := e.rootValue(stI.Val); r != nil {
					envV[al] = r
				} else {
					delete(envV, al)
				}
				continue
			}
			if al.Heap {
				continue
			}
			switch bt := al.Type().Underlying().(*types.Pointer).Elem().Underlying().(type) {
			case *types.Basic:
				switch {
				case bt.Info()&types.IsString != 0:
					if v, ok := e.evalString(stI.Val); ok {
						env[al] = constant.MakeString(v)
						continue
					}
				case bt.Info()&types.IsInteger != 0:
					if v, ok := e.evalInt(stI.Val); ok {
						env[al] = constant.MakeInt64(v)
						delete(envS, al)
						continue
					}
					// not a constant: remember which value the variable holds on this path
					delete(env, al)
					envS[al] = stI.Val
					continue
				case bt.Info()&types.IsBoolean != 0:
					if v, ok := e.evalBool(stI.Val, kindConst); ok {
						env[al] = constant.MakeBool(v)
						delete(envS, al)
						continue
					}
					// not a constant: remember which condition the variable holds
					delete(env, al)
					envS[al] = e.x.Origin(stI.Val)
					continue
				case bt.Info()&types.IsNumeric != 0:
					// not a constant: remember which value the variable holds on this path
					delete(env, al)
					envS[al] = stI.Val
					continue
				}
			}
			delete(env, al)
			delete(envS, al)
		}
		ek := keyOf(env, envF, envS, envV)
		last := s.b.Instrs[len(s.b.Instrs)-1]
		switch t := last.(type) {
		case *ssa.Return:
			rk := fmt.Sprintf("%p/%v/%s", t, s.m, ek)
			if !seenRet[rk] {
				seenRet[rk] = true
				vals := map[*ssa.Alloc]ssa.Value{}
				for a, v := range envS {
					vals[a] = v
				}
				out = append(out, kreach{t, s.m, vals})
			}
		case *ssa.If:
			val, known := e.evalBool(t.Cond, kindConst)
			tested := ssa.Value(t.Cond)
			if u, isLd := t.Cond.(*ssa.UnOp); isLd && u.Op == token.MUL {
				if al, isAl := u.X.(*ssa.Alloc); isAl {
					if v, has := envS[al]; has {
						tested = v
					}
				}
			}
			for i, n := range s.b.Succs {
				if known && ((i == 0) != val) {
					continue
				}
				m := s.m
				if markEdge != nil && markEdge(s.b, i) {
					m = true
				}
				if e.condMark != nil && e.condMark(tested, i) {
					m = true
				}
				push(st{n, m, ek})
			}
		default:
			for i, n := range s.b.Succs {
				m := s.m
				if markEdge != nil && markEdge(s.b, i) {
					m = true
				}
				push(st{n, m, ek})
			}
		}
	}
	e.cur = nil
	e.curF = nil
	e.curS = nil
	e.curV = nil
	return out
}
