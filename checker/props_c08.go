package main

import (
	"fmt"
	"go/token"
	"go/types"
	"os"
	"sort"
	"strings"

	"golang.org/x/tools/go/ssa"
)

func init() {
	register("C08", runC08, propMeta{
		Explanation: "The equality 'installed set = what the history denotes' quantifies over the contents of maps and slices after arbitrary operation sequences; no static argument in reach proves the hand-written sorted insertion correct, and this check does not claim it. It decides structural necessary conditions, each of which breaks the algebra if violated: (H1) every sort of rule entities orders by descending salience (10 sites) and tool.BinarySearch searches a descending list: when the probed salience is smaller than the target it continues to the left (high = mid-1), otherwise to the right (low = mid+1), under `low <= high`, with mid = (low+high)/2; (H2) in both copies of the incremental merge every insertion has the form append(s[:p], append([v], s[p:]...)...) with the same slice variable and the same p, p being the low (when mid == 0) or mid result of BinarySearch(s, v.Salience) on that same variable, and the deletion before a re-insertion removes exactly index IndexMap[v.RuleName]; (H3) after every insertion, on every path to the next iteration, a fresh name->position index is built by ranging the slice just modified and becomes the current index; (H4) a same-salience replacement stores v at the indexed position under the guard v.Salience == old.Salience; (H5) every path through one iteration of the merge loop updates both the name map (map[k] = v) and the list (replacement or insertion); the copies the merge starts from are complete (every entry of the old map, every position of the old list) and the published container receives exactly the three merged locals; (H6) the full build fills a fresh container from one parse, lists every parsed rule once, sorts, indexes and then replaces the installed container; removal keeps an entity exactly when no given name equals its name, then re-sorts and re-indexes into a fresh container; (H7) the listener stores a rule only on the miss edge of a lookup of its own name (duplicates rejected); (H8) the two merge copies (builder and pool) yield identical summaries of H2–H5; IsExist reads the installed map under buildLock. NOT decided: the algebra itself (that these steps compose to the denoted set for every history), including the reliance of the salience-changed branch on slice aliasing. (H10) a full or incremental update and a removal reach every element of gp.rbSlice: the algebra holds of what runs on the instances. (H11) outside the compile step no field of a compiled rule is written: what an update installs under a name is the rule as compiled from the update's text, salience included. (H12) a rule is named by the text between the quotes as written: the listener cuts off only the quotes, so names that differ by a blank stay two rules. (H13) the salience of a rule is stored by the entity's own Accept method exactly as handed over.",
		Assumptions: []string{"sort.SliceStable", "Go append/slice semantics"},
		Trusted:     commonTrusted,
	})
}

type mergeSummary struct {
	items []string
}

func (m *mergeSummary) add(f string, a ...interface{}) {
	m.items = append(m.items, fmt.Sprintf(f, a...))
}

func (c *Ctx) ruleBinarySearch(rule string) {
	f := c.MustFn(rule, "internal/tool", "", "BinarySearch")
	if f == nil {
		return
	}
	x := c.Index(f)
	re, sal := ssa.Value(f.Params[0]), ssa.Value(f.Params[1])
	// the two bounds are the variables compared by the loop condition `low <= high` (found by role, not by name)
	var low, high *ssa.Alloc
	okCond := false
	loops := x.Loops(f)
	if len(loops) == 1 {
		for _, in := range loops[0].Head.Instrs {
			if iff, ok := in.(*ssa.If); ok {
				if bo, ok := iff.Cond.(*ssa.BinOp); ok && x.Cell(bo.X) != nil && x.Cell(bo.Y) != nil {
					switch bo.Op {
					case token.LEQ:
						low, high, okCond = x.Cell(bo.X), x.Cell(bo.Y), true
					case token.GEQ:
						low, high, okCond = x.Cell(bo.Y), x.Cell(bo.X), true
					}
				}
			}
		}
	}
	if low == nil || high == nil {
		c.Check(rule, "BinarySearch#loop-condition", false, f.Pos(), "the search loop must run while low <= high over two local bounds")
		return
	}
	c.Check(rule, "BinarySearch#loop-condition", okCond, f.Pos(), "the search must run while low <= high")
	// mid = (low+high)/2, probe re[mid].Salience
	isMid := func(v ssa.Value) bool {
		bo, ok := x.Origin(v).(*ssa.BinOp)
		if !ok {
			return false
		}
		// the overflow-free spelling low + (high-low)/2
		if bo.Op == token.ADD {
			half := func(l, h ssa.Value) bool {
				q, ok := x.Origin(h).(*ssa.BinOp)
				if !ok || q.Op != token.QUO || x.Cell(l) != low {
					return false
				}
				if k, isK := constInt(q.Y); !isK || k != 2 {
					return false
				}
				d, ok := x.Origin(q.X).(*ssa.BinOp)
				return ok && d.Op == token.SUB && x.Cell(d.X) == high && x.Cell(d.Y) == low
			}
			return half(bo.X, bo.Y) || half(bo.Y, bo.X)
		}
		if bo.Op != token.QUO {
			return false
		}
		if k, isK := constInt(bo.Y); !isK || k != 2 {
			return false
		}
		s, ok := x.Origin(bo.X).(*ssa.BinOp)
		return ok && s.Op == token.ADD && ((x.Cell(s.X) == low && x.Cell(s.Y) == high) || (x.Cell(s.X) == high && x.Cell(s.Y) == low))
	}
	isProbe := func(v ssa.Value) bool {
		b, ok := x.isFieldLoad(v, "RuleEntity", "Salience")
		if !ok {
			return false
		}
		u, ok := x.Origin(b).(*ssa.UnOp)
		if !ok {
			return false
		}
		ia, ok := u.X.(*ssa.IndexAddr)
		return ok && x.Origin(ia.X) == re && isMid(ia.Index)
	}
	// direction
	okDir := false
	why := "no comparison of re[mid].Salience with the target found"
	eachInstr(f, func(in ssa.Instruction) {
		iff, ok := in.(*ssa.If)
		if !ok {
			return
		}
		bo, ok := iff.Cond.(*ssa.BinOp)
		if !ok || (bo.Op != token.LSS && bo.Op != token.GTR && bo.Op != token.LEQ && bo.Op != token.GEQ) {
			return
		}
		probeLeft := isProbe(bo.X) && x.Origin(bo.Y) == sal
		probeRight := isProbe(bo.Y) && x.Origin(bo.X) == sal
		if !probeLeft && !probeRight {
			return
		}
		if bo.Op == token.LEQ || bo.Op == token.GEQ {
			// `<=` / `>=` split like `<` / `>` only where equality has been excluded: the
			// test must lie on the not-equal edge of the exact-hit test
			excluded := false
			for _, g := range x.GuardsOf(iff.Block()) {
				if e, isB := g.Cond.(*ssa.BinOp); isB && e.Op == token.EQL && !g.Pol {
					if (isProbe(e.X) && x.Origin(e.Y) == sal) || (isProbe(e.Y) && x.Origin(e.X) == sal) {
						excluded = true
					}
				}
			}
			if !excluded {
				why = "re[mid].Salience is compared with <= / >= although equality has not been handled before"
				return
			}
		}
		// "probe < target" holds on which edge?
		smallerEdge := 0
		if ((bo.Op == token.GTR || bo.Op == token.GEQ) && probeLeft) || ((bo.Op == token.LSS || bo.Op == token.LEQ) && probeRight) {
			smallerEdge = 1
		}
		upd := func(edge int) (cell *ssa.Alloc, delta int64) {
			dom := x.edgeDominated(iff.Block(), edge)
			eachInstr(f, func(i2 ssa.Instruction) {
				st, ok := i2.(*ssa.Store)
				if !ok || !dom[st.Block()] {
					return
				}
				al, ok := st.Addr.(*ssa.Alloc)
				if !ok || (al != low && al != high) {
					return
				}
				if b2, ok := x.Origin(st.Val).(*ssa.BinOp); ok && isMid(b2.X) {
					if k, isK := constInt(b2.Y); isK && k == 1 {
						cell = al
						if b2.Op == token.ADD {
							delta = 1
						} else if b2.Op == token.SUB {
							delta = -1
						}
					}
				}
			})
			return
		}
		c1, d1 := upd(smallerEdge)
		c2, d2 := upd(1 - smallerEdge)
		if c1 == high && d1 == -1 && c2 == low && d2 == 1 {
			okDir = true
		} else {
			why = "when the probed salience is smaller than the target the search must continue to the left (high = mid-1), otherwise to the right (low = mid+1): the list is sorted by descending salience"
		}
	})
	c.Check(rule, "BinarySearch#descending-direction", okDir, f.Pos(), "%s", why)
	// a miss is reported as (insertion position, 0): the callers take a second result of 0 as
	// "not found, insert at the first result"; a probed index left in it would be taken for a hit
	okMiss, nMiss := true, 0
	eachInstr(f, func(in ssa.Instruction) {
		r, ok := in.(*ssa.Return)
		if !ok || len(r.Results) != 2 || len(loops) != 1 || loops[0].Blocks[r.Block()] {
			return
		}
		// the return after the loop ended with low > high (not the hit return inside it)
		afterLoop := false
		for k, sc := range loops[0].Head.Succs {
			if !loops[0].Blocks[sc] && x.edgeDominated(loops[0].Head, k)[r.Block()] {
				afterLoop = true
			}
		}
		if !afterLoop {
			return
		}
		nMiss++
		for _, pv := range x.PossibleValues(r.Results[1]) {
			if pv.V == nil {
				continue // the variable's zero value
			}
			if k, isK := constInt(pv.V); !isK || k != 0 {
				if os.Getenv("GVERIF_DEBUG") != "" {
					fmt.Fprintf(os.Stderr, "miss: value %s\n", x.Describe(pv.V))
				}
				okMiss = false
			}
		}
		if x.Cell(r.Results[0]) != low {
			if os.Getenv("GVERIF_DEBUG") != "" {
				fmt.Fprintf(os.Stderr, "miss: cell=%v low=%v\n", x.Cell(r.Results[0]), low)
			}
			okMiss = false
		}
	})
	c.Check(rule, "BinarySearch#miss-returns-low-and-zero", okMiss && nMiss >= 1, f.Pos(), "after an unsuccessful search the function must return (low, 0)")
	// exact hit returns inside the loop
	okHit := false
	eachInstr(f, func(in ssa.Instruction) {
		if iff, ok := in.(*ssa.If); ok {
			if bo, ok := iff.Cond.(*ssa.BinOp); ok && bo.Op == token.EQL && isProbe(bo.X) && x.Origin(bo.Y) == sal {
				if _, found := pathFrom(iff.Block().Succs[0].Instrs[0], isReturn, func(i2 ssa.Instruction) bool { _, isIf := i2.(*ssa.If); return isIf }); found {
					okHit = true
				}
			}
		}
	})
	c.Check(rule, "BinarySearch#hit-returns", okHit, f.Pos(), "an exact salience hit must return its position")
}

// mergeModel analyses one copy of the incremental merge.
func (c *Ctx) mergeModel(rule string, f *ssa.Function) *mergeSummary {
	x := c.Index(f)
	sum := &mergeSummary{}
	key := fnName(f)
	// the merge loop: the range-over-map loop that contains the BinarySearch calls
	var bs []*ssa.Call
	eachInstr(f, func(in ssa.Instruction) {
		if call, ok := in.(*ssa.Call); ok && calleeIs(call, pTool, "", "BinarySearch") {
			bs = append(bs, call)
		}
	})
	if len(bs) == 0 {
		c.Check(rule, key+"#merge-loop", false, f.Pos(), "no binary-search insertion found")
		return sum
	}
	var L *Loop
	for _, l := range x.EnclosingLoops(bs[0].Block()) {
		for _, in := range l.Head.Instrs {
			if _, ok := in.(*ssa.Next); ok {
				L = l
			}
		}
	}
	if L == nil {
		c.Check(rule, key+"#merge-loop", false, f.Pos(), "the insertions are not inside a loop over the newly parsed rules")
		return sum
	}
	var next *ssa.Next
	for _, in := range L.Head.Instrs {
		if n, ok := in.(*ssa.Next); ok {
			next = n
		}
	}
	rg, _ := next.Iter.(*ssa.Range)
	okSrc := false
	if rg != nil {
		if b, is := x.isFieldLoad(rg.X, "KnowledgeContext", "RuleEntities"); is {
			okSrc = x.freshKc(b) || isParamKc(x.Origin(b))
		}
	}
	c.Check(rule, key+"#merge-loop", okSrc, next.Pos(), "the merge must range over every rule of the newly parsed container")
	isK := func(v ssa.Value) bool {
		ex, ok := x.Origin(v).(*ssa.Extract)
		return ok && ex.Tuple == ssa.Value(next) && ex.Index == 1
	}
	isV := func(v ssa.Value) bool {
		ex, ok := x.Origin(v).(*ssa.Extract)
		return ok && ex.Tuple == ssa.Value(next) && ex.Index == 2
	}
	vField := func(v ssa.Value, field string) bool {
		b, is := x.isFieldLoad(v, "RuleEntity", field)
		return is && isV(b)
	}
	// the working locals, found by role (not by name): the name map is the local map looked up with the
	// new rule's name k; the lists are the local rule slices searched by BinarySearch or stored to in the
	// loop; the index is the local map[string]int looked up with v.RuleName
	var mapCell, idxCell *ssa.Alloc
	var listCells []*ssa.Alloc
	addList := func(a *ssa.Alloc) {
		if a == nil {
			return
		}
		for _, l := range listCells {
			if l == a {
				return
			}
		}
		listCells = append(listCells, a)
	}
	eachInstr(f, func(in ssa.Instruction) {
		if !L.Blocks[in.Block()] {
			return
		}
		switch t := in.(type) {
		case *ssa.Lookup:
			cell := x.Cell(t.X)
			if cell == nil {
				return
			}
			if t.CommaOk && isK(t.Index) && mapCell == nil {
				mapCell = cell
			}
			if mt, ok := t.X.Type().Underlying().(*types.Map); ok && !t.CommaOk {
				if b, ok := mt.Elem().Underlying().(*types.Basic); ok && b.Kind() == types.Int && vField(t.Index, "RuleName") && idxCell == nil {
					idxCell = cell
				}
			}
		case *ssa.Call:
			if calleeIs(t, pTool, "", "BinarySearch") {
				addList(x.Cell(t.Call.Args[0]))
			}
		case *ssa.Store:
			if cell, ok := x.ResolveAddr(t.Addr).(*ssa.Alloc); ok {
				if sl, ok := cell.Type().(*types.Pointer).Elem().Underlying().(*types.Slice); ok && structName(sl.Elem()) == "RuleEntity" {
					if _, isApp := builtinCall(t.Val, "append"); isApp {
						addList(cell)
					}
				}
			}
			if ia, ok := t.Addr.(*ssa.IndexAddr); ok {
				if sl, ok := ia.X.Type().Underlying().(*types.Slice); ok && structName(sl.Elem()) == "RuleEntity" {
					addList(x.Cell(ia.X))
				}
			}
		}
	})
	// a single-element helper slice ([]*RuleEntity{v}) is not a working list
	{
		var keep []*ssa.Alloc
		for _, l := range listCells {
			helper := len(x.stores[l]) > 0
			for _, st := range x.stores[l] {
				if _, isSl := x.Origin(st.Val).(*ssa.Slice); !isSl {
					helper = false
				} else if sl := x.Origin(st.Val).(*ssa.Slice); true {
					if _, isArr := sl.X.(*ssa.Alloc); !isArr {
						helper = false
					}
				}
			}
			if !helper {
				keep = append(keep, l)
			}
		}
		listCells = keep
	}
	isListCell := func(a *ssa.Alloc) bool {
		for _, l := range listCells {
			if l == a {
				return true
			}
		}
		return false
	}
	if mapCell == nil || idxCell == nil || len(listCells) == 0 {
		c.Check(rule, key+"#working-copies", false, f.Pos(), "working copies (a local name map looked up by the new rule's name, a local sorted list, a local name->position index) not found")
		return sum
	}
	// the working list: the local that receives the complete copy of the installed list
	// (element by element over the whole list, copy(), or append onto an empty slice)
	var outer *ssa.Alloc
	okCopyList, okLen := false, false
	isInstalledList := func(v ssa.Value) bool {
		b, is := x.isFieldLoad(v, "KnowledgeContext", "SortRules")
		return is && !x.freshKc(b)
	}
	whole := func(v ssa.Value) bool {
		_, lo, hi := x.sliceInterval(v)
		base, _, _ := x.sliceInterval(v)
		return lo.equal(constForm(0)) && hi.equal(x.symLen(base))
	}
	// the copy may first be made in a variable of its own and moved into the working variable
	isRuleListCell := func(a *ssa.Alloc) bool {
		if isListCell(a) {
			return true
		}
		pt, ok := a.Type().(*types.Pointer)
		if !ok {
			return false
		}
		sl, ok := pt.Elem().Underlying().(*types.Slice)
		return ok && structName(sl.Elem()) == "RuleEntity" && a.Parent() == f
	}
	madeWithLen := func(cell *ssa.Alloc) bool {
		for _, st := range x.stores[cell] {
			if ms, ok := x.Origin(st.Val).(*ssa.MakeSlice); ok {
				if args, isLen := builtinCall(x.Origin(ms.Len), "len"); isLen && isInstalledList(args[0]) {
					return true
				}
			}
		}
		return false
	}
	eachInstr(f, func(i ssa.Instruction) {
		if L.Blocks[i.Block()] {
			return
		}
		switch t := i.(type) {
		case *ssa.Store:
			if ia, ok := t.Addr.(*ssa.IndexAddr); ok {
				if cell := x.Cell(ia.X); cell != nil && isRuleListCell(cell) {
					if s, _, isR := x.rangedSlice(t.Val); isR && isInstalledList(s) && whole(s) {
						// position k of the copy receives position k of the installed list
						if x.sameIndex(ia, t.Val) {
							outer, okCopyList, okLen = cell, true, madeWithLen(cell)
						}
					}
				}
				return
			}
			if cell, ok := x.ResolveAddr(t.Addr).(*ssa.Alloc); ok && isRuleListCell(cell) {
				// append([]T(nil) / s[:0] of a fresh slice, installed...)
				if args, isApp := builtinCall(t.Val, "append"); isApp && len(args) == 2 && isInstalledList(args[1]) && whole(args[1]) {
					if c0, isC := x.Origin(args[0]).(*ssa.Const); isC && c0.IsNil() {
						outer, okCopyList, okLen = cell, true, true
					}
				}
			}
		case *ssa.Call:
			if args, isCopy := builtinCall(t, "copy"); isCopy && isInstalledList(args[1]) && whole(args[1]) {
				if cell := x.Cell(args[0]); cell != nil && isRuleListCell(cell) && whole(args[0]) {
					outer, okCopyList, okLen = cell, true, madeWithLen(cell)
				}
			}
		}
	})
	if outer == nil {
		outer = listCells[0]
		for _, l := range listCells {
			if l.Pos() < outer.Pos() {
				outer = l
			}
		}
	}
	// the copy may be moved into another variable before the merge starts (a field of a small
	// state struct, `st := &mergeState{sorted: sorted}`): that variable is the working list then
	for moved := 0; moved < 4; moved++ {
		var next *ssa.Alloc
		for _, l := range listCells {
			if l == outer {
				continue
			}
			for _, st := range x.stores[l] {
				if L.Blocks[st.Block()] || st.Parent() != f {
					continue
				}
				if x.directCell(x.lastLoad(st.Val)) != outer {
					continue
				}
				first := true
				for _, o := range x.stores[l] {
					if o != st && !domInstr(st, o) {
						first = false
					}
				}
				// and the old variable is not written any more
				for _, o := range x.stores[outer] {
					if domInstr(st, o) {
						first = false
					}
				}
				if first {
					next = l
				}
			}
		}
		if next == nil {
			break
		}
		outer = next
	}
	// lookup of the old entry
	var oldLk *ssa.Lookup
	eachInstr(f, func(in ssa.Instruction) {
		if lk, ok := in.(*ssa.Lookup); ok && lk.CommaOk && L.Blocks[lk.Block()] && x.Cell(lk.X) == mapCell && isK(lk.Index) {
			oldLk = lk
		}
	})
	c.Check(rule, key+"#exists-test", oldLk != nil, next.Pos(), "each new rule must be looked up by its name in the working name map to decide between replace and add")
	isVm := func(v ssa.Value) bool {
		ex, ok := x.Origin(v).(*ssa.Extract)
		return ok && oldLk != nil && ex.Tuple == ssa.Value(oldLk) && ex.Index == 0
	}
	// index lookup
	isIndex := func(v ssa.Value) bool {
		lk, ok := x.Origin(v).(*ssa.Lookup)
		return ok && x.Cell(lk.X) == idxCell && vField(lk.Index, "RuleName")
	}
	// posCheck: every value the position p can have at `at` is the low result of BinarySearch(list, v.Salience)
	// (only on paths where mid == 0 was found) or its mid result (only on paths where mid != 0)
	posCheck := func(pval ssa.Value, srcCell *ssa.Alloc, at ssa.Instruction) (bool, []string) {
		okP := true
		var whichs []string
		pvs := x.PossibleValues(pval)
		if len(pvs) == 0 {
			okP = false
		}
		for _, pv := range pvs {
			ex, isEx := pv.V.(*ssa.Extract)
			if pv.V == nil || pv.Outside || !isEx {
				okP = false
				continue
			}
			call, isCall := ex.Tuple.(*ssa.Call)
			if !isCall || !calleeIs(call, pTool, "", "BinarySearch") || x.Cell(call.Call.Args[0]) != srcCell || !vField(call.Call.Args[1], "Salience") || ex.Index > 1 {
				okP = false
				continue
			}
			// the edges on which `mid == 0` holds / does not hold
			zero, nonzero := map[edgeKey]bool{}, map[edgeKey]bool{}
			for _, blk := range f.Blocks {
				iff, isIf := blk.Instrs[len(blk.Instrs)-1].(*ssa.If)
				if !isIf {
					continue
				}
				cond, pol := iff.Cond, true
				for {
					u, isU := cond.(*ssa.UnOp)
					if !isU || u.Op != token.NOT {
						break
					}
					cond, pol = x.Origin(u.X), !pol
				}
				bo, isB := cond.(*ssa.BinOp)
				if !isB || (bo.Op != token.EQL && bo.Op != token.NEQ) {
					continue
				}
				isMid := func(v ssa.Value) bool {
					e2, isE2 := x.Origin(v).(*ssa.Extract)
					return isE2 && e2.Tuple == ssa.Value(call) && e2.Index == 1
				}
				isZero := func(v ssa.Value) bool {
					k, isKc := constInt(x.Origin(v))
					return isKc && k == 0
				}
				if !((isMid(bo.X) && isZero(bo.Y)) || (isMid(bo.Y) && isZero(bo.X))) {
					continue
				}
				zeroWhenTrue := (bo.Op == token.EQL) == pol
				if zeroWhenTrue {
					zero[edgeKey{blk, 0}], nonzero[edgeKey{blk, 1}] = true, true
				} else {
					zero[edgeKey{blk, 1}], nonzero[edgeKey{blk, 0}] = true, true
				}
			}
			need, which := zero, "low (mid == 0)"
			if ex.Index == 1 {
				need, which = nonzero, "mid (mid != 0)"
			}
			if len(need) == 0 {
				okP = false
				continue
			}
			// a path from the search to this insertion that carries this value without
			// having taken a required edge
			reCall := func(i2 ssa.Instruction) bool { return i2 == ssa.Instruction(call) }
			bad := false
			if pv.Store == nil {
				_, bad = pathExistsEB(f, call, func(i2 ssa.Instruction) bool { return i2 == at }, need, reCall)
			} else {
				cellP := x.directCell(x.lastLoad(pval))
				_, r1 := pathExistsEB(f, call, func(i2 ssa.Instruction) bool { return i2 == ssa.Instruction(pv.Store) }, need, reCall)
				_, r2 := pathExistsEB(f, pv.Store, func(i2 ssa.Instruction) bool { return i2 == at }, need, func(i2 ssa.Instruction) bool {
					return reCall(i2) || (cellP != nil && x.isStoreTo(i2, cellP))
				})
				bad = r1 && r2
			}
			if bad {
				okP = false
			}
			whichs = append(whichs, which)
		}
		return okP, whichs
	}
	// insertions, deletions, replacements
	var insertStores, replaceStores, rebuildStores, mapUpdates []ssa.Instruction
	insertTargets := map[*ssa.Alloc]bool{}
	type rebuilt struct {
		cell *ssa.Alloc
		pos  token.Pos
		n    int
	}
	var rebuiltFrom []rebuilt
	nIns, nDel, nRep, nReb := 0, 0, 0, 0
	countedDel := map[*ssa.Call]bool{}
	eachInstr(f, func(in ssa.Instruction) {
		if !L.Blocks[in.Block()] {
			return
		}
		switch t := in.(type) {
		case *ssa.Call:
			// a deletion whose result goes straight into the insertion (`insert(removeAt(s, i), v)`), never
			// into the list variable itself
			args, isApp := builtinCall(t, "append")
			if !isApp || len(args) != 2 || countedDel[t] {
				return
			}
			front, ok := x.Origin(args[0]).(*ssa.Slice)
			if !ok || front.High == nil || front.Low != nil {
				return
			}
			srcCell := x.Cell(front.X)
			back, ok := x.Origin(args[1]).(*ssa.Slice)
			if !ok || back.High != nil || back.Low == nil || srcCell == nil || x.Cell(back.X) != srcCell || !isListCell(srcCell) {
				return
			}
			// stored into the list variable: counted there
			for _, r := range *t.Referrers() {
				if st, isSt := r.(*ssa.Store); isSt && st.Val == ssa.Value(t) {
					if cell, _ := x.ResolveAddr(st.Addr).(*ssa.Alloc); cell != nil && isListCell(cell) {
						return
					}
				}
			}
			countedDel[t] = true
			nDel++
			okD := isIndex(front.High)
			if bo, ok := x.Origin(back.Low).(*ssa.BinOp); !ok || bo.Op != token.ADD || !isIndex(bo.X) {
				okD = false
			} else if k, isKc := constInt(bo.Y); !isKc || k != 1 {
				okD = false
			}
			inPlace := front.Max == nil
			sum.add("delete at index[v.RuleName] ok=%v in-place-or-stored-back=%v", okD, inPlace)
			c.Check(rule, fmt.Sprintf("%s#delete%d", key, nDel), okD && inPlace, in.Pos(), "before re-inserting a rule whose salience changed, exactly position IndexMap[v.RuleName] must be removed, from the working list itself (index ok %v; stored back or shifted in place %v)", okD, inPlace)
		case *ssa.MapUpdate:
			if x.Cell(t.Map) == mapCell {
				ok := isK(t.Key) && isV(t.Value)
				mapUpdates = append(mapUpdates, in)
				sum.add("map[k]=v ok=%v", ok)
				c.Check(rule, fmt.Sprintf("%s#name-map-update%d", key, len(mapUpdates)), ok, in.Pos(), "the working name map must receive the new rule under its own name (k -> v)")
			}
		case *ssa.Store:
			// replacement: s[index] = v
			if ia, ok := t.Addr.(*ssa.IndexAddr); ok {
				if cell := x.Cell(ia.X); cell != nil && isListCell(cell) {
					// the other way to write an insertion: grow by one, shift the tail, store --
					// `s = append(s, nil); copy(s[p+1:], s[p:]); s[p] = v`
					if okGrow, okShift := growShift(x, t, ia, cell); okShift {
						nIns++
						ikey := fmt.Sprintf("%s#insert%d", key, nIns)
						insertTargets[cell] = true
						okIre := isV(t.Val)
						okP, whichs := posCheck(ia.Index, cell, in)
						sort.Strings(whichs)
						insertStores = append(insertStores, in)
						for _, w := range whichs {
							sum.add("insert v at %s of BinarySearch(s, v.Salience): shape=%v single=%v position=%v", w, okGrow, okIre, okP)
						}
						if len(whichs) == 0 {
							sum.add("insert v at ? of BinarySearch(s, v.Salience): shape=%v single=%v position=%v", okGrow, okIre, okP)
						}
						c.Check(rule, ikey, okGrow && okIre && okP, in.Pos(), "an insertion written as grow / shift / store must grow the same slice variable by one element, shift s[p:] to s[p+1:] and store v at p, the binary-search position of v.Salience in that variable (shape %v, inserts exactly v %v, position %v)", okGrow, okIre, okP)
						return
					}
					nRep++
					okIdx := isIndex(ia.Index) && isV(t.Val)
					okGuard := false
					for _, g := range x.GuardsOf(t.Block()) {
						if bo, ok := g.Cond.(*ssa.BinOp); ok && bo.Op == token.EQL && g.Pol {
							lv, lvm := vField(bo.X, "Salience"), false
							if b, is := x.isFieldLoad(bo.Y, "RuleEntity", "Salience"); is && isVm(b) {
								lvm = true
							}
							if lv && lvm {
								okGuard = true
							}
						}
					}
					replaceStores = append(replaceStores, in)
					sum.add("replace at index[v.RuleName] under v.Salience==old.Salience: idx=%v guard=%v", okIdx, okGuard)
					c.Check(rule, fmt.Sprintf("%s#replace%d", key, nRep), okIdx && okGuard, in.Pos(), "a same-salience replacement must store v at IndexMap[v.RuleName], under the guard v.Salience == old.Salience (index ok %v, guard ok %v)", okIdx, okGuard)
				}
				return
			}
			cell, _ := x.ResolveAddr(t.Addr).(*ssa.Alloc)
			if os.Getenv("GVERIF_DEBUG") != "" {
				if fa, isFA := t.Addr.(*ssa.FieldAddr); isFA {
					fmt.Fprintf(os.Stderr, "store to field %s at %s: resolves to %T %v; X resolves to %T\n", fieldOf(fa).Name(), c.pos(in.Pos()), x.ResolveAddr(t.Addr), x.ResolveAddr(t.Addr), x.ResolveAddr(fa.X))
				}
			}
			if cell == nil {
				return
			}
			if isListCell(cell) {
				args, ok := builtinCall(t.Val, "append")
				if !ok {
					return
				}
				front, ok := x.Origin(args[0]).(*ssa.Slice)
				if !ok || front.High == nil || front.Low != nil {
					return
				}
				srcCell := x.Cell(front.X)
				// deletion: append(s[:i], s[i+1:]...)
				if back, ok := x.Origin(args[1]).(*ssa.Slice); ok && back.High == nil && back.Low != nil && x.Cell(back.X) == srcCell {
					if dc, isCall := t.Val.(*ssa.Call); isCall {
						if countedDel[dc] {
							return
						}
						countedDel[dc] = true
					}
					nDel++
					okD := isIndex(front.High)
					if bo, ok := x.Origin(back.Low).(*ssa.BinOp); !ok || bo.Op != token.ADD || !isIndex(bo.X) {
						okD = false
					} else if k, isKc := constInt(bo.Y); !isKc || k != 1 {
						okD = false
					}
					// a removal whose result does not go back into the working list itself (it is kept in
					// a variable of the branch) reaches that list only by shifting inside its backing
					// array: the head must then be the plain s[:i], not a capped s[:i:i] that makes append copy
					inPlace := cell == outer || front.Max == nil
					sum.add("delete at index[v.RuleName] ok=%v in-place-or-stored-back=%v", okD, inPlace)
					c.Check(rule, fmt.Sprintf("%s#delete%d", key, nDel), okD && inPlace, in.Pos(), "before re-inserting a rule whose salience changed, exactly position IndexMap[v.RuleName] must be removed, from the working list itself (index ok %v; stored back or shifted in place %v)", okD, inPlace)
					return
				}
				// insertion: append(s[:p], append([v], s[p:]...)...)
				inner, ok := x.Origin(args[1]).(*ssa.Call)
				if !ok {
					return
				}
				iargs, isApp := builtinCall(inner, "append")
				if !isApp {
					return
				}
				nIns++
				ikey := fmt.Sprintf("%s#insert%d", key, nIns)
				back, okBack := x.Origin(iargs[1]).(*ssa.Slice)
				// front and back are cut from one slice variable at one position; the variable that
				// receives the result is recorded: the index must be rebuilt from it (H3)
				okShape := okBack && back.Low != nil && back.High == nil && x.Cell(back.X) == srcCell && x.sameValue(back.Low, front.High)
				insertTargets[cell] = true
				if os.Getenv("GVERIF_DEBUG") != "" {
					fmt.Fprintf(os.Stderr, "insert %s: okBack=%v cell=%s@%s srcCell=%v backCell=%v same=%v\n", c.pos(in.Pos()), okBack, cell.Comment, c.pos(cell.Pos()), srcCell, x.Cell(back.X), okBack && x.sameValue(back.Low, front.High))
					if srcCell != nil {
						fmt.Fprintf(os.Stderr, "   src=%s@%s\n", srcCell.Comment, c.pos(srcCell.Pos()))
					}
				}
				// ire = []*RuleEntity{v}
				okIre := false
				if sl, isSl := x.Origin(iargs[0]).(*ssa.Slice); isSl {
					if arr, isArr := sl.X.(*ssa.Alloc); isArr {
						for _, ref := range *arr.Referrers() {
							if ia, isIA := ref.(*ssa.IndexAddr); isIA {
								for _, r2 := range *ia.Referrers() {
									if st, isSt := r2.(*ssa.Store); isSt && isV(st.Val) {
										okIre = true
									}
								}
							}
						}
					}
				}
				// p from BinarySearch(s, v.Salience) on the same variable: every value p can
				// have here is the low result (only on paths where mid == 0 was found) or the
				// mid result (only on paths where mid != 0), whether p is the result itself in
				// two branches or a position variable assigned from them
				okP, whichs := posCheck(front.High, srcCell, in)
				sort.Strings(whichs)
				which := strings.Join(whichs, " / ")
				if which == "" {
					which = "?"
				}
				insertStores = append(insertStores, in)
				for _, w := range whichs {
					sum.add("insert v at %s of BinarySearch(s, v.Salience): shape=%v single=%v position=%v", w, okShape, okIre, okP)
				}
				if len(whichs) == 0 {
					sum.add("insert v at ? of BinarySearch(s, v.Salience): shape=%v single=%v position=%v", okShape, okIre, okP)
				}
				c.Check(rule, ikey, okShape && okIre && okP, in.Pos(), "an insertion must be append(s[:p], append([v], s[p:]...)...) on one slice variable with p the binary-search position of v.Salience in that same variable (shape %v, inserts exactly v %v, position %v)", okShape, okIre, okP)
				return
			}
			if cell == idxCell && L.Blocks[t.Block()] {
				// index rebuild: value is a map cell filled by ranging a list cell
				nReb++
				mc := x.Cell(t.Val)
				okR := false
				var ranged *ssa.Alloc
				if mc != nil {
					eachInstr(f, func(i2 ssa.Instruction) {
						mu, ok := i2.(*ssa.MapUpdate)
						if !ok || x.Cell(mu.Map) != mc {
							return
						}
						b, is := x.isFieldLoad(mu.Key, "RuleEntity", "RuleName")
						if !is {
							return
						}
						s, l2, isR := x.rangedSlice(b)
						if !isR {
							return
						}
						// value = the range counter of the same loop
						okV := false
						if ri := x.readsRangeIndex(mu.Value); ri != nil {
							for _, st := range x.stores[ri] {
								if st.Block() == l2.Head {
									okV = true
								}
							}
						}
						if rc := x.Cell(s); rc != nil && isListCell(rc) && okV {
							okR = true
							ranged = rc
						}
					})
				}
				rebuildStores = append(rebuildStores, in)
				rebuiltFrom = append(rebuiltFrom, rebuilt{ranged, in.Pos(), nReb})
				sum.add("index rebuilt from the modified list ok=%v", okR)
				c.Check(rule, fmt.Sprintf("%s#index-rebuild%d", key, nReb), okR, in.Pos(), "after a structural change the name->position index must be rebuilt by ranging the modified list (name -> position)")
			}
		}
	})
	for _, r := range rebuiltFrom {
		if r.cell != nil {
			c.Check(rule, fmt.Sprintf("%s#index-rebuild%d/from-inserted", key, r.n), insertTargets[r.cell], r.pos, "the index is rebuilt from %s, which is not the variable an insertion stored its result in", r.cell.Comment)
		}
	}
	c.Check(rule, key+"#step-counts", nIns >= 1 && nDel >= 1 && nRep >= 1 && nReb >= 1 && len(mapUpdates) >= 1, f.Pos(), "merge steps found: %d insertions, %d deletion, %d replacement, %d index rebuilds, %d name-map updates (each step must occur)", nIns, nDel, nRep, nReb, len(mapUpdates))
	in := func(set []ssa.Instruction) func(ssa.Instruction) bool {
		return func(i ssa.Instruction) bool {
			for _, s := range set {
				if s == i {
					return true
				}
			}
			return false
		}
	}
	head := L.Head.Instrs[0]
	// body start: the successor of the head inside the loop
	var bodyFirst ssa.Instruction
	for _, s := range L.Head.Succs {
		if L.Blocks[s] {
			bodyFirst = s.Instrs[0]
		}
	}
	if bodyFirst != nil {
		_, noMap := pathFrom(bodyFirst, func(i ssa.Instruction) bool { return i == head }, in(mapUpdates))
		_, noList := pathFrom(bodyFirst, func(i ssa.Instruction) bool { return i == head }, in(append(append([]ssa.Instruction{}, insertStores...), replaceStores...)))
		sum.add("every iteration updates map=%v list=%v", !noMap, !noList)
		c.Check(rule, key+"#map-and-list-together", !noMap && !noList, next.Pos(), "every path through one merge iteration must update both the name map and the sorted list (map on all paths %v, list on all paths %v)", !noMap, !noList)
	}
	okH3 := true
	for _, s := range insertStores {
		if _, skip := pathExists(f, s, func(i ssa.Instruction) bool { return i == head }, in(rebuildStores)); skip {
			okH3 = false
		}
	}
	sum.add("index rebuilt after every insertion=%v", okH3)
	c.Check(rule, key+"#index-after-insert", okH3, next.Pos(), "after every insertion the index must be rebuilt before the next new rule is merged")
	// complete copies
	okCopyMap := false
	eachInstr(f, func(i ssa.Instruction) {
		if mu, ok := i.(*ssa.MapUpdate); ok && x.Cell(mu.Map) == mapCell && !L.Blocks[mu.Block()] {
			if m, _, isR := x.rangedMap(mu.Value); isR {
				if b, is := x.isFieldLoad(m, "KnowledgeContext", "RuleEntities"); is && !x.freshKc(b) {
					if kx, isEx := x.Origin(mu.Key).(*ssa.Extract); isEx && kx.Index == 1 {
						okCopyMap = len(x.GuardsOfInLoop(mu.Block())) == 0
					}
				}
			}
		}
	})
	sum.add("complete copies map=%v list=%v len=%v", okCopyMap, okCopyList, okLen)
	c.Check(rule, key+"#complete-copies", okCopyMap && okCopyList && okLen, f.Pos(), "the merge must start from complete copies of the installed name map and sorted list (map %v, list %v, length %v): all other rules stay untouched", okCopyMap, okCopyList, okLen)
	// publication of exactly the three locals
	pub := map[string]bool{}
	eachInstr(f, func(i ssa.Instruction) {
		st, ok := i.(*ssa.Store)
		if !ok {
			return
		}
		fa, ok := st.Addr.(*ssa.FieldAddr)
		if !ok || structName(fa.X.Type()) != "KnowledgeContext" || !x.freshKc(fa.X) {
			return
		}
		switch fieldOf(fa).Name() {
		case "RuleEntities":
			pub["map"] = x.Cell(st.Val) == mapCell
		case "SortRules":
			pub["list"] = x.Cell(st.Val) == outer
		case "SortRulesIndexMap":
			pub["index"] = x.Cell(st.Val) == idxCell
			if !pub["index"] {
				// or an index built afresh from the very list that is published: a new map
				// filled, for every position of that list, with name -> position
				idxVal := x.Origin(st.Val)
				sameMap := func(m ssa.Value) bool {
					if x.Origin(m) == idxVal {
						return true
					}
					c1, c2 := x.Cell(m), x.Cell(st.Val)
					return c1 != nil && c1 == c2
				}
				eachInstr(f, func(i2 ssa.Instruction) {
					mu, isMu := i2.(*ssa.MapUpdate)
					if !isMu || !sameMap(mu.Map) {
						return
					}
					b, isN := x.isFieldLoad(mu.Key, "RuleEntity", "RuleName")
					if !isN {
						return
					}
					if s2, _, isR := x.rangedSlice(b); isR && x.Cell(s2) == outer && len(x.GuardsOfInLoop(mu.Block())) == 0 && x.readsRangeIndex(mu.Value) != nil {
						if _, isMk := x.Origin(mu.Map).(*ssa.MakeMap); isMk || x.Cell(mu.Map) != nil {
							pub["index"] = true
						}
					}
				})
			}
		}
	})
	sum.add("published map=%v list=%v index=%v", pub["map"], pub["list"], pub["index"])
	c.Check(rule, key+"#publishes-merged-state", pub["map"] && pub["list"] && pub["index"], f.Pos(), "the new container must receive the merged name map, sorted list and index (%v)", pub)
	return sum
}

func isParamKc(v ssa.Value) bool {
	p, ok := v.(*ssa.Parameter)
	return ok && isNamedPtr(p.Type(), pBase, "KnowledgeContext")
}

// GuardsOfInLoop: guards of b other than loop conditions (used to assert "unconditional inside its loop").
func (x *FnIndex) GuardsOfInLoop(b *ssa.BasicBlock) []Guard {
	var out []Guard
	l := x.InnermostLoop(b)
	for _, g := range x.GuardsOf(b) {
		if l != nil && l.Blocks[g.If.Block()] && g.If.Block() != l.Head {
			out = append(out, g)
		}
	}
	return out
}

func runC08(c *Ctx) {
	c.ruleO1("H1-comparator-descending")
	c.Min("H1-comparator-descending", 10)
	c.ruleBinarySearch("H1b-binary-search-descending")
	c.Min("H1b-binary-search-descending", 3)
	// the algebra holds of what runs only if every instance of a pool gets the result of an operation: a full
	// or incremental update and a removal reach every element of gp.rbSlice (C07-U3). A removal applied to
	// the pool's own builder alone leaves the removed rules running on the instances
	c.ruleU3("H10-operations-reach-every-instance")
	c.Min("H10-operations-reach-every-instance", 10)
	// what an update installs under a name is the rule as it was compiled from the update's text: body,
	// description and salience. Outside the compile step no field of a rule is written (the node-write
	// part of C07-U2) -- a merge that carries the installed salience over into the replacing rule
	// installs something the text does not say
	c.only = func(key string) bool { return strings.Contains(key, "#ast-store") }
	c.ruleU2("H11-installed-as-compiled")
	c.only = nil
	// "the rules named" are named by the text between the quotes as written: the listener hands the name map
	// that text with only the quotes cut off (the header part of C01-E5). A name trimmed of blanks makes
	// `"a"` and `"a "` one key: an update adding the second replaces the first
	c.only = func(key string) bool { return key == "ExitRuleName" || key == "ExitRuleDescription" }
	c.ruleE5("H12-named-as-written")
	c.only = nil
	c.Min("H12-named-as-written", 2)
	// ... and carries the salience written in its text: stored by the entity's own Accept method exactly as
	// handed over by the listener (C04-O8) -- a holder that "rounds" negative saliences up to 0 installs
	// something the update does not say
	c.ruleSalienceAsWritten("H13-salience-as-written")
	var sums []*mergeSummary
	for _, spec := range [][3]string{{"builder", "RuleBuilder", "BuildRuleWithIncremental"}, {"engine", "", "updateIncremental"}} {
		f := c.MustFn("H2-H5-merge", spec[0], spec[1], spec[2])
		if f == nil {
			continue
		}
		sums = append(sums, c.mergeModel("H2-H5-merge", f))
	}
	c.Min("H2-H5-merge", 30)
	if len(sums) == 2 {
		// compared as sets of distinct steps: the number of places a step is written in may differ
		norm := func(items []string) string {
			seen := map[string]bool{}
			var out []string
			for _, it := range items {
				if !seen[it] {
					seen[it] = true
					out = append(out, it)
				}
			}
			sort.Strings(out)
			return strings.Join(out, "\n")
		}
		a, b := norm(sums[0].items), norm(sums[1].items)
		c.Check("H8-sibling-agreement", "BuildRuleWithIncremental~updateIncremental", a == b, 0, "the builder's and the pool's copy of the incremental merge must have the same step summary; they differ:\n-- builder --\n%s\n-- pool --\n%s", a, b)
	}
	c.ruleFullBuildAndRemoval("H6-full-build-and-removal")
	c.ruleUniqueNames("H7-unique-names")
	// IsExist under buildLock
	if f := c.MustFn("H9-exist-query", "builder", "RuleBuilder", "IsExist"); f != nil {
		x := c.Index(f)
		ok := false
		eachInstr(f, func(in ssa.Instruction) {
			if lk, isLk := in.(*ssa.Lookup); isLk {
				if b, is := x.isFieldLoad(lk.X, "KnowledgeContext", "RuleEntities"); is {
					if rb, is2 := x.isFieldLoad(b, "RuleBuilder", "Kc"); is2 && x.Origin(rb) == ssa.Value(f.Params[0]) {
						_, held := x.heldAt(in)["RuleBuilder.buildLock"]
						if s, _, isR := x.rangedSlice(lk.Index); isR && x.Origin(s) == ssa.Value(f.Params[1]) && held {
							ok = true
						}
					}
				}
			}
		})
		c.Check("H9-exist-query", "RuleBuilder.IsExist", ok, f.Pos(), "IsExist must look each given name up in the installed name map, under buildLock")
	}
	_ = sort.Strings
	_ = types.Typ
	c.ruleContainersOwnTheirMemory("H6-containers-own-their-memory")
	c.Min("H6-containers-own-their-memory", 6)
}

// ruleFullBuildAndRemoval (H6)
func (c *Ctx) ruleFullBuildAndRemoval(rule string) {
	if f := c.MustFn(rule, "builder", "RuleBuilder", "BuildRuleFromString"); f != nil {
		x := c.Index(f)
		recv := ssa.Value(f.Params[0])
		// the list: built directly in the SortRules field of the fresh container, or in a local
		// slice that is stored into that field afterwards
		var listCell *ssa.Alloc // nil: the field itself
		var listSt *ssa.Store
		eachInstr(f, func(in ssa.Instruction) {
			st, ok := in.(*ssa.Store)
			if !ok {
				return
			}
			fa, ok := st.Addr.(*ssa.FieldAddr)
			if !ok || fieldOf(fa).Name() != "SortRules" || !x.freshKc(fa.X) {
				return
			}
			if _, isApp := builtinCall(st.Val, "append"); isApp {
				return
			}
			if cell := x.Cell(st.Val); cell != nil && cell.Parent() == f {
				listCell, listSt = cell, st
			}
		})
		isList := func(v ssa.Value) bool {
			if listCell != nil {
				if x.Cell(v) == listCell {
					return true
				}
				// the slice the list variable was made as (`list := make(..)`, never re-sliced or grown: its one value)
				if mk, isMk := x.Origin(v).(*ssa.MakeSlice); isMk && len(x.stores[listCell]) == 1 && x.Origin(x.stores[listCell][0].Val) == ssa.Value(mk) {
					return true
				}
				// the field read back after the list was stored into it
				if b, is := x.isFieldLoad(v, "KnowledgeContext", "SortRules"); is && x.freshKc(b) {
					if ld, isLd := x.Origin(v).(*ssa.UnOp); isLd && domInstr(listSt, ld) {
						return true
					}
				}
				return false
			}
			_, is := x.isFieldLoad(v, "KnowledgeContext", "SortRules")
			return is
		}
		// list every parsed rule once: range over kc.RuleEntities, unconditional append to the list
		okList := false
		var fillMap ssa.Value
		isListLen := func(arg ssa.Value) bool {
			return isList(arg) || (fillMap != nil && x.sameValue(arg, fillMap))
		}
		eachInstr(f, func(in ssa.Instruction) {
			st, ok := in.(*ssa.Store)
			if !ok {
				return
			}
			// `list[i] = v; i++` in the range over the name map, the list made with one position per name
			if lst, m, _, isFill := x.filledFromMap(st); isFill && isList(lst) {
				if b, is := x.isFieldLoad(m, "KnowledgeContext", "RuleEntities"); is && x.freshKc(b) {
					okList = true
					fillMap = m // the list has one position per name: a test of len(map) is a test of len(list)
				}
				return
			}
			if listCell != nil {
				if cell, _ := x.ResolveAddr(st.Addr).(*ssa.Alloc); cell != listCell {
					return
				}
			} else {
				fa, ok := st.Addr.(*ssa.FieldAddr)
				if !ok || fieldOf(fa).Name() != "SortRules" || !x.freshKc(fa.X) {
					return
				}
			}
			args, ok := builtinCall(st.Val, "append")
			if !ok || !isList(args[0]) {
				return
			}
			el := x.appendedSingle(args[1])
			if el == nil {
				return
			}
			if m, _, isR := x.rangedMap(el); isR {
				if b, is := x.isFieldLoad(m, "KnowledgeContext", "RuleEntities"); is && x.freshKc(b) && len(x.GuardsOfInLoop(st.Block())) == 0 {
					okList = true
				}
			}
		})
		c.Check(rule, "BuildRuleFromString#lists-every-rule", okList, f.Pos(), "every rule of the freshly parsed container must be appended to its sorted list exactly once (unconditionally, in a range over the name map)")
		// sort on the list under len > 1, index by ranging the list, publish last
		kind := ""
		var pubSt *ssa.Store
		eachInstr(f, func(in ssa.Instruction) {
			if st, ok := in.(*ssa.Store); ok && isKcFieldAddr(st.Addr) {
				if fa := st.Addr.(*ssa.FieldAddr); x.Origin(fa.X) == recv && x.freshKc(st.Val) {
					pubSt = st
				}
			}
		})
		okSort, okIdx := false, false
		eachInstr(f, func(in ssa.Instruction) {
			if call, ok := in.(*ssa.Call); ok && call.Call.StaticCallee() != nil && call.Call.StaticCallee().Pkg != nil && call.Call.StaticCallee().Pkg.Pkg.Path() == "sort" {
				if isList(x.Unwrap(call.Call.Args[0])) {
					// guarded only by len > 1
					okG := true
					for _, g := range x.GuardsOf(call.Block()) {
						// a length test on the list may only exclude lengths below two
						if arg, tlo, thi, flo, fhi, isLT := x.lenTest(g.Cond); isLT {
							if isListLen(arg) {
								lo, hi := tlo, thi
								if !g.Pol {
									lo, hi = flo, fhi
								}
								if lo > 2 || hi != lenInf {
									okG = false
								}
							}
						}
					}
					okSort = okG && pubSt != nil && domInstr(call, pubSt) || (okG && pubSt != nil && !reaches(f, pubSt, call))
				}
			}
			if mu, ok := in.(*ssa.MapUpdate); ok {
				// the index: the SortRulesIndexMap field of the fresh container, or a local map stored into it
				isIdx := false
				if _, is := x.isFieldLoad(mu.Map, "KnowledgeContext", "SortRulesIndexMap"); is {
					isIdx = true
				} else if mc := x.Cell(mu.Map); mc != nil {
					for _, st := range x.stores[mc] {
						_ = st
					}
					eachInstr(f, func(i2 ssa.Instruction) {
						if st, isSt := i2.(*ssa.Store); isSt {
							if fa, isFA := st.Addr.(*ssa.FieldAddr); isFA && fieldOf(fa).Name() == "SortRulesIndexMap" && x.freshKc(fa.X) && x.Cell(st.Val) == mc {
								isIdx = true
							}
						}
					})
				} else if mk, isMk := x.Origin(mu.Map).(*ssa.MakeMap); isMk {
					eachInstr(f, func(i2 ssa.Instruction) {
						if st, isSt := i2.(*ssa.Store); isSt {
							if fa, isFA := st.Addr.(*ssa.FieldAddr); isFA && fieldOf(fa).Name() == "SortRulesIndexMap" && x.freshKc(fa.X) && x.Origin(st.Val) == ssa.Value(mk) {
								isIdx = true
							}
						}
					})
				}
				if isIdx {
					if b, isN := x.isFieldLoad(mu.Key, "RuleEntity", "RuleName"); isN {
						if s2, _, isR := x.rangedSlice(b); isR {
							if isList(s2) && len(x.GuardsOfInLoop(mu.Block())) == 0 {
								okIdx = true
							}
						}
					}
				}
			}
		})
		_ = kind
		// and the sort is on every way to the installation, except for a list of fewer than two rules:
		// a second condition beside the length (a flag "some rule has a priority") lets a list through unsorted
		if okSort && pubSt != nil {
			short := map[edgeKey]bool{}
			for _, b := range f.Blocks {
				iff, isIf := b.Instrs[len(b.Instrs)-1].(*ssa.If)
				if !isIf {
					continue
				}
				if arg, _, thi, _, fhi, isLT := x.lenTest(iff.Cond); isLT && isListLen(arg) {
					if thi <= 1 {
						short[edgeKey{b, 0}] = true
					}
					if fhi <= 1 {
						short[edgeKey{b, 1}] = true
					}
				}
			}
			isSortCall := func(in ssa.Instruction) bool {
				call, ok := in.(*ssa.Call)
				if !ok || call.Call.StaticCallee() == nil || call.Call.StaticCallee().Pkg == nil || call.Call.StaticCallee().Pkg.Pkg.Path() != "sort" {
					return false
				}
				return isList(x.Unwrap(call.Call.Args[0]))
			}
			if _, round := pathExistsEB(f, nil, func(in ssa.Instruction) bool { return in == ssa.Instruction(pubSt) }, short, isSortCall); round {
				okSort = false
			}
		}
		c.Check(rule, "BuildRuleFromString#sorts-then-indexes", okSort && okIdx, f.Pos(), "the full build must sort the list (whenever it has more than one element) and index every position before installing (sort %v, index %v)", okSort, okIdx)
		okLast := pubSt != nil
		if okLast {
			_, more := pathExists(f, pubSt, func(in ssa.Instruction) bool {
				switch t := in.(type) {
				case *ssa.Store:
					_, isF := t.Addr.(*ssa.FieldAddr)
					return isF
				case *ssa.MapUpdate:
					return true
				case *ssa.Call:
					return t.Call.StaticCallee() != nil && t.Call.StaticCallee().Pkg != nil && t.Call.StaticCallee().Pkg.Pkg.Path() == "sort"
				}
				return false
			}, nil)
			okLast = !more
		}
		c.Check(rule, "BuildRuleFromString#replaces-everything", okLast, f.Pos(), "the full build must install the fresh container as its last step, replacing the previous set entirely")
	}
	if f := c.MustFn(rule, "builder", "RuleBuilder", "RemoveRules"); f != nil {
		x := c.Index(f)
		// keep entity iff no given name equals its name. Decided on the control flow of one
		// iteration of the loop over the installed rules, however the test is written (a flag
		// cleared on a match, a `continue`, a helper that returns on the first match):
		//  (a) once a given name has compared equal to the rule's name, the copy into the new
		//      map is unreachable in that iteration;
		//  (b) an iteration in which no comparison matched cannot end without the copy;
		//  (c) the comparisons cover every given name: the loop over the names is left early
		//      only on a match.
		// Branches on boolean flags are followed with the flag's value on the path.
		var mu *ssa.MapUpdate
		var outerL *Loop
		eachInstr(f, func(in ssa.Instruction) {
			if m2, ok := in.(*ssa.MapUpdate); ok && mu == nil {
				if src, l, isR := x.rangedMap(m2.Value); isR {
					if _, isInst := x.isFieldLoad(src, "KnowledgeContext", "RuleEntities"); isInst {
						mu, outerL = m2, l
					}
				}
			}
		})
		okKeep := false
		why := "no copy of the installed rules into a new map found"
		if mu != nil && outerL != nil {
			var next *ssa.Next
			for _, in := range outerL.Head.Instrs {
				if n, ok := in.(*ssa.Next); ok {
					next = n
				}
			}
			isName := func(v ssa.Value) bool {
				ex, ok := x.Origin(v).(*ssa.Extract)
				return ok && next != nil && ex.Tuple == ssa.Value(next) && ex.Index == 1
			}
			isGiven := func(v ssa.Value) (*Loop, bool) {
				sl, l, ok := x.rangedSlice(v)
				if !ok {
					return nil, false
				}
				base, lo, hi := x.sliceInterval(sl)
				_, isPar := x.Origin(base).(*ssa.Parameter)
				return l, isPar && lo.equal(constForm(0)) && hi.equal(x.symLen(base))
			}
			match := map[edgeKey]bool{}
			var matchBlocks []*ssa.BasicBlock
			var inner []*Loop
			// the given names may first be put into a set (a local map filled with every given
			// name, unconditionally, and never emptied): membership in it is the comparison
			// with every given name at once
			nameSets := map[*ssa.Alloc]bool{}
			{
				fills := map[*ssa.Alloc]int{}
				good := map[*ssa.Alloc]bool{}
				eachInstr(f, func(in ssa.Instruction) {
					switch t := in.(type) {
					case *ssa.MapUpdate:
						cell := x.Cell(t.Map)
						if cell == nil || cell.Parent() != f {
							return
						}
						fills[cell]++
						if _, g := isGiven(t.Key); g && len(x.GuardsOfInLoop(t.Block())) == 0 {
							if _, isMk := x.Origin(t.Map).(*ssa.MakeMap); isMk {
								good[cell] = true
							}
						}
					case *ssa.Call:
						if args, isDel := builtinCall(t, "delete"); isDel {
							if cell := x.Cell(args[0]); cell != nil {
								fills[cell] += 100
							}
						}
					}
				})
				for cell, n := range fills {
					if n == 1 && good[cell] && len(x.stores[cell]) == 1 {
						nameSets[cell] = true
					}
				}
			}
			for _, blk := range f.Blocks {
				if !outerL.Blocks[blk] || len(blk.Instrs) == 0 {
					continue
				}
				iff, ok := blk.Instrs[len(blk.Instrs)-1].(*ssa.If)
				if !ok {
					continue
				}
				cond, pol := iff.Cond, true
				for {
					u, isU := cond.(*ssa.UnOp)
					if !isU || u.Op != token.NOT {
						break
					}
					cond, pol = x.Origin(u.X), !pol
				}
				if ex, isEx := x.Origin(cond).(*ssa.Extract); isEx && ex.Index == 1 {
					if lk, isLk := ex.Tuple.(*ssa.Lookup); isLk && lk.CommaOk && isName(lk.Index) {
						if cell := x.Cell(lk.X); cell != nil && nameSets[cell] {
							k := 1
							if pol {
								k = 0
							}
							match[edgeKey{blk, k}] = true
							matchBlocks = append(matchBlocks, blk.Succs[k])
							continue
						}
					}
				}
				bo, ok := cond.(*ssa.BinOp)
				if !ok || (bo.Op != token.EQL && bo.Op != token.NEQ) {
					continue
				}
				var l *Loop
				if l1, g := isGiven(bo.X); g && isName(bo.Y) {
					l = l1
				} else if l2, g := isGiven(bo.Y); g && isName(bo.X) {
					l = l2
				} else {
					continue
				}
				inner = append(inner, l)
				if (bo.Op == token.EQL) == pol {
					match[edgeKey{blk, 0}] = true
					matchBlocks = append(matchBlocks, blk.Succs[0])
				} else {
					match[edgeKey{blk, 1}] = true
					matchBlocks = append(matchBlocks, blk.Succs[1])
				}
			}
			head := outerL.Head.Instrs[0]
			atHead := func(i ssa.Instruction) bool { return i == head }
			isMu := func(i ssa.Instruction) bool { return i == ssa.Instruction(mu) }
			okA, okB, okC := len(match) > 0, len(match) > 0, len(match) > 0
			for _, mb := range matchBlocks {
				if _, reach := x.pathExistsFlagsAt(f, mb, 0, isMu, nil, atHead); reach {
					okA = false
				}
			}
			var bodyFirst ssa.Instruction
			for _, sc := range outerL.Head.Succs {
				if outerL.Blocks[sc] {
					bodyFirst = sc.Instrs[0]
				}
			}
			if bodyFirst == nil {
				okB = false
			} else if !isMu(bodyFirst) {
				// start from the head so that the flags' assignments of this iteration are seen
				if _, skip := x.pathExistsFlags(f, head, atHead, match, isMu); skip {
					okB = false
				}
			}
			for _, l := range inner {
				for blk := range l.Blocks {
					for k, sc := range blk.Succs {
						if l.Blocks[sc] || blk == l.Head {
							continue
						}
						dominatedByMatch := match[edgeKey{blk, k}]
						for e := range match {
							if x.edgeDominated(e.from, e.succ)[blk] {
								dominatedByMatch = true
							}
						}
						if !dominatedByMatch {
							okC = false
						}
					}
				}
			}
			okKeep = okA && okB && okC
			why = fmt.Sprintf("never copied after a match %v, always copied without a match %v, every given name compared %v", okA, okB, okC)
		}
		c.Check(rule, "RemoveRules#keeps-exactly-the-unnamed", okKeep, f.Pos(), "removal must keep a rule exactly when none of the given names equals its name (%s)", why)
		// fresh container with list from the kept map, sorted, indexed; installed last
		okFresh := false
		fields := map[string]bool{}
		eachInstr(f, func(in ssa.Instruction) {
			if st, ok := in.(*ssa.Store); ok {
				if fa, ok := st.Addr.(*ssa.FieldAddr); ok && structName(fa.X.Type()) == "KnowledgeContext" && x.freshKc(fa.X) {
					fields[fieldOf(fa).Name()] = true
				}
				if isKcFieldAddr(st.Addr) && x.freshKc(st.Val) {
					okFresh = true
				}
			}
		})
		nSort := 0
		for _, s := range c.ruleEntitySortSites() {
			if s.fn == f {
				nSort++
			}
		}
		c.Check(rule, "RemoveRules#fresh-sorted-container", okFresh && len(fields) == 3 && nSort == 1, f.Pos(), "removal must build a fresh container (name map, re-sorted list, rebuilt index) and install it (fresh %v, fields %d, sorts %d)", okFresh, len(fields), nSort)
	}
}

func reaches(f *ssa.Function, from, to ssa.Instruction) bool {
	_, ok := pathExists(f, from, func(in ssa.Instruction) bool { return in == to }, nil)
	return ok
}

// growShift: the element store st (`s[p] = v`, s read from cell) is the last step of an insertion written
// `s = append(s, <one element>); copy(s[p+1:], s[p:]); s[p] = v`: in the block of the store, before it, a
// copy from s[p:] to s[p+1:] of the same variable (shift), preceded by an append of one element to the
// variable stored back into it (grow), with no other store to the variable in between.
func growShift(x *FnIndex, st *ssa.Store, ia *ssa.IndexAddr, cell *ssa.Alloc) (grow, shift bool) {
	b := st.Block()
	at := instrIdx(st)
	ci := -1
	for i := at - 1; i >= 0; i-- {
		if x.isStoreTo(b.Instrs[i], cell) {
			break
		}
		call, ok := b.Instrs[i].(*ssa.Call)
		if !ok {
			continue
		}
		args, isCopy := builtinCall(call, "copy")
		if !isCopy || len(args) != 2 {
			continue
		}
		dst, ok1 := x.Origin(args[0]).(*ssa.Slice)
		src, ok2 := x.Origin(args[1]).(*ssa.Slice)
		if !ok1 || !ok2 || dst.High != nil || src.High != nil || dst.Low == nil || src.Low == nil {
			continue
		}
		if x.Cell(dst.X) != cell || x.Cell(src.X) != cell || !x.sameValue(src.Low, ia.Index) {
			continue
		}
		bo, isB := x.Origin(dst.Low).(*ssa.BinOp)
		if !isB || bo.Op != token.ADD || !x.sameValue(bo.X, ia.Index) {
			continue
		}
		if k, isK := constInt(bo.Y); !isK || k != 1 {
			continue
		}
		ci = i
		break
	}
	if ci < 0 {
		return false, false
	}
	shift = true
	// the grow step: the last store to the variable before the copy, in this block or on the only way here
	for blk, from := b, ci-1; blk != nil; {
		for i := from; i >= 0; i-- {
			if !x.isStoreTo(blk.Instrs[i], cell) {
				continue
			}
			args, isApp := builtinCall(blk.Instrs[i].(*ssa.Store).Val, "append")
			if !isApp || len(args) != 2 || x.Cell(args[0]) != cell {
				return false, true
			}
			return len(x.variadicElems(args[1])) == 1, true
		}
		if len(blk.Preds) != 1 {
			return false, true
		}
		blk = blk.Preds[0]
		from = len(blk.Instrs) - 1
	}
	return false, true
}
