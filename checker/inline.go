package main

// inline.go — helper inlining on the SSA form.
//
// Every rule of the checker is written against the functions that exist on
// the tree it was developed on (baseline_funcs.txt, the reference instance
// list).  A later change may move part of such a function into a *new*
// helper ("extract method"); the behaviour is unchanged, but an
// intraprocedural rule would no longer see the moved statements.  Before any
// rule runs, every statically resolved call (also `defer` and `go`) of a
// function that is not in the baseline is therefore replaced by a copy of
// the callee's body:
//
//   call     v = h(a, b)      the block is split at the call; h's blocks are
//                             cloned with its parameters replaced by a, b;
//                             each `return e` becomes `*res = e; jump cont`;
//                             v becomes a load of res (NaiveForm keeps every
//                             local in a cell, so this is what the builder
//                             itself would have produced for inline code).
//   defers   inside h         run at h's own return: when every defer of h
//                             executes exactly once before each return, the
//                             cloned `rundefers` becomes the deferred calls in
//                             reverse order; otherwise h is not inlined.
//   defer h(a, b) / go h(a,b) become `defer/go func(){ h(a', b') }()` with
//                             a', b' evaluated at the defer/go statement:
//                             h is cloned as a function literal whose
//                             parameters are free variables bound to fresh
//                             cells holding the argument values.
//
// Function literals nested in h are cloned with it.  Recursive helpers and
// helpers with a recover block are left as calls.  A helper all of whose
// uses were inlined is dropped from the set of analysed functions (its code
// is analysed in each calling context instead).  Every rewritten function is
// validated by go/ssa's own sanity checker; a failure is an analysis failure
// (reported, never ignored).

import (
	"bytes"
	_ "embed"
	"fmt"
	"go/constant"
	"go/token"
	"go/types"
	"reflect"
	"sort"
	"strings"

	"golang.org/x/tools/go/ssa"
)

//go:embed baseline_funcs.txt
var baselineFuncsTxt string

func baselineFuncs() map[string]bool {
	m := map[string]bool{}
	for _, ln := range strings.Split(baselineFuncsTxt, "\n") {
		ln = strings.TrimSpace(ln)
		if ln != "" && !strings.HasPrefix(ln, "#") {
			m[ln] = true
		}
	}
	return m
}

// funcKey names a declared function independent of position: "engine.GenginePool.prepare".
func funcKey(f *ssa.Function) string {
	p := ""
	if f.Pkg != nil {
		p = strings.TrimPrefix(f.Pkg.Pkg.Path(), modPath+"/")
	}
	return p + "." + fnName(f)
}

type inliner struct {
	structsSplit int
	cand         map[*ssa.Function]bool
	touched      map[*ssa.Function]bool
	sites        map[*ssa.Function]int // inlined call sites per helper
	skipped      map[*ssa.Function]string
	errs         []string
	copyInOut    int
	unrolled     int
	litArgs      int                    // go/defer literals whose arguments were turned into captured variables
	regionCopies int                    // calls through a function variable made direct by copying the code after a merge per way in
	ever         map[*ssa.Function]bool // every function changed by the normalisation
	flagsNamed   int                    // constant flags replaced by the tested flag they equal
	devirt       int                    // calls through an interface of known dynamic type made direct
	tables       int                    // lookups in a package-level table of functions turned into the chain of tests they stand for
}

func addRef(v ssa.Value, in ssa.Instruction) {
	if v == nil {
		return
	}
	if r := v.Referrers(); r != nil {
		*r = append(*r, in)
	}
}

func delRef(v ssa.Value, in ssa.Instruction) {
	if v == nil {
		return
	}
	if r := v.Referrers(); r != nil {
		for i, x := range *r {
			if x == in {
				*r = append((*r)[:i:i], (*r)[i+1:]...)
				return
			}
		}
	}
}

// dropInstr removes the use records of an instruction that leaves the function.
func dropInstr(in ssa.Instruction) {
	for _, p := range in.Operands(nil) {
		if *p != nil {
			delRef(*p, in)
		}
	}
}

// replaceUses redirects every use of old to nv.
func replaceUses(old, nv ssa.Value) {
	r := old.Referrers()
	if r == nil {
		return
	}
	users := append([]ssa.Instruction(nil), *r...)
	*r = nil
	for _, u := range users {
		for _, p := range u.Operands(nil) {
			if *p == old {
				*p = nv
				addRef(nv, u)
			}
		}
	}
}

// shallowClone copies one instruction; operand slices get their own storage.
func shallowClone(in ssa.Instruction) ssa.Instruction {
	rv := reflect.ValueOf(in)
	nv := reflect.New(rv.Type().Elem())
	nv.Elem().Set(rv.Elem())
	ni := nv.Interface().(ssa.Instruction)
	switch t := ni.(type) {
	case *ssa.Call:
		t.Call.Args = append([]ssa.Value(nil), t.Call.Args...)
	case *ssa.Go:
		t.Call.Args = append([]ssa.Value(nil), t.Call.Args...)
	case *ssa.Defer:
		t.Call.Args = append([]ssa.Value(nil), t.Call.Args...)
	case *ssa.Phi:
		t.Edges = append([]ssa.Value(nil), t.Edges...)
	case *ssa.Return:
		t.Results = append([]ssa.Value(nil), t.Results...)
	case *ssa.MakeClosure:
		t.Bindings = append([]ssa.Value(nil), t.Bindings...)
	case *ssa.Select:
		st := make([]*ssa.SelectState, len(t.States))
		for i, s := range t.States {
			c := *s
			st[i] = &c
		}
		t.States = st
	}
	if v, ok := ni.(ssa.Value); ok {
		if r := v.Referrers(); r != nil {
			*r = nil
		}
	}
	return ni
}

type cloner struct {
	in  *inliner
	dst *ssa.Function
	vm  map[ssa.Value]ssa.Value
	bm  map[*ssa.BasicBlock]*ssa.BasicBlock
	// inline mode
	inlineMode bool
	retCells   []*ssa.Alloc
	cont       *ssa.BasicBlock
	defers     map[*ssa.RunDefers][]*ssa.Defer // per return: the callee's defers executed before it, in order
	retBlocks  []*ssa.BasicBlock
	// tail mode: the call is the last thing its function does, so the callee's defers
	// stay defers (they run at the same moment, and still run when the rest panics)
	tailMode bool
}

func emit(b *ssa.BasicBlock, in ssa.Instruction) {
	ssa.XSetBlock(in, b)
	b.Instrs = append(b.Instrs, in)
}

func callResultType(cc *ssa.CallCommon) types.Type {
	res := cc.Signature().Results()
	if res.Len() == 1 {
		return res.At(0).Type()
	}
	return res
}

// cloneBlocks copies src's blocks into dst; operands are mapped through vm.
func (cl *cloner) cloneBlocks(src *ssa.Function) []*ssa.BasicBlock {
	var nbs []*ssa.BasicBlock
	for _, b := range src.Blocks {
		if cl.inlineMode && b == src.Recover {
			continue // dead: no deferred call of an inlined function recovers
		}
		nb := ssa.XNewBlock(cl.dst, b.Comment)
		cl.bm[b] = nb
		nbs = append(nbs, nb)
	}
	for _, a := range src.AnonFuncs {
		cl.vm[a] = cl.in.cloneFunc(a, cl.dst)
	}
	for _, b := range src.Blocks {
		nb := cl.bm[b]
		if nb == nil {
			continue
		}
		for _, s := range b.Succs {
			nb.Succs = append(nb.Succs, cl.bm[s])
		}
		for _, p := range b.Preds {
			nb.Preds = append(nb.Preds, cl.bm[p])
		}
		for _, instr := range b.Instrs {
			if cl.inlineMode {
				switch t := instr.(type) {
				case *ssa.Return:
					for k, r := range t.Results {
						emit(nb, &ssa.Store{Addr: cl.retCells[k], Val: r})
					}
					emit(nb, &ssa.Jump{})
					nb.Succs = []*ssa.BasicBlock{cl.cont}
					cl.cont.Preds = append(cl.cont.Preds, nb)
					cl.retBlocks = append(cl.retBlocks, nb)
					continue
				case *ssa.Defer:
					if cl.tailMode {
						break // cloned like any other instruction
					}
					continue // performed at the cloned rundefers
				case *ssa.RunDefers:
					if cl.tailMode {
						continue // the caller's own rundefers, right after, runs them
					}
					ds := cl.defers[t]
					for i := len(ds) - 1; i >= 0; i-- {
						d := ds[i]
						c := &ssa.Call{Call: d.Call}
						c.Call.Args = append([]ssa.Value(nil), d.Call.Args...)
						ssa.XSetType(c, callResultType(&d.Call))
						ssa.XSetPos(c, d.Pos())
						emit(nb, c)
					}
					continue
				}
			}
			ni := shallowClone(instr)
			emit(nb, ni)
			if v, ok := instr.(ssa.Value); ok {
				cl.vm[v] = ni.(ssa.Value)
			}
			if al, ok := ni.(*ssa.Alloc); ok && !al.Heap {
				cl.dst.Locals = append(cl.dst.Locals, al)
			}
		}
	}
	for _, nb := range nbs {
		for _, ni := range nb.Instrs {
			for _, p := range ni.Operands(nil) {
				if *p == nil {
					continue
				}
				if nv, ok := cl.vm[*p]; ok {
					*p = nv
				} else {
					switch (*p).(type) {
					case *ssa.Parameter, *ssa.FreeVar:
						cl.in.errs = append(cl.in.errs, fmt.Sprintf("inliner: unmapped %T %s while cloning %s", *p, (*p).Name(), src))
					case ssa.Instruction:
						if (*p).Parent() != src {
							break
						}
						cl.in.errs = append(cl.in.errs, fmt.Sprintf("inliner: unmapped instruction value %s while cloning %s", (*p).Name(), src))
					}
				}
				addRef(*p, ni)
			}
		}
	}
	return nbs
}

// cloneFunc deep-copies a function literal as a literal of parent.
func (in *inliner) cloneFunc(a *ssa.Function, parent *ssa.Function) *ssa.Function {
	name := fmt.Sprintf("%s$%d", parent.Name(), len(parent.AnonFuncs)+1)
	nf := ssa.XCloneFuncShell(a, name, a.Signature, parent)
	cl := &cloner{in: in, dst: nf, vm: map[ssa.Value]ssa.Value{}, bm: map[*ssa.BasicBlock]*ssa.BasicBlock{}}
	for _, p := range a.Params {
		np := ssa.XCloneParam(p, nf)
		nf.Params = append(nf.Params, np)
		cl.vm[p] = np
	}
	for _, fv := range a.FreeVars {
		nfv := ssa.XCloneFreeVar(fv, nf)
		nf.FreeVars = append(nf.FreeVars, nfv)
		cl.vm[fv] = nfv
	}
	nf.Blocks = cl.cloneBlocks(a)
	if a.Recover != nil {
		nf.Recover = cl.bm[a.Recover]
	}
	in.touched[nf] = true
	return nf
}

// defersConvertible: at every return of g it is known exactly which defers
// have been executed, each exactly once: a defer either dominates the
// `rundefers` (and lies on no cycle) or cannot reach it. Then `rundefers`
// equals those deferred calls in reverse order. Returns, per rundefers, the
// defers to run in execution order.
func defersConvertible(g *ssa.Function) (map[*ssa.RunDefers][]*ssa.Defer, bool) {
	var ds []*ssa.Defer
	var rds []*ssa.RunDefers
	for _, b := range g.Blocks {
		for _, in := range b.Instrs {
			switch t := in.(type) {
			case *ssa.Defer:
				ds = append(ds, t)
			case *ssa.RunDefers:
				rds = append(rds, t)
			}
		}
	}
	out := map[*ssa.RunDefers][]*ssa.Defer{}
	if len(ds) == 0 {
		return out, true
	}
	reach := func(from *ssa.BasicBlock) map[*ssa.BasicBlock]bool {
		seen := map[*ssa.BasicBlock]bool{}
		work := append([]*ssa.BasicBlock(nil), from.Succs...)
		for len(work) > 0 {
			x := work[len(work)-1]
			work = work[:len(work)-1]
			if seen[x] {
				continue
			}
			seen[x] = true
			work = append(work, x.Succs...)
		}
		return seen
	}
	for _, d := range ds {
		r := reach(d.Block())
		if r[d.Block()] {
			return nil, false // in a loop
		}
		for _, rd := range rds {
			if rd.Block() == g.Recover {
				continue
			}
			dom := d.Block().Dominates(rd.Block()) && (d.Block() != rd.Block() || instrIdx(d) < instrIdx(rd))
			if dom {
				out[rd] = append(out[rd], d)
				continue
			}
			if r[rd.Block()] || (d.Block() == rd.Block()) {
				return nil, false // executed on some paths to this return only
			}
		}
	}
	for rd, l := range out {
		sort.SliceStable(l, func(i, j int) bool {
			a, b := l[i], l[j]
			if a.Block() == b.Block() {
				return instrIdx(a) < instrIdx(b)
			}
			return a.Block().Dominates(b.Block())
		})
		for i := 0; i+1 < len(l); i++ {
			a, b := l[i], l[i+1]
			if a.Block() != b.Block() && !a.Block().Dominates(b.Block()) {
				return nil, false
			}
		}
		out[rd] = l
	}
	return out, true
}

func hasDefer(g *ssa.Function) bool {
	for _, b := range g.Blocks {
		for _, x := range b.Instrs {
			if _, ok := x.(*ssa.Defer); ok {
				return true
			}
		}
	}
	return false
}

// tailPosition: after the call its function only hands the results on and returns.
func tailPosition(cont *ssa.BasicBlock) bool {
	if len(cont.Instrs) == 0 {
		return false
	}
	if _, ok := cont.Instrs[len(cont.Instrs)-1].(*ssa.Return); !ok {
		return false
	}
	for _, x := range cont.Instrs[:len(cont.Instrs)-1] {
		switch t := x.(type) {
		case *ssa.Extract, *ssa.Store, *ssa.DebugRef, *ssa.RunDefers, *ssa.ChangeType, *ssa.MakeInterface, *ssa.ChangeInterface:
		case *ssa.UnOp:
			if t.Op != token.MUL {
				return false
			}
		default:
			return false
		}
	}
	return true
}

// ensureRunDefers makes sure the returning block runs the deferred calls
// (a function that had no defer of its own has no rundefers yet): it is placed
// after the stores of the results, before they are read back for the return.
func ensureRunDefers(cont *ssa.BasicBlock) {
	for _, x := range cont.Instrs {
		if _, ok := x.(*ssa.RunDefers); ok {
			return
		}
	}
	pos := 0
	for i, x := range cont.Instrs {
		if _, ok := x.(*ssa.Store); ok {
			pos = i + 1
		}
	}
	rd := &ssa.RunDefers{}
	ssa.XSetBlock(rd, cont)
	var out []ssa.Instruction
	out = append(out, cont.Instrs[:pos]...)
	out = append(out, rd)
	out = append(out, cont.Instrs[pos:]...)
	cont.Instrs = out
}

// inlinable decides whether calls of g can be replaced by its body.
func (in *inliner) inlinable(g *ssa.Function) (string, bool) {
	if g.Blocks == nil {
		return "no body", false
	}
	// go/ssa gives every function with a defer a recover block; it is dead unless a
	// deferred call can call recover()
	if g.Recover != nil && mayRecover(g) {
		return "a deferred call may recover a panic", false
	}
	if _, ok := defersConvertible(g); !ok {
		return "defers are conditional or in a loop", false
	}
	return "", true
}

// mayRecover: some deferred call of g may call recover(): a deferred literal or
// module function that contains a recover() call (directly or in a literal of
// its own), or a call that cannot be resolved.
func mayRecover(g *ssa.Function) bool {
	var has func(f *ssa.Function, d int) bool
	has = func(f *ssa.Function, d int) bool {
		if f == nil || f.Blocks == nil || d > 3 {
			return f != nil && f.Blocks != nil
		}
		found := false
		for _, b := range f.Blocks {
			for _, x := range b.Instrs {
				if c, ok := x.(*ssa.Call); ok {
					if bi, isB := c.Call.Value.(*ssa.Builtin); isB && bi.Name() == "recover" {
						found = true
					}
				}
			}
		}
		for _, a := range f.AnonFuncs {
			if has(a, d+1) {
				found = true
			}
		}
		return found
	}
	for _, b := range g.Blocks {
		for _, x := range b.Instrs {
			d, ok := x.(*ssa.Defer)
			if !ok {
				continue
			}
			if d.Call.IsInvoke() {
				return true
			}
			switch t := d.Call.Value.(type) {
			case *ssa.Function:
				if t.Pkg != nil && strings.HasPrefix(t.Pkg.Pkg.Path(), modPath) && has(t, 0) {
					return true
				}
			case *ssa.MakeClosure:
				if fn, ok := t.Fn.(*ssa.Function); ok && has(fn, 0) {
					return true
				}
			default:
				return true
			}
		}
	}
	return false
}

// callsRecover: g's own body (not a literal inside it) calls the builtin recover.
func callsRecover(g *ssa.Function) bool {
	for _, b := range g.Blocks {
		for _, x := range b.Instrs {
			if c, ok := x.(*ssa.Call); ok {
				if bi, isB := c.Call.Value.(*ssa.Builtin); isB && bi.Name() == "recover" {
					return true
				}
			}
		}
	}
	return false
}

func staticCallee(cc *ssa.CallCommon) *ssa.Function {
	if cc.IsInvoke() {
		return nil
	}
	if f, ok := cc.Value.(*ssa.Function); ok {
		return f
	}
	return nil
}

// inlineCall replaces the call by a copy of its callee's body.
func (in *inliner) inlineCall(f *ssa.Function, call *ssa.Call) {
	in.inlineBody(f, call, staticCallee(&call.Call), nil)
}

// inlineBody replaces the call by a copy of g's body; fvs gives, for a function
// literal or bound-method wrapper g, the value each free variable stands for.
func (in *inliner) inlineBody(f *ssa.Function, call *ssa.Call, g *ssa.Function, fvs map[*ssa.FreeVar]ssa.Value) {
	b := call.Block()
	idx := instrIdx(call)
	cont := ssa.XNewBlock(f, "inl.cont")
	for _, x := range b.Instrs[idx+1:] {
		emit(cont, x)
	}
	cont.Succs = b.Succs
	for _, s := range cont.Succs {
		for i, p := range s.Preds {
			if p == b {
				s.Preds[i] = cont
				break
			}
		}
	}
	b.Instrs = append([]ssa.Instruction(nil), b.Instrs[:idx]...)
	b.Succs = nil

	cl := &cloner{in: in, dst: f, vm: map[ssa.Value]ssa.Value{}, bm: map[*ssa.BasicBlock]*ssa.BasicBlock{},
		inlineMode: true, cont: cont}
	cl.defers, _ = defersConvertible(g)
	if hasDefer(g) && tailPosition(cont) {
		cl.tailMode = true
		ensureRunDefers(cont)
	}
	for i, p := range g.Params {
		cl.vm[p] = call.Call.Args[i]
	}
	for fv, v := range fvs {
		cl.vm[fv] = v
	}
	res := g.Signature.Results()
	for k := 0; k < res.Len(); k++ {
		cell := &ssa.Alloc{Comment: "inl.result"}
		ssa.XSetType(cell, types.NewPointer(res.At(k).Type()))
		ssa.XSetPos(cell, call.Pos())
		emit(b, cell)
		f.Locals = append(f.Locals, cell)
		cl.retCells = append(cl.retCells, cell)
	}
	nbs := cl.cloneBlocks(g)
	// the stores of the result cells were emitted with callee-side operands
	// and have been remapped with all other instructions.
	emit(b, &ssa.Jump{})
	b.Succs = []*ssa.BasicBlock{nbs[0]}
	nbs[0].Preds = append(nbs[0].Preds, b)

	// continuation: load the results
	var loads []ssa.Value
	var pro []ssa.Instruction
	for k, cell := range cl.retCells {
		ld := &ssa.UnOp{Op: token.MUL, X: cell}
		ssa.XSetType(ld, res.At(k).Type())
		ssa.XSetPos(ld, call.Pos())
		ssa.XSetBlock(ld, cont)
		addRef(cell, ld)
		pro = append(pro, ld)
		loads = append(loads, ld)
	}
	cont.Instrs = append(pro, cont.Instrs...)
	switch {
	case res.Len() == 1:
		replaceUses(call, loads[0])
	case res.Len() > 1:
		for _, u := range append([]ssa.Instruction(nil), *call.Referrers()...) {
			if ex, ok := u.(*ssa.Extract); ok {
				replaceUses(ex, loads[ex.Index])
				removeInstr(ex)
			}
		}
	}
	if r := call.Referrers(); r != nil && len(*r) > 0 {
		// remaining users (debug references) of a value that no longer exists
		for _, u := range append([]ssa.Instruction(nil), *r...) {
			if _, ok := u.(*ssa.DebugRef); ok {
				removeInstr(u)
			} else {
				in.errs = append(in.errs, fmt.Sprintf("inliner: call %s in %s still used by %T", call, f, u))
			}
		}
	}
	dropInstr(call)
	in.promoteCopyInOut(f, g, call, cl, b, cont, loads)

	// place the new blocks after b
	pos := 0
	for i, x := range f.Blocks {
		if x == b {
			pos = i
		}
	}
	var out []*ssa.BasicBlock
	out = append(out, f.Blocks[:pos+1]...)
	out = append(out, nbs...)
	out = append(out, cont)
	out = append(out, f.Blocks[pos+1:]...)
	f.Blocks = out
	in.thread(f, cont)
	// the cells that only carry the results across the former call boundary
	temps := map[*ssa.Alloc]bool{}
	for _, c := range cl.retCells {
		temps[c] = true
	}
	for _, gb := range g.Blocks {
		if r, ok := gb.Instrs[len(gb.Instrs)-1].(*ssa.Return); ok {
			for _, rv := range r.Results {
				if u, ok := rv.(*ssa.UnOp); ok && u.Op == token.MUL {
					if a, ok := u.X.(*ssa.Alloc); ok && !a.Heap {
						if na, ok := cl.vm[a].(*ssa.Alloc); ok {
							temps[na] = true
						}
					}
				}
			}
		}
	}
	forwardTemps(f, temps)
	// a parameter of the inlined function that is never reassigned and not captured
	// stands for its argument: reads of its cell become the argument value itself
	// (defined before the call, so it dominates every use in the inlined body)
	for i, p := range g.Params {
		if i >= len(call.Call.Args) {
			break
		}
		var cell *ssa.Alloc
		n := 0
		for _, r := range *p.Referrers() {
			if st, ok := r.(*ssa.Store); ok && st.Val == ssa.Value(p) {
				if a, ok := st.Addr.(*ssa.Alloc); ok {
					cell = a
					n++
				}
			}
		}
		if n != 1 || cell == nil || cell.Heap {
			continue
		}
		nc, ok := cl.vm[cell].(*ssa.Alloc)
		if !ok {
			continue
		}
		arg := call.Call.Args[i]
		okFwd := true
		stores := 0
		for _, r := range *nc.Referrers() {
			switch t := r.(type) {
			case *ssa.Store:
				if t.Addr != ssa.Value(nc) {
					okFwd = false
				}
				stores++
			case *ssa.UnOp, *ssa.DebugRef:
			default:
				okFwd = false
			}
		}
		if !okFwd || stores != 1 {
			continue
		}
		for _, r := range append([]ssa.Instruction(nil), *nc.Referrers()...) {
			switch t := r.(type) {
			case *ssa.UnOp:
				replaceUses(t, arg)
				removeInstr(t)
			case *ssa.Store, *ssa.DebugRef:
				removeInstr(t)
			}
		}
		removeInstr(nc)
		for k, l := range f.Locals {
			if l == nc {
				f.Locals = append(f.Locals[:k:k], f.Locals[k+1:]...)
				break
			}
		}
	}
	// a branch on a constant (a flag parameter given as `true`): only one way on
	for _, blk := range append([]*ssa.BasicBlock(nil), f.Blocks...) {
		if len(blk.Instrs) == 0 || len(blk.Succs) != 2 || blk.Succs[0] == blk.Succs[1] {
			continue
		}
		iff, ok := blk.Instrs[len(blk.Instrs)-1].(*ssa.If)
		if !ok {
			continue
		}
		cond, neg := iff.Cond, false
		for {
			u, isU := cond.(*ssa.UnOp)
			if !isU || u.Op != token.NOT {
				break
			}
			cond, neg = u.X, !neg
		}
		c, isC := cond.(*ssa.Const)
		if !isC || c.Value == nil || c.Value.Kind() != constant.Bool {
			continue
		}
		taken := constant.BoolVal(c.Value) != neg
		keep, drop := blk.Succs[0], blk.Succs[1]
		if !taken {
			keep, drop = drop, keep
		}
		removeInstr(iff)
		emit(blk, &ssa.Jump{})
		blk.Succs = []*ssa.BasicBlock{keep}
		removePred(drop, blk)
	}
	in.sites[g]++
	in.touched[f] = true
}

// returnsCell: result idx of the return is a read of the variable cell, directly or through the
// variable go/ssa keeps a result in while deferred calls run (stored in the return's own block).
func returnsCell(r *ssa.Return, idx int, cell *ssa.Alloc) bool {
	u, ok := r.Results[idx].(*ssa.UnOp)
	if !ok || u.Op != token.MUL {
		return false
	}
	if u.X == ssa.Value(cell) {
		return true
	}
	spill, ok := u.X.(*ssa.Alloc)
	if !ok {
		return false
	}
	var last *ssa.Store
	for _, x := range r.Block().Instrs {
		if st, ok := x.(*ssa.Store); ok && st.Addr == ssa.Value(spill) {
			last = st
		}
	}
	if last == nil {
		return false
	}
	v, ok := last.Val.(*ssa.UnOp)
	return ok && v.Op == token.MUL && v.X == ssa.Value(cell)
}

// promoteCopyInOut: `v = h(.., v)` where h keeps its parameter in a variable of its own and every
// return of h hands that variable back: the list of collected errors threaded by value through a
// stage helper. The helper's variable is then the caller's for the time of the call — copied in at
// the call, copied out at the return, and not reachable by anyone else in between — and is
// replaced by it: what the helper (and the goroutines it starts) append is appended to the
// caller's list, as it was before the helper was extracted.
func (in *inliner) promoteCopyInOut(f, g *ssa.Function, call *ssa.Call, cl *cloner, b, cont *ssa.BasicBlock, loads []ssa.Value) {
	for i, p := range g.Params {
		if i >= len(call.Call.Args) || p.Referrers() == nil {
			continue
		}
		// the parameter's own variable
		var cell *ssa.Alloc
		n := 0
		for _, r := range *p.Referrers() {
			if st, ok := r.(*ssa.Store); ok && st.Val == ssa.Value(p) {
				if a, ok := st.Addr.(*ssa.Alloc); ok {
					cell = a
				}
				n++
			} else if _, isDbg := r.(*ssa.DebugRef); !isDbg {
				n = 2
			}
		}
		if n != 1 || cell == nil {
			continue
		}
		nc, ok := cl.vm[cell].(*ssa.Alloc)
		if !ok || nc.Referrers() == nil {
			continue
		}
		// the argument is a read of a variable of the caller, not written between the read and the call
		arg, ok := call.Call.Args[i].(*ssa.UnOp)
		if !ok || arg.Op != token.MUL || arg.Block() != b {
			continue
		}
		A, ok := arg.X.(*ssa.Alloc)
		if !ok || A.Parent() != f || !types.Identical(A.Type(), nc.Type()) {
			continue
		}
		clean, seen := true, false
		for _, x := range b.Instrs {
			if x == ssa.Instruction(arg) {
				seen = true
			} else if seen {
				switch t := x.(type) {
				case *ssa.Store:
					if t.Addr == ssa.Value(A) {
						clean = false
					}
				case *ssa.Call, *ssa.Go, *ssa.Defer:
					clean = false
				}
			}
		}
		if !clean {
			continue
		}
		// which result hands the variable back, on every return
		k := -1
		for idx := 0; idx < g.Signature.Results().Len() && k < 0; idx++ {
			all, any := true, false
			for _, gb := range g.Blocks {
				if r, ok := gb.Instrs[len(gb.Instrs)-1].(*ssa.Return); ok {
					any = true
					if !returnsCell(r, idx, cell) {
						all = false
					}
				}
			}
			if all && any {
				k = idx
			}
		}
		if k < 0 || k >= len(loads) {
			continue
		}
		// the caller stores that result back into the same variable, first thing
		ld := loads[k]
		var out *ssa.Store
		okUse := ld.Referrers() != nil
		if okUse {
			for _, u := range *ld.Referrers() {
				switch t := u.(type) {
				case *ssa.Store:
					if t.Addr == ssa.Value(A) && t.Val == ld && out == nil && t.Block() == cont {
						out = t
					} else {
						okUse = false
					}
				case *ssa.DebugRef:
				default:
					okUse = false
				}
			}
		}
		if !okUse || out == nil {
			continue
		}
		for _, x := range cont.Instrs {
			if x == ssa.Instruction(out) {
				break
			}
			for _, op := range x.Operands(nil) {
				if *op == ssa.Value(A) {
					okUse = false
				}
			}
			switch x.(type) {
			case *ssa.Call, *ssa.Go, *ssa.Defer:
				okUse = false
			}
		}
		if !okUse {
			continue
		}
		// the copy-in
		var init *ssa.Store
		for _, r := range *nc.Referrers() {
			if st, ok := r.(*ssa.Store); ok && st.Addr == ssa.Value(nc) && st.Val == ssa.Value(arg) {
				init = st
			}
		}
		if init == nil {
			continue
		}
		removeInstr(init)
		removeInstr(out)
		replaceUses(nc, A)
		removeInstr(nc)
		for j, l := range f.Locals {
			if l == nc {
				f.Locals = append(f.Locals[:j:j], f.Locals[j+1:]...)
				break
			}
		}
		if nc.Heap && !A.Heap {
			A.Heap = true
			for j, l := range f.Locals {
				if l == A {
					f.Locals = append(f.Locals[:j:j], f.Locals[j+1:]...)
					break
				}
			}
		}
		in.copyInOut++
	}
}

// thread makes the branch that follows an inlined call path-exact.
//
// A helper with several returns (`return nil, err` / `return v, nil`;
// `return true` / `return false`) or with a short-circuit result
// (`return a || b`, a phi) is usually followed by a test of what it
// returned. Before the helper was extracted that test was plain control
// flow. It is restored here: the continuation block (pure instructions ending
// in an `if`) is copied per return site; a return site whose block merges
// several paths through a phi is copied per path; and in each copy the
// branch is folded when its outcome follows from the values stored on that
// path: nil, boolean and numeric constants, and values that are never nil
// (errors.New, fmt.Errorf, conversions to interface, addresses, make).
func (in *inliner) thread(f *ssa.Function, cont *ssa.BasicBlock) {
	in.threadDepth(f, cont, 0)
}

// rematResultLoads: a read of an inlined call's result variable that is used in other blocks
// too (the tag of a `switch h(x) { case A: .. case B: .. }` is read once and compared in one
// block per case) is read again where it is used: the variable is written at the return
// sites only, so every read after them sees the same value. The block then passes no value on
// and can be copied per way in.
func rematResultLoads(b *ssa.BasicBlock) {
	for _, x := range append([]ssa.Instruction(nil), b.Instrs...) {
		ld, ok := x.(*ssa.UnOp)
		if !ok || ld.Op != token.MUL {
			continue
		}
		al, ok := ld.X.(*ssa.Alloc)
		if !ok || al.Comment != "inl.result" {
			continue
		}
		perBlock := map[*ssa.BasicBlock]*ssa.UnOp{}
		for _, u := range append([]ssa.Instruction(nil), *ld.Referrers()...) {
			ub := u.Block()
			if ub == b || ub == nil {
				continue
			}
			if _, isPhi := u.(*ssa.Phi); isPhi {
				continue
			}
			if _, isDbg := u.(*ssa.DebugRef); isDbg {
				continue
			}
			n := perBlock[ub]
			if n == nil {
				n = &ssa.UnOp{Op: token.MUL, X: al}
				ssa.XSetType(n, ld.Type())
				ssa.XSetPos(n, ld.Pos())
				ssa.XSetBlock(n, ub)
				addRef(al, n)
				// before the first instruction of the block that is not a phi
				k := 0
				for k < len(ub.Instrs) {
					if _, isPhi := ub.Instrs[k].(*ssa.Phi); !isPhi {
						break
					}
					k++
				}
				ub.Instrs = append(ub.Instrs[:k:k], append([]ssa.Instruction{n}, ub.Instrs[k:]...)...)
				perBlock[ub] = n
			}
			for _, p := range u.Operands(nil) {
				if *p == ssa.Value(ld) {
					*p = n
					addRef(n, u)
				}
			}
			delRef(ld, u)
		}
	}
}

func (in *inliner) threadDepth(f *ssa.Function, cont *ssa.BasicBlock, depth int) {
	rematResultLoads(cont)
	var ends []*ssa.BasicBlock
	for _, cb := range in.splitPerPred(f, cont) {
		// join the return site and its continuation into one straight line
		if len(cb.Preds) == 1 {
			rb := cb.Preds[0]
			if _, isJ := rb.Instrs[len(rb.Instrs)-1].(*ssa.Jump); isJ && len(rb.Succs) == 1 && rb != cb {
				fuse(f, rb, cb)
				cb = rb
				if _, isPhi := cb.Instrs[0].(*ssa.Phi); isPhi {
					ends = append(ends, in.splitPerPred(f, cb)...)
					continue
				}
			}
		}
		ends = append(ends, cb)
	}
	for _, cb := range ends {
		foldBranch(cb)
	}
	// the next case of a switch over the result: a block that only tests a result variable
	// again and is now reached from several folded branches is made path-exact in its turn
	if depth < 8 {
		seenNext := map[*ssa.BasicBlock]bool{}
		for _, cb := range ends {
			for _, sc := range cb.Succs {
				if seenNext[sc] || len(sc.Preds) < 2 || !testsResultOnly(sc) {
					continue
				}
				seenNext[sc] = true
				in.threadDepth(f, sc, depth+1)
			}
		}
	}
	// several folded branches may now lead to one and the same `return err`: each way in
	// gets its own return, as each had its own return statement before the extraction
	for round := 0; round < 8; round++ {
		changed := false
		for _, cb := range ends {
			for _, sc := range cb.Succs {
				if len(sc.Preds) < 2 || len(sc.Instrs) == 0 {
					continue
				}
				if _, isRet := sc.Instrs[len(sc.Instrs)-1].(*ssa.Return); !isRet {
					continue
				}
				if len(in.splitPerPred(f, sc)) > 1 {
					changed = true
				}
			}
		}
		if !changed {
			break
		}
	}
	if depth == 0 {
		for _, cb := range ends {
			in.splitMergedReturnSite(f, cb)
		}
	}
}

// splitMergedReturnSite: a return site of an inlined helper that several ways lead to
// (`if err != nil || !ok { return false, err }`) hands on values that differ per way in. When
// the branch that follows it in the caller is decided by each way in on its own, the site gets
// one copy per way in and each copy's branch is folded: the caller's `if err != nil` after the
// call is then as path-exact as it was when the helper's body stood there.
func (in *inliner) splitMergedReturnSite(f *ssa.Function, cb *ssa.BasicBlock) {
	for k := 0; k < 4; k++ {
		if len(cb.Instrs) == 0 || len(cb.Succs) != 1 {
			break
		}
		if _, isJ := cb.Instrs[len(cb.Instrs)-1].(*ssa.Jump); !isJ {
			break
		}
		s := cb.Succs[0]
		if s == cb || len(s.Preds) != 1 || len(s.Instrs) == 0 {
			break
		}
		if _, isPhi := s.Instrs[0].(*ssa.Phi); isPhi {
			break
		}
		fuse(f, cb, s)
	}
	if len(cb.Instrs) == 0 || len(cb.Preds) < 2 {
		return
	}
	if _, isIf := cb.Instrs[len(cb.Instrs)-1].(*ssa.If); !isIf || len(cb.Succs) != 2 {
		return
	}
	// not the head of a loop
	for _, p := range cb.Preds {
		if p == cb || !reachableAvoiding(f, p, cb) {
			return
		}
	}
	for _, p := range cb.Preds {
		if _, ok := branchOutcome(predChain(cb, p)); !ok {
			return
		}
	}
	allow := map[ssa.Instruction]bool{}
	for _, x := range cb.Instrs {
		if c, ok := x.(*ssa.Call); ok {
			if g := staticCallee(&c.Call); g != nil && g.Pkg != nil && g.Pkg.Pkg.Path() == "reflect" && g.Name() == "ValueOf" && len(c.Call.Args) == 1 {
				if _, isK := c.Call.Args[0].(*ssa.Const); isK {
					allow[c] = true
				}
			}
		}
	}
	out := in.splitPerPredAllow(f, cb, allow)
	if len(out) < 2 {
		return
	}
	for _, nb := range out {
		foldBranch(nb)
	}
	in.touched[f] = true
}

// reachableAvoiding: some path from the entry of f reaches b without passing through avoid.
func reachableAvoiding(f *ssa.Function, b, avoid *ssa.BasicBlock) bool {
	if len(f.Blocks) == 0 || f.Blocks[0] == avoid {
		return false
	}
	seen := map[*ssa.BasicBlock]bool{f.Blocks[0]: true}
	work := []*ssa.BasicBlock{f.Blocks[0]}
	for len(work) > 0 {
		x := work[len(work)-1]
		work = work[:len(work)-1]
		if x == b {
			return true
		}
		for _, s := range x.Succs {
			if s != avoid && !seen[s] {
				seen[s] = true
				work = append(work, s)
			}
		}
	}
	return false
}

// testsResultOnly: the block reads result variables of inlined calls, compares and branches, nothing else.
func testsResultOnly(b *ssa.BasicBlock) bool {
	if len(b.Instrs) < 2 {
		return false
	}
	if _, isIf := b.Instrs[len(b.Instrs)-1].(*ssa.If); !isIf {
		return false
	}
	reads := false
	for _, x := range b.Instrs[:len(b.Instrs)-1] {
		switch t := x.(type) {
		case *ssa.UnOp:
			if t.Op == token.NOT {
				continue
			}
			al, ok := t.X.(*ssa.Alloc)
			if t.Op != token.MUL || !ok || al.Comment != "inl.result" {
				return false
			}
			reads = true
		case *ssa.BinOp, *ssa.DebugRef:
		default:
			return false
		}
	}
	return reads
}

// forwardTemps removes the temporaries of an inlined call where they are
// written and read on one straight line: a read of such a cell is replaced by
// the value stored just before in the same block, and a cell that is no
// longer read is deleted with its stores. `v := h()` then is a store of the
// returned value to v, as it was before h was extracted.
func forwardTemps(f *ssa.Function, temps map[*ssa.Alloc]bool) {
	for _, b := range f.Blocks {
		env := map[*ssa.Alloc]ssa.Value{}
		for _, x := range append([]ssa.Instruction(nil), b.Instrs...) {
			switch t := x.(type) {
			case *ssa.Store:
				if a, ok := t.Addr.(*ssa.Alloc); ok && temps[a] {
					env[a] = t.Val
				}
			case *ssa.UnOp:
				if a, ok := t.X.(*ssa.Alloc); ok && t.Op == token.MUL && temps[a] {
					if v, ok := env[a]; ok {
						replaceUses(t, v)
						removeInstr(t)
					}
				}
			}
		}
	}
	for a := range temps {
		dead := true
		for _, u := range *a.Referrers() {
			switch t := u.(type) {
			case *ssa.Store:
				if t.Addr != ssa.Value(a) {
					dead = false
				}
			case *ssa.DebugRef:
			default:
				dead = false
			}
		}
		if !dead {
			continue
		}
		for _, u := range append([]ssa.Instruction(nil), *a.Referrers()...) {
			removeInstr(u)
		}
		removeInstr(a)
		for i, l := range f.Locals {
			if l == a {
				f.Locals = append(f.Locals[:i:i], f.Locals[i+1:]...)
				break
			}
		}
	}
}

// threadPhis restores plain control flow where a short-circuit value was first
// put in a variable and then branched on (`known := a || b; if !known`): the
// block that merges the paths through a phi and ends in a branch on it is
// copied per path and each copy's branch folded, which is what `if !(a || b)`
// compiles to. Applied to every function (and the literals in it).
func (in *inliner) threadPhis(f *ssa.Function) {
	for round := 0; round < 60; round++ {
		changed := false
		domFresh := false
		for _, b := range f.Blocks {
			if len(b.Instrs) < 1 {
				continue
			}
			if _, isIf := b.Instrs[len(b.Instrs)-1].(*ssa.If); !isIf {
				continue
			}
			if len(b.Preds) == 1 && b.Preds[0] != b && len(b.Succs) == 2 && b.Succs[0] != b.Succs[1] {
				// a test already decided by what was tested on the only way here
				if _, ok := branchOutcome(predChain(b, nil)); ok {
					foldBranch(b)
					in.touched[f] = true
					changed = true
					break
				}
				continue
			}
			if len(b.Preds) < 2 {
				continue
			}
			if in.devirtPerPred(f, b) {
				in.touched[f] = true
				changed = true
				break
			}
			_, isPhi := b.Instrs[0].(*ssa.Phi)
			if !isPhi {
				// a test whose outcome is already decided on some way in (the same
				// thing was tested before: `if e != nil && b {..} else if e != nil {..}`):
				// only then is the block copied per way in. Loop headers are left alone.
				if !domFresh {
					if in.touched[f] {
						in.finish(f)
						delete(in.touched, f)
						// finish may have replaced f.Blocks: restart the scan
						changed = true
						break
					}
					domFresh = true
				}
				isHead := false
				for _, p := range b.Preds {
					if b.Dominates(p) {
						isHead = true
					}
				}
				if isHead {
					continue
				}
				decided := false
				for _, p := range b.Preds {
					if p == b {
						continue
					}
					if _, ok := branchOutcome(predChain(b, p)); ok {
						decided = true
					}
				}
				if !decided {
					continue
				}
			}
			parts := in.splitPerPred(f, b)
			if len(parts) < 2 {
				continue
			}
			for _, p := range parts {
				foldBranch(p)
			}
			in.touched[f] = true
			changed = true
			break
		}
		if !changed {
			break
		}
	}
	for _, a := range f.AnonFuncs {
		in.threadPhis(a)
	}
}

// devirtPerPred: block b calls a function variable (`op := core.Add` in one branch,
// `op = core.Sub` in another, then `op(l, r)` where the branches meet), and on every way into b
// the variable holds one known function. b is copied per way in and each copy calls its
// function directly — the form the code has when every branch makes its own call.
func (in *inliner) devirtPerPred(f *ssa.Function, b *ssa.BasicBlock) bool {
	for _, p := range b.Preds {
		if b.Dominates(p) || p == b {
			return false // loop header
		}
	}
	// a function variable that holds one known function (or nothing yet) on every way into b,
	// not the same one on all of them
	var cands []*ssa.Alloc
	for _, blk := range f.Blocks {
		for _, x := range blk.Instrs {
			al, ok := x.(*ssa.Alloc)
			if !ok {
				continue
			}
			_, isSig := al.Type().(*types.Pointer).Elem().Underlying().(*types.Signature)
			_, isIface := al.Type().(*types.Pointer).Elem().Underlying().(*types.Interface)
			if !isSig && !isIface {
				continue
			}
			// only read and written here, by plain loads and stores
			private := true
			for _, r := range *al.Referrers() {
				switch t := r.(type) {
				case *ssa.Store:
					if t.Addr != ssa.Value(al) {
						private = false
					}
				case *ssa.UnOp:
					if t.Op != token.MUL {
						private = false
					}
				case *ssa.DebugRef:
				default:
					private = false
				}
			}
			if !private {
				continue
			}
			fns := map[*ssa.Function]bool{}
			tys := 0
			okAll := true
			for _, p := range b.Preds {
				if isIface {
					T, isNil, ok := constTypeBefore(al, p, len(p.Instrs), 0)
					if !ok {
						okAll = false
						break
					}
					if !isNil && T != nil {
						tys++
					}
					continue
				}
				fn, isNil, ok := constFuncAtEnd(al, p)
				if !ok {
					okAll = false
					break
				}
				if !isNil {
					fns[fn] = true
				}
			}
			if okAll && (len(fns) >= 1 || tys >= 1) && len(b.Preds) >= 2 {
				cands = append(cands, al)
			}
		}
	}
	if len(cands) == 0 {
		return false
	}
	if in.touched[f] {
		// dominance is needed below: bring it up to date first, the scan comes back here
		in.finish(f)
		delete(in.touched, f)
		return true
	}
	// the region that can only be entered through b: everything b dominates
	var region []*ssa.BasicBlock
	inR := map[*ssa.BasicBlock]bool{}
	var walk func(x *ssa.BasicBlock)
	walk = func(x *ssa.BasicBlock) {
		inR[x] = true
		region = append(region, x)
		for _, d := range x.Dominees() {
			walk(d)
		}
	}
	walk(b)
	if len(region) > 40 {
		return false
	}
	for _, blk := range region {
		if blk == f.Recover {
			return false
		}
		for _, x := range blk.Instrs {
			switch x.(type) {
			case *ssa.Defer, *ssa.Go, *ssa.MakeClosure, *ssa.Phi, *ssa.Select:
				return false
			}
		}
		for _, sc := range blk.Succs {
			if !inR[sc] && len(sc.Instrs) > 0 {
				if _, isPhi := sc.Instrs[0].(*ssa.Phi); isPhi {
					return false
				}
			}
		}
	}
	// the variable is not assigned inside the region, and the region calls through it
	var vars []*ssa.Alloc
	for _, al := range cands {
		stored, called := false, false
		for _, blk := range region {
			for _, x := range blk.Instrs {
				if st, isSt := x.(*ssa.Store); isSt && st.Addr == ssa.Value(al) {
					stored = true
				}
				if call, isCall := x.(*ssa.Call); isCall {
					if ld, isLd := call.Call.Value.(*ssa.UnOp); isLd && ld.Op == token.MUL && ld.X == ssa.Value(al) {
						called = true
					}
				}
			}
		}
		if !stored && called {
			vars = append(vars, al)
		}
	}
	if len(vars) == 0 {
		return false
	}
	preds := append([]*ssa.BasicBlock(nil), b.Preds...)
	seenP := map[*ssa.BasicBlock]bool{}
	for _, p := range preds {
		if seenP[p] {
			return false
		}
		seenP[p] = true
	}
	heads := []*ssa.BasicBlock{b}
	var added []*ssa.BasicBlock
	for i := 1; i < len(preds); i++ {
		vm := map[ssa.Value]ssa.Value{}
		bm := map[*ssa.BasicBlock]*ssa.BasicBlock{}
		for _, blk := range region {
			bm[blk] = ssa.XNewBlock(f, blk.Comment)
		}
		for _, blk := range region {
			nb := bm[blk]
			for _, x := range blk.Instrs {
				ni := shallowClone(x)
				emit(nb, ni)
				if v, isV := x.(ssa.Value); isV {
					vm[v] = ni.(ssa.Value)
				}
				if al, isAl := ni.(*ssa.Alloc); isAl && !al.Heap {
					f.Locals = append(f.Locals, al)
				}
			}
		}
		for _, blk := range region {
			nb := bm[blk]
			for _, ni := range nb.Instrs {
				for _, op := range ni.Operands(nil) {
					if *op == nil {
						continue
					}
					if nv, ok := vm[*op]; ok {
						*op = nv
					}
					addRef(*op, ni)
				}
			}
			for _, sc := range blk.Succs {
				if inR[sc] {
					nb.Succs = append(nb.Succs, bm[sc])
				} else {
					nb.Succs = append(nb.Succs, sc)
					sc.Preds = append(sc.Preds, nb)
				}
			}
			if blk == b {
				nb.Preds = []*ssa.BasicBlock{preds[i]}
			} else {
				for _, p := range blk.Preds {
					if inR[p] {
						nb.Preds = append(nb.Preds, bm[p])
					}
				}
			}
			added = append(added, nb)
		}
		for k, sc := range preds[i].Succs {
			if sc == b {
				preds[i].Succs[k] = bm[b]
			}
		}
		heads = append(heads, bm[b])
	}
	b.Preds = []*ssa.BasicBlock{preds[0]}
	f.Blocks = append(f.Blocks, added...)
	// per copy: what each variable holds there
	copies := [][]*ssa.BasicBlock{region}
	for i := 1; i < len(preds); i++ {
		copies = append(copies, added[(i-1)*len(region):i*len(region)])
	}
	for ci, blks := range copies {
		head := blks[0]
		for _, al := range vars {
			if _, isIface := al.Type().(*types.Pointer).Elem().Underlying().(*types.Interface); isIface {
				T, isNil, ok := constTypeBefore(al, head.Preds[0], len(head.Preds[0].Instrs), 0)
				if !ok {
					continue
				}
				for _, blk := range blks {
					for idx := 0; idx < len(blk.Instrs); idx++ {
						switch t := blk.Instrs[idx].(type) {
						case *ssa.Call:
							ld, isLd := t.Call.Value.(*ssa.UnOp)
							if !t.Call.IsInvoke() || !isLd || ld.Op != token.MUL || ld.X != ssa.Value(al) || isNil || T == nil {
								continue
							}
							if in.devirtAt(f, blk, idx, T) {
								idx++
							}
						case *ssa.BinOp:
							if t.Op != token.EQL && t.Op != token.NEQ {
								continue
							}
							var other ssa.Value
							if ld, isLd := t.X.(*ssa.UnOp); isLd && ld.Op == token.MUL && ld.X == ssa.Value(al) {
								other = t.Y
							} else if ld, isLd := t.Y.(*ssa.UnOp); isLd && ld.Op == token.MUL && ld.X == ssa.Value(al) {
								other = t.X
							}
							if c0, isC := other.(*ssa.Const); isC && c0.IsNil() {
								res := (t.Op == token.EQL) == isNil
								replaceUses(t, ssa.NewConst(constant.MakeBool(res), t.Type()))
							}
						}
					}
				}
				continue
			}
			fn, isNil, ok := constFuncAtEnd(al, head.Preds[0])
			if !ok {
				continue
			}
			_ = ci
			for _, blk := range blks {
				for _, x := range blk.Instrs {
					switch t := x.(type) {
					case *ssa.Call:
						if ld, isLd := t.Call.Value.(*ssa.UnOp); isLd && ld.Op == token.MUL && ld.X == ssa.Value(al) && !isNil {
							delRef(ld, t)
							t.Call.Value = fn
							addRef(fn, t)
						}
					case *ssa.BinOp:
						// `op != nil` / `op == nil`
						if t.Op != token.EQL && t.Op != token.NEQ {
							continue
						}
						var other ssa.Value
						if ld, isLd := t.X.(*ssa.UnOp); isLd && ld.Op == token.MUL && ld.X == ssa.Value(al) {
							other = t.Y
						} else if ld, isLd := t.Y.(*ssa.UnOp); isLd && ld.Op == token.MUL && ld.X == ssa.Value(al) {
							other = t.X
						}
						if c0, isC := other.(*ssa.Const); isC && c0.IsNil() {
							res := (t.Op == token.EQL) == isNil
							k := ssa.NewConst(constant.MakeBool(res), t.Type())
							replaceUses(t, k)
						}
					}
				}
			}
		}
		for _, blk := range blks {
			foldBranch(blk)
		}
	}
	in.regionCopies++
	return true
}

// constTypeBefore: what the interface variable al holds just before instruction number idx of blk, searching
// back along the straight line of unique predecessors: a value of one known concrete type (the last
// assignment is a conversion of a non-interface value), or nil / nothing since its declaration.
func constTypeBefore(al *ssa.Alloc, blk0 *ssa.BasicBlock, idx int, depth int) (T types.Type, isNil bool, ok bool) {
	if depth > 3 {
		return nil, false, false
	}
	seen := map[*ssa.BasicBlock]bool{}
	first := true
	for blk := blk0; blk != nil && !seen[blk]; {
		seen[blk] = true
		from := len(blk.Instrs) - 1
		if first {
			from = idx - 1
			first = false
		}
		for i := from; i >= 0; i-- {
			if st, isSt := blk.Instrs[i].(*ssa.Store); isSt && st.Addr == ssa.Value(al) {
				v := st.Val
				if ci, isCI := v.(*ssa.ChangeInterface); isCI {
					v = ci.X
				}
				if mi, isMI := v.(*ssa.MakeInterface); isMI {
					return mi.X.Type(), false, true
				}
				if c0, isC := v.(*ssa.Const); isC && c0.IsNil() {
					return nil, true, true
				}
				if ld, isLd := v.(*ssa.UnOp); isLd && ld.Op == token.MUL && ld.Block() == blk {
					if src, isAl := ld.X.(*ssa.Alloc); isAl && src != al {
						return constTypeBefore(src, blk, instrIdx(ld), depth+1)
					}
				}
				return nil, false, false
			}
			if blk.Instrs[i] == ssa.Instruction(al) {
				return nil, true, true
			}
		}
		if len(blk.Preds) != 1 {
			return nil, false, false
		}
		blk = blk.Preds[0]
	}
	return nil, false, false
}

// devirtAt makes the invoke at b.Instrs[idx] a direct call of T's method on the receiver asserted back
// to T (inserted before the call); false when T's method is not a function of the module.
func (in *inliner) devirtAt(f *ssa.Function, b *ssa.BasicBlock, idx int, T types.Type) bool {
	x := b.Instrs[idx]
	cc := callCommon(x)
	if cc == nil || !cc.IsInvoke() {
		return false
	}
	sel := f.Prog.MethodSets.MethodSet(T).Lookup(cc.Method.Pkg(), cc.Method.Name())
	if sel == nil {
		return false
	}
	m := f.Prog.MethodValue(sel)
	if m == nil || m.Pkg == nil || !strings.HasPrefix(m.Pkg.Pkg.Path(), modPath) || len(m.Blocks) == 0 {
		return false
	}
	ta := &ssa.TypeAssert{X: cc.Value, AssertedType: T}
	ssa.XSetType(ta, T)
	ssa.XSetPos(ta, x.Pos())
	ssa.XSetBlock(ta, b)
	addRef(cc.Value, ta)
	delRef(cc.Value, x)
	b.Instrs = append(b.Instrs[:idx:idx], append([]ssa.Instruction{ta}, b.Instrs[idx:]...)...)
	cc.Value = m
	cc.Method = nil
	cc.Args = append([]ssa.Value{ta}, cc.Args...)
	addRef(ta, x)
	in.devirt++
	return true
}

// devirtIfaceMerges: an interface variable that holds a value of one known type on each way into a merge
// block and is called through after it (`c := e.pick(); if c != nil { return c.Evaluate(..) }` with pick
// inlined): the code after the merge is copied per way in, each copy calling its type's method directly.
func (in *inliner) devirtIfaceMerges(f *ssa.Function) {
	for round := 0; round < 20; round++ {
		changed := false
		for _, b := range f.Blocks {
			if len(b.Preds) < 2 {
				continue
			}
			has := false
			for _, x := range b.Instrs {
				if call, ok := x.(*ssa.Call); ok && call.Call.IsInvoke() {
					if ld, isLd := call.Call.Value.(*ssa.UnOp); isLd && ld.Op == token.MUL {
						if _, isAl := ld.X.(*ssa.Alloc); isAl {
							has = true
						}
					}
				}
			}
			if has && in.devirtPerPred(f, b) {
				in.touched[f] = true
				changed = true
				break
			}
		}
		if !changed {
			break
		}
		in.finish(f)
		delete(in.touched, f)
	}
}

// constFuncAtEnd: along the straight line of unique predecessors that ends in p the variable
// is last assigned one plain function, or nil / nothing since its declaration.
func constFuncAtEnd(al *ssa.Alloc, p *ssa.BasicBlock) (fn *ssa.Function, isNil bool, ok bool) {
	return constFuncBefore(al, p, len(p.Instrs), 0)
}

// constFuncBefore: what the function variable al holds just before instruction number idx of blk, searching
// back along the only way there. A copy from another function variable is followed from the copy on.
func constFuncBefore(al *ssa.Alloc, blk0 *ssa.BasicBlock, idx int, depth int) (fn *ssa.Function, isNil bool, ok bool) {
	if depth > 3 {
		return nil, false, false
	}
	seen := map[*ssa.BasicBlock]bool{}
	first := true
	for blk := blk0; blk != nil && !seen[blk]; {
		seen[blk] = true
		from := len(blk.Instrs) - 1
		if first {
			from = idx - 1
			first = false
		}
		for i := from; i >= 0; i-- {
			if st, isSt := blk.Instrs[i].(*ssa.Store); isSt && st.Addr == ssa.Value(al) {
				v := st.Val
				if ct, isCT := v.(*ssa.ChangeType); isCT {
					v = ct.X
				}
				if g, isFn := v.(*ssa.Function); isFn && (g.Parent() == nil || len(g.FreeVars) == 0) {
					return g, false, true
				}
				if c0, isC := v.(*ssa.Const); isC && c0.IsNil() {
					return nil, true, true
				}
				if ld, isLd := v.(*ssa.UnOp); isLd && ld.Op == token.MUL && ld.Block() == blk {
					if src, isAl := ld.X.(*ssa.Alloc); isAl && src != al {
						return constFuncBefore(src, blk, instrIdx(ld), depth+1)
					}
				}
				return nil, false, false
			}
			if blk.Instrs[i] == ssa.Instruction(al) {
				return nil, true, true
			}
		}
		if len(blk.Preds) != 1 {
			return nil, false, false
		}
		blk = blk.Preds[0]
	}
	return nil, false, false
}

// fuse appends block c, whose only predecessor b ends in a jump to it, to b.
func fuse(f *ssa.Function, b, c *ssa.BasicBlock) {
	removeInstr(b.Instrs[len(b.Instrs)-1])
	for _, x := range c.Instrs {
		emit(b, x)
	}
	b.Succs = c.Succs
	for _, s := range b.Succs {
		for i, p := range s.Preds {
			if p == c {
				s.Preds[i] = b
			}
		}
	}
	c.Instrs, c.Succs, c.Preds = nil, nil, nil
	for i, x := range f.Blocks {
		if x == c {
			f.Blocks = append(f.Blocks[:i:i], f.Blocks[i+1:]...)
			break
		}
	}
}

// splitPerPred gives every predecessor of b its own copy of b (phis become
// the value of that edge). It applies only when that cannot change meaning or
// well-formedness: b ends in a two-way `if` or a return, its other instructions are pure
// (no calls but len/cap, no allocation), no value of b is used outside b, and
// its successors have no phis. Otherwise b is returned unchanged.
func (in *inliner) splitPerPred(f *ssa.Function, b *ssa.BasicBlock) []*ssa.BasicBlock {
	return in.splitPerPredAllow(f, b, nil)
}

// splitPerPredAllow: as splitPerPred; the calls in allow may be copied (calls through a
// function variable that each copy turns into the direct call its way in selected).
func (in *inliner) splitPerPredAllow(f *ssa.Function, b *ssa.BasicBlock, allow map[ssa.Instruction]bool) []*ssa.BasicBlock {
	same := []*ssa.BasicBlock{b}
	if len(b.Preds) < 2 || len(b.Instrs) == 0 {
		return same
	}
	isRet := false
	switch b.Instrs[len(b.Instrs)-1].(type) {
	case *ssa.If:
		if len(b.Succs) != 2 || b.Succs[0] == b.Succs[1] {
			return same
		}
	case *ssa.Return:
		// `return h(x), nil`: each return site of h gets its own return, as before h was extracted
		isRet = true
		if b == f.Recover {
			return same
		}
	default:
		return same
	}
	seenPred := map[*ssa.BasicBlock]bool{}
	for _, p := range b.Preds {
		if seenPred[p] || p == b {
			return same
		}
		seenPred[p] = true
	}
	inB := map[ssa.Instruction]bool{}
	for _, x := range b.Instrs {
		inB[x] = true
	}
	for _, x := range b.Instrs[:len(b.Instrs)-1] {
		switch t := x.(type) {
		case *ssa.UnOp:
			if t.Op == token.ARROW {
				return same
			}
		case *ssa.Phi, *ssa.BinOp, *ssa.Store, *ssa.DebugRef, *ssa.FieldAddr, *ssa.Field, *ssa.IndexAddr, *ssa.Index,
			*ssa.Slice, *ssa.ChangeType, *ssa.Convert, *ssa.ChangeInterface, *ssa.MakeInterface:
		case *ssa.RunDefers:
			if !isRet {
				return same
			}
		case *ssa.Call:
			if allow[t] {
				break
			}
			if _, isB := t.Call.Value.(*ssa.Builtin); !isB || (t.Call.Value.Name() != "len" && t.Call.Value.Name() != "cap") {
				return same
			}
		case *ssa.Extract:
			if _, ok := t.Tuple.(*ssa.Call); !ok || !allow[t.Tuple.(*ssa.Call)] {
				return same
			}
		default:
			return same
		}
		if v, isV := x.(ssa.Value); isV {
			if r := v.Referrers(); r != nil {
				for _, u := range *r {
					if !inB[u] {
						return same // used beyond the block: a copy would need a phi
					}
				}
			}
		}
	}
	for _, s := range b.Succs {
		if len(s.Instrs) > 0 {
			if _, isPhi := s.Instrs[0].(*ssa.Phi); isPhi {
				return same
			}
		}
	}
	preds := append([]*ssa.BasicBlock(nil), b.Preds...)
	out := []*ssa.BasicBlock{b}
	pos := 0
	for i, x := range f.Blocks {
		if x == b {
			pos = i
		}
	}
	var copies []*ssa.BasicBlock
	for i := 1; i < len(preds); i++ {
		nb := ssa.XNewBlock(f, b.Comment)
		vm := map[ssa.Value]ssa.Value{}
		for _, x := range b.Instrs {
			if ph, isPhi := x.(*ssa.Phi); isPhi {
				vm[ph] = ph.Edges[i]
				continue
			}
			ni := shallowClone(x)
			emit(nb, ni)
			if v, isV := x.(ssa.Value); isV {
				vm[v] = ni.(ssa.Value)
			}
		}
		for _, ni := range nb.Instrs {
			for _, p := range ni.Operands(nil) {
				if *p == nil {
					continue
				}
				for k := 0; k < 4; k++ {
					nv, ok := vm[*p]
					if !ok {
						break
					}
					*p = nv
				}
				addRef(*p, ni)
			}
		}
		nb.Succs = append([]*ssa.BasicBlock(nil), b.Succs...)
		for _, s := range nb.Succs {
			s.Preds = append(s.Preds, nb)
		}
		nb.Preds = []*ssa.BasicBlock{preds[i]}
		for k, s := range preds[i].Succs {
			if s == b {
				preds[i].Succs[k] = nb
			}
		}
		copies = append(copies, nb)
		out = append(out, nb)
	}
	// the original keeps the first predecessor
	for _, x := range append([]ssa.Instruction(nil), b.Instrs...) {
		if ph, isPhi := x.(*ssa.Phi); isPhi {
			e0 := ph.Edges[0]
			replaceUses(ph, e0)
			removeInstr(ph)
		}
	}
	b.Preds = []*ssa.BasicBlock{preds[0]}
	var nbl []*ssa.BasicBlock
	nbl = append(nbl, f.Blocks[:pos+1]...)
	nbl = append(nbl, copies...)
	nbl = append(nbl, f.Blocks[pos+1:]...)
	f.Blocks = nbl
	return out
}

// neverNil: values that cannot be nil.
func neverNil(v ssa.Value) bool {
	switch t := v.(type) {
	case *ssa.MakeInterface, *ssa.Alloc, *ssa.FieldAddr, *ssa.IndexAddr, *ssa.MakeMap, *ssa.MakeChan, *ssa.MakeClosure, *ssa.MakeSlice, *ssa.Function:
		return true
	case *ssa.Call:
		if g := staticCallee(&t.Call); g != nil && g.Pkg != nil {
			switch g.Pkg.Pkg.Path() + "." + g.Name() {
			case "errors.New", "fmt.Errorf":
				return true
			}
		}
	}
	return false
}

// foldBranch evaluates the terminating `if` of a block from the values stored
// on the straight line that leads to it (the chain of unique predecessors),
// by forward substitution, and replaces it by a jump when the outcome is
// certain.
func foldBranch(cb *ssa.BasicBlock) {
	if len(cb.Instrs) == 0 {
		return
	}
	iff, isIf := cb.Instrs[len(cb.Instrs)-1].(*ssa.If)
	if !isIf || len(cb.Succs) != 2 || cb.Succs[0] == cb.Succs[1] {
		return
	}
	b, ok := branchOutcome(predChain(cb, nil))
	if !ok {
		b, ok = reachingConst(cb)
	}
	if !ok {
		return
	}
	keep, drop := cb.Succs[0], cb.Succs[1]
	if !b {
		keep, drop = drop, keep
	}
	removeInstr(iff)
	emit(cb, &ssa.Jump{})
	cb.Succs = []*ssa.BasicBlock{keep}
	removePred(drop, cb)
}

// reachingConst: the branch tests a local bool variable (possibly negated)
// that holds the same constant on every path to this point.
func reachingConst(cb *ssa.BasicBlock) (bool, bool) {
	iff, isIf := cb.Instrs[len(cb.Instrs)-1].(*ssa.If)
	if !isIf {
		return false, false
	}
	cond, neg := iff.Cond, false
	for {
		u, ok := cond.(*ssa.UnOp)
		if !ok || u.Op != token.NOT {
			break
		}
		cond, neg = u.X, !neg
	}
	ld, ok := cond.(*ssa.UnOp)
	if !ok || ld.Op != token.MUL {
		return false, false
	}
	al, ok := ld.X.(*ssa.Alloc)
	if !ok || al.Heap {
		return false, false
	}
	type pt struct {
		b *ssa.BasicBlock
		i int
	}
	idx := -1
	for i, x := range ld.Block().Instrs {
		if x == ssa.Instruction(ld) {
			idx = i
		}
	}
	if idx < 0 {
		return false, false
	}
	seen := map[*ssa.BasicBlock]bool{}
	work := []pt{{ld.Block(), idx}}
	have, value := false, false
	for len(work) > 0 {
		p := work[len(work)-1]
		work = work[:len(work)-1]
		hit := false
		for i := p.i - 1; i >= 0; i-- {
			x := p.b.Instrs[i]
			if st, ok := x.(*ssa.Store); ok && st.Addr == ssa.Value(al) {
				c, isC := st.Val.(*ssa.Const)
				if !isC || c.Value == nil || c.Value.Kind() != constant.Bool {
					return false, false
				}
				v := constant.BoolVal(c.Value)
				if have && v != value {
					return false, false
				}
				have, value = true, v
				hit = true
				break
			}
			if x == ssa.Instruction(al) {
				return false, false // the zero value reaches
			}
		}
		if hit {
			continue
		}
		if len(p.b.Preds) == 0 {
			return false, false
		}
		for _, q := range p.b.Preds {
			if !seen[q] {
				seen[q] = true
				work = append(work, pt{q, len(q.Instrs)})
			}
		}
	}
	if !have {
		return false, false
	}
	return value != neg, true
}

// predChain lists the straight line of unique predecessors that ends in cb;
// via, when given, is the predecessor of cb to come through (cb may have
// several).
func predChain(cb, via *ssa.BasicBlock) []*ssa.BasicBlock {
	chain := []*ssa.BasicBlock{cb}
	p := cb
	if via != nil {
		chain = []*ssa.BasicBlock{via, cb}
		p = via
	}
	seen := map[*ssa.BasicBlock]bool{cb: true, p: true}
	for len(p.Preds) == 1 && len(chain) < 10 && !seen[p.Preds[0]] {
		p = p.Preds[0]
		seen[p] = true
		chain = append([]*ssa.BasicBlock{p}, chain...)
	}
	return chain
}

// branchOutcome decides the `if` that ends the last block of chain from the
// stores and the branch outcomes along the chain.
func branchOutcome(chain []*ssa.BasicBlock) (bool, bool) {
	cb := chain[len(chain)-1]
	iff, isIf := cb.Instrs[len(cb.Instrs)-1].(*ssa.If)
	if !isIf {
		return false, false
	}
	env := map[ssa.Value]ssa.Value{} // cell -> value
	val := map[ssa.Value]ssa.Value{} // instruction -> known equal value
	var res func(v ssa.Value) ssa.Value
	res = func(v ssa.Value) ssa.Value {
		for i := 0; i < 8; i++ {
			if w, ok := val[v]; ok && w != v {
				v = w
				continue
			}
			if ct, ok := v.(*ssa.ChangeType); ok {
				v = ct.X
				continue
			}
			// a variable assigned exactly once (a spilled parameter, `x := e`): any read sees that value
			if u, ok := v.(*ssa.UnOp); ok && u.Op == token.MUL {
				if a, ok := u.X.(*ssa.Alloc); ok && !a.Heap {
					var only *ssa.Store
					n := 0
					for _, r := range *a.Referrers() {
						if st, ok := r.(*ssa.Store); ok && st.Addr == ssa.Value(a) {
							only = st
							n++
						}
					}
					if n == 1 && only.Block() != nil && (only.Block() == a.Block()) {
						v = only.Val
						continue
					}
				}
			}
			break
		}
		return v
	}
	// what the branches passed on the way established
	nonNil := map[ssa.Value]bool{}
	boolFact := map[ssa.Value]bool{}
	binFact := map[string]bool{}
	// integer values compared with constants: the interval they are known to lie in
	type ival struct{ lo, hi int64 }
	const inf = int64(1) << 60
	ivals := map[ssa.Value]ival{}
	cmpConst := func(t *ssa.BinOp) (ssa.Value, token.Token, int64, bool) {
		l, r := res(t.X), res(t.Y)
		if !isIntegerOrNilable(t.X.Type()) {
			return nil, 0, 0, false
		}
		if bt, ok := t.X.Type().Underlying().(*types.Basic); !ok || bt.Info()&types.IsInteger == 0 {
			return nil, 0, 0, false
		}
		if c, ok := r.(*ssa.Const); ok && c.Value != nil && c.Value.Kind() == constant.Int {
			k, exact := constant.Int64Val(c.Value)
			return l, t.Op, k, exact
		}
		if c, ok := l.(*ssa.Const); ok && c.Value != nil && c.Value.Kind() == constant.Int {
			k, exact := constant.Int64Val(c.Value)
			mirror := map[token.Token]token.Token{token.EQL: token.EQL, token.NEQ: token.NEQ, token.LSS: token.GTR, token.LEQ: token.GEQ, token.GTR: token.LSS, token.GEQ: token.LEQ}
			return r, mirror[t.Op], k, exact
		}
		return nil, 0, 0, false
	}
	negate := map[token.Token]token.Token{token.EQL: token.NEQ, token.NEQ: token.EQL, token.LSS: token.GEQ, token.GEQ: token.LSS, token.GTR: token.LEQ, token.LEQ: token.GTR}
	binKey := func(t *ssa.BinOp) string {
		return fmt.Sprintf("%s|%p|%p", t.Op, res(t.X), res(t.Y))
	}
	var learn func(c ssa.Value, outcome bool, d int)
	learn = func(c ssa.Value, outcome bool, d int) {
		c = res(c)
		if d > 4 {
			return
		}
		boolFact[c] = outcome
		switch t := c.(type) {
		case *ssa.UnOp:
			if t.Op == token.NOT {
				learn(t.X, !outcome, d+1)
			}
		case *ssa.BinOp:
			binFact[binKey(t)] = outcome
			if v, op, k, ok := cmpConst(t); ok {
				if !outcome {
					op = negate[op]
				}
				iv, has := ivals[v]
				if !has {
					iv = ival{-inf, inf}
					if isLenCall(v) {
						iv.lo = 0
					}
				}
				switch op {
				case token.EQL:
					iv = ival{k, k}
				case token.LSS:
					if k-1 < iv.hi {
						iv.hi = k - 1
					}
				case token.LEQ:
					if k < iv.hi {
						iv.hi = k
					}
				case token.GTR:
					if k+1 > iv.lo {
						iv.lo = k + 1
					}
				case token.GEQ:
					if k > iv.lo {
						iv.lo = k
					}
				}
				ivals[v] = iv
			}
			if t.Op != token.EQL && t.Op != token.NEQ {
				return
			}
			l, r := res(t.X), res(t.Y)
			if lc, ok := l.(*ssa.Const); ok && lc.IsNil() {
				nonNil[r] = (t.Op == token.NEQ) == outcome
			} else if rc, ok := r.(*ssa.Const); ok && rc.IsNil() {
				nonNil[l] = (t.Op == token.NEQ) == outcome
			}
		}
	}
	// memory read through a field address, and len() of a value, are numbered along the
	// straight line: two reads of x.f with no store to an f and no call in between are the
	// same value, and so are two len() of the same value
	mem := map[string]ssa.Value{}
	lens := map[ssa.Value]ssa.Value{}
	fieldKey := func(a ssa.Value) string {
		if fa, ok := a.(*ssa.FieldAddr); ok {
			return fmt.Sprintf("%p.%d", res(fa.X), fa.Field)
		}
		// a package variable: two reads with no store through a pointer and no call in between
		if g, ok := a.(*ssa.Global); ok {
			return "G:" + g.String()
		}
		return ""
	}
	for ci, blk := range chain {
		for _, x := range blk.Instrs {
			switch t := x.(type) {
			case *ssa.Store:
				if al, ok := t.Addr.(*ssa.Alloc); ok {
					env[al] = res(t.Val)
				} else if fa, ok := t.Addr.(*ssa.FieldAddr); ok {
					for k := range mem {
						if strings.HasSuffix(k, fmt.Sprintf(".%d", fa.Field)) {
							delete(mem, k)
						}
					}
					mem[fieldKey(fa)] = res(t.Val)
				} else {
					mem = map[string]ssa.Value{}
				}
			case *ssa.UnOp:
				if t.Op == token.MUL {
					if w, ok := env[t.X]; ok {
						val[t] = res(w)
					} else if k := fieldKey(t.X); k != "" {
						if w, ok := mem[k]; ok {
							val[t] = res(w)
						} else {
							mem[k] = t
						}
					}
				}
			case *ssa.Call:
				if bi, isB := t.Call.Value.(*ssa.Builtin); isB && (bi.Name() == "len" || bi.Name() == "cap") && len(t.Call.Args) == 1 && bi.Name() == "len" {
					a := res(t.Call.Args[0])
					if w, ok := lens[a]; ok {
						val[t] = w
					} else {
						lens[a] = t
					}
					continue
				}
				if _, isB := t.Call.Value.(*ssa.Builtin); isB {
					continue
				}
				mem = map[string]ssa.Value{}
				for c := range env {
					if al, ok := c.(*ssa.Alloc); ok && al.Heap {
						delete(env, c)
					}
				}
			case *ssa.Go, *ssa.Defer, *ssa.RunDefers:
				// a call may write the cells whose address escapes
				mem = map[string]ssa.Value{}
				for c := range env {
					if al, ok := c.(*ssa.Alloc); ok && al.Heap {
						delete(env, c)
					}
				}
			}
		}
		if ci+1 < len(chain) && len(blk.Instrs) > 0 {
			if pi, ok := blk.Instrs[len(blk.Instrs)-1].(*ssa.If); ok && len(blk.Succs) == 2 && blk.Succs[0] != blk.Succs[1] {
				learn(pi.Cond, blk.Succs[0] == chain[ci+1], 0)
			}
		}
	}
	var eval func(v ssa.Value, d int) (bool, bool)
	eval = func(v ssa.Value, d int) (bool, bool) {
		v = res(v)
		if d > 6 {
			return false, false
		}
		if b, ok := boolFact[v]; ok {
			return b, true
		}
		switch t := v.(type) {
		case *ssa.Const:
			if t.Value != nil && t.Value.Kind() == constant.Bool {
				return constant.BoolVal(t.Value), true
			}
		case *ssa.UnOp:
			if t.Op == token.NOT {
				if b, ok := eval(t.X, d+1); ok {
					return !b, true
				}
			}
		case *ssa.BinOp:
			if b, ok := binFact[binKey(t)]; ok {
				return b, true
			}
			if v, op, k, ok := cmpConst(t); ok {
				iv, has := ivals[v]
				if !has && isLenCall(v) {
					iv, has = ival{0, inf}, true
				}
				if has {
					switch op {
					case token.EQL:
						if k < iv.lo || k > iv.hi {
							return false, true
						}
						if iv.lo == iv.hi && iv.lo == k {
							return true, true
						}
					case token.NEQ:
						if k < iv.lo || k > iv.hi {
							return true, true
						}
						if iv.lo == iv.hi && iv.lo == k {
							return false, true
						}
					case token.LSS:
						if iv.hi < k {
							return true, true
						}
						if iv.lo >= k {
							return false, true
						}
					case token.LEQ:
						if iv.hi <= k {
							return true, true
						}
						if iv.lo > k {
							return false, true
						}
					case token.GTR:
						if iv.lo > k {
							return true, true
						}
						if iv.hi <= k {
							return false, true
						}
					case token.GEQ:
						if iv.lo >= k {
							return true, true
						}
						if iv.hi < k {
							return false, true
						}
					}
				}
			}
			negOp := map[token.Token]token.Token{token.EQL: token.NEQ, token.NEQ: token.EQL, token.LSS: token.GEQ, token.GEQ: token.LSS, token.GTR: token.LEQ, token.LEQ: token.GTR}
			if isIntegerOrNilable(t.X.Type()) {
				if n, ok := negOp[t.Op]; ok {
					if b, ok := binFact[fmt.Sprintf("%s|%p|%p", n, res(t.X), res(t.Y))]; ok {
						return !b, true
					}
				}
			}
			l, r := res(t.X), res(t.Y)
			lc, lok := l.(*ssa.Const)
			rc, rok := r.(*ssa.Const)
			if lok && rok && lc.Value != nil && rc.Value != nil {
				num := func(k constant.Kind) bool { return k == constant.Int || k == constant.Float }
				lk, rk := lc.Value.Kind(), rc.Value.Kind()
				switch t.Op {
				case token.EQL, token.NEQ:
					if lk == rk || (num(lk) && num(rk)) {
						return constant.Compare(lc.Value, t.Op, rc.Value), true
					}
				case token.LSS, token.LEQ, token.GTR, token.GEQ:
					if (num(lk) && num(rk)) || (lk == constant.String && rk == constant.String) {
						return constant.Compare(lc.Value, t.Op, rc.Value), true
					}
				}
				return false, false
			}
			if t.Op != token.EQL && t.Op != token.NEQ {
				return false, false
			}
			var other ssa.Value
			switch {
			case lok && lc.IsNil():
				other = r
			case rok && rc.IsNil():
				other = l
			default:
				return false, false
			}
			if oc, ok := other.(*ssa.Const); ok && oc.IsNil() {
				return t.Op == token.EQL, true
			}
			if neverNil(other) {
				return t.Op == token.NEQ, true
			}
			if nn, ok := nonNil[other]; ok {
				return (t.Op == token.NEQ) == nn, true
			}
		}
		return false, false
	}
	return eval(iff.Cond, 0)
}

func isLenCall(v ssa.Value) bool {
	c, ok := v.(*ssa.Call)
	if !ok {
		return false
	}
	b, ok := c.Call.Value.(*ssa.Builtin)
	return ok && (b.Name() == "len" || b.Name() == "cap")
}

// isIntegerOrNilable: comparisons of these types have an exact negation
// (floats do not, because of NaN).
func isIntegerOrNilable(t types.Type) bool {
	switch u := t.Underlying().(type) {
	case *types.Basic:
		return u.Info()&(types.IsInteger|types.IsString|types.IsBoolean) != 0
	case *types.Pointer, *types.Interface, *types.Map, *types.Slice, *types.Chan, *types.Signature:
		return true
	}
	return false
}

func removeInstr(x ssa.Instruction) {
	b := x.Block()
	for i, y := range b.Instrs {
		if y == x {
			b.Instrs = append(b.Instrs[:i:i], b.Instrs[i+1:]...)
			break
		}
	}
	dropInstr(x)
}

// wrapAsClosure turns `defer h(a...)` / `go h(a...)` of a helper into
// `defer/go func(){ h(a'...) }()` with h's body as the literal's body.
func (in *inliner) wrapAsClosure(f *ssa.Function, instr ssa.Instruction, cc *ssa.CallCommon) {
	g := staticCallee(cc)
	// `go func(x T){...}(v)`: a literal started with arguments. The arguments are evaluated
	// by the starter at the go/defer statement, so the literal equals one without parameters
	// that captures fresh variables holding those values (the `x := v` idiom).
	var obind []ssa.Value
	isLit := false
	if g == nil {
		mc0 := cc.Value.(*ssa.MakeClosure)
		g = mc0.Fn.(*ssa.Function)
		obind = mc0.Bindings
		isLit = true
	} else if g.Parent() != nil {
		isLit = true
	}
	name := fmt.Sprintf("%s$%d", f.Name(), len(f.AnonFuncs)+1)
	sig := types.NewSignatureType(nil, nil, nil, types.NewTuple(), g.Signature.Results(), false)
	h := ssa.XCloneFuncShell(g, name, sig, f)
	cl := &cloner{in: in, dst: h, vm: map[ssa.Value]ssa.Value{}, bm: map[*ssa.BasicBlock]*ssa.BasicBlock{}}
	for _, gfv := range g.FreeVars {
		nfv := ssa.XCloneFreeVar(gfv, h)
		h.FreeVars = append(h.FreeVars, nfv)
		cl.vm[gfv] = nfv
	}
	var pro []ssa.Instruction
	for _, p := range g.Params {
		fv := ssa.XNewFreeVar(p.Name(), types.NewPointer(p.Type()), p.Pos(), h)
		h.FreeVars = append(h.FreeVars, fv)
		ld := &ssa.UnOp{Op: token.MUL, X: fv}
		ssa.XSetType(ld, p.Type())
		ssa.XSetPos(ld, p.Pos())
		addRef(fv, ld)
		pro = append(pro, ld)
		cl.vm[p] = ld
	}
	h.Blocks = cl.cloneBlocks(g)
	for _, ld := range pro {
		ssa.XSetBlock(ld, h.Blocks[0])
	}
	h.Blocks[0].Instrs = append(pro, h.Blocks[0].Instrs...)
	if g.Recover != nil {
		h.Recover = cl.bm[g.Recover]
	}
	// the body keeps its parameter in a variable of its own (the builder spills every
	// parameter): that variable and the captured one are the same thing now
	for _, x := range pro {
		ld := x.(*ssa.UnOp)
		var spill *ssa.Store
		n := 0
		for _, r := range *ld.Referrers() {
			if _, isDbg := r.(*ssa.DebugRef); isDbg {
				continue
			}
			n++
			if st, ok := r.(*ssa.Store); ok && st.Val == ssa.Value(ld) {
				spill = st
			}
		}
		if n != 1 || spill == nil {
			continue
		}
		t0, ok := spill.Addr.(*ssa.Alloc)
		if !ok || t0.Parent() != h || t0.Block() != h.Blocks[0] || spill.Block() != h.Blocks[0] {
			continue
		}
		removeInstr(spill)
		replaceUses(t0, ld.X)
		removeInstr(t0)
		var locals []*ssa.Alloc
		for _, l := range h.Locals {
			if l != t0 {
				locals = append(locals, l)
			}
		}
		h.Locals = locals
		if len(*ld.Referrers()) == 0 {
			removeInstr(ld)
		}
	}
	in.touched[h] = true

	b := instr.Block()
	idx := instrIdx(instr)
	var pre []ssa.Instruction
	mc := &ssa.MakeClosure{Fn: h}
	for _, ob := range obind {
		mc.Bindings = append(mc.Bindings, ob)
		addRef(ob, mc)
	}
	if old, ok := cc.Value.(*ssa.MakeClosure); ok {
		delRef(old, instr)
	}
	for i, a := range cc.Args {
		cell := &ssa.Alloc{Comment: g.Params[i].Name(), Heap: true}
		ssa.XSetType(cell, types.NewPointer(g.Params[i].Type()))
		ssa.XSetPos(cell, instr.Pos())
		ssa.XSetBlock(cell, b)
		st := &ssa.Store{Addr: cell, Val: a}
		ssa.XSetBlock(st, b)
		addRef(cell, st)
		addRef(a, st)
		delRef(a, instr)
		pre = append(pre, cell, st)
		mc.Bindings = append(mc.Bindings, cell)
		addRef(cell, mc)
	}
	ssa.XSetType(mc, sig)
	ssa.XSetPos(mc, instr.Pos())
	ssa.XSetBlock(mc, b)
	addRef(h, mc)
	pre = append(pre, mc)
	cc.Value = mc
	cc.Args = nil
	addRef(mc, instr)
	var out []ssa.Instruction
	out = append(out, b.Instrs[:idx]...)
	out = append(out, pre...)
	out = append(out, b.Instrs[idx:]...)
	b.Instrs = out
	if isLit {
		// the literal with parameters is no longer started anywhere
		used := false
		for _, b2 := range f.Blocks {
			for _, y := range b2.Instrs {
				for _, op := range y.Operands(nil) {
					if *op == ssa.Value(g) {
						used = true
					}
				}
			}
		}
		if !used && g.Parent() == f {
			ssa.XRemoveAnon(f, g)
		}
		in.litArgs++
	} else {
		in.sites[g]++
	}
	in.touched[f] = true
}

// process inlines every helper call in f and the literals nested in it.
func (in *inliner) process(f *ssa.Function) {
	closures := 0
	for round := 0; round < 600; round++ {
		var site ssa.Instruction
		var dyn *funcValue
	scan:
		for _, b := range f.Blocks {
			for _, x := range b.Instrs {
				cc := callCommon(x)
				if cc == nil {
					continue
				}
				if cc.IsInvoke() {
					// a method called through an interface whose dynamic type is known here (a
					// concrete value was converted to the interface for an inlined helper's
					// parameter): call the method of that type directly
					if mi, ok := cc.Value.(*ssa.MakeInterface); ok {
						if _, isIface := mi.X.Type().Underlying().(*types.Interface); !isIface {
							if fn := f.Prog.LookupMethod(mi.X.Type(), cc.Method.Pkg(), cc.Method.Name()); fn != nil {
								delRef(cc.Value, x)
								cc.Args = append([]ssa.Value{mi.X}, cc.Args...)
								addRef(mi.X, x)
								cc.Value = fn
								cc.Method = nil
								in.touched[f] = true
							}
						}
					}
					if cc.IsInvoke() {
						continue
					}
				}
				if _, isCall := x.(*ssa.Call); !isCall && len(cc.Args) > 0 {
					// go / defer of a literal of f with arguments
					var lit *ssa.Function
					if mc0, ok := cc.Value.(*ssa.MakeClosure); ok {
						lit, _ = mc0.Fn.(*ssa.Function)
					} else if fn0, ok := cc.Value.(*ssa.Function); ok && fn0.Parent() == f {
						lit = fn0
					}
					if lit != nil && lit.Parent() == f && lit.Blocks != nil && !in.cand[lit] {
						site = x
						break scan
					}
				}
				if g := staticCallee(cc); g != nil {
					if in.cand[g] {
						// recover() only stops a panic when the deferred function itself calls it: a
						// helper that calls recover() is not the same thing once its body stands in
						// its caller, so an ordinary call of it stays a call (deferring the helper
						// itself, `defer h()`, is rewritten: there the helper is the deferred function)
						if _, isCall := x.(*ssa.Call); isCall && callsRecover(g) {
							if in.skipped[g] == "" {
								in.skipped[g] = "calls recover(): only meaningful as the deferred function itself"
							}
							continue
						}
						site = x
						break scan
					}
					// a literal without free variables called directly (handed to an inlined helper)
					if call, isCall := x.(*ssa.Call); isCall && g.Parent() != nil && len(g.FreeVars) == 0 && g != f && g.Blocks != nil && closures < 80 {
						if _, ok := in.inlinable(g); ok {
							_ = call
							if callsRecover(g) {
								continue
							}
							site, dyn = x, &funcValue{fn: g, owner: f}
							break scan
						}
					}
					continue
				}
				// a call of a function value: a literal or method value handed to an inlined
				// helper, kept in a local, or bound to a free variable of this literal
				call, isCall := x.(*ssa.Call)
				if !isCall || closures >= 80 {
					continue
				}
				if _, isB := cc.Value.(*ssa.Builtin); isB {
					continue
				}
				fv := resolveFuncValue(cc.Value, 0)
				if fv == nil || fv.fn == f || fv.fn.Blocks == nil {
					continue
				}
				if len(fv.bindings) == 0 && fv.fn.Parent() == nil && fv.fn.Synthetic == "" && !in.cand[fv.fn] {
					// a plain function of the reference tree used as a value: call it directly
					delRef(cc.Value, call)
					cc.Value = fv.fn
					in.touched[f] = true
					continue
				}
				if fv.fn.Parent() == nil && fv.fn.Synthetic == "" && len(fv.bindings) == 0 {
					delRef(cc.Value, call)
					cc.Value = fv.fn
					in.touched[f] = true
					site = x
					break scan
				}
				if _, ok := in.inlinable(fv.fn); !ok || callsRecover(fv.fn) {
					continue
				}
				site, dyn = x, fv
				break scan
			}
		}
		if site == nil {
			break
		}
		if dyn != nil {
			call := site.(*ssa.Call)
			fvs := map[*ssa.FreeVar]ssa.Value{}
			ok := true
			for i, fr := range dyn.fn.FreeVars {
				if i >= len(dyn.bindings) {
					ok = false
					break
				}
				v := in.importValue(f, dyn.bindings[i], dyn.owner)
				if v == nil {
					ok = false
					break
				}
				fvs[fr] = v
			}
			if !ok {
				closures = 80 // give up on function values in this function
				continue
			}
			closures++
			old := call.Call.Value
			in.inlineBody(f, call, dyn.fn, fvs)
			_ = old
			in.sites[dyn.fn]++
			continue
		}
		switch t := site.(type) {
		case *ssa.Call:
			in.inlineCall(f, t)
		case *ssa.Defer:
			in.wrapAsClosure(f, t, &t.Call)
		case *ssa.Go:
			in.wrapAsClosure(f, t, &t.Call)
		}
	}
	in.dropDeadLiterals(f)
	for i := 0; i < len(f.AnonFuncs); i++ {
		in.process(f.AnonFuncs[i])
	}
	// a literal kept in a variable that only other literals called: dead once those calls are inlined
	in.dropDeadLiterals(f)
}

// dropDeadLiterals removes function literals (and bound-method values) whose
// every call was inlined: the literal's value is only kept in variables that
// nothing reads any more. Their code lives on in the inlined copies; analysing
// the orphan as a function of its own would report its accesses out of context.
func (in *inliner) dropDeadLiterals(f *ssa.Function) {
	for round := 0; round < 40; round++ {
		changed := false
		for _, b := range f.Blocks {
			for _, x := range append([]ssa.Instruction(nil), b.Instrs...) {
				mc, ok := x.(*ssa.MakeClosure)
				if !ok {
					continue
				}
				var kill []ssa.Instruction
				if !deadValue(mc, &kill, 0) {
					continue
				}
				for _, k := range kill {
					removeInstr(k)
				}
				removeInstr(mc)
				if lit, ok := mc.Fn.(*ssa.Function); ok && lit.Parent() == f {
					still := false
					for _, b2 := range f.Blocks {
						for _, y := range b2.Instrs {
							if m2, ok := y.(*ssa.MakeClosure); ok && m2.Fn == ssa.Value(lit) {
								still = true
							}
						}
					}
					if !still {
						ssa.XRemoveAnon(f, lit)
					}
				}
				in.touched[f] = true
				changed = true
			}
		}
		if !changed {
			break
		}
	}
}

// deadValue: every use of v is a debug reference, a conversion that is itself
// dead, or a store into a variable that is never read; kill collects the
// instructions that go with it.
func deadValue(v ssa.Value, kill *[]ssa.Instruction, d int) bool {
	if d > 6 {
		return false
	}
	r := v.Referrers()
	if r == nil {
		return false
	}
	for _, u := range *r {
		switch t := u.(type) {
		case *ssa.DebugRef:
			*kill = append(*kill, t)
		case *ssa.ChangeType:
			if !deadValue(t, kill, d+1) {
				return false
			}
			*kill = append(*kill, t)
		case *ssa.Store:
			a, ok := t.Addr.(*ssa.Alloc)
			if !ok || t.Val != v {
				return false
			}
			for _, cu := range *a.Referrers() {
				switch ct := cu.(type) {
				case *ssa.Store:
					if ct.Addr != ssa.Value(a) {
						return false
					}
				case *ssa.DebugRef:
				case *ssa.MakeClosure:
					// captured by a literal that no longer uses it (its calls through the
					// variable were inlined)
					lit, isLit := ct.Fn.(*ssa.Function)
					if !isLit {
						return false
					}
					for i, bnd := range ct.Bindings {
						if bnd != ssa.Value(a) {
							continue
						}
						if i >= len(lit.FreeVars) {
							return false
						}
						for _, fu := range *lit.FreeVars[i].Referrers() {
							if _, isDbg := fu.(*ssa.DebugRef); isDbg {
								continue
							}
							// a read whose value nothing uses any more
							ld, isLd := fu.(*ssa.UnOp)
							if !isLd || ld.Op != token.MUL {
								return false
							}
							for _, lu := range *ld.Referrers() {
								if _, isDbg := lu.(*ssa.DebugRef); !isDbg {
									return false
								}
							}
						}
					}
				default:
					return false
				}
			}
			*kill = append(*kill, t)
		default:
			return false
		}
	}
	return true
}

// funcValue: what a function-typed value denotes: a function and, for a literal
// or bound method, the values bound to its free variables, which live in owner.
type funcValue struct {
	fn       *ssa.Function
	bindings []ssa.Value
	owner    *ssa.Function
}

// onlyStore returns the single store that ever writes the cell: exactly one
// store in the function that declares it, in the declaring block, and no store
// through any literal that captures the cell.
func onlyStore(a *ssa.Alloc) *ssa.Store {
	var only *ssa.Store
	n := 0
	for _, r := range *a.Referrers() {
		switch t := r.(type) {
		case *ssa.Store:
			if t.Addr == ssa.Value(a) {
				only = t
				n++
			} else {
				return nil // the address itself is stored somewhere
			}
		case *ssa.MakeClosure:
			if lit, ok := t.Fn.(*ssa.Function); ok {
				for i, b := range t.Bindings {
					if b == ssa.Value(a) && i < len(lit.FreeVars) && writtenThrough(lit.FreeVars[i], 0) {
						return nil
					}
				}
			}
		case *ssa.UnOp, *ssa.DebugRef:
		default:
			return nil // address passed on
		}
	}
	if n != 1 || only.Block() != a.Block() {
		return nil
	}
	return only
}

func writtenThrough(fv *ssa.FreeVar, d int) bool {
	if d > 4 {
		return true
	}
	for _, r := range *fv.Referrers() {
		switch t := r.(type) {
		case *ssa.Store:
			return true
		case *ssa.MakeClosure:
			if lit, ok := t.Fn.(*ssa.Function); ok {
				for i, b := range t.Bindings {
					if b == ssa.Value(fv) && i < len(lit.FreeVars) && writtenThrough(lit.FreeVars[i], d+1) {
						return true
					}
				}
			}
		case *ssa.UnOp, *ssa.DebugRef:
		default:
			return true
		}
	}
	return false
}

// closureOfLit finds the single MakeClosure that creates the literal.
func closureOfLit(lit *ssa.Function) *ssa.MakeClosure {
	p := lit.Parent()
	if p == nil {
		return nil
	}
	var out *ssa.MakeClosure
	n := 0
	for _, b := range p.Blocks {
		for _, x := range b.Instrs {
			if mc, ok := x.(*ssa.MakeClosure); ok && mc.Fn == ssa.Value(lit) {
				out = mc
				n++
			}
		}
	}
	if n != 1 {
		return nil
	}
	return out
}

// resolveFuncValue follows a function-typed value through variables assigned
// once and through captured variables to the literal, bound method or function
// it denotes.
func resolveFuncValue(v ssa.Value, d int) *funcValue {
	if d > 12 || v == nil {
		return nil
	}
	switch t := v.(type) {
	case *ssa.MakeClosure:
		fn, ok := t.Fn.(*ssa.Function)
		if !ok {
			return nil
		}
		return &funcValue{fn, t.Bindings, t.Parent()}
	case *ssa.Function:
		return &funcValue{t, nil, nil}
	case *ssa.ChangeType:
		return resolveFuncValue(t.X, d+1)
	case *ssa.UnOp:
		if t.Op != token.MUL {
			return nil
		}
		return resolveFuncCell(t.X, d+1)
	}
	return nil
}

func resolveFuncCell(addr ssa.Value, d int) *funcValue {
	if d > 12 {
		return nil
	}
	switch a := addr.(type) {
	case *ssa.Alloc:
		st := onlyStore(a)
		if st == nil {
			return nil
		}
		return resolveFuncValue(st.Val, d+1)
	case *ssa.FieldAddr:
		// a function kept in a field of a package-level table (`var addition = arithmetic{ints:
		// func(x, y int64) int64 { return x + y }, ..}`), read directly or through a local
		// copy of the table (a value receiver): the literal the package initialiser put there,
		// when nothing else ever writes the table
		var g *ssa.Global
		switch base := a.X.(type) {
		case *ssa.Global:
			g = base
		case *ssa.Alloc:
			// the local copy is assigned once, as a whole, and only read afterwards
			var st *ssa.Store
			for _, r := range *base.Referrers() {
				switch t := r.(type) {
				case *ssa.Store:
					if t.Addr != ssa.Value(base) || st != nil {
						return nil
					}
					st = t
				case *ssa.FieldAddr:
					for _, r2 := range *t.Referrers() {
						switch u := r2.(type) {
						case *ssa.UnOp:
							if u.Op != token.MUL {
								return nil
							}
						case *ssa.DebugRef:
						default:
							return nil
						}
					}
				case *ssa.UnOp, *ssa.DebugRef:
				default:
					return nil
				}
			}
			if st == nil || st.Block() != base.Block() {
				return nil
			}
			if ld, ok := st.Val.(*ssa.UnOp); ok && ld.Op == token.MUL {
				g, _ = ld.X.(*ssa.Global)
			}
		}
		if g == nil {
			return nil
		}
		if fn := globalFuncField(g, a.Field); fn != nil {
			return &funcValue{fn, nil, nil}
		}
		return nil
	case *ssa.FreeVar:
		lit := a.Parent()
		mc := closureOfLit(lit)
		if mc == nil {
			return nil
		}
		for i, fr := range lit.FreeVars {
			if fr == a && i < len(mc.Bindings) {
				return resolveFuncCell(mc.Bindings[i], d+1)
			}
		}
	}
	return nil
}

// tableEntry: one key of a package-level table of functions.
type tableEntry struct {
	key    *ssa.Const
	fn     *ssa.Function   // a table of functions
	fields []*ssa.Function // a table of structs whose fields are all functions: one per field
}

var globalTableCache = map[*ssa.Global][]tableEntry{}

// globalFuncTable: the package-level map variable g holds, for the whole life of the program, the
// map literal the package initialiser stores there: constant keys, each bound once to a function
// (a declared function or a literal without free variables). No other instruction of the package
// stores to g, updates or deletes from the map, or takes g's address; reads are lookups and len only.
func globalFuncTable(g *ssa.Global) []tableEntry {
	if t, ok := globalTableCache[g]; ok {
		return t
	}
	globalTableCache[g] = nil
	if g.Pkg == nil {
		return nil
	}
	if _, isMap := g.Type().(*types.Pointer).Elem().Underlying().(*types.Map); !isMap {
		return nil
	}
	if g.Object() != nil && g.Object().Exported() {
		return nil // another package may write it
	}
	bad := false
	var made *ssa.MakeMap
	var visit func(f *ssa.Function)
	visit = func(f *ssa.Function) {
		isInit := f.Name() == "init" && f.Parent() == nil
		for _, b := range f.Blocks {
			for _, x := range b.Instrs {
				for _, op := range x.Operands(nil) {
					if *op != ssa.Value(g) {
						continue
					}
					switch t := x.(type) {
					case *ssa.Store:
						mm, isMM := t.Val.(*ssa.MakeMap)
						if t.Addr != ssa.Value(g) || !isInit || !isMM || made != nil {
							bad = true
							continue
						}
						made = mm
					case *ssa.UnOp:
						if t.Op != token.MUL {
							bad = true
							continue
						}
						// the loaded map: looked up, measured, ranged over; never written
						for _, r := range *t.Referrers() {
							switch u := r.(type) {
							case *ssa.Lookup, *ssa.DebugRef, *ssa.Range:
							case *ssa.Call:
								if bi, isB := u.Call.Value.(*ssa.Builtin); !isB || bi.Name() != "len" {
									bad = true
								}
							default:
								_ = u
								bad = true
							}
						}
					case *ssa.DebugRef:
					default:
						bad = true
					}
				}
			}
		}
		for _, a := range f.AnonFuncs {
			visit(a)
		}
	}
	for _, mem := range g.Pkg.Members {
		switch t := mem.(type) {
		case *ssa.Function:
			visit(t)
		case *ssa.Type:
			for _, ty := range []types.Type{t.Type(), types.NewPointer(t.Type())} {
				ms := g.Pkg.Prog.MethodSets.MethodSet(ty)
				for i := 0; i < ms.Len(); i++ {
					if fn := g.Pkg.Prog.MethodValue(ms.At(i)); fn != nil && fn.Pkg == g.Pkg {
						visit(fn)
					}
				}
			}
		}
	}
	if bad || made == nil {
		return nil
	}
	var out []tableEntry
	seen := map[string]bool{}
	for _, r := range *made.Referrers() {
		switch u := r.(type) {
		case *ssa.MapUpdate:
			k, isK := u.Key.(*ssa.Const)
			if !isK || u.Map != ssa.Value(made) || k.Value == nil || seen[k.Value.ExactString()] {
				return nil
			}
			seen[k.Value.ExactString()] = true
			var fn *ssa.Function
			switch v := u.Value.(type) {
			case *ssa.Function:
				if len(v.FreeVars) == 0 {
					fn = v
				}
			case *ssa.MakeClosure:
				if lit, isFn := v.Fn.(*ssa.Function); isFn && len(v.Bindings) == 0 {
					fn = lit
				}
			case *ssa.ChangeType:
				if lit, isFn := v.X.(*ssa.Function); isFn && len(lit.FreeVars) == 0 {
					fn = lit
				}
			case *ssa.UnOp:
				// a struct literal: every field a function, each written once before the value is read
				if fs := structOfFuncs(v); fs != nil {
					out = append(out, tableEntry{key: k, fields: fs})
					continue
				}
			}
			if fn == nil {
				return nil
			}
			out = append(out, tableEntry{key: k, fn: fn})
		case *ssa.Store:
			if u.Val != ssa.Value(made) {
				return nil
			}
		case *ssa.DebugRef:
		default:
			return nil
		}
	}
	sort.Slice(out, func(i, j int) bool { return out[i].key.Value.ExactString() < out[j].key.Value.ExactString() })
	globalTableCache[g] = out
	return out
}

// structOfFuncs: v reads a local struct variable (a composite literal) all of whose fields are of
// function type and are each assigned once, a declared function or a literal without free variables.
func structOfFuncs(v *ssa.UnOp) []*ssa.Function {
	al, ok := v.X.(*ssa.Alloc)
	if !ok || v.Op != token.MUL {
		return nil
	}
	st, ok := al.Type().(*types.Pointer).Elem().Underlying().(*types.Struct)
	if !ok || st.NumFields() == 0 {
		return nil
	}
	out := make([]*ssa.Function, st.NumFields())
	for _, r := range *al.Referrers() {
		switch t := r.(type) {
		case *ssa.FieldAddr:
			for _, r2 := range *t.Referrers() {
				sto, isSt := r2.(*ssa.Store)
				if !isSt || sto.Addr != ssa.Value(t) || out[t.Field] != nil {
					if _, isDbg := r2.(*ssa.DebugRef); isDbg {
						continue
					}
					return nil
				}
				switch fv := sto.Val.(type) {
				case *ssa.Function:
					if len(fv.FreeVars) == 0 {
						out[t.Field] = fv
					}
				case *ssa.MakeClosure:
					if lit, isFn := fv.Fn.(*ssa.Function); isFn && len(fv.Bindings) == 0 {
						out[t.Field] = lit
					}
				}
				if out[t.Field] == nil {
					return nil
				}
			}
		case *ssa.UnOp:
			if t != v {
				return nil
			}
		case *ssa.DebugRef:
		default:
			return nil
		}
	}
	for i := range out {
		if out[i] == nil {
			return nil
		}
		if _, isSig := st.Field(i).Type().Underlying().(*types.Signature); !isSig {
			return nil
		}
	}
	return out
}

// splitFuncStructs: a local struct variable whose fields are all functions and which is only ever
// accessed field by field or copied as a whole into another such variable is replaced by one
// variable per field (a whole copy becomes the copies of the fields), so that the functions it holds
// are function variables for step 2e.
func (in *inliner) splitFuncStructs(f *ssa.Function) bool {
	allFuncs := func(t types.Type) *types.Struct {
		st, ok := t.Underlying().(*types.Struct)
		if !ok || st.NumFields() == 0 {
			return nil
		}
		for i := 0; i < st.NumFields(); i++ {
			if _, isSig := st.Field(i).Type().Underlying().(*types.Signature); !isSig {
				return nil
			}
		}
		return st
	}
	// ... and, for a variable that does not escape (a result struct of an inlined helper:
	// `type found struct { value reflect.Value; ok bool }`), any struct: read and written field by
	// field or copied whole into another such variable, it is one variable per field
	anyStruct := func(al *ssa.Alloc) *types.Struct {
		if st := allFuncs(al.Type().(*types.Pointer).Elem()); st != nil {
			return st
		}
		if al.Heap {
			return nil
		}
		st, ok := al.Type().(*types.Pointer).Elem().Underlying().(*types.Struct)
		if !ok || st.NumFields() == 0 || st.NumFields() > 8 {
			return nil
		}
		return st
	}
	cand := map[*ssa.Alloc]bool{}
	for _, b := range f.Blocks {
		for _, x := range b.Instrs {
			if al, ok := x.(*ssa.Alloc); ok && anyStruct(al) != nil {
				cand[al] = true
			}
		}
	}
	for changed := true; changed; {
		changed = false
		for al := range cand {
			ok := true
			for _, r := range *al.Referrers() {
				switch t := r.(type) {
				case *ssa.FieldAddr:
					for _, r2 := range *t.Referrers() {
						switch u := r2.(type) {
						case *ssa.Store:
							if u.Addr != ssa.Value(t) {
								ok = false
							}
						case *ssa.UnOp:
							if u.Op != token.MUL {
								ok = false
							}
						case *ssa.DebugRef:
						default:
							ok = false
						}
					}
				case *ssa.Store:
					// a whole copy into al from another candidate
					ld, isLd := t.Val.(*ssa.UnOp)
					if t.Addr != ssa.Value(al) || !isLd || ld.Op != token.MUL {
						ok = false
						break
					}
					src, isAl := ld.X.(*ssa.Alloc)
					if !isAl || !cand[src] {
						ok = false
					}
				case *ssa.UnOp:
					// read as a whole: only to be copied into another candidate
					if t.Op != token.MUL {
						ok = false
						break
					}
					for _, r2 := range *t.Referrers() {
						switch u := r2.(type) {
						case *ssa.Store:
							dst, isAl := u.Addr.(*ssa.Alloc)
							if u.Val != ssa.Value(t) || !isAl || !cand[dst] {
								ok = false
							}
						case *ssa.DebugRef:
						default:
							ok = false
						}
					}
				case *ssa.DebugRef:
				default:
					ok = false
				}
			}
			if !ok {
				delete(cand, al)
				changed = true
			}
		}
	}
	if len(cand) == 0 {
		return false
	}
	var order []*ssa.Alloc
	for _, b := range f.Blocks {
		for _, x := range b.Instrs {
			if al, ok := x.(*ssa.Alloc); ok && cand[al] {
				order = append(order, al)
			}
		}
	}
	parts := map[*ssa.Alloc][]*ssa.Alloc{}
	insertBefore := func(at ssa.Instruction, n ssa.Instruction) {
		b := at.Block()
		i := instrIdx(at)
		ssa.XSetBlock(n, b)
		b.Instrs = append(b.Instrs[:i:i], append([]ssa.Instruction{n}, b.Instrs[i:]...)...)
	}
	for _, al := range order {
		st := anyStruct(al)
		for i := 0; i < st.NumFields(); i++ {
			c := &ssa.Alloc{Comment: al.Comment + "." + st.Field(i).Name(), Heap: al.Heap}
			ssa.XSetType(c, types.NewPointer(st.Field(i).Type()))
			ssa.XSetPos(c, al.Pos())
			insertBefore(al, c)
			if !al.Heap {
				f.Locals = append(f.Locals, c)
			}
			parts[al] = append(parts[al], c)
		}
	}
	for _, al := range order {
		for _, r := range append([]ssa.Instruction(nil), *al.Referrers()...) {
			switch t := r.(type) {
			case *ssa.FieldAddr:
				for _, r2 := range append([]ssa.Instruction(nil), *t.Referrers()...) {
					if _, isDbg := r2.(*ssa.DebugRef); isDbg {
						removeInstr(r2)
					}
				}
				replaceUses(t, parts[al][t.Field])
				removeInstr(t)
			case *ssa.UnOp:
				// the whole read, and the stores that copy it
				for _, r2 := range append([]ssa.Instruction(nil), *t.Referrers()...) {
					sto, isSt := r2.(*ssa.Store)
					if !isSt {
						removeInstr(r2)
						continue
					}
					dst := sto.Addr.(*ssa.Alloc)
					for i, pc := range parts[al] {
						ld := &ssa.UnOp{Op: token.MUL, X: pc}
						ssa.XSetType(ld, pc.Type().(*types.Pointer).Elem())
						ssa.XSetPos(ld, t.Pos())
						insertBefore(t, ld)
						addRef(pc, ld)
						ns := &ssa.Store{Addr: parts[dst][i], Val: ld}

						insertBefore(sto, ns)
						addRef(parts[dst][i], ns)
						addRef(ld, ns)
					}
					removeInstr(sto)
				}
				removeInstr(t)
			case *ssa.DebugRef:
				removeInstr(t)
			}
		}
	}
	for _, al := range order {
		if len(*al.Referrers()) == 0 {
			removeInstr(al)
			for i, l := range f.Locals {
				if l == al {
					f.Locals = append(f.Locals[:i:i], f.Locals[i+1:]...)
					break
				}
			}
		}
	}
	in.touched[f] = true
	return true
}

// forwardFuncCopies: a function variable X assigned once, from a read of another function variable Y
// (a parameter copy of an inlined method with a value receiver), is read as Y wherever no assignment
// of Y can get between: every way from an assignment of Y to a read of X passes X's own assignment.
func (in *inliner) forwardFuncCopies(f *ssa.Function) bool {
	private := func(al *ssa.Alloc) bool {
		if _, isSig := al.Type().(*types.Pointer).Elem().Underlying().(*types.Signature); !isSig {
			return false
		}
		for _, r := range *al.Referrers() {
			switch t := r.(type) {
			case *ssa.Store:
				if t.Addr != ssa.Value(al) {
					return false
				}
			case *ssa.UnOp:
				if t.Op != token.MUL {
					return false
				}
			case *ssa.DebugRef:
			default:
				return false
			}
		}
		return true
	}
	did := false
	for _, b := range f.Blocks {
		for _, ins := range append([]ssa.Instruction(nil), b.Instrs...) {
			xal, ok := ins.(*ssa.Alloc)
			if !ok || !private(xal) {
				continue
			}
			var only *ssa.Store
			n := 0
			for _, r := range *xal.Referrers() {
				if st, isSt := r.(*ssa.Store); isSt {
					only = st
					n++
				}
			}
			if n != 1 {
				continue
			}
			ld, isLd := only.Val.(*ssa.UnOp)
			if !isLd || ld.Op != token.MUL {
				continue
			}
			yal, isAl := ld.X.(*ssa.Alloc)
			if !isAl || yal == xal || !private(yal) {
				continue
			}
			// no assignment of Y between its read and X's assignment
			if _, between := pathExists(f, ld, func(i2 ssa.Instruction) bool {
				st, isSt := i2.(*ssa.Store)
				return isSt && st.Addr == ssa.Value(yal)
			}, func(i2 ssa.Instruction) bool { return i2 == ssa.Instruction(only) }); between {
				continue
			}
			var reads []*ssa.UnOp
			for _, r := range *xal.Referrers() {
				if u, isU := r.(*ssa.UnOp); isU {
					reads = append(reads, u)
				}
			}
			safe := true
			for _, r := range *yal.Referrers() {
				st, isSt := r.(*ssa.Store)
				if !isSt {
					continue
				}
				for _, rd := range reads {
					if _, reach := pathExists(f, st, func(i2 ssa.Instruction) bool { return i2 == ssa.Instruction(rd) }, func(i2 ssa.Instruction) bool { return i2 == ssa.Instruction(only) }); reach {
						safe = false
					}
				}
			}
			if !safe {
				continue
			}
			for _, rd := range reads {
				delRef(xal, rd)
				rd.X = yal
				addRef(yal, rd)
			}
			did = true
		}
	}
	if did {
		in.touched[f] = true
	}
	return did
}

// tablesToChains: 2h. `fn, ok := table[key]` on a package-level table of functions (globalFuncTable)
// is the chain `if key == k1 { fn, ok = f1, true } else if key == k2 { .. }` the table stands for: the
// lookup is replaced by that chain, writing a function variable and a flag. Step 2e then makes the
// calls through the variable direct on each way out of the chain.
func (in *inliner) tablesToChains(f *ssa.Function) bool {
	did := false
	for round := 0; round < 8; round++ {
		var lk *ssa.Lookup
		var entries []tableEntry
		for _, b := range f.Blocks {
			for _, x := range b.Instrs {
				l, ok := x.(*ssa.Lookup)
				if !ok {
					continue
				}
				ld, ok := l.X.(*ssa.UnOp)
				if !ok || ld.Op != token.MUL {
					continue
				}
				g, ok := ld.X.(*ssa.Global)
				if !ok {
					continue
				}
				if es := globalFuncTable(g); len(es) > 0 && len(es) <= 32 {
					lk, entries = l, es
				}
			}
		}
		if lk == nil {
			break
		}
		b := lk.Block()
		idx := instrIdx(lk)
		mt := lk.X.Type().Underlying().(*types.Map)
		// the two variables, declared where the lookup was
		cv := &ssa.Alloc{Comment: "table.fn"}
		ssa.XSetType(cv, types.NewPointer(mt.Elem()))
		ssa.XSetPos(cv, lk.Pos())
		cok := &ssa.Alloc{Comment: "table.ok"}
		ssa.XSetType(cok, types.NewPointer(types.Typ[types.Bool]))
		ssa.XSetPos(cok, lk.Pos())
		f.Locals = append(f.Locals, cv, cok)
		post := ssa.XNewBlock(f, "table.done")
		f.Blocks = append(f.Blocks, post)
		rest := append([]ssa.Instruction(nil), b.Instrs[idx+1:]...)
		b.Instrs = b.Instrs[:idx:idx]
		for _, x := range rest {
			ssa.XSetBlock(x, post)
		}
		post.Succs = b.Succs
		for _, sc := range post.Succs {
			for i, p := range sc.Preds {
				if p == b {
					sc.Preds[i] = post
				}
			}
		}
		b.Succs = nil
		emit(b, cv)
		emit(b, cok)
		// reads of the two variables at the head of the continuation
		ldv := &ssa.UnOp{Op: token.MUL, X: cv}
		ssa.XSetType(ldv, mt.Elem())
		ssa.XSetPos(ldv, lk.Pos())
		ssa.XSetBlock(ldv, post)
		addRef(cv, ldv)
		ldok := &ssa.UnOp{Op: token.MUL, X: cok}
		ssa.XSetType(ldok, types.Typ[types.Bool])
		ssa.XSetPos(ldok, lk.Pos())
		ssa.XSetBlock(ldok, post)
		addRef(cok, ldok)
		post.Instrs = append([]ssa.Instruction{ldv, ldok}, rest...)
		// the chain
		cur := b
		for _, e := range entries {
			cmp := &ssa.BinOp{Op: token.EQL, X: lk.Index, Y: ssa.NewConst(e.key.Value, lk.Index.Type())}
			ssa.XSetType(cmp, types.Typ[types.Bool])
			ssa.XSetPos(cmp, lk.Pos())
			emit(cur, cmp)
			addRef(lk.Index, cmp)
			iff := &ssa.If{Cond: cmp}
			emit(cur, iff)
			addRef(cmp, iff)
			hit := ssa.XNewBlock(f, "table.case")
			next := ssa.XNewBlock(f, "table.next")
			f.Blocks = append(f.Blocks, hit, next)
			cur.Succs = []*ssa.BasicBlock{hit, next}
			hit.Preds = append(hit.Preds, cur)
			next.Preds = append(next.Preds, cur)
			if e.fn != nil {
				var fv ssa.Value = e.fn
				if !types.Identical(e.fn.Type(), mt.Elem()) {
					ct := &ssa.ChangeType{X: e.fn}
					ssa.XSetType(ct, mt.Elem())
					ssa.XSetPos(ct, lk.Pos())
					emit(hit, ct)
					fv = ct
				}
				s1 := &ssa.Store{Addr: cv, Val: fv}
				emit(hit, s1)
				addRef(cv, s1)
				addRef(fv, s1)
			} else {
				stt := mt.Elem().Underlying().(*types.Struct)
				for fi, ff := range e.fields {
					fa := &ssa.FieldAddr{X: cv, Field: fi}
					ssa.XSetType(fa, types.NewPointer(stt.Field(fi).Type()))
					ssa.XSetPos(fa, lk.Pos())
					emit(hit, fa)
					addRef(cv, fa)
					var fv ssa.Value = ff
					if !types.Identical(ff.Type(), stt.Field(fi).Type()) {
						ct := &ssa.ChangeType{X: ff}
						ssa.XSetType(ct, stt.Field(fi).Type())
						ssa.XSetPos(ct, lk.Pos())
						emit(hit, ct)
						fv = ct
					}
					s1 := &ssa.Store{Addr: fa, Val: fv}
					emit(hit, s1)
					addRef(fa, s1)
					addRef(fv, s1)
				}
			}
			s2 := &ssa.Store{Addr: cok, Val: ssa.NewConst(constant.MakeBool(true), types.Typ[types.Bool])}
			emit(hit, s2)
			addRef(cok, s2)
			emit(hit, &ssa.Jump{})
			hit.Succs = []*ssa.BasicBlock{post}
			post.Preds = append(post.Preds, hit)
			cur = next
		}
		emit(cur, &ssa.Jump{})
		cur.Succs = []*ssa.BasicBlock{post}
		post.Preds = append(post.Preds, cur)
		// the results of the lookup
		if lk.CommaOk {
			for _, r := range append([]ssa.Instruction(nil), *lk.Referrers()...) {
				ex, isEx := r.(*ssa.Extract)
				if !isEx {
					continue
				}
				if ex.Index == 0 {
					replaceUses(ex, ldv)
				} else {
					replaceUses(ex, ldok)
				}
				removeInstr(ex)
			}
		} else {
			replaceUses(lk, ldv)
		}
		for _, r := range append([]ssa.Instruction(nil), *lk.Referrers()...) {
			if _, isDbg := r.(*ssa.DebugRef); isDbg {
				removeInstr(r)
			}
		}
		delRef(lk.X, lk)
		delRef(lk.Index, lk)
		in.touched[f] = true
		in.tables++
		did = true
		in.finish(f)
		delete(in.touched, f)
		if in.ever == nil {
			in.ever = map[*ssa.Function]bool{}
		}
		in.ever[f] = true
		if in.splitFuncStructs(f) {
			in.forwardFuncCopies(f)
			in.finish(f)
			delete(in.touched, f)
		}
		// the ways out of the chain meet again: there the calls through the variable are made direct
		for k := 0; k < 12; k++ {
			again := false
			for _, mb := range append([]*ssa.BasicBlock(nil), f.Blocks...) {
				if len(mb.Preds) >= 2 && in.devirtPerPred(f, mb) {
					in.touched[f] = true
					again = true
					break
				}
			}
			if in.touched[f] {
				in.finish(f)
				delete(in.touched, f)
			}
			if !again {
				break
			}
		}
		if in.touched[f] {
			in.finish(f)
			delete(in.touched, f)
		}
		// the functions of the table are literals of the package initialiser: called directly now,
		// they are inlined like any other literal called where it is known
		in.process(f)
		if in.touched[f] {
			in.finish(f)
			delete(in.touched, f)
		}
	}
	return did
}

var globalFieldCache = map[*ssa.Global]map[int]*ssa.Function{}

// globalFuncField: field `field` of the package-level struct variable g holds, for the whole
// life of the program, one function literal without free variables: the package initialiser
// stores it there, and no other instruction of the package writes g, one of its fields, or
// takes its address.
func globalFuncField(g *ssa.Global, field int) *ssa.Function {
	if m, ok := globalFieldCache[g]; ok {
		return m[field]
	}
	m := map[int]*ssa.Function{}
	globalFieldCache[g] = m
	if g.Pkg == nil {
		return nil
	}
	if g.Object() != nil && g.Object().Exported() {
		return nil // another package may write it
	}
	bad := false
	count := map[int]int{}
	var visit func(f *ssa.Function)
	visit = func(f *ssa.Function) {
		for _, b := range f.Blocks {
			for _, x := range b.Instrs {
				for _, op := range x.Operands(nil) {
					if *op != ssa.Value(g) {
						continue
					}
					switch t := x.(type) {
					case *ssa.UnOp:
						if t.Op != token.MUL {
							bad = true
						}
					case *ssa.FieldAddr:
						for _, r := range *t.Referrers() {
							switch u := r.(type) {
							case *ssa.Store:
								if u.Addr != ssa.Value(t) || f.Name() != "init" || f.Parent() != nil {
									bad = true
									continue
								}
								count[t.Field]++
								if lit, isFn := u.Val.(*ssa.Function); isFn && len(lit.FreeVars) == 0 {
									m[t.Field] = lit
								} else if mc, isMc := u.Val.(*ssa.MakeClosure); isMc && len(mc.Bindings) == 0 {
									if lit, isFn := mc.Fn.(*ssa.Function); isFn {
										m[t.Field] = lit
									}
								} else {
									m[t.Field] = nil
								}
							case *ssa.UnOp:
								if u.Op != token.MUL {
									bad = true
								}
							case *ssa.DebugRef:
							default:
								bad = true
							}
						}
					case *ssa.DebugRef:
					default:
						bad = true // stored as a whole, address passed on, ...
					}
				}
			}
		}
		for _, a := range f.AnonFuncs {
			visit(a)
		}
	}
	for _, mem := range g.Pkg.Members {
		switch t := mem.(type) {
		case *ssa.Function:
			visit(t)
		case *ssa.Type:
			ms := g.Pkg.Prog.MethodSets.MethodSet(t.Type())
			for i := 0; i < ms.Len(); i++ {
				if fn := g.Pkg.Prog.MethodValue(ms.At(i)); fn != nil && fn.Pkg == g.Pkg {
					visit(fn)
				}
			}
			ms = g.Pkg.Prog.MethodSets.MethodSet(types.NewPointer(t.Type()))
			for i := 0; i < ms.Len(); i++ {
				if fn := g.Pkg.Prog.MethodValue(ms.At(i)); fn != nil && fn.Pkg == g.Pkg {
					visit(fn)
				}
			}
		}
	}
	for f, n := range count {
		if n != 1 {
			delete(m, f)
		}
	}
	if bad {
		for f := range m {
			delete(m, f)
		}
	}
	return m[field]
}

// importValue makes a value v of the enclosing function owner (a variable cell,
// a free variable or the receiver bound to a method value) usable inside the
// literal f nested in owner, by adding a free variable bound to it at each
// level. Constants and functions need nothing.
func (in *inliner) importValue(f *ssa.Function, v ssa.Value, owner *ssa.Function) ssa.Value {
	switch v.(type) {
	case *ssa.Const, *ssa.Function, *ssa.Global, *ssa.Builtin:
		return v
	}
	if owner == nil || f == owner {
		return v
	}
	p := f.Parent()
	if p == nil {
		return nil // owner is not an ancestor of f
	}
	inner := in.importValue(p, v, owner)
	if inner == nil {
		return nil
	}
	mc := closureOfLit(f)
	if mc == nil {
		return nil
	}
	for i, b := range mc.Bindings {
		if b == inner && i < len(f.FreeVars) {
			return f.FreeVars[i]
		}
	}
	name := "imported"
	if al, ok := v.(*ssa.Alloc); ok && al.Comment != "" {
		name = al.Comment
	} else if fr, ok := v.(*ssa.FreeVar); ok {
		name = fr.Name()
	}
	fv := ssa.XNewFreeVar(name, inner.Type(), inner.Pos(), f)
	f.FreeVars = append(f.FreeVars, fv)
	mc.Bindings = append(mc.Bindings, inner)
	addRef(inner, mc)
	in.touched[f] = true
	in.touched[p] = true
	return fv
}

// finish prunes unreachable blocks, recomputes derived data and validates.
func (in *inliner) finish(f *ssa.Function) {
	reach := map[*ssa.BasicBlock]bool{}
	var dfs func(b *ssa.BasicBlock)
	dfs = func(b *ssa.BasicBlock) {
		if reach[b] {
			return
		}
		reach[b] = true
		for _, s := range b.Succs {
			dfs(s)
		}
	}
	dfs(f.Blocks[0])
	if f.Recover != nil {
		dfs(f.Recover)
	}
	var live []*ssa.BasicBlock
	for _, b := range f.Blocks {
		if reach[b] {
			live = append(live, b)
			continue
		}
		for _, s := range b.Succs {
			if reach[s] {
				removePred(s, b)
			}
		}
		for _, x := range b.Instrs {
			dropInstr(x)
			if al, ok := x.(*ssa.Alloc); ok {
				for i, l := range f.Locals {
					if l == al {
						f.Locals = append(f.Locals[:i:i], f.Locals[i+1:]...)
						break
					}
				}
			}
		}
	}
	f.Blocks = live
	ssa.XFinish(f)
	var buf bytes.Buffer
	if !ssa.XSanity(f, &buf) {
		msg := buf.String()
		if len(msg) > 600 {
			msg = msg[:600]
		}
		in.errs = append(in.errs, fmt.Sprintf("inliner: %s is not well-formed after inlining: %s", f, msg))
	}
}

func removePred(b, p *ssa.BasicBlock) {
	j := 0
	var phis []*ssa.Phi
	for _, x := range b.Instrs {
		if ph, ok := x.(*ssa.Phi); ok {
			phis = append(phis, ph)
		} else {
			break
		}
	}
	for i, q := range b.Preds {
		if q != p {
			b.Preds[j] = b.Preds[i]
			for _, ph := range phis {
				ph.Edges[j] = ph.Edges[i]
			}
			j++
		} else {
			for _, ph := range phis {
				delRef(ph.Edges[i], ph)
			}
		}
	}
	b.Preds = b.Preds[:j]
	for _, ph := range phis {
		ph.Edges = ph.Edges[:j]
	}
}

// inlineHelpers rewrites the program; it returns the helpers whose every use
// was inlined (they are not analysed on their own) and a description.
func inlineHelpers(tops []*ssa.Function) (dropped map[*ssa.Function]bool, notes []string, errs []string) {
	base := baselineFuncs()
	in := &inliner{cand: map[*ssa.Function]bool{}, touched: map[*ssa.Function]bool{}, sites: map[*ssa.Function]int{},
		skipped: map[*ssa.Function]string{}}
	for _, f := range tops {
		in.unrollLiteralRanges(f)
	}
	for _, f := range tops {
		if f.Synthetic != "" || f.Name() == "init" || base[funcKey(f)] {
			continue
		}
		if why, ok := in.inlinable(f); ok {
			in.cand[f] = true
		} else {
			in.skipped[f] = why
		}
	}
	dropped = map[*ssa.Function]bool{}
	if len(in.cand) == 0 && len(in.skipped) == 0 {
		for _, f := range tops {
			in.tablesToChains(f)
		}
		for _, f := range tops {
			in.threadPhis(f)
		}
		in.finishTouched()
		return dropped, nil, in.errs
	}
	// helper call graph: callees first; recursive helpers stay calls
	callees := func(f *ssa.Function) []*ssa.Function {
		var out []*ssa.Function
		eachInstrDeep(f, func(_ *ssa.Function, x ssa.Instruction) {
			if cc := callCommon(x); cc != nil {
				if g := staticCallee(cc); g != nil && in.cand[g] {
					out = append(out, g)
				}
			}
		})
		return out
	}
	state := map[*ssa.Function]int{}
	var order []*ssa.Function
	var cyc []*ssa.Function
	var visit func(f *ssa.Function)
	visit = func(f *ssa.Function) {
		state[f] = 1
		for _, g := range callees(f) {
			switch state[g] {
			case 0:
				visit(g)
			case 1:
				cyc = append(cyc, g)
			}
		}
		state[f] = 2
		order = append(order, f)
	}
	var cands []*ssa.Function
	for f := range in.cand {
		cands = append(cands, f)
	}
	sort.Slice(cands, func(i, j int) bool { return cands[i].Pos() < cands[j].Pos() })
	for _, f := range cands {
		if state[f] == 0 {
			visit(f)
		}
	}
	for _, g := range cyc {
		if in.cand[g] {
			delete(in.cand, g)
			in.skipped[g] = "recursive"
		}
	}
	for _, f := range order {
		in.process(f)
		in.finishTouched()
	}
	for _, f := range tops {
		if !in.cand[f] {
			in.process(f)
		}
	}
	in.finishTouched()
	// a helper that answers with a small struct (`type found struct { value reflect.Value; ok bool }`):
	// once inlined, the struct variables it went through are one variable per field
	{
		var fs []*ssa.Function
		for f := range in.ever {
			if len(f.Blocks) > 0 {
				fs = append(fs, f)
			}
		}
		sort.Slice(fs, func(i, j int) bool {
			return fs[i].Pos() < fs[j].Pos() || (fs[i].Pos() == fs[j].Pos() && fs[i].Name() < fs[j].Name())
		})
		for _, f := range fs {
			if in.splitFuncStructs(f) {
				in.structsSplit++
				in.foldFlagBranches(f)
				in.finish(f)
				delete(in.touched, f)
			}
		}
	}
	for _, f := range tops {
		if len(f.Blocks) > 0 {
			in.tablesToChains(f)
		}
	}
	for _, f := range tops {
		in.threadPhis(f)
	}
	in.finishTouched()
	{
		var fs []*ssa.Function
		for f := range in.ever {
			if len(f.Blocks) > 0 {
				fs = append(fs, f)
			}
		}
		sort.Slice(fs, func(i, j int) bool {
			return fs[i].Pos() < fs[j].Pos() || (fs[i].Pos() == fs[j].Pos() && fs[i].Name() < fs[j].Name())
		})
		for _, f := range fs {
			in.flagsUnderGuard(f)
			in.devirtKnown(f)
			in.devirtIfaceMerges(f)
		}
	}

	// a helper is dropped when nothing refers to it any more
	live := map[*ssa.Function]bool{}
	var work []*ssa.Function
	for _, f := range tops {
		if !in.cand[f] || (f.Object() != nil && f.Object().Exported()) {
			live[f] = true
			work = append(work, f)
		}
	}
	for len(work) > 0 {
		f := work[len(work)-1]
		work = work[:len(work)-1]
		eachInstrDeep(f, func(_ *ssa.Function, x ssa.Instruction) {
			if _, isDbg := x.(*ssa.DebugRef); isDbg {
				return
			}
			for _, p := range x.Operands(nil) {
				if g, ok := (*p).(*ssa.Function); ok && in.cand[g] && !live[g] {
					live[g] = true
					work = append(work, g)
				}
			}
		})
	}
	var names []string
	for _, f := range cands {
		if in.cand[f] && !live[f] {
			dropped[f] = true
		}
		if in.cand[f] {
			st := "inlined at"
			names = append(names, fmt.Sprintf("%s (%s %d site(s)%s)", funcKey(f), st, in.sites[f], map[bool]string{true: "", false: ", also analysed on its own"}[dropped[f]]))
		}
	}
	var sk []string
	for f, why := range in.skipped {
		sk = append(sk, fmt.Sprintf("%s (%s)", funcKey(f), why))
	}
	sort.Strings(sk)
	if len(names) > 0 {
		notes = append(notes, "functions not in the baseline, inlined into their callers before analysis: "+strings.Join(names, "; "))
	}
	if len(sk) > 0 {
		notes = append(notes, "functions not in the baseline left as calls: "+strings.Join(sk, "; "))
	}
	if in.regionCopies > 0 {
		notes = append(notes, fmt.Sprintf("%d call(s) through a function variable assigned one known function on each way in: the code from the merge on was copied per way in, each copy calling its function directly", in.regionCopies))
	}
	if in.tables > 0 {
		notes = append(notes, fmt.Sprintf("%d lookup(s) in a package-level table of functions, written by the package initialiser only, replaced by the chain of key tests the table stands for", in.tables))
	}
	if in.devirt > 0 {
		notes = append(notes, fmt.Sprintf("%d call(s) through an interface whose dynamic type is known at the call made direct", in.devirt))
	}
	if in.flagsNamed > 0 {
		notes = append(notes, fmt.Sprintf("%d constant true flag(s) under a test of a flag returned by a module function read as that flag", in.flagsNamed))
	}
	if in.unrolled > 0 {
		notes = append(notes, fmt.Sprintf("%d range loop(s) over a slice literal of a few elements replaced by one copy of the body per element", in.unrolled))
	}
	if in.copyInOut > 0 {
		notes = append(notes, fmt.Sprintf("%d variable(s) of an inlined helper that hold a parameter handed back on every return and stored back by the caller (`v = h(.., v)`) replaced by the caller's variable", in.copyInOut))
	}
	if in.litArgs > 0 {
		notes = append(notes, fmt.Sprintf("%d go/defer statement(s) of a literal with arguments rewritten as a literal capturing fresh variables that hold the arguments", in.litArgs))
	}
	return dropped, notes, in.errs
}

func (in *inliner) finishTouched() {
	var fs []*ssa.Function
	for f := range in.touched {
		fs = append(fs, f)
	}
	sort.Slice(fs, func(i, j int) bool {
		return fs[i].Pos() < fs[j].Pos() || (fs[i].Pos() == fs[j].Pos() && fs[i].Name() < fs[j].Name())
	})
	for _, f := range fs {
		in.finish(f)
		if in.ever == nil {
			in.ever = map[*ssa.Function]bool{}
		}
		in.ever[f] = true
	}
	in.touched = map[*ssa.Function]bool{}
}

// concreteOf: the dynamic type of an interface value that is known where it is used: the value is a
// MakeInterface, or is read from a variable (possibly one captured by a literal) that is assigned exactly
// once, from such a value.
func concreteOf(v ssa.Value, d int) types.Type {
	if d > 6 {
		return nil
	}
	switch t := v.(type) {
	case *ssa.MakeInterface:
		return t.X.Type()
	case *ssa.ChangeInterface:
		return concreteOf(t.X, d+1)
	case *ssa.UnOp:
		if t.Op != token.MUL {
			return nil
		}
		switch c := t.X.(type) {
		case *ssa.Alloc:
			var only *ssa.Store
			for _, r := range *c.Referrers() {
				switch u := r.(type) {
				case *ssa.Store:
					if u.Addr != ssa.Value(c) || only != nil {
						return nil
					}
					only = u
				case *ssa.UnOp, *ssa.DebugRef:
				case *ssa.MakeClosure:
					if lit, ok := u.Fn.(*ssa.Function); ok {
						for i, b := range u.Bindings {
							if b == ssa.Value(c) && i < len(lit.FreeVars) && writtenThrough(lit.FreeVars[i], 0) {
								return nil
							}
						}
					}
				default:
					return nil
				}
			}
			if only == nil {
				return nil
			}
			return concreteOf(only.Val, d+1)
		case *ssa.FreeVar:
			lit := c.Parent()
			mc := closureOfLit(lit)
			if mc == nil || writtenThrough(c, 0) {
				return nil
			}
			for i, fv := range lit.FreeVars {
				if fv == c && i < len(mc.Bindings) {
					if al, ok := mc.Bindings[i].(*ssa.Alloc); ok {
						// the captured variable: read it as the owner would
						ld := &ssa.UnOp{Op: token.MUL, X: al}
						return concreteOf(ld, d+1)
					}
				}
			}
		}
	}
	return nil
}

// devirtKnown: 2g. A call through an interface whose dynamic type is known at the call (a helper that
// takes its callee as an interface parameter, inlined at a site that passes a concrete node) is made a
// direct call of that type's method, on the value asserted back to the type.
func (in *inliner) devirtKnown(f *ssa.Function) {
	for _, b := range f.Blocks {
		for idx := 0; idx < len(b.Instrs); idx++ {
			x := b.Instrs[idx]
			cc := callCommon(x)
			if cc == nil || !cc.IsInvoke() {
				continue
			}
			T := concreteOf(cc.Value, 0)
			if T == nil {
				continue
			}
			sel := f.Prog.MethodSets.MethodSet(T).Lookup(cc.Method.Pkg(), cc.Method.Name())
			if sel == nil {
				continue
			}
			m := f.Prog.MethodValue(sel)
			if m == nil || m.Pkg == nil || !strings.HasPrefix(m.Pkg.Pkg.Path(), modPath) || len(m.Blocks) == 0 {
				continue
			}
			ta := &ssa.TypeAssert{X: cc.Value, AssertedType: T}
			ssa.XSetType(ta, T)
			ssa.XSetPos(ta, x.Pos())
			ssa.XSetBlock(ta, b)
			addRef(cc.Value, ta)
			delRef(cc.Value, x)
			b.Instrs = append(b.Instrs[:idx:idx], append([]ssa.Instruction{ta}, b.Instrs[idx:]...)...)
			idx++
			cc.Value = m
			cc.Method = nil
			cc.Args = append([]ssa.Value{ta}, cc.Args...)
			addRef(ta, x)
			in.devirt++
		}
	}
}

// flagsUnderGuard: 2f. A helper that classifies an outcome hands back constants: `if returned { return v,
// nil, true }`. Under the true edge of a test of a flag that a module function returned, the constant
// `true` *is* that flag. It is written back as the flag, so that "the child's flag is passed on" reads the
// same whether the code passes the variable or a constant under a test of it. Only in functions the
// normalisation changed, only the constant true, only under a flag returned by a module function.
func (in *inliner) flagsUnderGuard(f *ssa.Function) {
	moduleFlag := func(c ssa.Value) bool {
		if ld, ok := c.(*ssa.UnOp); ok && ld.Op == token.MUL {
			al, isAl := ld.X.(*ssa.Alloc)
			if !isAl {
				return false
			}
			var only *ssa.Store
			for _, r := range *al.Referrers() {
				switch t := r.(type) {
				case *ssa.Store:
					if t.Addr != ssa.Value(al) || only != nil {
						return false
					}
					only = t
				case *ssa.UnOp, *ssa.DebugRef:
				default:
					return false
				}
			}
			if only == nil {
				return false
			}
			c = only.Val
		}
		ex, ok := c.(*ssa.Extract)
		if !ok {
			return false
		}
		call, ok := ex.Tuple.(*ssa.Call)
		if !ok {
			return false
		}
		g := staticCallee(&call.Call)
		return g != nil && g.Pkg != nil && strings.HasPrefix(g.Pkg.Pkg.Path(), modPath)
	}
	isTrue := func(v ssa.Value) bool {
		k, ok := v.(*ssa.Const)
		if !ok || k.Value == nil || k.Value.Kind() != constant.Bool {
			return false
		}
		return constant.BoolVal(k.Value)
	}
	for _, b := range f.Blocks {
		if len(b.Instrs) == 0 || len(b.Succs) != 2 {
			continue
		}
		iff, ok := b.Instrs[len(b.Instrs)-1].(*ssa.If)
		if !ok || !moduleFlag(iff.Cond) {
			continue
		}
		t := b.Succs[0]
		if t == b.Succs[1] || len(t.Preds) != 1 {
			continue
		}
		for _, d := range f.Blocks {
			if !t.Dominates(d) {
				continue
			}
			for _, x := range d.Instrs {
				switch st := x.(type) {
				case *ssa.Store:
					if isTrue(st.Val) && types.Identical(st.Val.Type(), iff.Cond.Type()) {
						st.Val = iff.Cond
						addRef(iff.Cond, st)
						in.flagsNamed++
					}
				case *ssa.Return:
					for i, r := range st.Results {
						if isTrue(r) && types.Identical(r.Type(), iff.Cond.Type()) {
							st.Results[i] = iff.Cond
							addRef(iff.Cond, st)
							in.flagsNamed++
						}
					}
				}
			}
		}
	}
}

// foldFlagBranches: after result structs were split into their fields, a branch on a field that
// holds the same constant on every way to it, or that the straight line behind it decides, is folded;
// a return site of the helper that several ways lead to is first copied per way in (step 2k).
func (in *inliner) foldFlagBranches(f *ssa.Function) {
	for round := 0; round < 40; round++ {
		changed := false
		for _, b := range append([]*ssa.BasicBlock(nil), f.Blocks...) {
			if len(b.Instrs) == 0 {
				continue
			}
			iff, isIf := b.Instrs[len(b.Instrs)-1].(*ssa.If)
			if !isIf || len(b.Succs) != 2 || b.Succs[0] == b.Succs[1] {
				continue
			}
			// only branches on a variable of the function (a flag), possibly negated
			cond := iff.Cond
			for {
				u, ok := cond.(*ssa.UnOp)
				if !ok || u.Op != token.NOT {
					break
				}
				cond = u.X
			}
			ld, ok := cond.(*ssa.UnOp)
			if !ok || ld.Op != token.MUL {
				continue
			}
			if al, ok := ld.X.(*ssa.Alloc); !ok || al.Heap {
				continue
			}
			n := len(b.Succs)
			foldBranch(b)
			if len(b.Succs) != n {
				changed = true
				continue
			}
			if len(b.Preds) >= 2 {
				before := len(f.Blocks)
				in.splitMergedReturnSite(f, b)
				if len(f.Blocks) != before {
					changed = true
					break
				}
			}
		}
		if !changed {
			break
		}
	}
}
