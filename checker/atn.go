package main

// atn.go — thorough tier of C01-G1: decode the parser's serialized ATN (a constant table in the source).
// Implemented in atn_decode.go when the antlr runtime is vendored; this stub keeps the quick tier independent of it.

func (c *Ctx) ruleATN(rule string) {
	c.ruleATNDecode(rule)
}
