package main

import (
	"fmt"
	"go/token"
	"go/types"
	"sort"
	"strings"

	"golang.org/x/tools/go/ssa"
)

func init() {
	register("C19", runC19, propMeta{
		Explanation: "Lockset analysis (must-hold locks per program point, with fork/join order and ownership) of gengine's own shared state against a guarded-by table that is itself checked for completeness. One obligation per (shared field, accessing function, read/write). Discharged by: the guarding mutex held at the access (GenginePool.freeGengines/runningLock, additionGengines/additionLock, ruleBuilder+clear+execModel/updateLock, DataContext.base/lockBase, the local-variable store/lockVars, Gengine.returnResult contents/Gengine.lock, builder-side Kc writes/buildLock, pool-side Kc writes/updateLock); construction (the object is still private to the function that allocates it); immutability after construction (no store outside the constructor: rbSlice, max, apis, additionNum, RuleBuilder.Dc, gengineWrapper.tag/gengine/addition); ownership between pop and put (gengineWrapper.rulebuilder, Gengine.returnResult field written by the executing goroutine before it forks); fork/join order for variables captured by goroutines (every store inside a goroutine literal to a variable of the enclosing function holds a local mutex; reads by the parent come after Wait — A4 under C05/C13/C18). Completeness: every field of the engine, builder, context and iter packages that is stored to anywhere must appear in the table. Undischarged on today's tree, reported as KNOWN-FINDING and not as holding: reads of gp.clear and gp.execModel by the request path without updateLock (D12b) and the unsynchronised read of the published RuleBuilder.Kc by executions (D12c). (L8) the happens-before obligations of the fork/join rule for every execute method that starts goroutines and for the conc statement: the counter is raised before a goroutine starts, every goroutine counts down exactly once, after its work and as the last thing it does (nothing shared is written, no lock taken after Done()), the shared error list is appended to under its mutex, and the starter passes Wait() before it reads or returns. (L9) a pool instance changes hands through the free list under its lock, which orders the old owner's accesses before the new owner's only if the hand-back is the last thing a request does with the instance: in every pool execute method the request's data is cleared before the wrapper is put back (two deferred calls run in the reverse order of their registration), the wrapper is put back once and by the deferred code only, and the result map is read from the instance before it goes back. (L7) outside the compile step nothing writes into a compiled node, nor into the elements of a slice or the entries of a map held in one of its fields. Not decided: races on host data reached through injected pointers. (L10) no two pool instances share an engine object. (L11) a package-level variable of a product package written after initialisation is accessed under one common mutex, writes exclusively. The two free lists and the slice of rule builders are each a slice made for it: no cell is written under one list's lock and read under the other's. (L12) every engine method starts from a freshly made result map: the map a caller got back is not written by a later request.",
		Assumptions: []string{"Go memory model: mutex, go statement and WaitGroup edges", "host objects are the host's responsibility"},
		Trusted:     commonTrusted,
	})
}

type guardSpec struct {
	guard  string // mutex name, "" if none
	policy string // "lock", "immutable", "owner", "kc"
	note   string
}

var guardedBy = map[string]guardSpec{
	"GenginePool.freeGengines":     {"GenginePool.runningLock", "lock", ""},
	"GenginePool.additionGengines": {"GenginePool.additionLock", "lock", ""},
	"GenginePool.ruleBuilder":      {"GenginePool.updateLock", "lock", ""},
	"GenginePool.clear":            {"GenginePool.updateLock", "lock", ""},
	"GenginePool.execModel":        {"GenginePool.updateLock", "lock", ""},
	"GenginePool.rbSlice":          {"", "immutable", "slice header set once by NewGenginePool"},
	"GenginePool.max":              {"", "immutable", ""},
	"GenginePool.apis":             {"", "immutable", ""},
	"GenginePool.additionNum":      {"", "immutable", ""},
	"RuleBuilder.Kc":               {"", "kc", "writers: updateLock (pool) / buildLock (builder); reads by executions are the known finding"},
	"RuleBuilder.Dc":               {"", "immutable", ""},
	"Gengine.returnResult":         {"", "owner", "field stored by the executing goroutine before it forks; contents under Gengine.lock (M5)"},
	"DataContext.base":             {"DataContext.lockBase", "lock", ""},
	"gengineWrapper.rulebuilder":   {"", "owner", "written by prepare* while the request owns the wrapper"},
	"gengineWrapper.tag":           {"", "immutable", ""},
	"gengineWrapper.gengine":       {"", "immutable", ""},
	"gengineWrapper.addition":      {"", "immutable", ""},
	"Stag.StopTag":                 {"", "host", "host-owned control value"},
	"sliceIter.cur":                {"", "local", "iterator objects are created per forRange evaluation and never shared"},
	"mapIter.cur":                  {"", "local", ""},
	"dmIter.cur":                   {"", "local", ""},
}

var ctorOf = map[string]map[string]bool{
	"GenginePool":    {"NewGenginePool": true},
	"RuleBuilder":    {"NewRuleBuilder": true},
	"Gengine":        {"NewGengine": true},
	"DataContext":    {"NewDataContext": true},
	"gengineWrapper": {"NewGenginePool": true},
	"sliceIter":      {"NewInter": true},
	"mapIter":        {"NewInter": true},
	"dmIter":         {"NewInter": true},
}

func runC19(c *Ctx) {
	const rule = "L1-guarded-by"
	pkgs := map[string]bool{pEngine: true, pBuilder: true, pContext: true, pIter: true}
	type acc struct {
		field, fn, kind string
		ok              bool
		pos             token.Pos
		detail          string
	}
	accs := map[string]*acc{}
	var order []string
	record := func(field, fn, kind string, ok bool, pos token.Pos, detail string) {
		key := field + "@" + fn + "#" + kind
		if a, seen := accs[key]; seen {
			if a.ok && !ok {
				a.ok, a.pos, a.detail = false, pos, detail
			}
			return
		}
		accs[key] = &acc{field, fn, kind, ok, pos, detail}
		order = append(order, key)
	}
	storedFields := map[string]token.Pos{}
	type newAcc struct {
		fn     string
		write  bool
		held   map[string]string
		pos    token.Pos
		atomic bool
	}
	newAccs := map[string][]newAcc{}
	for _, f := range c.AllFns {
		if f.Pkg == nil {
			continue
		}
		x := c.Index(f)
		root := rootOf(f)
		eachInstr(f, func(in ssa.Instruction) {
			fa, ok := in.(*ssa.FieldAddr)
			if !ok {
				return
			}
			nt := namedOf(derefType(fa.X.Type()))
			if nt == nil || nt.Obj().Pkg() == nil || !pkgs[nt.Obj().Pkg().Path()] {
				return
			}
			field := nt.Obj().Name() + "." + fieldOf(fa).Name()
			// classify uses of the address
			isStore, isLoad, isOther := false, false, false
			for _, ref := range *fa.Referrers() {
				switch r := ref.(type) {
				case *ssa.Store:
					if r.Addr == ssa.Value(fa) {
						isStore = true
					} else {
						isOther = true
					}
				case *ssa.UnOp:
					isLoad = true
				case *ssa.DebugRef:
				default:
					isOther = true // address passed on (mutex methods etc.)
				}
			}
			if isSyncType(fieldOf(fa).Type(), "Mutex") || isSyncType(fieldOf(fa).Type(), "RWMutex") {
				return
			}
			_ = isOther
			spec, listed := guardedBy[field]
			// construction: the base object was allocated in this function
			fresh := false
			switch o := x.Origin(fa.X).(type) {
			case *ssa.Alloc:
				fresh = true
			case *ssa.Call:
				if cal := o.Call.StaticCallee(); cal != nil && ctorOf[nt.Obj().Name()][cal.Name()] {
					fresh = true
				}
				if calleeIs(o, pEngine, "", "makeRuleBuilder") {
					fresh = true
				}
			case *ssa.Extract:
				if cl, ok := o.Tuple.(*ssa.Call); ok && calleeIs(cl, pEngine, "", "makeRuleBuilder") {
					fresh = true
				}
			}
			if fresh {
				return
			}
			if isStore {
				if _, seen := storedFields[field]; !seen {
					storedFields[field] = in.Pos()
				}
			}
			fname := fnName(root)
			if f != root {
				fname = fnName(f)
			}
			if !listed {
				// a field the table does not know (added later): its accesses are collected and
				// judged together below (consistent lockset)
				held := map[string]string{}
				for h, k := range x.heldAt(in) {
					held[h] = k
				}
				if f.Parent() == nil && f.Object() != nil && !f.Object().Exported() {
					for _, mu := range c.allMutexNames() {
						if _, has := held[mu]; !has {
							if hold, _ := c.callersHold(f, mu); hold {
								held[mu] = "Lock"
							}
						}
					}
				}
				atomicOnly := !isStore && !isLoad
				for _, ref := range *fa.Referrers() {
					if call, isCall := ref.(*ssa.Call); isCall {
						if cal := call.Call.StaticCallee(); cal == nil || cal.Pkg == nil || cal.Pkg.Pkg.Path() != "sync/atomic" {
							atomicOnly = false
						}
					} else if _, isDbg := ref.(*ssa.DebugRef); !isDbg {
						if _, isSt := ref.(*ssa.Store); !isSt {
							if _, isLd := ref.(*ssa.UnOp); !isLd {
								atomicOnly = false
							}
						}
					}
				}
				if isStore || isLoad || atomicOnly {
					newAccs[field] = append(newAccs[field], newAcc{fname, isStore, held, in.Pos(), atomicOnly})
				}
				return
			}
			for _, kind := range []string{"write", "read"} {
				if (kind == "write" && !isStore) || (kind == "read" && !isLoad) {
					continue
				}
				// the locks held where the field is actually read / written (the address may
				// have been taken earlier, e.g. to hand it to a helper); several accesses
				// through one address: the locks common to all of them
				var held map[string]string
				for _, ref := range *fa.Referrers() {
					var at ssa.Instruction
					switch r := ref.(type) {
					case *ssa.Store:
						if kind == "write" && r.Addr == ssa.Value(fa) {
							at = r
						}
					case *ssa.UnOp:
						if kind == "read" {
							at = r
						}
					}
					if at == nil {
						continue
					}
					h := c.Index(at.Parent()).heldAt(at)
					if held == nil {
						held = map[string]string{}
						for k, v := range h {
							held[k] = v
						}
						continue
					}
					for k, v := range held {
						if hv, ok := h[k]; !ok {
							delete(held, k)
						} else if v == "Lock" && hv != "Lock" {
							held[k] = hv
						}
					}
				}
				if held == nil {
					held = x.heldAt(in)
				}
				switch spec.policy {
				case "lock":
					hk, ok := held[spec.guard]
					if ok && kind == "write" && hk != "Lock" {
						ok = false // a read lock does not protect a write
					}
					if !ok && f.Parent() == nil && f.Object() != nil && !f.Object().Exported() {
						if hold, _ := c.callersHold(f, spec.guard); hold {
							ok = true
						}
					}
					record(field, fname, kind, ok, in.Pos(), fmt.Sprintf("%s of %s with locks held %v; guarded by %s", kind, field, heldNames(held), spec.guard))
				case "immutable":
					if kind == "write" {
						record(field, fname, kind, false, in.Pos(), fmt.Sprintf("%s is treated as immutable after construction (it is read without locks everywhere) but is written here", field))
					} else {
						record(field, fname, kind, true, in.Pos(), "read of a field that is never written after construction")
					}
				case "owner":
					okO := false
					switch field {
					case "Gengine.returnResult":
						// the field itself: stored only by top-level Execute* (before forking), read by addResult/GetRulesResultMap
						if kind == "write" {
							okO = f.Parent() == nil && strings.HasPrefix(f.Name(), "Execute") && recvName(f) == "Gengine"
						} else {
							okO = true
						}
					case "gengineWrapper.rulebuilder":
						if kind == "write" {
							okO = fname == "GenginePool.prepare" || fname == "GenginePool.prepareWithMultiInput"
						} else {
							okO = true
						}
					}
					record(field, fname, kind, okO, in.Pos(), fmt.Sprintf("%s of %s outside its owner protocol (%s)", kind, field, spec.note))
				case "kc":
					if kind == "write" {
						want := "RuleBuilder.buildLock"
						if f.Pkg.Pkg.Path() == pEngine {
							want = "GenginePool.updateLock"
						}
						_, ok := held[want]
						if !ok && f.Parent() == nil && f.Object() != nil && !f.Object().Exported() {
							if hold, _ := c.callersHold(f, want); hold {
								ok = true
							}
						}
						record(field, fname, kind, ok, in.Pos(), fmt.Sprintf("publication of a rule container with locks held %v (need %s)", heldNames(held), want))
					} else {
						_, a := held["RuleBuilder.buildLock"]
						_, b := held["GenginePool.updateLock"]
						if !a && !b && f.Parent() == nil && f.Object() != nil && !f.Object().Exported() {
							if hold, _ := c.callersHold(f, "GenginePool.updateLock"); hold {
								b = true
							}
						}
						record(field, fname, kind, a || b, in.Pos(), fmt.Sprintf("the published rule container pointer is read with no lock in common with its writers (held: %v): plain, unsynchronised publication", heldNames(held)))
					}
				case "host", "local":
					// not gengine's shared state
				}
			}
		})
	}
	sort.Strings(order)
	for _, k := range order {
		a := accs[k]
		c.Check(rule, k, a.ok, a.pos, "%s", a.detail)
	}
	c.Min(rule, 60)
	// completeness of the table
	var sf []string
	for f := range storedFields {
		sf = append(sf, f)
	}
	sort.Strings(sf)
	for _, f := range sf {
		if _, listed := guardedBy[f]; listed {
			c.Check("L2-table-complete", f, true, storedFields[f], "field %s is in the guarded-by table", f)
			continue
		}
		// a field written outside construction that the table does not list: it must be
		// accessed under one common lock everywhere (writes exclusively), or only through
		// sync/atomic
		accs := newAccs[f]
		common := map[string]bool{}
		first := true
		allAtomic := len(accs) > 0
		for _, a := range accs {
			if !a.atomic {
				allAtomic = false
			}
			cur := map[string]bool{}
			for h, k := range a.held {
				if !a.write || k == "Lock" {
					cur[h] = true
				}
			}
			if first {
				common, first = cur, false
				continue
			}
			for h := range common {
				if !cur[h] {
					delete(common, h)
				}
			}
		}
		var cl []string
		for h := range common {
			cl = append(cl, h)
		}
		sort.Strings(cl)
		ok := allAtomic || len(cl) > 0
		why := ""
		if !ok {
			var parts []string
			for _, a := range accs {
				k := "read"
				if a.write {
					k = "write"
				}
				parts = append(parts, fmt.Sprintf("%s in %s holding %v", k, a.fn, heldNames(a.held)))
			}
			sort.Strings(parts)
			if len(parts) > 6 {
				parts = parts[:6]
			}
			why = strings.Join(parts, "; ")
		}
		c.Check("L2-table-complete", f, ok, storedFields[f], "field %s is written outside construction and is not in the guarded-by table; its accesses must share a lock (found common: %v) or all be atomic: %s", f, cl, why)
	}
	c.Min("L2-table-complete", 6)
	// local-variable store and injected table
	c.ruleStoresLocked("L3-stores-locked")
	// result map contents
	c.ruleM5("L4-result-map-locked")
	// goroutine literals writing variables of the enclosing function
	n := 0
	for _, f := range c.AllFns {
		if f.Parent() != nil {
			continue
		}
		x := c.Index(f)
		var walk func(g *ssa.Function, inGo bool)
		walk = func(g *ssa.Function, inGo bool) {
			eachInstr(g, func(in ssa.Instruction) {
				if inGo {
					if st, ok := in.(*ssa.Store); ok {
						if al, ok := x.ResolveAddr(st.Addr).(*ssa.Alloc); ok && al.Parent() != g && st.Addr != ssa.Value(al) {
							n++
							held := x.heldAt(in)
							locked := false
							for h := range held {
								if strings.HasPrefix(h, "local:") {
									locked = true
								}
							}
							c.Check("L5-captured-writes-locked", fmt.Sprintf("%s#%s", fnName(g), al.Comment), locked, in.Pos(), "a goroutine writes variable %s of the enclosing function with locks held %v (need a local mutex)", al.Comment, heldNames(held))
						}
					}
				}
				if gs, ok := in.(*ssa.Go); ok {
					if lit := closureOfGo(gs); lit != nil {
						walk(lit, true)
					}
				} else if mc, ok := in.(*ssa.MakeClosure); ok {
					if lit, ok := mc.Fn.(*ssa.Function); ok {
						isGo := false
						for _, ref := range *mc.Referrers() {
							if _, ok := ref.(*ssa.Go); ok {
								isGo = true
							}
						}
						if !isGo {
							walk(lit, inGo)
						}
					}
				}
			})
		}
		walk(f, false)
	}
	// L6: a variable of the enclosing function that a goroutine reads is not written by the
	// starter while that goroutine may still run: no path from the go statement to a store of
	// the variable that avoids both the join (Wait) and a re-allocation of the variable (a
	// per-iteration copy is a new variable each time; a loop variable declared outside the
	// loop is not — under the module's go 1.13 semantics every iteration overwrites it)
	n6 := 0
	for _, f := range c.AllFns {
		if f.Pkg == nil || f.Pkg.Pkg.Path() == pParser {
			continue
		}
		x := c.Index(f)
		gi := 0
		eachInstr(f, func(in ssa.Instruction) {
			g, ok := in.(*ssa.Go)
			if !ok {
				return
			}
			gi++
			lit := closureOfGo(g)
			mc, _ := g.Call.Value.(*ssa.MakeClosure)
			if lit == nil || mc == nil {
				return
			}
			for i, b := range mc.Bindings {
				al, isAl := b.(*ssa.Alloc)
				if !isAl || i >= len(lit.FreeVars) {
					continue
				}
				if isSyncType(al.Type().(*types.Pointer).Elem(), "Mutex") || isSyncType(al.Type().(*types.Pointer).Elem(), "RWMutex") || isSyncType(al.Type().(*types.Pointer).Elem(), "WaitGroup") {
					continue
				}
				reads := false
				var walk func(fv ssa.Value, d int)
				walk = func(fv ssa.Value, d int) {
					if d > 4 {
						return
					}
					for _, r := range *fv.Referrers() {
						switch t := r.(type) {
						case *ssa.UnOp:
							reads = true
						case *ssa.MakeClosure:
							if l2, ok := t.Fn.(*ssa.Function); ok {
								for k, b2 := range t.Bindings {
									if b2 == fv && k < len(l2.FreeVars) {
										walk(l2.FreeVars[k], d+1)
									}
								}
							}
						}
					}
				}
				walk(lit.FreeVars[i], 0)
				if !reads {
					continue
				}
				n6++
				var racy *ssa.Store
				for _, st := range x.stores[al] {
					if st.Parent() != f {
						continue
					}
					if _, reach := pathExists(f, g, func(i2 ssa.Instruction) bool { return i2 == ssa.Instruction(st) }, func(i2 ssa.Instruction) bool {
						if i2 == ssa.Instruction(al) {
							return true
						}
						if _, m, _, isSync := syncCall(i2); isSync && m == "Wait" {
							return true
						}
						// a channel operation of the starter may order it against the goroutine
						switch t := i2.(type) {
						case *ssa.Send, *ssa.Select:
							return true
						case *ssa.UnOp:
							return t.Op == token.ARROW
						}
						return false
					}); reach {
						racy = st
					}
				}
				key := fmt.Sprintf("%s#go%d/%s", fnName(f), gi, al.Comment)
				pos := g.Pos()
				if racy != nil {
					pos = racy.Pos()
				}
				c.Check("L6-goroutine-reads-stable", key, racy == nil, pos, "the goroutine started here reads variable %s of its starter, which the starter overwrites while the goroutine may still be running (no join and no fresh copy in between): a data race", al.Comment)
			}
		})
	}
	c.Min("L6-goroutine-reads-stable", 20)
	// L7: the published rule set is read by running executions without any lock; that is free
	// of races only because nothing writes into a container (its map, list, index, and the
	// memory behind the list) once it may be published (the argument of C07-U2)
	c.ruleU2("L7-published-rule-set-immutable")
	c.Min("L7-published-rule-set-immutable", 20)
	// L8: what a goroutine writes is read by its starter only after the join. The join orders the two
	// only if the counter is raised before the goroutine starts, every goroutine counts down exactly
	// once, after its work and as the last thing it does, and the starter passes Wait before it
	// reads: the happens-before obligations of the fork/join rule (not its one-worker shapes).
	hb := map[string]bool{"add": true, "add-before": true, "barrier": true, "count": true, "done": true, "done-after-work": true,
		"done-last": true, "done-once": true, "errlist-locked": true, "scope": true, "wait": true, "literal": true}
	c.only = func(key string) bool { return hb[key[strings.LastIndex(key, "/")+1:]] }
	for _, fn := range c.engineExecFns() {
		if m := c.engModel(fn); len(m.gos) > 0 {
			c.ruleA4("L8-joined-before-read", fn, isRuleExec, m.errList())
		}
	}
	if cf := c.Fn("internal/base", "ConcStatement", "Evaluate"); cf != nil {
		c.ruleA4("L8-joined-before-read", cf, isBaseEvaluate, c.engModel(cf).errList())
	}
	c.only = nil
	c.Min("L8-joined-before-read", 100)
	// L9: between requests an instance changes hands through the free list under its lock; that orders
	// the old owner's accesses before the new owner's only if the hand-back is the last thing the old
	// owner does with the instance: the data is cleared before the put (two defers run in reverse
	// order of registration), the put happens once and in the deferred code only, and the result map
	// is read from the instance before it goes back
	// the map a request got back is its own: every engine method starts from a freshly made result map
	// (C11-M1) -- a map emptied and used again is written by the next request while the caller of the
	// last one still reads it
	c.ruleM1("L12-result-map-made-per-execution", c.engineExecFns())
	c.Min("L12-result-map-made-per-execution", 21)
	c.ruleLifecycle("L9-nothing-touched-after-hand-back", map[string]bool{"acquire": true, "clear-before-put": true, "puts-own-wrapper": true,
		"engine-call1-own-result": true, "engine-call2-own-result": true, "engine-call3-own-result": true, "engine-call4-own-result": true})
	c.Min("L9-nothing-touched-after-hand-back", 60)
	// ownership of an instance covers its engine object (the result map field is written without a lock by
	// the request that owns the instance) only if no two instances share one
	c.only = func(key string) bool {
		return key == "NewGenginePool#own-engine-per-instance" || key == "NewGenginePool#lists-own-their-memory"
	}
	c.ruleConstruction("L10-one-engine-per-instance")
	c.only = nil
	c.Min("L10-one-engine-per-instance", 2)
	// L11: package-level state. A variable of a product package that is written after package initialisation
	// (a cache, a counter, a copy-on-write table) is shared by every engine, context and pool instance of the
	// process: all its accesses outside the initialiser must hold one common mutex, a write exclusively
	// ("published tables are never edited, so reads take no lock" is a data race on the variable itself)
	looked := 0
	for _, pp := range productPkgs {
		sp := c.SSA[pp]
		if sp == nil {
			continue
		}
		var names []string
		for name, m := range sp.Members {
			if _, isG := m.(*ssa.Global); isG {
				names = append(names, name)
			}
		}
		sort.Strings(names)
		for _, name := range names {
			g := sp.Members[name].(*ssa.Global)
			if nt, ok := g.Type().(*types.Pointer).Elem().(*types.Named); ok && nt.Obj().Pkg() != nil && nt.Obj().Pkg().Path() == "sync" {
				continue
			}
			looked++
			type gacc struct {
				in    ssa.Instruction
				write bool
			}
			var accs []gacc
			for _, f := range c.AllFns {
				if f.Pkg != sp || f.Name() == "init" || rootOf(f).Name() == "init" {
					continue
				}
				eachInstr(f, func(in ssa.Instruction) {
					switch t := in.(type) {
					case *ssa.Store:
						if t.Addr == ssa.Value(g) {
							accs = append(accs, gacc{in, true})
						}
					case *ssa.UnOp:
						if t.Op == token.MUL && t.X == ssa.Value(g) {
							w := false
							for _, r := range *t.Referrers() {
								switch u := r.(type) {
								case *ssa.MapUpdate:
									w = w || u.Map == ssa.Value(t)
								case *ssa.IndexAddr:
									for _, r2 := range *u.Referrers() {
										if st, isSt := r2.(*ssa.Store); isSt && st.Addr == ssa.Value(u) {
											w = true
										}
									}
								}
							}
							accs = append(accs, gacc{in, w})
						}
					}
				})
			}
			written := false
			for _, a := range accs {
				written = written || a.write
			}
			if !written {
				continue
			}
			var common map[string]string
			var badAt ssa.Instruction
			for _, a := range accs {
				held := c.Index(a.in.Parent()).heldAt(a.in)
				cur := map[string]string{}
				for m, k := range held {
					if !a.write || k == "Lock" {
						cur[m] = k
					}
				}
				if common == nil {
					common = cur
				} else {
					for m := range common {
						if _, ok := cur[m]; !ok {
							delete(common, m)
						}
					}
				}
				if len(cur) == 0 && badAt == nil {
					badAt = a.in
				}
			}
			pos := g.Pos()
			if badAt != nil {
				pos = badAt.Pos()
			}
			c.Check("L11-package-state-locked", pp+"."+name, len(common) > 0, pos, "package-level variable %s is written after initialisation and its %d access(es) outside the initialiser hold no common mutex (%d unlocked): it is shared by every engine and pool instance of the process", name, len(accs), map[bool]int{true: 1, false: 0}[badAt != nil])
		}
	}
	c.Check("L11-package-state-locked", "package-variables-looked-at", looked >= 5, 0, "%d package-level variables of the product packages examined", looked)
	if n == 0 {
		c.Lost("L5-captured-writes-locked", "stores to captured variables inside goroutines")
	}
	c.Min("L5-captured-writes-locked", 16)
}

// allMutexNames lists the mutex fields of the product's struct types ("Type.field").
func (c *Ctx) allMutexNames() []string {
	if v, ok := c.extra["mutexNames"].([]string); ok {
		return v
	}
	var out []string
	for _, pp := range productPkgs {
		sp := c.SSA[pp]
		if sp == nil {
			continue
		}
		for _, m := range sp.Members {
			t, ok := m.(*ssa.Type)
			if !ok {
				continue
			}
			st, ok := t.Type().Underlying().(*types.Struct)
			if !ok {
				continue
			}
			for i := 0; i < st.NumFields(); i++ {
				if isSyncType(st.Field(i).Type(), "Mutex") || isSyncType(st.Field(i).Type(), "RWMutex") {
					out = append(out, t.Name()+"."+st.Field(i).Name())
				}
			}
		}
	}
	sort.Strings(out)
	c.extra["mutexNames"] = out
	return out
}
