package main

import (
	"fmt"
	"go/types"
	"sort"
	"strings"

	"golang.org/x/tools/go/ssa"
)

func init() {
	register("C20", runC20, propMeta{
		Explanation: "Decides the provenance of every cited source position and that the listed fault classes cannot fail without one: (L1) every AST node type whose methods read SourceCode.LineNum has, in the listener's exit handler for its grammar rule, stores of LineNum, Column and Code on the node just popped; (L2) the stored line is ctx.GetStart().GetLine() and the column ctx.GetStart().GetColumn() of the handler's own parse context, the code ctx.GetText(), with no arithmetic, not GetStop() and not another context; the three compile pipelines feed the complete text to one input stream (C10-K1), so ANTLR's 1-based token line is relative to the whole text; (L3) every error created in an evaluator of a citing node type (errors.New / fmt.Errorf, including the recover literals) is formatted `line %d, column...` with the receiver's own LineNum and Column as its first two arguments — one named exception: the unreachable fall-through of ExpressionAtom.Evaluate; (L4) citing closure, greatest fixpoint over the evaluator call graph: every non-nil error returned by Assignment, FunctionCall, MethodCall, ThreeLevelCall, MathExpression and Expression evaluation is created there with the receiver's position, or passed on unchanged from a callee that itself always cites; errors of DataContext and core functions, which carry no position, must therefore be wrapped. Not decided: the wording of messages; ANTLR's own line counting (trusted to be 1-based).",
		Assumptions: []string{"antlr Token.GetLine is 1-based and counts from the start of the input stream"},
		Trusted:     commonTrusted,
	})
}

// sourceCodeOwner: for a FieldAddr of SourceCode.<f>, the node type embedding it and the node value.
func sourceCodeField(v ssa.Value) (node ssa.Value, typ string, field string, ok bool) {
	fa, isFA := v.(*ssa.FieldAddr)
	if !isFA {
		return
	}
	fv := fieldOf(fa)
	if fv == nil || structName(fa.X.Type()) != "SourceCode" {
		return
	}
	inner, isFA2 := fa.X.(*ssa.FieldAddr)
	if !isFA2 || fieldOf(inner) == nil || !fieldOf(inner).Embedded() {
		return
	}
	return inner.X, structName(inner.X.Type()), fv.Name(), true
}

// positionedFormat: the call is fmt.Sprintf/Errorf with a format starting "line %d, column" whose first two variadic arguments are LineNum and Column of `recv`.
func (x *FnIndex) positionedFormat(call *ssa.Call, recv ssa.Value) bool {
	cal := call.Call.StaticCallee()
	if cal == nil || cal.Pkg == nil || cal.Pkg.Pkg.Path() != "fmt" || (cal.Name() != "Sprintf" && cal.Name() != "Errorf") {
		return false
	}
	f, ok := constString(call.Call.Args[0])
	if !ok || !strings.HasPrefix(f, "line %d, column") {
		return false
	}
	args := x.variadicElems(call.Call.Args[1])
	if len(args) < 2 {
		return false
	}
	for i, want := range []string{"LineNum", "Column"} {
		a := x.Unwrap(args[i])
		u, ok := a.(*ssa.UnOp)
		if !ok {
			return false
		}
		node, _, field, ok := sourceCodeField(u.X)
		if !ok || field != want || x.Origin(node) != recv {
			return false
		}
	}
	return true
}

// errorIsPositioned: v is errors.New(Sprintf(positioned)) or fmt.Errorf(positioned).
func (x *FnIndex) errorIsPositioned(v ssa.Value, recv ssa.Value) bool {
	call, ok := x.Origin(v).(*ssa.Call)
	if !ok {
		return false
	}
	if fnIs(call.Call.StaticCallee(), "fmt", "", "Errorf") {
		return x.positionedFormat(call, recv)
	}
	if fnIs(call.Call.StaticCallee(), "errors", "", "New") {
		// the message: Sprintf(...) possibly passed through strings.ReplaceAll (recover literals)
		arg := x.Origin(call.Call.Args[0])
		for i := 0; i < 4; i++ {
			inner, ok := arg.(*ssa.Call)
			if !ok {
				return false
			}
			if x.positionedFormat(inner, recv) {
				return true
			}
			if fnIs(inner.Call.StaticCallee(), "strings", "", "ReplaceAll") {
				arg = x.Origin(inner.Call.Args[0])
				continue
			}
			return false
		}
	}
	return false
}

func runC20(c *Ctx) {
	// citing node types: read LineNum
	citing := map[string]bool{}
	for _, f := range c.AllFns {
		if f.Pkg == nil || f.Pkg.Pkg.Path() != pBase {
			continue
		}
		eachInstr(f, func(in ssa.Instruction) {
			if u, ok := in.(*ssa.UnOp); ok {
				if _, typ, field, ok := sourceCodeField(u.X); ok && field == "LineNum" {
					citing[typ] = true
				}
			}
		})
	}
	var cts []string
	for t := range citing {
		cts = append(cts, t)
	}
	sort.Strings(cts)
	c.Note("citing node types: %v", cts)
	if len(cts) < 8 {
		c.Lost("L1-citing-nodes-populated", "the node types that cite a position (expected at least 8)")
	}
	// L1 + L2: listener stores
	type posStore struct {
		handler *ssa.Function
		ok      bool
		why     string
	}
	stores := map[string]map[string]posStore{}
	for _, f := range c.Methods("internal/iparser", "GengineParserListener") {
		if !strings.HasPrefix(f.Name(), "Exit") && !strings.HasPrefix(f.Name(), "Enter") {
			continue
		}
		x := c.Index(f)
		var ctx *ssa.Parameter
		if len(f.Params) >= 2 {
			ctx = f.Params[1]
		}
		eachInstr(f, func(in ssa.Instruction) {
			st, ok := in.(*ssa.Store)
			if !ok {
				return
			}
			// a whole SourceCode struct copied onto a node: the position then comes from another node, not from a parse context
			if fa, isFA := st.Addr.(*ssa.FieldAddr); isFA && fieldOf(fa) != nil && fieldOf(fa).Embedded() && structName(fa.Type()) == "SourceCode" {
				typ := structName(fa.X.Type())
				if stores[typ] == nil {
					stores[typ] = map[string]posStore{}
				}
				for _, fld := range []string{"LineNum", "Column", "Code"} {
					stores[typ][fld] = posStore{handler: f, ok: false, why: "a whole SourceCode is copied onto a " + typ + " node from another node: its errors would cite that other construct's position"}
				}
				return
			}
			node, typ, field, ok := sourceCodeField(st.Addr)
			if !ok {
				return
			}
			// node: the value popped in this handler
			popped := false
			if ta, isTA := x.Origin(node).(*ssa.TypeAssert); isTA {
				if call, isCall := x.Origin(ta.X).(*ssa.Call); isCall && call.Call.StaticCallee() != nil && call.Call.StaticCallee().Name() == "Pop" {
					popped = true
				}
			}
			ps := posStore{handler: f, ok: true}
			if !popped {
				ps.ok, ps.why = false, "the position is stored on something other than the node this handler pops"
			}
			// value provenance
			val := x.Origin(st.Val)
			wantTok := map[string]string{"LineNum": "GetLine", "Column": "GetColumn"}
			switch field {
			case "LineNum", "Column":
				call, isCall := val.(*ssa.Call)
				if !isCall || !call.Call.IsInvoke() || call.Call.Method.Name() != wantTok[field] {
					ps.ok, ps.why = false, fmt.Sprintf("%s is %s, not ctx.GetStart().%s()", field, x.Describe(val), wantTok[field])
					break
				}
				tok, isCall2 := x.Origin(call.Call.Value).(*ssa.Call)
				if !isCall2 || tok.Call.StaticCallee() == nil || tok.Call.StaticCallee().Name() != "GetStart" {
					name := "?"
					if isCall2 && tok.Call.StaticCallee() != nil {
						name = tok.Call.StaticCallee().Name()
					}
					ps.ok, ps.why = false, fmt.Sprintf("%s is taken from %s(), not from GetStart()", field, name)
					break
				}
				if ctx == nil || x.recognizerOf(tok.Call.Args[0]) != ssa.Value(ctx) {
					ps.ok, ps.why = false, field+" is taken from another parse context than the handler's own"
				}
			case "Code":
				call, isCall := val.(*ssa.Call)
				if !isCall || call.Call.StaticCallee() == nil || call.Call.StaticCallee().Name() != "GetText" || ctx == nil || x.recognizerOf(call.Call.Args[0]) != ssa.Value(ctx) {
					ps.ok, ps.why = false, "Code is not ctx.GetText() of the handler's own context"
				}
			default:
				return
			}
			if stores[typ] == nil {
				stores[typ] = map[string]posStore{}
			}
			if old, seen := stores[typ][field]; !seen || (old.ok && !ps.ok) {
				stores[typ][field] = ps
			}
		})
	}
	for _, t := range cts {
		for _, field := range []string{"LineNum", "Column", "Code"} {
			ps, ok := stores[t][field]
			key := t + "." + field
			if !ok {
				c.Check("L1-citing-nodes-populated", key, false, 0, "%s cites its position in errors but no listener handler ever stores %s: every such error reads `line 0`", t, field)
				continue
			}
			c.Check("L1-citing-nodes-populated", key, true, ps.handler.Pos(), "stored by %s", ps.handler.Name())
			c.Check("L2-start-of-own-context", key, ps.ok, ps.handler.Pos(), "%s", orStr(ps.why, "ctx.GetStart()/GetText() of the handler's own context, no arithmetic"))
		}
	}
	// nodes that are populated but not citing are fine; check L2 for them too (a wrong value would surface once they cite)
	var others []string
	for t := range stores {
		if !citing[t] {
			others = append(others, t)
		}
	}
	sort.Strings(others)
	for _, t := range others {
		for _, field := range []string{"LineNum", "Column"} {
			if ps, ok := stores[t][field]; ok {
				c.Check("L2-start-of-own-context", t+"."+field, ps.ok, ps.handler.Pos(), "%s", orStr(ps.why, "ok"))
			}
		}
	}
	// the node that carries a construct's position is the node the parent receives: a handler
	// that hands on some other node (one built for another occurrence of the same text) makes
	// the construct cite that other place
	c.ruleListenerAttach("L2-own-node-handed-on")
	c.ruleWholeText("L2-whole-text")
	c.Min("L2-whole-text", 3)
	c.Min("L1-citing-nodes-populated", 24)
	c.Min("L2-start-of-own-context", 24)

	// L3: errors created in evaluators of citing nodes
	exceptions := map[string]string{
		"ExpressionAtom.Evaluate": "final fall-through `ExpressionAtom Evaluate error!`: unreachable, the grammar's expressionAtom always has exactly one alternative and each sets one field (C10-K4)",
	}
	usedExc := map[string]bool{}
	nCreated := 0
	for _, f := range c.AllFns {
		if f.Pkg == nil || f.Pkg.Pkg.Path() != pBase {
			continue
		}
		root := rootOf(f)
		if !citing[recvName(root)] || !(root.Name() == "Evaluate") {
			continue
		}
		x := c.Index(f)
		recv := ssa.Value(root.Params[0])
		k := 0
		eachInstr(f, func(in ssa.Instruction) {
			call, ok := in.(*ssa.Call)
			if !ok || !(fnIs(call.Call.StaticCallee(), "errors", "", "New") || fnIs(call.Call.StaticCallee(), "fmt", "", "Errorf")) {
				return
			}
			nCreated++
			k++
			key := fmt.Sprintf("%s#error%d", fnName(f), k)
			ok = x.errorIsPositioned(call, recv)
			if !ok {
				if why, isExc := exceptions[fnName(root)]; isExc && !usedExc[fnName(root)] {
					if s, isS := constString(call.Call.Args[0]); isS && !strings.Contains(s, "%") {
						usedExc[fnName(root)] = true
						c.Check("L3-created-errors-cite", key, true, in.Pos(), "named exception: %s", why)
						return
					}
				}
			}
			c.Check("L3-created-errors-cite", key, ok, in.Pos(), "an error created in the evaluator of %s must start with `line %%d, column` of the receiver's own LineNum and Column", recvName(root))
		})
	}
	c.Min("L3-created-errors-cite", 20)

	// L4: citing closure
	type evalFn struct {
		f *ssa.Function
	}
	var evs []*ssa.Function
	for _, f := range c.AllFns {
		if f.Parent() != nil || f.Pkg == nil || f.Pkg.Pkg.Path() != pBase {
			continue
		}
		rs := f.Signature.Results()
		for i := 0; i < rs.Len(); i++ {
			if isErrorType(rs.At(i).Type()) {
				evs = append(evs, f)
				break
			}
		}
	}
	cites := map[*ssa.Function]bool{}
	reason := map[*ssa.Function]string{}
	for _, f := range evs {
		cites[f] = true
	}
	errIdx := func(f *ssa.Function) int {
		rs := f.Signature.Results()
		for i := 0; i < rs.Len(); i++ {
			if isErrorType(rs.At(i).Type()) {
				return i
			}
		}
		return -1
	}
	changed := true
	for iter := 0; changed && iter < 20; iter++ {
		changed = false
		for _, f := range evs {
			if !cites[f] {
				continue
			}
			x := c.Index(f)
			var recv ssa.Value
			if len(f.Params) > 0 {
				recv = f.Params[0]
			}
			ei := errIdx(f)
			bad := ""
			eachInstr(f, func(in ssa.Instruction) {
				r, ok := in.(*ssa.Return)
				if !ok || ei >= len(r.Results) || bad != "" {
					return
				}
				for _, pv := range x.PossibleValues(r.Results[ei]) {
					v := pv.V
					if v == nil || isConstNil(v) {
						continue
					}
					if x.knownNil(v, r.Block()) || x.nilOnAllPaths(pv, r) {
						continue
					}
					if isNewError(v) {
						if x.errorIsPositioned(v, recv) {
							continue
						}
						if _, isExc := exceptions[fnName(f)]; isExc {
							if call := v.(*ssa.Call); true {
								if s, isS := constString(call.Call.Args[0]); isS && !strings.Contains(s, "%") {
									continue
								}
							}
						}
						bad = "creates an error without its position at " + c.pos(v.Pos())
						return
					}
					if ex, isEx := v.(*ssa.Extract); isEx {
						if call, isCall := ex.Tuple.(*ssa.Call); isCall {
							g := call.Call.StaticCallee()
							if g != nil && cites[g] {
								continue
							}
							name := "a dynamic call"
							if g != nil {
								name = fnName(g)
								if g.Pkg != nil {
									name = g.Pkg.Pkg.Name() + "." + name
								}
							}
							bad = "passes on unwrapped an error of " + name + ", which does not always carry a position (" + c.pos(r.Pos()) + ")"
							return
						}
					}
					if g, isG := v.(*ssa.UnOp); isG {
						if gl, isGl := g.X.(*ssa.Global); isGl && (gl.Name() == "BREAKFLAG" || gl.Name() == "CONTINUEFLAG") {
							continue
						}
					}
					if call, isCall := v.(*ssa.Call); isCall {
						if g := call.Call.StaticCallee(); g != nil && cites[g] {
							continue
						}
					}
					bad = "returns the error " + x.Describe(v) + " whose origin is not a positioned error (" + c.pos(r.Pos()) + ")"
					return
				}
			})
			if bad != "" {
				cites[f] = false
				reason[f] = bad
				changed = true
			}
		}
	}
	for _, spec := range [][2]string{{"Assignment", "Evaluate"}, {"FunctionCall", "Evaluate"}, {"MethodCall", "Evaluate"}, {"ThreeLevelCall", "Evaluate"}, {"MathExpression", "Evaluate"}, {"Expression", "Evaluate"}} {
		f := c.MustFn("L4-always-cites", "internal/base", spec[0], spec[1])
		if f == nil {
			continue
		}
		c.Check("L4-always-cites", fnName(f), cites[f], f.Pos(), "%s", orStr(reason[f], "every error it returns was created with a position or comes unchanged from an evaluator that always cites"))
	}
	// report the rest of the closure for the evidence
	var rest []string
	for _, f := range evs {
		if cites[f] {
			rest = append(rest, fnName(f))
		}
	}
	sort.Strings(rest)
	c.extra["always_citing_evaluators"] = rest
	c.Min("L4-always-cites", 6)
	// an arithmetic fault cites a position because every + - * / is computed by the core
	// function of that operator, whose error the evaluator wraps with its own position; an
	// operation computed in place (a raw integer division panics on zero) would surface
	// through some recover with another position or none
	c.ruleE1("L4-arithmetic-through-core")
	_ = types.Typ
}

// ruleWholeText: every function that creates a lexer feeds it an input stream over its complete text parameter.
func (c *Ctx) ruleWholeText(rule string) {
	n := 0
	for _, f := range c.AllFns {
		if f.Pkg == nil || f.Pkg.Pkg.Path() == pParser || f.Parent() != nil {
			continue
		}
		x := c.Index(f)
		eachInstr(f, func(in ssa.Instruction) {
			lexer, ok := in.(*ssa.Call)
			if !ok || !calleeIs(lexer, pParser, "", "NewgengineLexer") {
				return
			}
			n++
			input, _ := x.Unwrap(lexer.Call.Args[0]).(*ssa.Call)
			okT := false
			if input != nil && input.Call.StaticCallee() != nil && input.Call.StaticCallee().Name() == "NewInputStream" {
				_, okT = x.Origin(input.Call.Args[0]).(*ssa.Parameter)
			}
			c.Check(rule, fnName(f), okT, in.Pos(), "the lexer must read an input stream over the complete, unmodified text given to the entry point: cited lines are relative to it")
		})
	}
	if n == 0 {
		c.Lost(rule, "functions creating a lexer")
	}
}
