package main

import (
	"fmt"
	"go/token"
	"go/types"
	"sort"
	"strings"

	"golang.org/x/tools/go/ssa"
)

func init() {
	register("C20", runC20, propMeta{
		Explanation: "Decides the provenance of every cited source position and that the listed fault classes cannot fail without one: (L1) every AST node type whose methods read SourceCode.LineNum has, in the listener's exit handler for its grammar rule, stores of LineNum, Column and Code on the node just popped; (L2) the stored line is ctx.GetStart().GetLine() and the column ctx.GetStart().GetColumn() of the handler's own parse context, the code ctx.GetText(), with no arithmetic, not GetStop() and not another context; the three compile pipelines feed the complete text to one input stream (C10-K1), so ANTLR's 1-based token line is relative to the whole text; (L3) every error created in an evaluator of a citing node type (errors.New / fmt.Errorf, including the recover literals) is formatted `line %d, column...` with the receiver's own LineNum and Column as its first two arguments — one named exception: the unreachable fall-through of ExpressionAtom.Evaluate; (L4) citing closure, greatest fixpoint over the evaluator call graph: every non-nil error returned by Assignment, FunctionCall, MethodCall, ThreeLevelCall, MathExpression and Expression evaluation is created there with the receiver's position, or passed on unchanged from a callee that itself always cites; errors of DataContext and core functions, which carry no position, must therefore be wrapped. (L5) an error that cites a node other than the evaluator's own receiver cites the node whose Evaluate result the guarding tests examine. Not decided: the wording of messages; ANTLR's own line counting (trusted to be 1-based). A node of a type that cites its position is allocated only in a handler of the listener. (L8) in core.Add / Sub / Mul / Div a reflect method that works on every kind and faults only on a missing value (Type, Interface, ...) is called on an operand only under a positive test of that operand's kind, so the table reports an ill-typed operation instead of faulting on an operand without a value.",
		Assumptions: []string{"antlr Token.GetLine is 1-based and counts from the start of the input stream"},
		Trusted:     commonTrusted,
	})
}

// sourceCodeOwner: for a FieldAddr of SourceCode.<f>, the node type embedding it and the node value.
func sourceCodeField(v ssa.Value) (node ssa.Value, typ string, field string, ok bool) {
	fa, isFA := v.(*ssa.FieldAddr)
	if !isFA {
		return
	}
	fv := fieldOf(fa)
	if fv == nil || structName(fa.X.Type()) != "SourceCode" {
		return
	}
	base := fa.X
	// a SourceCode handed on by value (`newPositionError(e.SourceCode, ..)`): the local copy is
	// assigned once, as a whole, from the node's embedded SourceCode (or from another such copy)
	for i := 0; i < 6; i++ {
		al, isAl := base.(*ssa.Alloc)
		if !isAl {
			break
		}
		var only *ssa.Store
		n := 0
		for _, r := range *al.Referrers() {
			if st, isSt := r.(*ssa.Store); isSt && st.Addr == ssa.Value(al) {
				only = st
				n++
			}
		}
		if n != 1 {
			return
		}
		ld, isLd := only.Val.(*ssa.UnOp)
		if !isLd || ld.Op != token.MUL {
			return
		}
		base = ld.X
	}
	inner, isFA2 := base.(*ssa.FieldAddr)
	if !isFA2 || fieldOf(inner) == nil || !fieldOf(inner).Embedded() {
		return
	}
	return inner.X, structName(inner.X.Type()), fv.Name(), true
}

// positionFieldsOf: T is an error type of the module whose Error() formats, in every message it
// can produce, "line %d, column ..." from two of its own fields; the indices of those fields.
var positionFieldCache = map[*types.Named][2]int{}

func (c *Ctx) positionFieldsOf(t *types.Named) (line, column int, ok bool) {
	if v, seen := positionFieldCache[t]; seen {
		return v[0], v[1], v[0] >= 0
	}
	positionFieldCache[t] = [2]int{-1, -1}
	var errFn *ssa.Function
	for _, f := range c.AllFns {
		if f.Name() == "Error" && f.Signature.Recv() != nil && f.Parent() == nil {
			rt := f.Signature.Recv().Type()
			if p, isP := rt.(*types.Pointer); isP {
				rt = p.Elem()
			}
			if rt == types.Type(t) {
				errFn = f
			}
		}
	}
	if errFn == nil {
		return -1, -1, false
	}
	x := c.Index(errFn)
	recv := ssa.Value(errFn.Params[0])
	line, column = -1, -1
	okAll, n := true, 0
	eachInstr(errFn, func(in ssa.Instruction) {
		call, isCall := in.(*ssa.Call)
		if !isCall || !(fnIs(call.Call.StaticCallee(), "fmt", "", "Sprintf") || fnIs(call.Call.StaticCallee(), "fmt", "", "Errorf")) {
			return
		}
		n++
		f0, isS := constString(call.Call.Args[0])
		args := x.variadicElems(call.Call.Args[1])
		if !isS || !strings.HasPrefix(f0, "line %d, column") || len(args) < 2 {
			okAll = false
			return
		}
		var idx [2]int
		for i := 0; i < 2; i++ {
			u, isU := x.Unwrap(args[i]).(*ssa.UnOp)
			if !isU {
				okAll = false
				return
			}
			fa, isFA := u.X.(*ssa.FieldAddr)
			if !isFA || x.Origin(fa.X) != recv {
				okAll = false
				return
			}
			idx[i] = fa.Field
		}
		if line >= 0 && (line != idx[0] || column != idx[1]) {
			okAll = false
		}
		line, column = idx[0], idx[1]
	})
	if !okAll || n == 0 || line < 0 {
		return -1, -1, false
	}
	positionFieldCache[t] = [2]int{line, column}
	return line, column, true
}

// positionedErrorValue: v is a freshly built value of such an error type whose line and column
// fields are given LineNum and Column of recv.
func (c *Ctx) positionedErrorValue(x *FnIndex, v ssa.Value, recv ssa.Value) bool {
	mi, ok := x.Origin(v).(*ssa.MakeInterface)
	if !ok {
		return false
	}
	pt, ok := mi.X.Type().Underlying().(*types.Pointer)
	if !ok {
		return false
	}
	nt, ok := pt.Elem().(*types.Named)
	if !ok {
		return false
	}
	li, ci, ok := c.positionFieldsOf(nt)
	if !ok {
		return false
	}
	al, ok := x.Origin(mi.X).(*ssa.Alloc)
	if !ok {
		return false
	}
	got := map[int]string{}
	for _, r := range *al.Referrers() {
		fa, isFA := r.(*ssa.FieldAddr)
		if !isFA {
			continue
		}
		for _, r2 := range *fa.Referrers() {
			st, isSt := r2.(*ssa.Store)
			if !isSt || st.Addr != ssa.Value(fa) {
				continue
			}
			if u, isU := x.Unwrap(st.Val).(*ssa.UnOp); isU {
				if node, _, field, okF := sourceCodeField(u.X); okF && x.Origin(node) == recv {
					got[fa.Field] = field
					continue
				}
			}
			got[fa.Field] = "?"
		}
	}
	return got[li] == "LineNum" && got[ci] == "Column"
}

// positionedFormat: the call is fmt.Sprintf/Errorf with a format starting "line %d, column" whose first two variadic arguments are LineNum and Column of `recv`.
func (x *FnIndex) positionedFormat(call *ssa.Call, recv ssa.Value) bool {
	node, ok := x.positionedFormatNode(call)
	return ok && x.Origin(node) == recv
}

// positionedFormatNode: as positionedFormat, for whatever node the position is read from (LineNum and
// Column of one and the same node); the node is returned.
func (x *FnIndex) positionedFormatNode(call *ssa.Call) (ssa.Value, bool) {
	cal := call.Call.StaticCallee()
	if cal == nil || cal.Pkg == nil || cal.Pkg.Pkg.Path() != "fmt" || (cal.Name() != "Sprintf" && cal.Name() != "Errorf") {
		return nil, false
	}
	// the format, or the leftmost piece of a format put together with +
	fv := x.Origin(call.Call.Args[0])
	for i := 0; i < 4; i++ {
		bo, isCat := fv.(*ssa.BinOp)
		if !isCat || bo.Op != token.ADD {
			break
		}
		fv = x.Origin(bo.X)
	}
	f, ok := constString(fv)
	if !ok || !strings.HasPrefix(f, "line %d, column") {
		return nil, false
	}
	args := x.variadicElems(call.Call.Args[1])
	if len(args) < 2 {
		return nil, false
	}
	var theNode ssa.Value
	for i, want := range []string{"LineNum", "Column"} {
		a := x.Unwrap(args[i])
		u, ok := a.(*ssa.UnOp)
		if !ok {
			return nil, false
		}
		node, _, field, ok := sourceCodeField(u.X)
		if !ok || field != want {
			return nil, false
		}
		if theNode != nil && x.Origin(node) != x.Origin(theNode) {
			return nil, false
		}
		theNode = node
	}
	return theNode, true
}

// errorIsPositioned: v is errors.New(Sprintf(positioned)) or fmt.Errorf(positioned).
func (x *FnIndex) errorIsPositioned(v ssa.Value, recv ssa.Value) bool {
	node, ok := x.errorPositionNode(v)
	return ok && x.Origin(node) == recv
}

// errorPositionNode: the node whose position a newly created error starts with, if it starts with one.
func (x *FnIndex) errorPositionNode(v ssa.Value) (ssa.Value, bool) {
	call, ok := x.Origin(v).(*ssa.Call)
	if !ok {
		return nil, false
	}
	if fnIs(call.Call.StaticCallee(), "fmt", "", "Errorf") {
		return x.positionedFormatNode(call)
	}
	if fnIs(call.Call.StaticCallee(), "errors", "", "New") {
		// the message: Sprintf(...) possibly passed through strings.ReplaceAll (recover literals)
		arg := x.Origin(call.Call.Args[0])
		for i := 0; i < 6; i++ {
			// prefix + rest: the text starts with what the leftmost operand is
			if bo, isCat := arg.(*ssa.BinOp); isCat && bo.Op == token.ADD {
				arg = x.Origin(bo.X)
				continue
			}
			inner, ok := arg.(*ssa.Call)
			if !ok {
				return nil, false
			}
			if node, ok := x.positionedFormatNode(inner); ok {
				return node, true
			}
			if fnIs(inner.Call.StaticCallee(), "strings", "", "ReplaceAll") {
				arg = x.Origin(inner.Call.Args[0])
				continue
			}
			return nil, false
		}
	}
	return nil, false
}

func runC20(c *Ctx) {
	// citing node types: read LineNum
	citing := map[string]bool{}
	for _, f := range c.AllFns {
		if f.Pkg == nil || f.Pkg.Pkg.Path() != pBase {
			continue
		}
		eachInstr(f, func(in ssa.Instruction) {
			if u, ok := in.(*ssa.UnOp); ok {
				if _, typ, field, ok := sourceCodeField(u.X); ok && field == "LineNum" {
					citing[typ] = true
				}
			}
		})
	}
	var cts []string
	for t := range citing {
		cts = append(cts, t)
	}
	sort.Strings(cts)
	c.Note("citing node types: %v", cts)
	if len(cts) < 8 {
		c.Lost("L1-citing-nodes-populated", "the node types that cite a position (expected at least 8)")
	}
	// L1 + L2: listener stores
	type posStore struct {
		handler *ssa.Function
		ok      bool
		why     string
	}
	stores := map[string]map[string]posStore{}
	for _, f := range c.Methods("internal/iparser", "GengineParserListener") {
		if !strings.HasPrefix(f.Name(), "Exit") && !strings.HasPrefix(f.Name(), "Enter") {
			continue
		}
		x := c.Index(f)
		var ctx *ssa.Parameter
		if len(f.Params) >= 2 {
			ctx = f.Params[1]
		}
		record := func(typ, field string, node ssa.Value, sval ssa.Value) {
			// node: the value popped in this handler
			popped := false
			if ta, isTA := x.Origin(node).(*ssa.TypeAssert); isTA {
				if call, isCall := x.Origin(ta.X).(*ssa.Call); isCall && call.Call.StaticCallee() != nil && call.Call.StaticCallee().Name() == "Pop" {
					popped = true
				}
			}
			ps := posStore{handler: f, ok: true}
			if !popped {
				ps.ok, ps.why = false, "the position is stored on something other than the node this handler pops"
			}
			// value provenance
			val := x.Origin(sval)
			wantTok := map[string]string{"LineNum": "GetLine", "Column": "GetColumn"}
			switch field {
			case "LineNum", "Column":
				call, isCall := val.(*ssa.Call)
				if !isCall || !call.Call.IsInvoke() || call.Call.Method.Name() != wantTok[field] {
					ps.ok, ps.why = false, fmt.Sprintf("%s is %s, not ctx.GetStart().%s()", field, x.Describe(val), wantTok[field])
					break
				}
				tok, isCall2 := x.Origin(call.Call.Value).(*ssa.Call)
				if !isCall2 || tok.Call.StaticCallee() == nil || tok.Call.StaticCallee().Name() != "GetStart" {
					name := "?"
					if isCall2 && tok.Call.StaticCallee() != nil {
						name = tok.Call.StaticCallee().Name()
					}
					ps.ok, ps.why = false, fmt.Sprintf("%s is taken from %s(), not from GetStart()", field, name)
					break
				}
				if ctx == nil || x.recognizerOf(tok.Call.Args[0]) != ssa.Value(ctx) {
					ps.ok, ps.why = false, field+" is taken from another parse context than the handler's own"
				}
			case "Code":
				call, isCall := val.(*ssa.Call)
				if !isCall || call.Call.StaticCallee() == nil || call.Call.StaticCallee().Name() != "GetText" || ctx == nil || x.recognizerOf(call.Call.Args[0]) != ssa.Value(ctx) {
					ps.ok, ps.why = false, "Code is not ctx.GetText() of the handler's own context"
				}
			default:
				return
			}
			if stores[typ] == nil {
				stores[typ] = map[string]posStore{}
			}
			if old, seen := stores[typ][field]; !seen || (old.ok && !ps.ok) {
				stores[typ][field] = ps
			}
		}
		eachInstr(f, func(in ssa.Instruction) {
			st, ok := in.(*ssa.Store)
			if !ok {
				return
			}
			// a whole SourceCode struct stored onto a node: built in place from the handler's context
			// (fields followed below), or copied from another node (then the position is that node's)
			if fa, isFA := st.Addr.(*ssa.FieldAddr); isFA && fieldOf(fa) != nil && fieldOf(fa).Embedded() && structName(fa.Type()) == "SourceCode" {
				typ := structName(fa.X.Type())
				if stores[typ] == nil {
					stores[typ] = map[string]posStore{}
				}
				var built *ssa.Alloc
				if ld, isLd := x.Origin(st.Val).(*ssa.UnOp); isLd && ld.Op == token.MUL {
					if al, isAl := x.ResolveAddr(ld.X).(*ssa.Alloc); isAl && al.Parent() == f {
						built = al
					}
				}
				done := map[string]bool{}
				if built != nil {
					for _, ref := range *built.Referrers() {
						bfa, isB := ref.(*ssa.FieldAddr)
						if !isB {
							continue
						}
						for _, r2 := range *bfa.Referrers() {
							if fst, isS := r2.(*ssa.Store); isS && fst.Addr == ssa.Value(bfa) {
								fld := fieldOf(bfa).Name()
								record(typ, fld, fa.X, fst.Val)
								done[fld] = true
							}
						}
					}
				}
				for _, fld := range []string{"LineNum", "Column", "Code"} {
					if !done[fld] {
						stores[typ][fld] = posStore{handler: f, ok: false, why: "a whole SourceCode is copied onto a " + typ + " node from another node: its errors would cite that other construct's position"}
					}
				}
				return
			}
			node, typ, field, ok := sourceCodeField(st.Addr)
			if !ok {
				return
			}
			record(typ, field, node, st.Val)
		})
	}
	for _, t := range cts {
		for _, field := range []string{"LineNum", "Column", "Code"} {
			ps, ok := stores[t][field]
			key := t + "." + field
			if !ok {
				c.Check("L1-citing-nodes-populated", key, false, 0, "%s cites its position in errors but no listener handler ever stores %s: every such error reads `line 0`", t, field)
				continue
			}
			c.Check("L1-citing-nodes-populated", key, true, ps.handler.Pos(), "stored by %s", ps.handler.Name())
			c.Check("L2-start-of-own-context", key, ps.ok, ps.handler.Pos(), "%s", orStr(ps.why, "ctx.GetStart()/GetText() of the handler's own context, no arithmetic"))
		}
	}
	// ... and a node that cites its position was made where its position is known: by a handler of the listener.
	// A node of such a type made anywhere else (a compound assignment "lowered" at compile time into a new
	// operation node plus a read of the target) has the zero position, and what fails there cites line 0
	nMade := 0
	for _, f := range c.AllFns {
		if f.Pkg == nil || !strings.HasPrefix(f.Pkg.Pkg.Path(), modPath) || f.Pkg.Pkg.Path() == pParser {
			continue
		}
		root := rootOf(f)
		eachInstr(f, func(in ssa.Instruction) {
			al, ok := in.(*ssa.Alloc)
			if !ok {
				return
			}
			nt, isN := al.Type().(*types.Pointer).Elem().(*types.Named)
			if !isN || nt.Obj().Pkg() == nil || nt.Obj().Pkg().Path() != pBase || !citing[nt.Obj().Name()] {
				return
			}
			if _, isStruct := nt.Underlying().(*types.Struct); !isStruct {
				return
			}
			nMade++
			inListener := root.Pkg != nil && root.Pkg.Pkg.Path() == pIparser && recvName(root) == "GengineParserListener"
			c.Check("L1-citing-nodes-populated", fmt.Sprintf("%s#makes-%s", fnName(root), nt.Obj().Name()), inListener, in.Pos(), "a %s node, which cites its position in errors, is made in %s: only a handler of the listener knows the position to give it", nt.Obj().Name(), fnName(root))
		})
	}
	if nMade == 0 {
		c.Lost("L1-citing-nodes-populated", "allocations of citing node types")
	}
	// nodes that are populated but not citing are fine; check L2 for them too (a wrong value would surface once they cite)
	var others []string
	for t := range stores {
		if !citing[t] {
			others = append(others, t)
		}
	}
	sort.Strings(others)
	for _, t := range others {
		for _, field := range []string{"LineNum", "Column"} {
			if ps, ok := stores[t][field]; ok {
				c.Check("L2-start-of-own-context", t+"."+field, ps.ok, ps.handler.Pos(), "%s", orStr(ps.why, "ok"))
			}
		}
	}
	// the node that carries a construct's position is the node the parent receives: a handler
	// that hands on some other node (one built for another occurrence of the same text) makes
	// the construct cite that other place
	c.ruleListenerAttach("L2-own-node-handed-on")
	c.ruleWholeText("L2-whole-text")
	c.Min("L2-whole-text", 3)
	c.Min("L1-citing-nodes-populated", 24)
	// L8: an ill-typed arithmetic operation is reported by the operator table as an error, which the node that
	// called it wraps with its position (L3/L4); that holds only if the table cannot fault before it reports.
	// An operand may have no value at all (a missing field, a call without result: the zero reflect.Value), on
	// which every method but Kind, IsValid and String panics: in core.Add / Sub / Mul / Div such a method is
	// called on an operand only under a positive test of the operand's kind
	for _, name := range []string{"Add", "Sub", "Mul", "Div"} {
		f := c.MustFn("L8-operator-table-cannot-fault", "internal/core", "", name)
		if f == nil {
			continue
		}
		x := c.Index(f)
		isOperand := func(v ssa.Value) *ssa.Parameter {
			p, _ := x.Origin(v).(*ssa.Parameter)
			return p
		}
		// kindOf: the condition is derived from <operand>.Kind()
		var kindOf func(v ssa.Value, d int) *ssa.Parameter
		kindOf = func(v ssa.Value, d int) *ssa.Parameter {
			if d > 6 || v == nil {
				return nil
			}
			switch t := x.Origin(v).(type) {
			case *ssa.Call:
				if nm, cc := reflectMethod(t); cc != nil && nm == "Kind" {
					return isOperand(cc.Args[0])
				}
				for _, a := range t.Call.Args {
					if p := kindOf(a, d+1); p != nil {
						return p
					}
				}
				if t.Call.IsInvoke() {
					return kindOf(t.Call.Value, d+1)
				}
			case *ssa.BinOp:
				if p := kindOf(t.X, d+1); p != nil {
					return p
				}
				return kindOf(t.Y, d+1)
			case *ssa.UnOp:
				return kindOf(t.X, d+1)
			case *ssa.Convert:
				return kindOf(t.X, d+1)
			case *ssa.ChangeType:
				return kindOf(t.X, d+1)
			case *ssa.Phi:
				for _, e := range t.Edges {
					if p := kindOf(e, d+1); p != nil {
						return p
					}
				}
			}
			return nil
		}
		bad, badPos, n := "", f.Pos(), 0
		eachInstr(f, func(in ssa.Instruction) {
			call, ok := in.(*ssa.Call)
			if !ok || bad != "" {
				return
			}
			nm, cc := reflectMethod(call)
			if cc == nil || nm == "Kind" || nm == "IsValid" || nm == "String" {
				return
			}
			p := isOperand(cc.Args[0])
			if p == nil {
				return
			}
			n++
			// the accessors of one family of kinds (Int, Uint, Float, ...) are by their nature called where
			// the kind is known, however the code came to know it (a class worked out by a helper, a table):
			// E2 decides those rows. What is asked here is about the methods that work on every kind and
			// fault only on "no value": Type, Interface and the like
			switch nm {
			case "Int", "Uint", "Float", "Complex", "Bool", "Len", "Elem", "IsNil", "Bytes", "Index", "MapIndex", "MapKeys", "NumField", "Field":
				return
			}
			okG := false
			for _, g := range x.GuardsOf(call.Block()) {
				cond, pol := g.Cond, g.Pol
				for {
					u, isU := cond.(*ssa.UnOp)
					if !isU || u.Op != token.NOT {
						break
					}
					cond, pol = u.X, !pol
				}
				if bo, isB := cond.(*ssa.BinOp); isB && bo.Op == token.NEQ {
					pol = !pol // k != X false means k == X
					_ = bo
				}
				if pol && kindOf(cond, 0) == p {
					okG = true
				}
			}
			if !okG {
				bad, badPos = "Value."+nm+" on operand "+p.Name(), call.Pos()
			}
		})
		c.Check("L8-operator-table-cannot-fault", "core."+name, bad == "" && n > 0, badPos, "core.%s calls %s without a positive test of that operand's kind before it (%d reflect calls on operands examined): on an operand without a value the call panics and the fault is reported without the position of the operation", name, orStr(bad, "nothing"), n)
	}
	c.Min("L8-operator-table-cannot-fault", 4)
	c.Min("L2-start-of-own-context", 24)

	// L3: errors created in evaluators of citing nodes
	exceptions := map[string]string{
		"ExpressionAtom.Evaluate": "final fall-through `ExpressionAtom Evaluate error!`: unreachable, the grammar's expressionAtom always has exactly one alternative and each sets one field (C10-K4)",
	}
	usedExc := map[string]bool{}
	nCreated := 0
	for _, f := range c.AllFns {
		if f.Pkg == nil || f.Pkg.Pkg.Path() != pBase {
			continue
		}
		root := rootOf(f)
		if !citing[recvName(root)] || !(root.Name() == "Evaluate") {
			continue
		}
		x := c.Index(f)
		recv := ssa.Value(root.Params[0])
		k := 0
		eachInstr(f, func(in ssa.Instruction) {
			// an error made here: errors.New / fmt.Errorf, or a value of the module's own error type
			if mi, isMI := in.(*ssa.MakeInterface); isMI && isErrorType(mi.Type()) && isNewError(mi) {
				nCreated++
				k++
				c.Check("L3-created-errors-cite", fmt.Sprintf("%s#error%d", fnName(f), k), c.positionedErrorValue(x, mi, recv), in.Pos(), "an error value created in the evaluator of %s must carry LineNum and Column of the receiver in the fields its Error() prints as `line %%d, column`", recvName(root))
				return
			}
			call, ok := in.(*ssa.Call)
			if !ok || !(fnIs(call.Call.StaticCallee(), "errors", "", "New") || fnIs(call.Call.StaticCallee(), "fmt", "", "Errorf")) {
				return
			}
			nCreated++
			k++
			key := fmt.Sprintf("%s#error%d", fnName(f), k)
			ok = x.errorIsPositioned(call, recv)
			if !ok {
				if why, isExc := exceptions[fnName(root)]; isExc && !usedExc[fnName(root)] {
					if s, isS := constString(call.Call.Args[0]); isS && !strings.Contains(s, "%") {
						usedExc[fnName(root)] = true
						c.Check("L3-created-errors-cite", key, true, in.Pos(), "named exception: %s", why)
						return
					}
				}
			}
			c.Check("L3-created-errors-cite", key, ok, in.Pos(), "an error created in the evaluator of %s must start with `line %%d, column` of the receiver's own LineNum and Column", recvName(root))
		})
	}
	c.Min("L3-created-errors-cite", 20)

	// L5: an error that cites the position of some other node than the evaluator's own receiver (a
	// statement reporting a fault of one of its expressions) must cite the node whose evaluation the fault
	// was found in: where the creation is guarded by tests of values that came out of X.Evaluate(..), the
	// node cited is that X.
	nL5 := 0
	for _, f := range c.AllFns {
		if f.Pkg == nil || f.Pkg.Pkg.Path() != pBase {
			continue
		}
		root := rootOf(f)
		if root.Signature.Recv() == nil || len(root.Params) == 0 {
			continue
		}
		x := c.Index(f)
		recv := ssa.Value(root.Params[0])
		k := 0
		// evaluatedNode: the receiver X of the X.Evaluate(..) call that v was computed from
		var evaluatedNode func(v ssa.Value, d int) ssa.Value
		evaluatedNode = func(v ssa.Value, d int) ssa.Value {
			if d > 5 || v == nil {
				return nil
			}
			switch t := x.Origin(v).(type) {
			case *ssa.Extract:
				if call, ok := t.Tuple.(*ssa.Call); ok {
					if cal := call.Call.StaticCallee(); cal != nil && cal.Name() == "Evaluate" && cal.Pkg != nil && cal.Pkg.Pkg.Path() == pBase && len(call.Call.Args) > 0 {
						return call.Call.Args[0]
					}
				}
			case *ssa.Call:
				if _, cc := reflectMethod(t); cc != nil && len(cc.Args) > 0 {
					return evaluatedNode(cc.Args[0], d+1)
				}
			case *ssa.BinOp:
				if n := evaluatedNode(t.X, d+1); n != nil {
					return n
				}
				return evaluatedNode(t.Y, d+1)
			case *ssa.UnOp:
				if t.Op == token.NOT {
					return evaluatedNode(t.X, d+1)
				}
			}
			return nil
		}
		eachInstr(f, func(in ssa.Instruction) {
			call, ok := in.(*ssa.Call)
			if !ok || !(fnIs(call.Call.StaticCallee(), "errors", "", "New") || fnIs(call.Call.StaticCallee(), "fmt", "", "Errorf")) {
				return
			}
			node, ok := x.errorPositionNode(call)
			if !ok || x.Origin(node) == recv {
				return
			}
			nL5++
			k++
			bad := ""
			for _, g := range x.GuardsOf(call.Block()) {
				if en := evaluatedNode(g.Cond, 0); en != nil && !x.sameValue(en, node) {
					bad = fmt.Sprintf("the fault was found in what %s evaluated to, the error cites the position of %s", x.Describe(en), x.Describe(node))
				}
			}
			c.Check("L5-cited-node-is-the-failing-one", fmt.Sprintf("%s#error%d", fnName(f), k), bad == "", in.Pos(), "%s", orStr(bad, "cites the node whose value was found at fault"))
		})
	}
	// L6: a comparison or logic type fault gets its position from the error the expression evaluator makes
	// when it finds the operands ill-typed. That it does find them is the operator table of C01 (E3): every
	// comparison / logical result is computed under a test of both operands' kinds, the other edge makes
	// the (positioned, L3) error. Without the test the fault surfaces later as a bare reflect panic.
	c.only = func(key string) bool {
		return strings.HasPrefix(key, "Expression.Evaluate#logical ") || key == "Expression.Evaluate#computed-results-accounted" || strings.HasPrefix(key, "Expression.Evaluate#unplaced")
	}
	c.kindGuardsOnly = true
	c.ruleE3("L6-type-faults-found-by-the-evaluator")
	c.only, c.kindGuardsOnly = nil, false
	c.Min("L6-type-faults-found-by-the-evaluator", 3)
	c.Check("L5-cited-node-is-the-failing-one", "inventory", true, 0, "%d error(s) created with the position of a node other than the evaluator's own receiver", nL5)

	// L4: citing closure
	type evalFn struct {
		f *ssa.Function
	}
	var evs []*ssa.Function
	for _, f := range c.AllFns {
		if f.Parent() != nil || f.Pkg == nil || f.Pkg.Pkg.Path() != pBase {
			continue
		}
		rs := f.Signature.Results()
		for i := 0; i < rs.Len(); i++ {
			if isErrorType(rs.At(i).Type()) {
				evs = append(evs, f)
				break
			}
		}
	}
	cites := map[*ssa.Function]bool{}
	reason := map[*ssa.Function]string{}
	for _, f := range evs {
		cites[f] = true
	}
	errIdx := func(f *ssa.Function) int {
		rs := f.Signature.Results()
		for i := 0; i < rs.Len(); i++ {
			if isErrorType(rs.At(i).Type()) {
				return i
			}
		}
		return -1
	}
	changed := true
	for iter := 0; changed && iter < 20; iter++ {
		changed = false
		for _, f := range evs {
			if !cites[f] {
				continue
			}
			x := c.Index(f)
			var recv ssa.Value
			if len(f.Params) > 0 {
				recv = f.Params[0]
			}
			ei := errIdx(f)
			bad := ""
			eachInstr(f, func(in ssa.Instruction) {
				r, ok := in.(*ssa.Return)
				if !ok || ei >= len(r.Results) || bad != "" {
					return
				}
				for _, pv := range x.PossibleValues(r.Results[ei]) {
					v := pv.V
					if v == nil || isConstNil(v) {
						continue
					}
					if x.knownNil(v, r.Block()) || x.nilOnAllPaths(pv, r) {
						continue
					}
					if isNewError(v) {
						if x.errorIsPositioned(v, recv) || c.positionedErrorValue(x, v, recv) {
							continue
						}
						if _, isExc := exceptions[fnName(f)]; isExc {
							if call, isCall := v.(*ssa.Call); isCall {
								if s, isS := constString(call.Call.Args[0]); isS && !strings.Contains(s, "%") {
									continue
								}
							}
						}
						bad = "creates an error without its position at " + c.pos(v.Pos())
						return
					}
					if ex, isEx := v.(*ssa.Extract); isEx {
						if call, isCall := ex.Tuple.(*ssa.Call); isCall {
							g := call.Call.StaticCallee()
							if g != nil && cites[g] {
								continue
							}
							name := "a dynamic call"
							if g != nil {
								name = fnName(g)
								if g.Pkg != nil {
									name = g.Pkg.Pkg.Name() + "." + name
								}
							}
							bad = "passes on unwrapped an error of " + name + ", which does not always carry a position (" + c.pos(r.Pos()) + ")"
							return
						}
					}
					if g, isG := v.(*ssa.UnOp); isG {
						if gl, isGl := g.X.(*ssa.Global); isGl && (gl.Name() == "BREAKFLAG" || gl.Name() == "CONTINUEFLAG") {
							continue
						}
					}
					if call, isCall := v.(*ssa.Call); isCall {
						if g := call.Call.StaticCallee(); g != nil && cites[g] {
							continue
						}
					}
					bad = "returns the error " + x.Describe(v) + " whose origin is not a positioned error (" + c.pos(r.Pos()) + ")"
					return
				}
			})
			if bad != "" {
				cites[f] = false
				reason[f] = bad
				changed = true
			}
		}
	}
	for _, spec := range [][2]string{{"Assignment", "Evaluate"}, {"FunctionCall", "Evaluate"}, {"MethodCall", "Evaluate"}, {"ThreeLevelCall", "Evaluate"}, {"MathExpression", "Evaluate"}, {"Expression", "Evaluate"}} {
		f := c.MustFn("L4-always-cites", "internal/base", spec[0], spec[1])
		if f == nil {
			continue
		}
		c.Check("L4-always-cites", fnName(f), cites[f], f.Pos(), "%s", orStr(reason[f], "every error it returns was created with a position or comes unchanged from an evaluator that always cites"))
	}
	// report the rest of the closure for the evidence
	var rest []string
	for _, f := range evs {
		if cites[f] {
			rest = append(rest, fnName(f))
		}
	}
	sort.Strings(rest)
	c.extra["always_citing_evaluators"] = rest
	c.Min("L4-always-cites", 6)
	// an arithmetic fault cites a position because every + - * / is computed by the core
	// function of that operator, whose error the evaluator wraps with its own position; an
	// operation computed in place (a raw integer division panics on zero) would surface
	// through some recover with another position or none
	c.ruleE1("L4-arithmetic-through-core")
	_ = types.Typ
}

// ruleWholeText: every function that creates a lexer feeds it an input stream over its complete text parameter.
func (c *Ctx) ruleWholeText(rule string) {
	n := 0
	for _, f := range c.AllFns {
		if f.Pkg == nil || f.Pkg.Pkg.Path() == pParser || f.Parent() != nil {
			continue
		}
		x := c.Index(f)
		eachInstr(f, func(in ssa.Instruction) {
			lexer, ok := in.(*ssa.Call)
			if !ok || !calleeIs(lexer, pParser, "", "NewgengineLexer") {
				return
			}
			n++
			input, _ := x.Unwrap(lexer.Call.Args[0]).(*ssa.Call)
			okT := false
			if input != nil && input.Call.StaticCallee() != nil && input.Call.StaticCallee().Name() == "NewInputStream" {
				_, okT = x.Origin(input.Call.Args[0]).(*ssa.Parameter)
			}
			c.Check(rule, fnName(f), okT, in.Pos(), "the lexer must read an input stream over the complete, unmodified text given to the entry point: cited lines are relative to it")
		})
	}
	if n == 0 {
		c.Lost(rule, "functions creating a lexer")
	}
}
