package main

import (
	"go/token"
	"sort"
	"strings"

	"golang.org/x/tools/go/ssa"
)

func init() {
	register("C13", runC13, propMeta{
		Explanation: "Decides, for every layering and every goroutine interleaving, the shape of ExecuteDAGModel: (G1, rule A4) inside the layer loop one WaitGroup per layer, Add(len(rules)) equal to the goroutines started over the whole per-layer rule slice, each goroutine executes its own copy of one element and reaches Done once; Wait() lies on every path from the fan-out to the next layer (the head of the enclosing loop), to any return and to any read of the error list; (G2) on every path from a fan-out to the next layer the error list is tested after the join and a non-empty list returns a new error; (G3) the per-layer slice is allocated inside the layer loop (so it starts empty for each layer) and filled only by appending, on the ok-edge, the hit of a comma-ok lookup of dag[i][j] in the container's name map, with i and j counting forward by one from 0 below len(dag) / len(dag[i]); a miss is skipped and the missing value never used; (G4) result-map rules of C11 for this function. Holds under every schedule because only the WaitGroup contract and program order are used. Not decided: timing, rule bodies. The pool's DAG method calls the engine method of its own name with its own arguments (G6). (G7) a faulting rule fails. (G8) the sentinels of break and continue are compared by the loop statements alone: the engine looks at a rule's error only to see whether there is one.",
		Assumptions: []string{"sync.WaitGroup contract", "RuleEntity.Execute returns after the rule finished"},
		Trusted:     commonTrusted,
	})
}

// countedFromZero: cell is the counter of `for i := 0; i < bound; i++` (see
// FnIndex.countedLoop for what exactly is required).
func (x *FnIndex) countedFromZero(cell *ssa.Alloc) (bound ssa.Value, ok bool) {
	c := x.countedLoop(cell)
	if c == nil || c.start != 0 || c.boundAdd != 0 {
		return nil, false
	}
	return c.bound, true
}

func runC13(c *Ctx) {
	// the pool's DAG method hands the model's error to its caller ("the call returns an error")
	c.armPoolError("G4-pool-reports-the-error", func(m string) bool { return m == "ExecuteDAGModel" }, 1)
	// ... and hand their own arguments to the engine method of the same name, each in its place
	c.armPoolArgs("G6-pool-passes-its-arguments", func(m string) bool { return m == "ExecuteDAGModel" }, 1)
	// a rule that faults fails: RuleEntity.Execute turns a panic of the rule body into its (named) error
	// result (C09-R1 for this function); without that a faulting rule counts as a success and whatever the
	// model makes depend on "nothing before failed" runs all the same
	if f := c.MustFn("G7-a-faulting-rule-fails", "internal/base", "RuleEntity", "Execute"); f != nil {
		ok, why := c.panicSafe(f)
		c.Check("G7-a-faulting-rule-fails", "RuleEntity.Execute", ok, f.Pos(), "%s", why)
	}
	// ... and every error of a rule counts: the engine looks at a rule's error only to see whether there is one.
	// The sentinels of break and continue are compared by the loop statements alone (C02-S5): an engine helper
	// that "forgives" a rule that ended in a stray break reports a failed rule as a success, and the next layer starts
	c.only = func(key string) bool { return strings.HasSuffix(key, "#readers") }
	c.ruleS5("G8-every-error-of-a-rule-counts")
	c.only = nil
	c.Min("G8-every-error-of-a-rule-counts", 2)

	fn := c.MustFn("G1-layer-barrier", "engine", "Gengine", "ExecuteDAGModel")
	if fn == nil {
		return
	}
	x := c.Index(fn)
	m := c.engModel(fn)
	E := m.errList()
	fos := c.ruleA4("G1-layer-barrier", fn, isRuleExec, E)
	c.Min("G1-layer-barrier", 9)
	c.ruleErrSurface("G2-errors-surface", fn)
	sel := c.ruleSelection("G3-layer-selection", fn, "skip")
	c.Min("G3-layer-selection", 3)
	if len(fos) != 1 || fos[0].loop == nil {
		c.Check("G1-layer-barrier", fnName(fn)+"#one-fan-out", false, fn.Pos(), "expected one fan-out inside the layer loop")
		return
	}
	fo := fos[0]
	// the layer loop: the outermost loop enclosing the fan-out
	encl := x.EnclosingLoops(fo.goStmt.Block())
	if len(encl) < 2 {
		c.Check("G1-layer-barrier", fnName(fn)+"#layer-loop", false, fo.goStmt.Pos(), "the fan-out is not inside a loop over the layers")
		return
	}
	layer := encl[len(encl)-1]
	c.Check("G1-layer-barrier", fnName(fn)+"#layer-loop", true, fo.goStmt.Pos(), "fan-out nested in the layer loop")
	// every layer is visited: the only ways out of the layer loop are its end and the
	// return of a new error (a `break` on an empty layer would drop all later layers)
	{
		var blks []*ssa.BasicBlock
		for b := range layer.Blocks {
			blks = append(blks, b)
		}
		sort.Slice(blks, func(i, j int) bool { return blks[i].Index < blks[j].Index })
		okExits := true
		var layerWriters []ssa.Instruction
		if E != nil {
			layerWriters = m.listWriters(E)
		}
		var at token.Pos = fo.goStmt.Pos()
		for _, b := range blks {
			if b == layer.Head {
				continue
			}
			for _, sc := range b.Succs {
				if layer.Blocks[sc] || len(sc.Instrs) == 0 {
					continue
				}
				if _, quiet := pathFrom(sc.Instrs[0], func(in ssa.Instruction) bool {
					r, ok := in.(*ssa.Return)
					if !ok || in.Block() == fn.Recover {
						return false
					}
					if E != nil && m.contradictoryListTests(in, E, layerWriters) {
						return false // stands under two opposite tests of the unchanged error list
					}
					for _, pv := range x.PossibleValues(r.Results[len(r.Results)-1]) {
						if pv.V == nil || !isNewError(pv.V) {
							return true
						}
					}
					return false
				}, nil); quiet {
					okExits = false
					if p := b.Instrs[len(b.Instrs)-1].Pos(); p.IsValid() {
						at = p
					}
				}
			}
		}
		c.Check("G1-layer-barrier", fnName(fn)+"#every-layer-visited", okExits, at, "the loop over the layers may be left early only by returning a new error: any other way out skips the remaining layers")
	}
	// no synchronous executions
	for _, e := range m.execs {
		if e.in == fn {
			c.Check("G1-layer-barrier", e.key()+"/sync", false, e.call.Pos(), "a rule is executed outside the per-layer fan-out")
		}
	}
	// G2: gate after join on every path from the fan-out to the next layer
	if E == nil {
		c.Check("G2-failure-stops", fnName(fn)+"#error-list", false, fn.Pos(), "no error list")
	} else {
		isGate := func(in ssa.Instruction) bool {
			iff, ok := in.(*ssa.If)
			if !ok {
				return false
			}
			arg, _, ok := x.lenCmpO(iff.Cond)
			return ok && x.readsList(arg, E)
		}
		bad := false
		for _, t := range fo.loop.exitTargets() {
			if _, found := pathFrom(t.Instrs[0], func(in ssa.Instruction) bool { return in == layer.Head.Instrs[0] }, isGate); found {
				bad = true
			}
		}
		c.Check("G2-failure-stops", fnName(fn)+"#gate-before-next-layer", !bad, fo.goStmt.Pos(), "after a layer ran, the error list must be tested before the next layer starts")
		// the non-empty edge leaves the layer loop
		eachInstr(fn, func(in ssa.Instruction) {
			if !isGate(in) {
				return
			}
			iff := in.(*ssa.If)
			_, ne, _ := x.lenCmpO(iff.Cond)
			edge := 0
			if !ne {
				edge = 1
			}
			first := iff.Block().Succs[edge].Instrs[0]
			_, again := pathFrom(first, func(i2 ssa.Instruction) bool {
				if _, isGo := i2.(*ssa.Go); isGo {
					return true
				}
				return i2 == layer.Head.Instrs[0]
			}, nil)
			c.Check("G2-failure-stops", fnName(fn)+"#failure-ends-dag", !again, iff.Pos(), "when a rule of a layer failed no later layer may start")
		})
	}
	// G3 details
	if sel != nil {
		c.Check("G3-fresh-per-layer", fnName(fn)+"#slice-per-layer", layer.Blocks[sel.cell.Block()] && !fo.loop.Blocks[sel.cell.Block()], sel.cell.Pos(), "the per-layer rule slice must be declared inside the layer loop, otherwise earlier layers run again")
		base, lo, hi := x.sliceInterval(fo.ranged)
		c.Check("G3-whole-layer", fnName(fn)+"#fan-out-source", x.Cell(base) == sel.cell && lo.equal(constForm(0)) && hi.equal(x.symLen(base)), fo.goStmt.Pos(), "the fan-out must range the whole per-layer slice")
		for i, lk := range sel.lookups {
			ok := false
			why := "key is " + x.Describe(lk.Index)
			// key = dag[i][j]: the element of a loop over the whole of dag[i], which is itself the
			// element of a loop over the whole of the dag parameter (range or index loops)
			whole := func(v ssa.Value) (ssa.Value, bool) {
				base, lo, hi := x.sliceInterval(v)
				return base, lo.equal(constForm(0)) && hi.equal(x.symLen(base))
			}
			if sIn, lIn, ok1 := x.rangedSlice(lk.Index); ok1 {
				if _, wIn := whole(sIn); wIn {
					if sOut, lOut, ok2 := x.rangedSlice(sIn); ok2 && lOut != lIn && lOut.Blocks[lIn.Head] {
						if bOut, wOut := whole(sOut); wOut {
							if _, isParam := x.Origin(bOut).(*ssa.Parameter); isParam {
								ok = true
								why = "dag[i][j], i over the whole dag, j over the whole of dag[i]"
							}
						}
					}
				}
			}
			c.Check("G3-every-occurrence", fmtKey(fnName(fn), "lookup", i+1), ok, lk.Pos(), "%s", why)
		}
	}
	c.ruleM1("G4-fresh-result-map", []*ssa.Function{fn})
	c.ruleM2("G4-result-pairing", []*ssa.Function{fn})
	c.Min("G2-failure-stops", 2)
	c.Min("G3-every-occurrence", 1)
}
