package main

import (
	"go/constant"
	"go/token"
	"go/types"

	"golang.org/x/tools/go/ssa"
)

// A0 step 0: a `range` over a slice literal of a few elements, `for _, e := range []T{a, b, c} { … }`,
// is the statement sequence `{e := a; …}; {e := b; …}; {e := c; …}`. The loop is replaced by one copy of
// its body per element; in copy k the index is the constant k and the element is the value the literal
// was built from. A `break` leaves for the statement after the loop from whichever copy it is in, a
// `continue` goes to the next copy. Loops whose body creates closures, or passes a value to the code
// after the loop other than through a variable, are left alone.

const unrollMax = 8

func (in *inliner) unrollLiteralRanges(f *ssa.Function) {
	if len(f.Blocks) == 0 {
		return
	}
	for n := 0; n < 16; n++ {
		done := false
		for _, h := range f.Blocks {
			if in.unrollAt(f, h) {
				in.unrolled++
				in.finish(f)
				if in.ever == nil {
					in.ever = map[*ssa.Function]bool{}
				}
				in.ever[f] = true
				done = true
				break
			}
		}
		if !done {
			break
		}
	}
	for _, a := range f.AnonFuncs {
		in.unrollLiteralRanges(a)
	}
}

func nonDebugRefs(v ssa.Value) []ssa.Instruction {
	var out []ssa.Instruction
	if r := v.Referrers(); r != nil {
		for _, u := range *r {
			if _, isDbg := u.(*ssa.DebugRef); !isDbg {
				out = append(out, u)
			}
		}
	}
	return out
}

func (in *inliner) unrollAt(f *ssa.Function, H *ssa.BasicBlock) bool {
	if len(H.Succs) != 2 || len(H.Instrs) == 0 || H.Succs[0] == H.Succs[1] {
		return false
	}
	iff, ok := H.Instrs[len(H.Instrs)-1].(*ssa.If)
	if !ok {
		return false
	}
	cmp, ok := iff.Cond.(*ssa.BinOp)
	if !ok || cmp.Op != token.LSS {
		return false
	}
	inc, ok := cmp.X.(*ssa.BinOp)
	if !ok || inc.Op != token.ADD {
		return false
	}
	one, ok := inc.Y.(*ssa.Const)
	if !ok || one.Value == nil || one.Value.Kind() != constant.Int || one.Int64() != 1 {
		return false
	}
	idxLd, ok := inc.X.(*ssa.UnOp)
	if !ok || idxLd.Op != token.MUL || idxLd.Block() != H {
		return false
	}
	idx, ok := idxLd.X.(*ssa.Alloc)
	if !ok || idx.Parent() != f {
		return false
	}
	lenCall, ok := cmp.Y.(*ssa.Call)
	if !ok || !isLenCall(lenCall) {
		return false
	}
	for _, x := range H.Instrs {
		if _, isPhi := x.(*ssa.Phi); isPhi {
			return false
		}
	}
	// the slice: a literal, directly or through a variable assigned once
	S := lenCall.Call.Args[0]
	var sliceVals []ssa.Value // every read of the slice
	var lit *ssa.Slice
	if ld, isLd := S.(*ssa.UnOp); isLd && ld.Op == token.MUL {
		cell, isAl := ld.X.(*ssa.Alloc)
		if !isAl || cell.Parent() != f {
			return false
		}
		nSt := 0
		for _, u := range nonDebugRefs(cell) {
			switch t := u.(type) {
			case *ssa.Store:
				if t.Addr != ssa.Value(cell) {
					return false
				}
				nSt++
				lit, _ = t.Val.(*ssa.Slice)
			case *ssa.UnOp:
				if t.Op != token.MUL {
					return false
				}
				sliceVals = append(sliceVals, t)
			default:
				return false
			}
		}
		if nSt != 1 {
			return false
		}
	} else if sl, isSl := S.(*ssa.Slice); isSl {
		lit = sl
		sliceVals = []ssa.Value{sl}
	}
	if lit == nil || lit.Low != nil || lit.High != nil || lit.Max != nil {
		return false
	}
	arr, ok := lit.X.(*ssa.Alloc)
	if !ok || arr.Parent() != f {
		return false
	}
	at, ok := arr.Type().Underlying().(*types.Pointer).Elem().Underlying().(*types.Array)
	if !ok || at.Len() < 1 || at.Len() > unrollMax {
		return false
	}
	N := int(at.Len())
	elems := make([]ssa.Value, N)
	var litInstrs []ssa.Instruction
	for _, u := range nonDebugRefs(arr) {
		switch t := u.(type) {
		case *ssa.Slice:
			if t != lit {
				return false
			}
		case *ssa.IndexAddr:
			c, isC := t.Index.(*ssa.Const)
			if !isC || c.Value == nil || c.Value.Kind() != constant.Int {
				return false
			}
			k := int(c.Int64())
			us := nonDebugRefs(t)
			if k < 0 || k >= N || elems[k] != nil || len(us) != 1 {
				return false
			}
			st, isSt := us[0].(*ssa.Store)
			if !isSt || st.Addr != ssa.Value(t) {
				return false
			}
			elems[k] = st.Val
			litInstrs = append(litInstrs, st)
		default:
			return false
		}
	}
	for _, e := range elems {
		if e == nil {
			return false
		}
	}
	if !lit.Block().Dominates(H) || lit.Block() == H {
		return false
	}
	for _, x := range litInstrs {
		if x.Block() != lit.Block() {
			return false
		}
	}
	// the loop: H, and what reaches H again without leaving through it
	L := map[*ssa.BasicBlock]bool{H: true}
	var entry []*ssa.BasicBlock
	var back []*ssa.BasicBlock
	for _, p := range H.Preds {
		if H.Dominates(p) {
			back = append(back, p)
		} else {
			entry = append(entry, p)
		}
	}
	if len(entry) != 1 || len(back) == 0 {
		return false
	}
	work := append([]*ssa.BasicBlock(nil), back...)
	for len(work) > 0 {
		b := work[len(work)-1]
		work = work[:len(work)-1]
		if L[b] {
			continue
		}
		if !H.Dominates(b) {
			return false
		}
		L[b] = true
		work = append(work, b.Preds...)
	}
	if len(L) > 60 || L[lit.Block()] {
		return false
	}
	var order []*ssa.BasicBlock
	for _, b := range f.Blocks {
		if L[b] {
			order = append(order, b)
		}
	}
	// what the loop may contain, and nothing computed in it is used after it
	for _, b := range order {
		for _, x := range b.Instrs {
			switch x.(type) {
			case *ssa.MakeClosure, *ssa.Go, *ssa.Defer, *ssa.Select, *ssa.RunDefers, *ssa.Return, *ssa.Phi:
				if _, isPhi := x.(*ssa.Phi); isPhi && b != H {
					// short-circuit conditions inside the body: their ways in are all in the loop
					for _, p := range b.Preds {
						if !L[p] {
							return false
						}
					}
					break
				}
				return false
			}
			if v, isV := x.(ssa.Value); isV {
				for _, u := range nonDebugRefs(v) {
					if !L[u.Block()] {
						return false
					}
				}
				if r := v.Referrers(); r != nil {
					for _, u := range *r {
						if u.Block() != nil && !L[u.Block()] {
							return false
						}
					}
				}
			}
		}
		for _, s := range b.Succs {
			if !L[s] && len(s.Instrs) > 0 {
				if _, isPhi := s.Instrs[0].(*ssa.Phi); isPhi {
					return false
				}
			}
		}
	}
	// the index variable: set to -1 before the loop, advanced in H only, read in the loop only
	var hStore *ssa.Store
	for _, u := range nonDebugRefs(idx) {
		switch t := u.(type) {
		case *ssa.Store:
			if t.Addr != ssa.Value(idx) {
				return false
			}
			if L[t.Block()] {
				if t.Block() != H || hStore != nil || t.Val != ssa.Value(inc) {
					return false
				}
				hStore = t
			} else {
				c, isC := t.Val.(*ssa.Const)
				if !isC || c.Value == nil || c.Value.Kind() != constant.Int || c.Int64() != -1 || !t.Block().Dominates(H) {
					return false
				}
			}
		case *ssa.UnOp:
			if t.Op != token.MUL || !L[t.Block()] {
				return false
			}
		default:
			return false
		}
	}
	if hStore == nil {
		return false
	}
	// the slice is only measured, and read at the loop's index
	isIdxLoad := func(v ssa.Value) bool {
		u, ok := v.(*ssa.UnOp)
		return ok && u.Op == token.MUL && u.X == ssa.Value(idx)
	}
	for _, sv := range sliceVals {
		for _, u := range nonDebugRefs(sv) {
			switch t := u.(type) {
			case *ssa.Call:
				if !isLenCall(t) {
					return false
				}
			case *ssa.IndexAddr:
				if !L[t.Block()] || t.X != sv || !isIdxLoad(t.Index) {
					return false
				}
				for _, u2 := range nonDebugRefs(t) {
					if ld, isLd := u2.(*ssa.UnOp); !isLd || ld.Op != token.MUL {
						return false
					}
				}
			case *ssa.Store:
				if t.Val != sv || sv != ssa.Value(lit) {
					return false
				}
			default:
				return false
			}
		}
	}
	done := H.Succs[1]
	if L[done] || !L[H.Succs[0]] {
		return false
	}

	// ---- copies 1..N-1 ----
	type copyT struct {
		bm map[*ssa.BasicBlock]*ssa.BasicBlock
		vm map[ssa.Value]ssa.Value
	}
	copies := make([]*copyT, N)
	id := &copyT{bm: map[*ssa.BasicBlock]*ssa.BasicBlock{}, vm: map[ssa.Value]ssa.Value{}}
	for _, b := range order {
		id.bm[b] = b
	}
	copies[0] = id
	var added []*ssa.BasicBlock
	for k := 1; k < N; k++ {
		cp := &copyT{bm: map[*ssa.BasicBlock]*ssa.BasicBlock{}, vm: map[ssa.Value]ssa.Value{}}
		copies[k] = cp
		for _, b := range order {
			nb := ssa.XNewBlock(f, b.Comment)
			cp.bm[b] = nb
			added = append(added, nb)
		}
		for _, b := range order {
			nb := cp.bm[b]
			for _, x := range b.Instrs {
				ni := shallowClone(x)
				emit(nb, ni)
				if v, isV := x.(ssa.Value); isV {
					cp.vm[v] = ni.(ssa.Value)
				}
				if al, isAl := ni.(*ssa.Alloc); isAl && !al.Heap {
					f.Locals = append(f.Locals, al)
				}
			}
			for _, s := range b.Succs {
				if L[s] {
					nb.Succs = append(nb.Succs, cp.bm[s])
				} else {
					nb.Succs = append(nb.Succs, s)
					if !(b == H && s == done) {
						s.Preds = append(s.Preds, nb)
					}
				}
			}
			for _, p := range b.Preds {
				if L[p] {
					nb.Preds = append(nb.Preds, cp.bm[p])
				}
			}
		}
		for _, b := range order {
			for _, ni := range cp.bm[b].Instrs {
				for _, p := range ni.Operands(nil) {
					if *p == nil {
						continue
					}
					if nv, ok := cp.vm[*p]; ok {
						*p = nv
					}
					addRef(*p, ni)
				}
			}
		}
	}
	end := ssa.XNewBlock(f, "unroll.done")
	emit(end, &ssa.Jump{})
	end.Succs = []*ssa.BasicBlock{done}
	// ---- wiring ----
	heads := make([]*ssa.BasicBlock, N+1)
	for k := 0; k < N; k++ {
		heads[k] = copies[k].bm[H]
	}
	heads[N] = end
	for k := 0; k < N; k++ {
		hk := heads[k]
		if k == 0 {
			hk.Preds = []*ssa.BasicBlock{entry[0]}
		} else {
			hk.Preds = nil
		}
	}
	for k := 0; k < N; k++ {
		for _, q := range back {
			qk := copies[k].bm[q]
			for j, s := range qk.Succs {
				if s == heads[k] {
					qk.Succs[j] = heads[k+1]
					heads[k+1].Preds = append(heads[k+1].Preds, qk)
				}
			}
		}
	}
	// the original H loses its way out to done; done is entered from end
	for i, p := range done.Preds {
		if p == H {
			done.Preds[i] = end
		}
	}
	for k := 0; k < N; k++ {
		hk := heads[k]
		last := hk.Instrs[len(hk.Instrs)-1]
		removeInstr(last)
		emit(hk, &ssa.Jump{})
		hk.Succs = hk.Succs[:1]
	}
	// ---- index and element ----
	intT := idx.Type().Underlying().(*types.Pointer).Elem()
	for k := 0; k < N; k++ {
		cp := copies[k]
		mapped := func(v ssa.Value) ssa.Value {
			if nv, ok := cp.vm[v]; ok {
				return nv
			}
			return v
		}
		hst := mapped2store(cp.vm, hStore, heads[k])
		for _, b := range order {
			nb := cp.bm[b]
			for _, x := range append([]ssa.Instruction(nil), nb.Instrs...) {
				switch t := x.(type) {
				case *ssa.IndexAddr:
					isLit := false
					for _, sv := range sliceVals {
						if t.X == mapped(sv) || t.X == sv {
							isLit = true
						}
					}
					if !isLit {
						continue
					}
					for _, u := range append([]ssa.Instruction(nil), *t.Referrers()...) {
						if ld, isLd := u.(*ssa.UnOp); isLd {
							replaceUses(ld, elems[k])
							removeInstr(ld)
						} else {
							removeInstr(u) // debug reference
						}
					}
					removeInstr(t)
				}
			}
		}
		for _, b := range order {
			nb := cp.bm[b]
			afterStore := nb != heads[k]
			for _, x := range append([]ssa.Instruction(nil), nb.Instrs...) {
				if x == ssa.Instruction(hst) {
					afterStore = true
					continue
				}
				ld, isLd := x.(*ssa.UnOp)
				if !isLd || ld.Op != token.MUL || ld.X != ssa.Value(idx) {
					continue
				}
				val := int64(k)
				if !afterStore {
					val = int64(k) - 1
				}
				replaceUses(ld, ssa.NewConst(constant.MakeInt64(val), intT))
				removeInstr(ld)
			}
		}
	}
	// place the new blocks after the loop
	pos := 0
	for i, b := range f.Blocks {
		if L[b] {
			pos = i
		}
	}
	var out []*ssa.BasicBlock
	out = append(out, f.Blocks[:pos+1]...)
	out = append(out, added...)
	out = append(out, end)
	out = append(out, f.Blocks[pos+1:]...)
	f.Blocks = out
	return true
}

// mapped2store: the copy of the index store in the given head block.
func mapped2store(vm map[ssa.Value]ssa.Value, orig *ssa.Store, head *ssa.BasicBlock) *ssa.Store {
	if orig.Block() == head {
		return orig
	}
	for _, x := range head.Instrs {
		if st, ok := x.(*ssa.Store); ok && st.Addr == orig.Addr {
			return st
		}
	}
	return nil
}
